package main

// T-TNT for C13: an inter-procedural taint analysis of peer-controlled integers on go/ssa.
//
// Abstract value of every integer-carrying SSA value (c13T):
//   hi  peer-controlled and not bounded above by anything the program chose
//   lo  peer-controlled and possibly negative
//   ub  when !hi: numeric bound of a peer-controlled value that is bounded by its type width
//       (every 8/16-bit integer is treated as peer data bounded by its type); arithmetic on such
//       values (shifts, multiplications, sums) that can exceed c13Small turns into hi. This is how
//       manual byte assembly int(b[0])<<24|... becomes a source without any buffer provenance.
//
// Taint is propagated forward to a fixpoint over all library functions: through SSA operators,
// phis, local cells (Alloc, closure free variables), struct fields and globals (field-based), and
// through parameters/results of module functions (context-insensitive summaries, static callees and
// closures; interface invokes by class-hierarchy resolution inside the module). Every *use* of an operand is filtered by
// the sanitisers that dominate the using instruction (or the phi edge): a comparison against a
// constant, a len/cap, or any value that is itself not hi, with the failing edge leaving; a nil-error
// edge of a checked call whose callee bounds that parameter on every success return (ensureData).
// What cannot be followed (integer elements of slices/maps, values written through pointers by
// non-module code such as json/binary.Read) is not tainted; this is stated in the evidence.

import (
	"fmt"
	"go/constant"
	"go/token"
	"go/types"
	"sort"
	"strings"
	"time"

	"golang.org/x/tools/go/ssa"
)

// c13Small: a peer-controlled value with a numeric bound below this counts as bounded
// (a 16-bit quantity, or the sum of two of them).
const c13Small = 1 << 17

type c13T struct {
	hi, lo bool
	ub     uint64
	why    string // first source that made the value hi/lo (for messages)
}

func (t c13T) peer() bool { return t.hi || t.lo || t.ub > 0 }

func c13Join(a, b c13T) c13T {
	r := c13T{hi: a.hi || b.hi, lo: a.lo || b.lo, ub: a.ub, why: a.why}
	if b.ub > r.ub {
		r.ub = b.ub
	}
	if r.why == "" {
		r.why = b.why
	}
	if r.hi {
		r.ub = 0
	}
	return r
}

func (t c13T) norm() c13T {
	if t.ub >= c13Small {
		t.hi = true
	}
	if t.hi {
		t.ub = 0
	}
	if !t.peer() {
		t.why = ""
	}
	return t
}

func c13SatAdd(a, b uint64) uint64 {
	if a+b < a {
		return ^uint64(0)
	}
	return a + b
}

func c13SatMul(a, b uint64) uint64 {
	if a == 0 || b == 0 {
		return 0
	}
	if a > (^uint64(0))/b {
		return ^uint64(0)
	}
	return a * b
}

// c13Fact: on Edge, value V (registered under every value it bounds) is bounded above (ub) and/or
// known non-negative (lb) by By.
type c13Fact struct {
	edge   Edge
	ub, lb bool
	by     ssa.Value // nil for call-success facts
	strict bool      // relation was strict (V > By): lb also holds for By == -1
}

type c13Engine struct {
	p      *Prog
	sizes  types.Sizes
	fns    []*ssa.Function
	inLib  map[*ssa.Function]bool
	val    map[ssa.Value]c13T
	field  map[*types.Var]c13T
	global map[*ssa.Global]c13T
	result map[*ssa.Function][]c13T
	facts  map[*ssa.Function]map[ssa.Value][]c13Fact
	cellOf map[*ssa.FreeVar]ssa.Value
	domMem map[c13DomKey]bool
	ubSucc map[c13ParamKey]int // 0 unknown, 1 in progress, 2 yes, 3 no
	invoke map[ssa.CallInstruction][]*ssa.Function

	changed bool
	rounds  int
	tInvoke time.Duration
	tFix    time.Duration
	// statistics / fail-closed bookkeeping
	sourceSites map[string]int
	lostArgs    []c13Lost
}

type c13DomKey struct {
	e Edge
	b *ssa.BasicBlock
}

type c13ParamKey struct {
	fn  *ssa.Function
	idx int
}

// c13Lost: a hi value handed to a callee the engine cannot see into and does not model.
type c13Lost struct {
	fn   *ssa.Function
	call ssa.CallInstruction
	t    c13T
	what string
}

var c13EngineCache = map[*Prog]*c13Engine{}

// c13Taint returns the (memoised) fixpoint for the program.
func c13Taint(p *Prog) *c13Engine {
	if e, ok := c13EngineCache[p]; ok {
		return e
	}
	e := &c13Engine{p: p, val: map[ssa.Value]c13T{}, field: map[*types.Var]c13T{}, global: map[*ssa.Global]c13T{},
		result: map[*ssa.Function][]c13T{}, facts: map[*ssa.Function]map[ssa.Value][]c13Fact{},
		cellOf: map[*ssa.FreeVar]ssa.Value{}, domMem: map[c13DomKey]bool{}, ubSucc: map[c13ParamKey]int{},
		inLib: map[*ssa.Function]bool{}, sourceSites: map[string]int{}, invoke: map[ssa.CallInstruction][]*ssa.Function{}}
	e.sizes = types.SizesFor("gc", p.GOARCH)
	if e.sizes == nil {
		e.sizes = types.SizesFor("gc", "amd64")
	}
	for _, fn := range p.ModFns {
		if pk := fnPkg(fn); pk != nil && libPkg(pk.Path()) {
			e.fns = append(e.fns, fn)
			e.inLib[fn] = true
		}
	}
	t0 := time.Now()
	e.buildInvokeIndex()
	t1 := time.Now()
	for {
		e.changed = false
		e.rounds++
		e.lostArgs = e.lostArgs[:0]
		for k := range e.sourceSites {
			delete(e.sourceSites, k)
		}
		for _, fn := range e.fns {
			e.transferFn(fn)
		}
		if !e.changed || e.rounds > 60 {
			break
		}
	}
	e.tInvoke, e.tFix = t1.Sub(t0), time.Since(t1)
	for k := range c13EngineCache {
		delete(c13EngineCache, k) // keep one program alive at most (thorough tier loads three in turn)
	}
	c13EngineCache[p] = e
	return e
}

// buildInvokeIndex resolves interface-method call sites to the library methods that may implement
// them: every named library type (or its pointer) whose method set implements the interface
// (class-hierarchy resolution restricted to the module; cheaper than the VTA graph and a superset of it).
func (e *c13Engine) buildInvokeIndex() {
	var named []*types.Named
	seenPk := map[*types.Package]bool{}
	for _, fn := range e.fns {
		pk := fnPkg(fn)
		if pk == nil || seenPk[pk] {
			continue
		}
		seenPk[pk] = true
		for _, n := range pk.Scope().Names() {
			if tn, ok := pk.Scope().Lookup(n).(*types.TypeName); ok && !tn.IsAlias() {
				if nt, ok := tn.Type().(*types.Named); ok && nt.TypeParams().Len() == 0 {
					if _, isIface := nt.Underlying().(*types.Interface); !isIface {
						named = append(named, nt)
					}
				}
			}
		}
	}
	type key struct {
		iface string
		m     string
	}
	cache := map[key][]*ssa.Function{}
	for _, fn := range e.fns {
		allInstrs(fn, func(_ *ssa.BasicBlock, _ int, in ssa.Instruction) {
			call, ok := in.(ssa.CallInstruction)
			if !ok || !call.Common().IsInvoke() {
				return
			}
			cc := call.Common()
			iface, ok := cc.Value.Type().Underlying().(*types.Interface)
			if !ok {
				return
			}
			k := key{types.TypeString(cc.Value.Type(), nil), cc.Method.Name()}
			impls, done := cache[k]
			if !done {
				for _, nt := range named {
					for _, t := range []types.Type{nt, types.NewPointer(nt)} {
						if !types.Implements(t, iface) {
							continue
						}
						sel := e.p.SSA.MethodSets.MethodSet(t).Lookup(cc.Method.Pkg(), cc.Method.Name())
						if sel == nil {
							continue
						}
						if g := e.p.SSA.MethodValue(sel); g != nil && g.Blocks != nil {
							// a promoted/wrapper method: use the declared method when there is one
							if g.Synthetic != "" {
								if o, ok := sel.Obj().(*types.Func); ok {
									if d := e.p.SSA.FuncValue(o); d != nil && d.Blocks != nil {
										g = d
									}
								}
							}
							if e.inLib[g] {
								impls = append(impls, g)
							}
						}
						break
					}
				}
				cache[k] = impls
			}
			e.invoke[call] = impls
		})
	}
}

func c13SigHasInt(sig *types.Signature) bool {
	for i := 0; i < sig.Params().Len(); i++ {
		if c13IsNum(sig.Params().At(i).Type()) {
			return true
		}
	}
	for i := 0; i < sig.Results().Len(); i++ {
		if c13IsNum(sig.Results().At(i).Type()) {
			return true
		}
	}
	return false
}

func c13IsNum(t types.Type) bool {
	b, ok := t.Underlying().(*types.Basic)
	return ok && b.Info()&(types.IsInteger|types.IsFloat) != 0
}

func c13IsInt(t types.Type) bool {
	b, ok := t.Underlying().(*types.Basic)
	return ok && b.Info()&types.IsInteger != 0
}

func c13Unsigned(t types.Type) bool {
	b, ok := t.Underlying().(*types.Basic)
	return ok && b.Info()&types.IsUnsigned != 0
}

func (e *c13Engine) width(t types.Type) int64 {
	if !c13IsNum(t) {
		return 64
	}
	return e.sizes.Sizeof(t.Underlying()) * 8
}

// carries: value types whose taint is tracked (numbers and interfaces that may box them).
func c13Carries(t types.Type) bool {
	if c13IsNum(t) {
		return true
	}
	_, isIface := t.Underlying().(*types.Interface)
	return isIface
}

// ---------------------------------------------------------------------------
// state access

// eval is the current abstract value of v (before use-site sanitising).
func (e *c13Engine) eval(v ssa.Value) c13T {
	switch v.(type) {
	case *ssa.Const, nil:
		return c13T{}
	}
	t := e.val[v]
	if c13IsInt(v.Type()) {
		if w := e.width(v.Type()); w <= 16 {
			// bounded by type width: peer data of at most w bits
			r := c13T{ub: uint64(1)<<uint(w) - 1}
			if !c13Unsigned(v.Type()) && t.peer() {
				r.lo = true
				r.why = t.why
			}
			return r
		}
	}
	return t
}

func (e *c13Engine) set(v ssa.Value, t c13T) {
	t = t.norm()
	old := e.val[v]
	n := c13Join(old, t).norm()
	if n.hi != old.hi || n.lo != old.lo || n.ub != old.ub {
		e.val[v] = n
		e.changed = true
	}
}

func (e *c13Engine) joinField(f *types.Var, t c13T) {
	t = t.norm()
	old := e.field[f]
	n := c13Join(old, t).norm()
	if n.hi != old.hi || n.lo != old.lo || n.ub != old.ub {
		e.field[f] = n
		e.changed = true
	}
}

func (e *c13Engine) joinGlobal(g *ssa.Global, t c13T) {
	t = t.norm()
	old := e.global[g]
	n := c13Join(old, t).norm()
	if n.hi != old.hi || n.lo != old.lo || n.ub != old.ub {
		e.global[g] = n
		e.changed = true
	}
}

func (e *c13Engine) joinResult(fn *ssa.Function, i int, t c13T) {
	t = t.norm()
	rs := e.result[fn]
	if rs == nil {
		rs = make([]c13T, fn.Signature.Results().Len())
		e.result[fn] = rs
	}
	if i >= len(rs) {
		return
	}
	old := rs[i]
	n := c13Join(old, t).norm()
	if n.hi != old.hi || n.lo != old.lo || n.ub != old.ub {
		rs[i] = n
		e.changed = true
	}
}

// cell maps an address operand to the value under which the content's taint is stored:
// an Alloc, the Alloc a closure free variable is bound to, a field (handled by caller) or nil.
func (e *c13Engine) cell(addr ssa.Value) ssa.Value {
	switch a := addr.(type) {
	case *ssa.Alloc:
		return a
	case *ssa.FreeVar:
		if r, ok := e.cellOf[a]; ok {
			return r
		}
		var root ssa.Value = a
		fn := a.Parent()
		idx := -1
		for i, fv := range fn.FreeVars {
			if fv == a {
				idx = i
			}
		}
		if par := fn.Parent(); par != nil && idx >= 0 {
			allInstrs(par, func(_ *ssa.BasicBlock, _ int, in ssa.Instruction) {
				if mc, ok := in.(*ssa.MakeClosure); ok && mc.Fn == ssa.Value(fn) && idx < len(mc.Bindings) {
					if r := e.cell(mc.Bindings[idx]); r != nil {
						root = r
					}
				}
			})
		}
		e.cellOf[a] = root
		return root
	}
	return nil
}

// ---------------------------------------------------------------------------
// sanitisers

func (e *c13Engine) factsOf(fn *ssa.Function) map[ssa.Value][]c13Fact {
	if m, ok := e.facts[fn]; ok {
		return m
	}
	m := map[ssa.Value][]c13Fact{}
	e.facts[fn] = m
	var reg func(v ssa.Value, f c13Fact, d int)
	reg = func(v ssa.Value, f c13Fact, d int) {
		if v == nil || d > 6 {
			return
		}
		if _, isC := v.(*ssa.Const); isC {
			return
		}
		m[v] = append(m[v], f)
		switch x := v.(type) {
		case *ssa.ChangeType:
			reg(x.X, f, d+1)
		case *ssa.Convert:
			if e.valuePreserving(x) {
				reg(x.X, f, d+1)
			}
		case *ssa.BinOp:
			// (a + b) <= bound bounds a and b above when the other addend is not negative (offset+length idiom)
			if x.Op == token.ADD && f.ub {
				g := f
				g.lb = false
				reg(x.X, g, d+1)
				reg(x.Y, g, d+1)
			}
		case *ssa.UnOp:
			// load of a local cell that is assigned exactly once: the fact holds for every load of it
			if x.Op == token.MUL {
				if c := e.cell(x.X); c != nil && e.singleStore(c) {
					m[c] = append(m[c], f)
				}
			}
		}
	}
	for _, b := range fn.Blocks {
		ifi := blockIf(b)
		if ifi == nil || (len(b.Succs) == 2 && b.Succs[0] == b.Succs[1]) {
			continue
		}
		a := condAtom(ifi.Cond)
		if a.Op == token.ILLEGAL || !c13IsNum(a.X.Type()) {
			continue
		}
		for succ := 0; succ < 2; succ++ {
			holds := succ == 0 // the comparison is true on the true edge
			if a.Neg {
				holds = !holds
			}
			op := a.Op
			if !holds {
				op = c13NegOp(op)
			}
			ed := Edge{b, succ}
			x, y := a.X, a.Y
			switch op {
			case token.LSS, token.LEQ: // x < y
				reg(x, c13Fact{edge: ed, ub: true, by: y}, 0)
				reg(y, c13Fact{edge: ed, lb: true, by: x, strict: op == token.LSS}, 0)
			case token.GTR, token.GEQ: // x > y
				reg(y, c13Fact{edge: ed, ub: true, by: x}, 0)
				reg(x, c13Fact{edge: ed, lb: true, by: y, strict: op == token.GTR}, 0)
			case token.EQL:
				reg(x, c13Fact{edge: ed, ub: true, lb: true, by: y}, 0)
				reg(y, c13Fact{edge: ed, ub: true, lb: true, by: x}, 0)
			}
		}
	}
	// nil-error edges of checked calls whose callee bounds the parameter on every success return
	allInstrs(fn, func(_ *ssa.BasicBlock, _ int, in ssa.Instruction) {
		call, ok := in.(*ssa.Call)
		if !ok {
			return
		}
		g := calleeFn(call)
		if g == nil || g.Blocks == nil || !e.inLib[g] {
			return
		}
		args := call.Call.Args
		var succ []Edge
		done := false
		for i, arg := range args {
			if i >= len(g.Params) || !c13IsInt(arg.Type()) {
				continue
			}
			if _, isC := arg.(*ssa.Const); isC {
				continue
			}
			if !e.ubOnSuccess(g, i, 0) {
				continue
			}
			if !done {
				done = true
				succ, _, _ = callErrEdges(fn, call)
			}
			for _, ed := range succ {
				reg(arg, c13Fact{edge: ed, ub: true}, 0)
			}
		}
	})
	return m
}

func c13NegOp(op token.Token) token.Token {
	switch op {
	case token.LSS:
		return token.GEQ
	case token.LEQ:
		return token.GTR
	case token.GTR:
		return token.LEQ
	case token.GEQ:
		return token.LSS
	case token.EQL:
		return token.NEQ
	case token.NEQ:
		return token.EQL
	}
	return token.ILLEGAL
}

// valuePreserving: the conversion cannot change the numeric value of any operand value
// (widening, same signedness or unsigned source).
func (e *c13Engine) valuePreserving(x *ssa.Convert) bool {
	s, d := x.X.Type(), x.Type()
	if !c13IsInt(s) || !c13IsInt(d) {
		return false
	}
	ws, wd := e.width(s), e.width(d)
	if c13Unsigned(s) == c13Unsigned(d) {
		return wd >= ws
	}
	return c13Unsigned(s) && wd > ws
}

func (e *c13Engine) singleStore(c ssa.Value) bool {
	al, ok := c.(*ssa.Alloc)
	if !ok {
		return false
	}
	n := 0
	bad := false
	var visit func(fn *ssa.Function)
	visit = func(fn *ssa.Function) {
		allInstrs(fn, func(_ *ssa.BasicBlock, _ int, in ssa.Instruction) {
			st, ok := in.(*ssa.Store)
			if !ok {
				return
			}
			if e.cell(st.Addr) == ssa.Value(al) {
				n++
			}
		})
		for _, a := range fn.AnonFuncs {
			visit(a)
		}
	}
	visit(al.Parent())
	// the address must not escape other than into closures / loads / stores
	for _, r := range *al.Referrers() {
		switch u := r.(type) {
		case *ssa.Store:
			if u.Val == ssa.Value(al) {
				bad = true
			}
		case *ssa.UnOp, *ssa.MakeClosure, *ssa.DebugRef:
		default:
			bad = true
		}
	}
	return n <= 1 && !bad
}

// boundOK: may By serve as an upper bound (it is not itself an unbounded peer value)?
func (e *c13Engine) boundOK(by ssa.Value, at ssa.Instruction) bool {
	if by == nil {
		return true
	}
	t := e.eval(by)
	if !t.hi {
		return true
	}
	// the bound itself may have been sanitised before the comparison
	return !e.sanitise(t, by, at, nil, 1).hi
}

// lowOK: is By known to be >= 0 (>= -1 for a strict relation), or at least not peer-controlled?
func (e *c13Engine) lowOK(by ssa.Value, strict bool) bool {
	if by == nil {
		return false
	}
	if c, ok := constInt(by); ok {
		if _, isConst := c13StripConv(by).(*ssa.Const); isConst {
			return c >= 0 || (strict && c >= -1)
		}
	}
	t := e.eval(by)
	return !t.lo && !(t.hi && !c13Unsigned(by.Type()))
}

func c13StripConv(v ssa.Value) ssa.Value {
	for {
		switch x := v.(type) {
		case *ssa.Convert:
			v = x.X
		case *ssa.ChangeType:
			v = x.X
		default:
			return v
		}
	}
}

// sanitise clears the hi/lo flags of t (the abstract value of v) that are excluded by a fact on an
// edge dominating the use: the instruction at, or — when pe is set — the control-flow edge pe
// (phi operands are used on their incoming edge).
func (e *c13Engine) sanitise(t c13T, v ssa.Value, at ssa.Instruction, pe *Edge, depth int) c13T {
	if !t.peer() || v == nil || depth > 4 {
		return t
	}
	var fn *ssa.Function
	if at != nil {
		fn = at.Parent()
	} else if pe != nil {
		fn = pe.From.Parent()
	}
	if fn == nil {
		return t
	}
	facts := e.factsOf(fn)
	// the chain of values whose bounds carry over to v
	cur := v
	for i := 0; i < 6 && cur != nil; i++ {
		t = e.applyFacts(t, facts[cur], at, pe, depth)
		if !t.peer() {
			break
		}
		switch x := cur.(type) {
		case *ssa.ChangeType:
			cur = x.X
		case *ssa.Convert:
			if e.valuePreserving(x) {
				cur = x.X
			} else {
				cur = nil
			}
		case *ssa.UnOp:
			if x.Op == token.MUL {
				if c := e.cell(x.X); c != nil {
					t = e.applyFacts(t, facts[c], at, pe, depth)
				}
			}
			cur = nil
		default:
			cur = nil
		}
	}
	return t.norm()
}

func (e *c13Engine) applyFacts(t c13T, fs []c13Fact, at ssa.Instruction, pe *Edge, depth int) c13T {
	for _, f := range fs {
		if !t.peer() {
			break
		}
		if !((f.ub && (t.hi || t.ub > 0)) || (f.lb && t.lo)) {
			continue
		}
		if !e.dominates(f.edge, at, pe) {
			continue
		}
		ifInstr := f.edge.From.Instrs[len(f.edge.From.Instrs)-1]
		if f.ub && (t.hi || t.ub > 0) {
			ok := f.by == nil
			if !ok {
				bt := e.eval(f.by)
				ok = !bt.hi || !e.sanitise(bt, f.by, ifInstr, nil, depth+1).hi
			}
			if ok {
				t.hi = false
				t.ub = 0 // bounded by a program quantity from here on
			}
		}
		if f.lb && t.lo && e.lowOK(f.by, f.strict) {
			t.lo = false
		}
	}
	return t
}

// boundedBy: v, as used at the instruction (or on the phi edge), is a constant, is bound itself, or is
// known <= bound through a dominating comparison; a phi needs every operand bounded on its edge.
func (e *c13Engine) boundedBy(v ssa.Value, at ssa.Instruction, pe *Edge, bound ssa.Value, depth int) bool {
	if depth > 6 {
		return false
	}
	same := func(x ssa.Value) bool { return c13StripConv(x) == c13StripConv(bound) }
	if _, isC := c13StripConv(v).(*ssa.Const); isC || same(v) {
		return true
	}
	var fn *ssa.Function
	if at != nil {
		fn = at.Parent()
	} else {
		fn = pe.From.Parent()
	}
	facts := e.factsOf(fn)
	cur := v
	for i := 0; i < 6 && cur != nil; i++ {
		for _, f := range facts[cur] {
			if f.ub && f.by != nil && same(f.by) && e.dominates(f.edge, at, pe) {
				return true
			}
		}
		switch x := cur.(type) {
		case *ssa.ChangeType:
			cur = x.X
		case *ssa.Convert:
			if e.valuePreserving(x) {
				cur = x.X
			} else {
				cur = nil
			}
		default:
			cur = nil
		}
	}
	if phi, ok := v.(*ssa.Phi); ok {
		for i, ev := range phi.Edges {
			pred := phi.Block().Preds[i]
			ed := Edge{pred, c13SuccIndex(pred, phi.Block())}
			if !e.boundedBy(ev, nil, &ed, bound, depth+1) {
				return false
			}
		}
		return true
	}
	if call, ok := v.(*ssa.Call); ok {
		if b, ok := call.Call.Value.(*ssa.Builtin); ok && b.Name() == "min" {
			for _, a := range call.Call.Args {
				if e.boundedBy(a, call, nil, bound, depth+1) {
					return true
				}
			}
		}
	}
	return false
}

// dominates: every path from entry to the use passes edge ed.
func (e *c13Engine) dominates(ed Edge, at ssa.Instruction, pe *Edge) bool {
	if pe != nil {
		if ed.From == pe.From && ed.Succ == pe.Succ {
			return true
		}
		at = pe.From.Instrs[len(pe.From.Instrs)-1]
	}
	if at == nil {
		return false
	}
	b := at.Block()
	k := c13DomKey{ed, b}
	if r, ok := e.domMem[k]; ok {
		return r
	}
	s := ed.To()
	var r bool
	if len(s.Preds) == 1 {
		r = s.Dominates(b)
	} else if !s.Dominates(b) {
		r = false
	} else {
		r = len(b.Instrs) > 0 && instrDominatedByEdge(b.Parent(), ed, b.Instrs[0])
	}
	e.domMem[k] = r
	return r
}

// ubOnSuccess: every (possibly) success return of g is reached only through an edge on which
// parameter idx is bounded above by a constant, a len/cap, or the result of a call into code outside
// the module (bytes.Buffer.Len), or through the nil-error edge of a callee that does so.
func (e *c13Engine) ubOnSuccess(g *ssa.Function, idx int, depth int) bool {
	k := c13ParamKey{g, idx}
	switch e.ubSucc[k] {
	case 1, 3:
		return false
	case 2:
		return true
	}
	if depth > 3 || g.Blocks == nil || idx >= len(g.Params) {
		return false
	}
	hasErr := false
	for i := 0; i < g.Signature.Results().Len(); i++ {
		if isErrorType(g.Signature.Results().At(i).Type()) {
			hasErr = true
		}
	}
	if !hasErr {
		e.ubSucc[k] = 3
		return false
	}
	e.ubSucc[k] = 1
	cuts := newCuts()
	par := g.Params[idx]
	isPar := func(v ssa.Value) bool {
		for i := 0; i < 4; i++ {
			if v == ssa.Value(par) {
				return true
			}
			switch x := v.(type) {
			case *ssa.ChangeType:
				v = x.X
			case *ssa.Convert:
				if !e.valuePreserving(x) {
					return false
				}
				v = x.X
			default:
				return false
			}
		}
		return false
	}
	localBound := func(v ssa.Value) bool {
		v = c13StripConv(v)
		switch x := v.(type) {
		case *ssa.Const:
			return true
		case *ssa.Call:
			if b, ok := x.Call.Value.(*ssa.Builtin); ok {
				return b.Name() == "len" || b.Name() == "cap"
			}
			if f := calleeObj(x); f != nil && f.Pkg() != nil && !inModule(f.Pkg().Path()) {
				return true
			}
		}
		return false
	}
	for _, b := range g.Blocks {
		ifi := blockIf(b)
		if ifi == nil || (len(b.Succs) == 2 && b.Succs[0] == b.Succs[1]) {
			continue
		}
		a := condAtom(ifi.Cond)
		if a.Op == token.ILLEGAL {
			continue
		}
		for succ := 0; succ < 2; succ++ {
			holds := succ == 0
			if a.Neg {
				holds = !holds
			}
			op := a.Op
			if !holds {
				op = c13NegOp(op)
			}
			switch op {
			case token.LSS, token.LEQ, token.EQL:
				if isPar(a.X) && localBound(a.Y) {
					cuts.AddEdges(Edge{b, succ})
				}
			}
			switch op {
			case token.GTR, token.GEQ, token.EQL:
				if isPar(a.Y) && localBound(a.X) {
					cuts.AddEdges(Edge{b, succ})
				}
			}
		}
	}
	allInstrs(g, func(_ *ssa.BasicBlock, _ int, in ssa.Instruction) {
		call, ok := in.(*ssa.Call)
		if !ok {
			return
		}
		h := calleeFn(call)
		if h == nil || h.Blocks == nil || !e.inLib[h] {
			return
		}
		for i, arg := range call.Call.Args {
			if isPar(arg) && e.ubOnSuccess(h, i, depth+1) {
				if succ, _, checked := callErrEdges(g, call); checked {
					cuts.AddEdges(succ...)
				} else if c13ErrOnlyReturned(call) {
					cuts.AddInstrs(call)
				}
			}
		}
	})
	ok := true
	for _, t := range c13SuccessTargets(e.p, g) {
		if findPath(entryPoint(g), t.Target(), cuts) != nil {
			ok = false
			break
		}
	}
	if ok {
		e.ubSucc[k] = 2
	} else {
		e.ubSucc[k] = 3
	}
	return ok
}

// c13SuccessTargets is successTargets minus the returns whose error operand is a package-level
// sentinel error variable (io.EOF, ErrNetwork, ...): those are never nil.
func c13SuccessTargets(p *Prog, fn *ssa.Function) []RetPoint {
	var out []RetPoint
	for _, t := range p.successTargets(fn) {
		if c13SentinelReturn(fn, t) {
			continue
		}
		out = append(out, t)
	}
	return out
}

func c13SentinelReturn(fn *ssa.Function, t RetPoint) bool {
	sig := fn.Signature
	ei := -1
	for i := 0; i < sig.Results().Len(); i++ {
		if isErrorType(sig.Results().At(i).Type()) {
			ei = i
		}
	}
	if ei < 0 || ei >= len(t.Ret.Results) {
		return false
	}
	v := t.Ret.Results[ei]
	if phi, ok := v.(*ssa.Phi); ok && t.Pred != nil && phi.Block() == t.Ret.Block() {
		for i, p := range phi.Block().Preds {
			if p == t.Pred {
				v = phi.Edges[i]
			}
		}
	}
	// "if ctx.Err() != nil { return ctx.Err() }": the context's error, returned after cancellation was seen
	if call, ok := v.(*ssa.Call); ok && call.Call.IsInvoke() && call.Call.Method.Name() == "Err" &&
		call.Call.Method.Pkg() != nil && call.Call.Method.Pkg().Path() == "context" {
		return true
	}
	ld, ok := v.(*ssa.UnOp)
	if !ok || ld.Op != token.MUL {
		return false
	}
	g, ok := ld.X.(*ssa.Global)
	if !ok || !isErrorType(g.Type().(*types.Pointer).Elem()) {
		return false
	}
	return strings.HasPrefix(g.Name(), "Err") || strings.HasPrefix(g.Name(), "err") || g.Name() == "EOF"
}

// c13ErrOnlyReturned: the call's error result is handed straight to the caller (return g(...) or
// v, err := g(...); return v, err): the caller succeeds only if the callee did.
func c13ErrOnlyReturned(call *ssa.Call) bool {
	errs := errResults(call)
	if len(errs) == 0 {
		return false
	}
	for _, ev := range errs {
		n := 0
		for _, r := range *ev.Referrers() {
			switch r.(type) {
			case *ssa.Return:
				n++
			case *ssa.DebugRef:
			default:
				return false
			}
		}
		if n == 0 {
			return false
		}
	}
	return true
}

// ---------------------------------------------------------------------------
// transfer

func (e *c13Engine) use(v ssa.Value, at ssa.Instruction) c13T {
	return e.sanitise(e.eval(v), v, at, nil, 0)
}

func (e *c13Engine) transferFn(fn *ssa.Function) {
	for _, b := range fn.Blocks {
		for _, in := range b.Instrs {
			e.transfer(fn, in)
		}
	}
}

func (e *c13Engine) transfer(fn *ssa.Function, in ssa.Instruction) {
	switch x := in.(type) {
	case *ssa.Phi:
		if !c13Carries(x.Type()) {
			return
		}
		var t c13T
		for i, ev := range x.Edges {
			pred := x.Block().Preds[i]
			pe := Edge{pred, c13SuccIndex(pred, x.Block())}
			t = c13Join(t, e.sanitise(e.eval(ev), ev, nil, &pe, 0))
		}
		e.set(x, t)
	case *ssa.BinOp:
		if !c13IsNum(x.Type()) {
			return
		}
		e.set(x, e.binop(x))
	case *ssa.UnOp:
		e.unop(x)
	case *ssa.Convert:
		if !c13IsNum(x.Type()) || !c13IsNum(x.X.Type()) {
			return
		}
		e.set(x, e.convert(x))
	case *ssa.ChangeType:
		if c13Carries(x.Type()) {
			e.set(x, e.use(x.X, x))
		}
	case *ssa.MakeInterface:
		if c13IsNum(x.X.Type()) {
			e.set(x, e.use(x.X, x))
		}
	case *ssa.ChangeInterface:
		e.set(x, e.eval(x.X))
	case *ssa.TypeAssert:
		if !x.CommaOk && c13Carries(x.Type()) {
			e.set(x, e.eval(x.X))
		}
	case *ssa.Extract:
		if !c13Carries(x.Type()) {
			return
		}
		switch tup := x.Tuple.(type) {
		case *ssa.Call:
			e.set(x, e.callResult(fn, tup, x.Index))
		case *ssa.TypeAssert:
			if x.Index == 0 {
				e.set(x, e.eval(tup.X))
			}
		}
	case *ssa.Field:
		if c13Carries(x.Type()) {
			st := x.X.Type().Underlying().(*types.Struct)
			e.set(x, e.field[st.Field(x.Field)])
		}
	case *ssa.Call:
		e.callArgs(fn, x)
		if c13Carries(x.Type()) {
			e.set(x, e.callResult(fn, x, 0))
		}
	case *ssa.Go:
		e.callArgs(fn, x)
	case *ssa.Defer:
		e.callArgs(fn, x)
	case *ssa.Store:
		if !c13Carries(x.Val.Type()) {
			return
		}
		t := e.use(x.Val, x)
		switch a := x.Addr.(type) {
		case *ssa.FieldAddr:
			e.joinField(fieldOfAddr(a), t)
		case *ssa.Global:
			e.joinGlobal(a, t)
		default:
			if c := e.cell(x.Addr); c != nil {
				e.set(c, t)
			}
		}
	case *ssa.Return:
		for i, r := range x.Results {
			if c13Carries(r.Type()) {
				e.joinResult(fn, i, e.use(r, x))
			}
		}
	case *ssa.MakeClosure:
		// free variables bound by value
		if g, ok := x.Fn.(*ssa.Function); ok {
			for i, b := range x.Bindings {
				if i < len(g.FreeVars) && c13Carries(b.Type()) {
					e.set(g.FreeVars[i], e.use(b, x))
				}
			}
		}
	}
}

func c13SuccIndex(from, to *ssa.BasicBlock) int {
	for i, s := range from.Succs {
		if s == to {
			return i
		}
	}
	return 0
}

func (e *c13Engine) unop(x *ssa.UnOp) {
	switch x.Op {
	case token.MUL:
		if !c13Carries(x.Type()) {
			return
		}
		switch a := x.X.(type) {
		case *ssa.FieldAddr:
			e.set(x, e.field[fieldOfAddr(a)])
		case *ssa.Global:
			e.set(x, e.global[a])
		default:
			if c := e.cell(x.X); c != nil {
				e.set(x, e.val[c])
			}
		}
	case token.SUB:
		if !c13IsNum(x.Type()) {
			return
		}
		t := e.use(x.X, x)
		if t.peer() {
			e.set(x, c13T{hi: t.lo, lo: true, why: t.why})
		}
	case token.XOR:
		if !c13IsNum(x.Type()) {
			return
		}
		t := e.use(x.X, x)
		if t.peer() {
			e.set(x, c13T{hi: true, lo: !c13Unsigned(x.Type()), why: t.why})
		}
	}
}

func (e *c13Engine) binop(x *ssa.BinOp) c13T {
	a, b := e.use(x.X, x), e.use(x.Y, x)
	if !a.peer() && !b.peer() {
		return c13T{}
	}
	why := a.why
	if why == "" {
		why = b.why
	}
	signed := !c13Unsigned(x.Type())
	r := c13T{why: why}
	cx, xIsC := c13ConstU(x.X)
	cy, yIsC := c13ConstU(x.Y)
	switch x.Op {
	case token.ADD:
		r.hi = a.hi || b.hi
		r.lo = a.lo || b.lo
		r.ub = c13SatAdd(a.ub, b.ub)
	case token.SUB:
		r.hi = a.hi || (b.lo && signed)
		r.lo = signed && (a.lo || b.peer())
		r.ub = a.ub
		if !signed && b.peer() {
			r.hi = true // unsigned underflow wraps
		}
	case token.MUL:
		r.hi = a.hi || b.hi
		r.lo = a.lo || b.lo
		switch {
		case xIsC:
			r.ub = c13SatMul(cx, b.ub)
		case yIsC:
			r.ub = c13SatMul(a.ub, cy)
		case a.peer() && b.peer():
			r.ub = c13SatMul(a.ub, b.ub)
		default:
			r.hi = true // peer value times an unknown program quantity
		}
	case token.SHL:
		r.lo = a.lo
		if b.peer() || !yIsC || cy >= 64 {
			r.hi = a.peer() || b.hi
			if !a.peer() && !b.hi {
				// constant shifted by a small peer amount: still bounded by the type, treat as unbounded only if > 16
				r.hi = b.ub > 16
			}
		} else {
			r.hi = a.hi
			r.ub = a.ub
			for i := uint64(0); i < cy; i++ {
				r.ub = c13SatAdd(r.ub, r.ub)
			}
		}
	case token.SHR:
		r.lo = a.lo
		r.hi = a.hi
		r.ub = a.ub
		if yIsC && cy < 64 {
			r.ub = a.ub >> cy
			if a.hi && e.width(x.Type())-int64(cy) <= 16 {
				r.hi = false
				r.ub = uint64(1)<<uint(e.width(x.Type())-int64(cy)) - 1
			}
		}
	case token.QUO:
		r.lo = a.lo || b.lo
		r.hi = a.hi
		r.ub = a.ub
	case token.REM:
		r.lo = a.lo
		if yIsC && cy > 0 {
			r.ub = cy
		} else if !b.hi {
			r.ub = 0 // bounded by a program quantity
		} else {
			r.hi = true
		}
		if !r.lo && r.ub == 0 && !r.hi {
			return c13T{}
		}
	case token.AND:
		switch {
		case yIsC && (!signed || int64(cy) >= 0):
			r.ub = cy
		case xIsC && (!signed || int64(cx) >= 0):
			r.ub = cx
		default:
			r.hi = a.hi && b.hi || (a.hi && !b.peer()) || (b.hi && !a.peer())
			r.lo = a.lo && b.lo
			r.ub = a.ub
			if b.ub > 0 && (b.ub < r.ub || r.ub == 0) {
				r.ub = b.ub
			}
		}
	case token.OR, token.XOR:
		r.hi = a.hi || b.hi
		r.lo = a.lo || b.lo
		r.ub = c13SatAdd(a.ub, b.ub)
	case token.AND_NOT:
		r = a
	default:
		return c13T{}
	}
	if r.ub == 0 && !r.hi && !r.lo {
		// a bounded peer value combined with a program value: keep it marked as (small) peer data
		if a.ub > 0 || b.ub > 0 {
			r.ub = 1
		}
	}
	return r.norm()
}

func c13ConstU(v ssa.Value) (uint64, bool) {
	c, ok := c13StripConv(v).(*ssa.Const)
	if !ok || c.Value == nil || c.Value.Kind() != constant.Int {
		return 0, false
	}
	if u, ok := constant.Uint64Val(c.Value); ok {
		return u, true
	}
	if i, ok := constant.Int64Val(c.Value); ok {
		return uint64(i), true
	}
	return 0, false
}

func (e *c13Engine) convert(x *ssa.Convert) c13T {
	t := e.use(x.X, x)
	if !t.peer() {
		return c13T{}
	}
	s, d := x.X.Type(), x.Type()
	sb, db := s.Underlying().(*types.Basic), d.Underlying().(*types.Basic)
	if sb.Info()&types.IsFloat != 0 || db.Info()&types.IsFloat != 0 {
		r := t
		if db.Info()&types.IsUnsigned != 0 {
			r.hi = t.hi || t.lo
			r.lo = false
		}
		return r
	}
	ws, wd := e.width(s), e.width(d)
	r := c13T{why: t.why, ub: t.ub}
	if r.why == "" {
		r.why = "type-bounded peer data widened at " + e.p.Pos(x.Pos())
	}
	if c13Unsigned(d) {
		r.hi = t.hi || t.lo
		return r
	}
	// signed destination
	r.hi = t.hi
	switch {
	case c13Unsigned(s) && wd <= ws:
		r.lo = t.hi
	case c13Unsigned(s):
		r.lo = false
	case wd >= ws:
		r.lo = t.lo
	default:
		r.lo = t.lo || t.hi
	}
	return r
}

// ---------------------------------------------------------------------------
// calls

// c13Source classifies a callee whose result is a peer-controlled integer regardless of its body.
func c13Source(o *types.Func) (name string, resultIdx int, signed bool, ok bool) {
	if o == nil || o.Pkg() == nil {
		return
	}
	pk, n := o.Pkg().Path(), o.Name()
	sig := o.Type().(*types.Signature)
	switch {
	case pk == "encoding/binary" && (n == "Uint16" || n == "Uint32" || n == "Uint64" || n == "Uvarint" || n == "ReadUvarint"):
		return "binary." + n, 0, false, true
	case pk == "encoding/binary" && (n == "Varint" || n == "ReadVarint"):
		return "binary." + n, 0, true, true
	case pk == "strconv" && (n == "Atoi" || n == "ParseInt"):
		return "strconv." + n, 0, true, true
	case pk == "strconv" && n == "ParseUint":
		return "strconv." + n, 0, false, true
	case pk == "strconv" && n == "ParseFloat":
		return "strconv." + n, 0, true, true
	case pk == ModPath+"/message" && sig.Recv() != nil && strings.HasPrefix(n, "Get") && sig.Results().Len() == 2 &&
		c13IsNum(sig.Results().At(0).Type()) && isErrorType(sig.Results().At(1).Type()):
		return "(*Message)." + n, 0, !c13Unsigned(sig.Results().At(0).Type()), true
	case strings.HasSuffix(pk, "/classad/classad") && sig.Recv() != nil && strings.HasPrefix(n, "EvaluateAttr") &&
		sig.Results().Len() >= 1 && c13IsNum(sig.Results().At(0).Type()):
		return "ClassAd." + n, 0, true, true
	}
	return
}

func (e *c13Engine) callees(call ssa.CallInstruction) []*ssa.Function {
	if g := calleeFn(call); g != nil {
		if g.Blocks != nil && e.inLib[g] {
			return []*ssa.Function{g}
		}
		return nil
	}
	if call.Common().IsInvoke() {
		return e.invoke[call]
	}
	return nil
}

func (e *c13Engine) callArgs(fn *ssa.Function, call ssa.CallInstruction) {
	cc := call.Common()
	gs := e.callees(call)
	in := call.(ssa.Instruction)
	// builtins
	if _, ok := cc.Value.(*ssa.Builtin); ok {
		return
	}
	for _, g := range gs {
		args := cc.Args
		off := 0
		if cc.IsInvoke() {
			off = 1 // g.Params[0] is the receiver
		}
		for i, a := range args {
			if i+off >= len(g.Params) || !c13Carries(a.Type()) {
				continue
			}
			e.set(g.Params[i+off], e.use(a, in))
		}
	}
	if len(gs) == 0 && !c13KnownSink(call) {
		// hi integer handed to code we cannot see into: a func-valued call that does not resolve to a
		// closure, or an invoke of a module interface method without a resolved implementation
		dynamic := false
		if cc.IsInvoke() {
			dynamic = c13InModuleIface(cc) && len(e.invoke[call]) == 0
		} else if calleeFn(call) == nil {
			// a func value loaded from a struct field or received as a parameter is an application
			// callback (ServerConfigForCommand, PostAuthPolicy): outside the library, not a sink
			switch v := cc.Value.(type) {
			case *ssa.Parameter:
			case *ssa.UnOp:
				if _, isField := v.X.(*ssa.FieldAddr); !isField {
					dynamic = true
				}
			default:
				dynamic = true
			}
		}
		if dynamic {
			for _, a := range cc.Args {
				if c13IsInt(a.Type()) {
					if t := e.use(a, in); t.hi {
						e.lostArgs = append(e.lostArgs, c13Lost{fn, call, t, "dynamic call"})
					}
				}
			}
		}
	}
}

func c13InModuleIface(cc *ssa.CallCommon) bool {
	return cc.Method != nil && cc.Method.Pkg() != nil && inModule(cc.Method.Pkg().Path())
}

func (e *c13Engine) callResult(fn *ssa.Function, call *ssa.Call, idx int) c13T {
	cc := call.Common()
	if b, ok := cc.Value.(*ssa.Builtin); ok {
		switch b.Name() {
		case "min":
			var r c13T
			allHi := true
			for i, a := range cc.Args {
				t := e.use(a, call)
				if i == 0 {
					r = t
				} else {
					r = c13Join(r, t)
				}
				if !t.hi {
					allHi = false
				}
			}
			r.hi = allHi
			return r.norm()
		case "max":
			var r c13T
			allLo := true
			for i, a := range cc.Args {
				t := e.use(a, call)
				if i == 0 {
					r = t
				} else {
					r = c13Join(r, t)
				}
				if !t.lo {
					allLo = false
				}
			}
			r.lo = allLo
			return r.norm()
		}
		return c13T{}
	}
	if o := calleeObj(call); o != nil {
		if name, ri, signed, ok := c13Source(o); ok && ri == idx {
			key := name
			e.sourceSites[key]++
			why := fmt.Sprintf("%s at %s", name, e.p.Pos(call.Pos()))
			t := c13T{hi: true, lo: signed, why: why}
			if name == "strconv.ParseInt" || name == "strconv.ParseUint" {
				// bitSize argument bounds the result
				if bs, ok := constInt(cc.Args[len(cc.Args)-1]); ok && bs > 0 && bs <= 16 {
					t = c13T{ub: uint64(1)<<uint(bs) - 1, lo: signed, why: why}
				}
			}
			return t
		}
	}
	var r c13T
	for _, g := range e.callees(call) {
		rs := e.result[g]
		if idx < len(rs) {
			t := rs[idx]
			r = c13Join(r, t)
		}
	}
	return r
}

// c13KnownSink: non-module callees modelled as sinks (see c13Sinks).
func c13KnownSink(call ssa.CallInstruction) bool {
	_, _, ok := c13SinkCall(call)
	return ok
}

// c13SinkCall: (*bytes.Buffer).Grow, (*strings.Builder).Grow, slices.Grow, strings.Repeat, bytes.Repeat:
// the size operand.
func c13SinkCall(call ssa.CallInstruction) (kind string, arg ssa.Value, ok bool) {
	o := calleeObj(call)
	if o == nil || o.Pkg() == nil {
		return
	}
	args := call.Common().Args
	switch o.Pkg().Path() + "." + o.Name() {
	case "bytes.Grow", "strings.Grow":
		if len(args) == 2 {
			return "grow", args[1], true
		}
	case "slices.Grow":
		if len(args) == 2 {
			return "grow", args[1], true
		}
	case "strings.Repeat", "bytes.Repeat":
		if len(args) == 2 {
			return "grow", args[1], true
		}
	}
	return
}

// ---------------------------------------------------------------------------
// sinks

type c13Sink struct {
	Fn    *ssa.Function
	Instr ssa.Instruction
	Kind  string // make | grow | slice | index
	Op    ssa.Value
	Raw   c13T // abstract value before use-site sanitising
	T     c13T // after
	Key   string
}

// sinks enumerates, in library functions, every size/bound/index operand that carries peer data.
func (e *c13Engine) sinks() []c13Sink {
	var out []c13Sink
	for _, fn := range e.fns {
		ord := map[string]int{}
		var local []c13Sink
		add := func(in ssa.Instruction, kind string, op ssa.Value) {
			if op == nil {
				return
			}
			if _, isC := op.(*ssa.Const); isC {
				return
			}
			if !c13IsInt(op.Type()) {
				return
			}
			raw := e.eval(op)
			local = append(local, c13Sink{Fn: fn, Instr: in, Kind: kind, Op: op, Raw: raw, T: e.sanitise(raw, op, in, nil, 0)})
		}
		allInstrs(fn, func(_ *ssa.BasicBlock, _ int, in ssa.Instruction) {
			switch x := in.(type) {
			case *ssa.MakeSlice:
				add(x, "make", x.Len)
				if x.Cap != x.Len {
					add(x, "make", x.Cap)
				}
			case *ssa.MakeMap:
				add(x, "make", x.Reserve)
			case *ssa.MakeChan:
				add(x, "make", x.Size)
			case *ssa.Slice:
				add(x, "slice", x.Low)
				add(x, "slice", x.High)
				add(x, "slice", x.Max)
			case *ssa.IndexAddr:
				add(x, "index", x.Index)
			case *ssa.Index:
				add(x, "index", x.Index)
			case *ssa.Lookup:
				if c13IsInt(x.Index.Type()) {
					if _, isMap := x.X.Type().Underlying().(*types.Map); !isMap {
						add(x, "index", x.Index)
					}
				}
			case ssa.CallInstruction:
				if kind, arg, ok := c13SinkCall(x); ok {
					add(in, kind, arg)
				}
			}
		})
		sort.SliceStable(local, func(i, j int) bool { return local[i].Instr.Pos() < local[j].Instr.Pos() })
		for i := range local {
			s := &local[i]
			ord[s.Kind]++
			s.Key = fmt.Sprintf("%s#%s%d", fnName(fn), s.Kind, ord[s.Kind])
			if s.Raw.hi || s.Raw.lo {
				out = append(out, *s)
			}
		}
	}
	return out
}

// ---------------------------------------------------------------------------
// loops (C13-R2)

type c13Loop struct {
	Fn     *ssa.Function
	Header *ssa.BasicBlock
	Blocks map[*ssa.BasicBlock]bool
	Key    string
}

// c13Loops returns the natural loops of fn (back edge = edge to a dominating block), merged per header.
func c13Loops(fn *ssa.Function) []*c13Loop {
	byHeader := map[*ssa.BasicBlock]*c13Loop{}
	var order []*ssa.BasicBlock
	for _, b := range fn.Blocks {
		for _, h := range b.Succs {
			if !h.Dominates(b) {
				continue
			}
			l := byHeader[h]
			if l == nil {
				l = &c13Loop{Fn: fn, Header: h, Blocks: map[*ssa.BasicBlock]bool{h: true}}
				byHeader[h] = l
				order = append(order, h)
			}
			// blocks that reach b without passing h
			work := []*ssa.BasicBlock{b}
			for len(work) > 0 {
				x := work[len(work)-1]
				work = work[:len(work)-1]
				if l.Blocks[x] {
					continue
				}
				l.Blocks[x] = true
				work = append(work, x.Preds...)
			}
		}
	}
	sort.Slice(order, func(i, j int) bool { return c13BlockPos(order[i]) < c13BlockPos(order[j]) })
	var out []*c13Loop
	for i, h := range order {
		l := byHeader[h]
		l.Key = fmt.Sprintf("%s#loop%d", fnName(fn), i+1)
		out = append(out, l)
	}
	return out
}

func c13BlockPos(b *ssa.BasicBlock) token.Pos {
	for _, in := range b.Instrs {
		if in.Pos().IsValid() {
			return in.Pos()
		}
	}
	return token.Pos(b.Index)
}

// tripOperands: the operands of the comparisons that decide whether the loop is left, with the
// deciding If instruction.
func (l *c13Loop) exitConds() []*ssa.If {
	var out []*ssa.If
	for b := range l.Blocks {
		ifi := blockIf(b)
		if ifi == nil {
			continue
		}
		if l.Blocks[b.Succs[0]] != l.Blocks[b.Succs[1]] {
			out = append(out, ifi)
		}
	}
	sort.Slice(out, func(i, j int) bool { return out[i].Block().Index < out[j].Block().Index })
	return out
}

// programBounded: the test in the loop header leaves the loop on an ordering comparison none of whose
// operands is an unbounded peer value (for i < len(x), range over a slice), or when a range iterator
// is exhausted: the trip count is the program's, whatever other exits the body has.
func (l *c13Loop) programBounded(e *c13Engine) bool {
	ifi := blockIf(l.Header)
	if ifi == nil || l.Blocks[l.Header.Succs[0]] == l.Blocks[l.Header.Succs[1]] {
		return false
	}
	if ex, ok := ifi.Cond.(*ssa.Extract); ok {
		if _, isNext := ex.Tuple.(*ssa.Next); isNext {
			return true
		}
	}
	a := condAtom(ifi.Cond)
	switch a.Op {
	case token.LSS, token.LEQ, token.GTR, token.GEQ:
		return c13IsNum(a.X.Type()) && !e.use(a.X, ifi).hi && !e.use(a.Y, ifi).hi && !e.eval(a.X).hi && !e.eval(a.Y).hi
	}
	return false
}

// cycleAvoiding reports whether the loop body can be traversed from the header back to the header
// without passing a cut edge or a cut instruction (a witness block path is returned).
func (l *c13Loop) cycleAvoiding(cuts *Cuts) []*ssa.BasicBlock {
	blocked := func(b *ssa.BasicBlock) bool {
		for _, in := range b.Instrs {
			if cuts.Instrs[in] {
				return true
			}
		}
		return false
	}
	parent := map[*ssa.BasicBlock]*ssa.BasicBlock{}
	seen := map[*ssa.BasicBlock]bool{l.Header: true}
	queue := []*ssa.BasicBlock{l.Header}
	for len(queue) > 0 {
		b := queue[0]
		queue = queue[1:]
		if blocked(b) {
			continue
		}
		for i, s := range b.Succs {
			if !l.Blocks[s] || cuts.Edges[Edge{b, i}] {
				continue
			}
			if s == l.Header {
				path := []*ssa.BasicBlock{l.Header}
				for x := b; x != nil && x != l.Header; x = parent[x] {
					path = append(path, x)
				}
				path = append(path, l.Header)
				for i, j := 0, len(path)-1; i < j; i, j = i+1, j-1 {
					path[i], path[j] = path[j], path[i]
				}
				return path
			}
			if !seen[s] {
				seen[s] = true
				parent[s] = b
				queue = append(queue, s)
			}
		}
	}
	return nil
}

// c13EOM: which functions return a non-nil error once the peer's input (message or connection) is
// exhausted. Base facts: (*Message).ensureData with a constant demand >= 1; io.ReadFull/ReadAtLeast;
// any Read([]byte) (int, error). Derived: module functions every success return of which passes the
// nil-error edge of such a call (or hands its error straight to the caller).
type c13EOM struct {
	e      *c13Engine
	ensure *ssa.Function
	memo   map[*ssa.Function]int // 1 in progress, 2 yes, 3 no
}

func (q *c13EOM) baseHit(call ssa.CallInstruction) bool {
	cc := call.Common()
	if g := calleeFn(call); g != nil && g == q.ensure {
		if len(cc.Args) == 3 {
			if n, ok := constInt(cc.Args[2]); ok && n >= 1 {
				return true
			}
		}
		return false
	}
	o := calleeObj(call)
	if o == nil {
		return false
	}
	if o.Pkg() != nil && o.Pkg().Path() == "io" && (o.Name() == "ReadFull" || o.Name() == "ReadAtLeast") {
		return true
	}
	if o.Name() == "Read" {
		sig := o.Type().(*types.Signature)
		if sig.Recv() != nil && sig.Params().Len() == 1 && sig.Results().Len() == 2 && isErrorType(sig.Results().At(1).Type()) {
			if sl, ok := sig.Params().At(0).Type().Underlying().(*types.Slice); ok {
				if b, ok := sl.Elem().Underlying().(*types.Basic); ok && b.Kind() == types.Uint8 {
					return true
				}
			}
		}
	}
	return false
}

// hit: the call errs at end of input (base fact or derived callee).
func (q *c13EOM) hit(call ssa.CallInstruction, depth int) bool {
	if q.baseHit(call) {
		return true
	}
	gs := q.e.callees(call)
	if len(gs) == 0 {
		return false
	}
	for _, g := range gs {
		if !q.errsAtEOM(g, depth+1) {
			return false
		}
	}
	return true
}

func (q *c13EOM) errsAtEOM(g *ssa.Function, depth int) bool {
	switch q.memo[g] {
	case 1, 3:
		return false
	case 2:
		return true
	}
	if depth > 8 || g.Blocks == nil {
		return false
	}
	hasErr := false
	for i := 0; i < g.Signature.Results().Len(); i++ {
		if isErrorType(g.Signature.Results().At(i).Type()) {
			hasErr = true
		}
	}
	if !hasErr {
		q.memo[g] = 3
		return false
	}
	q.memo[g] = 1
	cuts := q.cutsIn(g, nil, depth)
	ok := true
	for _, t := range c13SuccessTargets(q.e.p, g) {
		if findPath(entryPoint(g), t.Target(), cuts) != nil {
			ok = false
			break
		}
	}
	if ok {
		q.memo[g] = 2
	} else {
		q.memo[g] = 3
	}
	return ok
}

// cutsIn: nil-error edges (or the call itself when its error is only returned) of the calls in fn
// (restricted to blocks, when given) that err at end of input.
func (q *c13EOM) cutsIn(fn *ssa.Function, blocks map[*ssa.BasicBlock]bool, depth int) *Cuts {
	cuts := newCuts()
	for _, b := range fn.Blocks {
		if blocks != nil && !blocks[b] {
			continue
		}
		for _, in := range b.Instrs {
			call, ok := in.(*ssa.Call)
			if !ok || !q.hit(call, depth) {
				continue
			}
			if succ, _, checked := callErrEdges(fn, call); checked {
				cuts.AddEdges(succ...)
			} else if c13ErrOnlyReturned(call) {
				cuts.AddInstrs(call)
			}
		}
	}
	return cuts
}

// c13RejectsEmpty: does module function g return a non-nil error whenever its string parameter idx is
// the empty string? Decided by cutting the edges the empty string cannot take: the false edge of
// strings.Index*(p, "non-empty const") == -1 / < 0, of len(p) == 0 and of p == "".
func c13RejectsEmpty(p *Prog, g *ssa.Function, idx int) bool {
	if g == nil || g.Blocks == nil || idx >= len(g.Params) {
		return false
	}
	par := g.Params[idx]
	cuts := newCuts()
	n := 0
	for _, b := range g.Blocks {
		ifi := blockIf(b)
		if ifi == nil {
			continue
		}
		a := condAtom(ifi.Cond)
		if a.Op != token.EQL && a.Op != token.NEQ && a.Op != token.LSS && a.Op != token.GEQ {
			continue
		}
		// value of the comparison for the empty string, if known
		val, known := false, false
		if call, ok := a.X.(*ssa.Call); ok {
			if o := calleeObj(call); o != nil && o.Pkg() != nil && o.Pkg().Path() == "strings" &&
				(o.Name() == "Index" || o.Name() == "IndexByte" || o.Name() == "LastIndex" || o.Name() == "IndexRune") &&
				len(call.Call.Args) == 2 && call.Call.Args[0] == ssa.Value(par) {
				needleOK := false
				if s, ok := constString(call.Call.Args[1]); ok && s != "" {
					needleOK = true
				} else if _, ok := constInt(call.Call.Args[1]); ok {
					needleOK = true
				}
				if c, ok := constInt(a.Y); ok && needleOK {
					// the call yields -1
					switch a.Op {
					case token.EQL:
						val, known = c == -1, true
					case token.NEQ:
						val, known = c != -1, true
					case token.LSS:
						val, known = -1 < c, true
					case token.GEQ:
						val, known = -1 >= c, true
					}
				}
			}
			if b, ok := call.Call.Value.(*ssa.Builtin); ok && b.Name() == "len" && call.Call.Args[0] == ssa.Value(par) {
				if c, ok := constInt(a.Y); ok {
					switch a.Op {
					case token.EQL:
						val, known = c == 0, true
					case token.NEQ:
						val, known = c != 0, true
					case token.LSS:
						val, known = 0 < c, true
					case token.GEQ:
						val, known = 0 >= c, true
					}
				}
			}
		}
		if a.X == ssa.Value(par) && (a.Op == token.EQL || a.Op == token.NEQ) {
			if s, ok := constString(a.Y); ok {
				val, known = (s == "") == (a.Op == token.EQL), true
			}
		}
		if !known {
			continue
		}
		if a.Neg {
			val = !val
		}
		n++
		if val {
			cuts.AddEdges(Edge{b, 1}) // the empty string takes the true edge
		} else {
			cuts.AddEdges(Edge{b, 0})
		}
	}
	if n == 0 {
		return false
	}
	for _, t := range c13SuccessTargets(p, g) {
		if findPath(entryPoint(g), t.Target(), cuts) != nil {
			return false
		}
	}
	return true
}
