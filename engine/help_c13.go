package main

// T-TNT for C13: an inter-procedural taint analysis of peer-controlled integers on go/ssa.
//
// Abstract value of every integer-carrying SSA value (c13T):
//   hi  peer-controlled and not bounded above by anything the program chose
//   lo  peer-controlled and possibly negative
//   ub  when !hi: numeric bound of a peer-controlled value that is bounded by its type width
//       (every 8/16-bit integer is treated as peer data bounded by its type); arithmetic on such
//       values (shifts, multiplications, sums) that can exceed c13Small turns into hi. This is how
//       manual byte assembly int(b[0])<<24|... becomes a source without any buffer provenance.
//
// Taint is propagated forward to a fixpoint over all library functions: through SSA operators,
// phis, local cells (Alloc, closure free variables), struct fields and globals (field-based), and
// through parameters/results of module functions (context-insensitive summaries, static callees and
// closures; interface invokes by class-hierarchy resolution inside the module). Every *use* of an operand is filtered by
// the sanitisers that dominate the using instruction (or the phi edge): a comparison against a
// constant, a len/cap, or any value that is itself not hi, with the failing edge leaving; a nil-error
// edge of a checked call whose callee bounds that parameter on every success return (ensureData).
// What cannot be followed (integer elements of slices/maps, values written through pointers by
// non-module code such as json/binary.Read) is not tainted; this is stated in the evidence.
//
// Where a sanitiser may be written (robust against extract-helper / inline / local-boolean refactorings):
// inline as a branch; as a branch on a boolean phi ("ok := a && b; if !ok"), resolved per incoming value
// by the path search e.reach; in a module predicate called in a branch condition, an error-returning helper
// whose nil-error edge is tested, or a value-returning helper whose result was compared on the way to every
// success return - all three through e.summary, which maps the helper's parameters to the call's arguments
// and keeps the bound (constant, other parameter, helper-local value) so that rules that ask for a specific
// bound (C13-R4 maxSize, C13-R5 MaxMessageSize / len(blob)) see it too. Pointer parameters that every call
// site binds to the address of one local cell are followed to that cell.

import (
	"fmt"
	"go/constant"
	"go/token"
	"go/types"
	"sort"
	"strings"
	"time"

	"golang.org/x/tools/go/ssa"
)

// c13Small: a peer-controlled value with a numeric bound below this counts as bounded
// (a 16-bit quantity, or the sum of two of them).
const c13Small = 1 << 17

type c13T struct {
	hi, lo bool
	ub     uint64
	was    bool   // derives from a value that was hi or lo (survives sanitising: counts instances, decides nothing)
	why    string // first source that made the value hi/lo (for messages)
}

func (t c13T) peer() bool { return t.hi || t.lo || t.ub > 0 }

func c13Join(a, b c13T) c13T {
	r := c13T{hi: a.hi || b.hi, lo: a.lo || b.lo, ub: a.ub, was: a.was || b.was, why: a.why}
	if b.ub > r.ub {
		r.ub = b.ub
	}
	if r.why == "" {
		r.why = b.why
	}
	if r.hi {
		r.ub = 0
	}
	return r
}

func (t c13T) norm() c13T {
	if t.ub >= c13Small {
		t.hi = true
	}
	if t.hi {
		t.ub = 0
	}
	if t.hi || t.lo {
		t.was = true
	}
	if !t.peer() && !t.was {
		t.why = ""
	}
	return t
}

func c13SatAdd(a, b uint64) uint64 {
	if a+b < a {
		return ^uint64(0)
	}
	return a + b
}

func c13SatMul(a, b uint64) uint64 {
	if a == 0 || b == 0 {
		return 0
	}
	if a > (^uint64(0))/b {
		return ^uint64(0)
	}
	return a * b
}

// c13Fact: on Edge, value V (registered under every value it bounds) is bounded above (ub) and/or
// known non-negative (lb) by By. When phi is set the fact holds on the edge only for paths on which
// that boolean phi received its idx-th incoming value ("ok := a && b; if !ok {...}": the branch on ok
// is a branch on b when ok came in from the block that evaluated b).
type c13Fact struct {
	edge   Edge
	phi    *ssa.Phi
	idx    int
	ub, lb bool
	lenOf  bool            // the fact is about len(V) (V a slice or string), registered under V
	by     ssa.Value       // nil for call-success facts
	byAt   ssa.Instruction // where by's own taint is judged when by lives in a callee (nil: the If of edge)
	also   []c13By         // further bounds, all of which must be acceptable (fact assembled from several branches of a helper)
	strict bool            // relation was strict (V > By: lb also holds for By == -1; V < By)
}

// c13By: one bound of a fact with the instruction at which its own taint is judged.
type c13By struct {
	v  ssa.Value
	at ssa.Instruction
}

func (f c13Fact) bys() []c13By {
	if f.by == nil {
		return f.also
	}
	return append([]c13By{{f.by, f.byAt}}, f.also...)
}

type c13Engine struct {
	p         *Prog
	sizes     types.Sizes
	fns       []*ssa.Function
	inLib     map[*ssa.Function]bool
	val       map[ssa.Value]c13T
	field     map[*types.Var]c13T
	global    map[*ssa.Global]c13T
	result    map[*ssa.Function][]c13T
	facts     map[*ssa.Function]map[ssa.Value][]c13Fact
	cellOf    map[*ssa.FreeVar]ssa.Value
	cellOfPar map[*ssa.Parameter]ssa.Value
	domMem    map[c13DomKey]bool
	sums      map[c13SumKey][]c13SumFact
	truncated int // summaries cut short by the nesting limit so far (results computed meanwhile are not cached)
	sumOn     map[c13SumKey]bool
	phis      map[*ssa.Function][]*ssa.Phi
	ubSucc    map[c13ParamKey]int // 0 unknown, 1 in progress, 2 yes, 3 no
	invoke    map[ssa.CallInstruction][]*ssa.Function

	changed bool
	rounds  int
	tInvoke time.Duration
	tFix    time.Duration
	// statistics / fail-closed bookkeeping
	sourceSites map[string]int
	lostArgs    []c13Lost
}

type c13DomKey struct {
	e   Edge
	phi *ssa.Phi
	idx int
	b   *ssa.BasicBlock
	pe  Edge // use on a phi edge (zero otherwise)
}

type c13ParamKey struct {
	fn  *ssa.Function
	idx int
}

// c13Lost: a hi value handed to a callee the engine cannot see into and does not model.
type c13Lost struct {
	fn   *ssa.Function
	call ssa.CallInstruction
	t    c13T
	what string
}

var c13EngineCache = map[*Prog]*c13Engine{}

// c13Taint returns the (memoised) fixpoint for the program.
func c13Taint(p *Prog) *c13Engine {
	if e, ok := c13EngineCache[p]; ok {
		return e
	}
	e := &c13Engine{p: p, val: map[ssa.Value]c13T{}, field: map[*types.Var]c13T{}, global: map[*ssa.Global]c13T{},
		result: map[*ssa.Function][]c13T{}, facts: map[*ssa.Function]map[ssa.Value][]c13Fact{},
		cellOf: map[*ssa.FreeVar]ssa.Value{}, cellOfPar: map[*ssa.Parameter]ssa.Value{}, domMem: map[c13DomKey]bool{}, ubSucc: map[c13ParamKey]int{},
		sums: map[c13SumKey][]c13SumFact{}, sumOn: map[c13SumKey]bool{}, phis: map[*ssa.Function][]*ssa.Phi{},
		inLib: map[*ssa.Function]bool{}, sourceSites: map[string]int{}, invoke: map[ssa.CallInstruction][]*ssa.Function{}}
	e.sizes = types.SizesFor("gc", p.GOARCH)
	if e.sizes == nil {
		e.sizes = types.SizesFor("gc", "amd64")
	}
	for _, fn := range p.ModFns {
		if pk := fnPkg(fn); pk != nil && libPkg(pk.Path()) {
			e.fns = append(e.fns, fn)
			e.inLib[fn] = true
		}
	}
	t0 := time.Now()
	e.buildInvokeIndex()
	t1 := time.Now()
	for {
		e.changed = false
		e.rounds++
		e.lostArgs = e.lostArgs[:0]
		for k := range e.sourceSites {
			delete(e.sourceSites, k)
		}
		for _, fn := range e.fns {
			e.transferFn(fn)
		}
		if !e.changed || e.rounds > 60 {
			break
		}
	}
	e.tInvoke, e.tFix = t1.Sub(t0), time.Since(t1)
	for k := range c13EngineCache {
		delete(c13EngineCache, k) // keep one program alive at most (thorough tier loads three in turn)
	}
	c13EngineCache[p] = e
	return e
}

// buildInvokeIndex resolves interface-method call sites to the library methods that may implement
// them: every named library type (or its pointer) whose method set implements the interface
// (class-hierarchy resolution restricted to the module; cheaper than the VTA graph and a superset of it).
func (e *c13Engine) buildInvokeIndex() {
	var named []*types.Named
	seenPk := map[*types.Package]bool{}
	for _, fn := range e.fns {
		pk := fnPkg(fn)
		if pk == nil || seenPk[pk] {
			continue
		}
		seenPk[pk] = true
		for _, n := range pk.Scope().Names() {
			if tn, ok := pk.Scope().Lookup(n).(*types.TypeName); ok && !tn.IsAlias() {
				if nt, ok := tn.Type().(*types.Named); ok && nt.TypeParams().Len() == 0 {
					if _, isIface := nt.Underlying().(*types.Interface); !isIface {
						named = append(named, nt)
					}
				}
			}
		}
	}
	type key struct {
		iface string
		m     string
	}
	cache := map[key][]*ssa.Function{}
	for _, fn := range e.fns {
		allInstrs(fn, func(_ *ssa.BasicBlock, _ int, in ssa.Instruction) {
			call, ok := in.(ssa.CallInstruction)
			if !ok || !call.Common().IsInvoke() {
				return
			}
			cc := call.Common()
			iface, ok := cc.Value.Type().Underlying().(*types.Interface)
			if !ok {
				return
			}
			k := key{types.TypeString(cc.Value.Type(), nil), cc.Method.Name()}
			impls, done := cache[k]
			if !done {
				for _, nt := range named {
					for _, t := range []types.Type{nt, types.NewPointer(nt)} {
						if !types.Implements(t, iface) {
							continue
						}
						sel := e.p.SSA.MethodSets.MethodSet(t).Lookup(cc.Method.Pkg(), cc.Method.Name())
						if sel == nil {
							continue
						}
						if g := e.p.SSA.MethodValue(sel); g != nil && g.Blocks != nil {
							// a promoted/wrapper method: use the declared method when there is one
							if g.Synthetic != "" {
								if o, ok := sel.Obj().(*types.Func); ok {
									if d := e.p.SSA.FuncValue(o); d != nil && d.Blocks != nil {
										g = d
									}
								}
							}
							if e.inLib[g] {
								impls = append(impls, g)
							}
						}
						break
					}
				}
				cache[k] = impls
			}
			e.invoke[call] = impls
		})
	}
}

func c13SigHasInt(sig *types.Signature) bool {
	for i := 0; i < sig.Params().Len(); i++ {
		if c13IsNum(sig.Params().At(i).Type()) {
			return true
		}
	}
	for i := 0; i < sig.Results().Len(); i++ {
		if c13IsNum(sig.Results().At(i).Type()) {
			return true
		}
	}
	return false
}

func c13IsNum(t types.Type) bool {
	b, ok := t.Underlying().(*types.Basic)
	return ok && b.Info()&(types.IsInteger|types.IsFloat) != 0
}

func c13IsInt(t types.Type) bool {
	b, ok := t.Underlying().(*types.Basic)
	return ok && b.Info()&types.IsInteger != 0
}

func c13Unsigned(t types.Type) bool {
	b, ok := t.Underlying().(*types.Basic)
	return ok && b.Info()&types.IsUnsigned != 0
}

func (e *c13Engine) width(t types.Type) int64 {
	if !c13IsNum(t) {
		return 64
	}
	return e.sizes.Sizeof(t.Underlying()) * 8
}

// carries: value types whose taint is tracked (numbers and interfaces that may box them).
func c13Carries(t types.Type) bool {
	if c13IsNum(t) {
		return true
	}
	_, isIface := t.Underlying().(*types.Interface)
	return isIface
}

// ---------------------------------------------------------------------------
// state access

// eval is the current abstract value of v (before use-site sanitising).
func (e *c13Engine) eval(v ssa.Value) c13T {
	switch v.(type) {
	case *ssa.Const, nil:
		return c13T{}
	}
	t := e.val[v]
	if c13IsInt(v.Type()) {
		if w := e.width(v.Type()); w <= 16 {
			// bounded by type width: peer data of at most w bits
			r := c13T{ub: uint64(1)<<uint(w) - 1, was: t.was}
			if !c13Unsigned(v.Type()) && t.peer() {
				r.lo = true
				r.was = true
			}
			if r.was {
				r.why = t.why
			}
			return r
		}
	}
	return t
}

func (e *c13Engine) set(v ssa.Value, t c13T) {
	t = t.norm()
	old := e.val[v]
	n := c13Join(old, t).norm()
	if n.hi != old.hi || n.lo != old.lo || n.ub != old.ub || n.was != old.was {
		e.val[v] = n
		e.changed = true
	}
}

func (e *c13Engine) joinField(f *types.Var, t c13T) {
	t = t.norm()
	old := e.field[f]
	n := c13Join(old, t).norm()
	if n.hi != old.hi || n.lo != old.lo || n.ub != old.ub || n.was != old.was {
		e.field[f] = n
		e.changed = true
	}
}

func (e *c13Engine) joinGlobal(g *ssa.Global, t c13T) {
	t = t.norm()
	old := e.global[g]
	n := c13Join(old, t).norm()
	if n.hi != old.hi || n.lo != old.lo || n.ub != old.ub || n.was != old.was {
		e.global[g] = n
		e.changed = true
	}
}

func (e *c13Engine) joinResult(fn *ssa.Function, i int, t c13T) {
	t = t.norm()
	rs := e.result[fn]
	if rs == nil {
		rs = make([]c13T, fn.Signature.Results().Len())
		e.result[fn] = rs
	}
	if i >= len(rs) {
		return
	}
	old := rs[i]
	n := c13Join(old, t).norm()
	if n.hi != old.hi || n.lo != old.lo || n.ub != old.ub || n.was != old.was {
		rs[i] = n
		e.changed = true
	}
}

// cell maps an address operand to the value under which the content's taint is stored:
// an Alloc, the Alloc a closure free variable is bound to, a field (handled by caller) or nil.
func (e *c13Engine) cell(addr ssa.Value) ssa.Value {
	switch a := addr.(type) {
	case *ssa.Alloc:
		return a
	case *ssa.FreeVar:
		if r, ok := e.cellOf[a]; ok {
			return r
		}
		var root ssa.Value = a
		fn := a.Parent()
		idx := -1
		for i, fv := range fn.FreeVars {
			if fv == a {
				idx = i
			}
		}
		if par := fn.Parent(); par != nil && idx >= 0 {
			allInstrs(par, func(_ *ssa.BasicBlock, _ int, in ssa.Instruction) {
				if mc, ok := in.(*ssa.MakeClosure); ok && mc.Fn == ssa.Value(fn) && idx < len(mc.Bindings) {
					if r := e.cell(mc.Bindings[idx]); r != nil {
						root = r
					}
				}
			})
		}
		e.cellOf[a] = root
		return root
	case *ssa.Parameter:
		// a pointer parameter that every static call site binds to the address of the same local
		// cell ("func readField(blob []byte, off *int)" called with &off): that cell
		if r, ok := e.cellOfPar[a]; ok {
			return r
		}
		e.cellOfPar[a] = nil // in progress / unknown
		fn := a.Parent()
		pt, ok := a.Type().Underlying().(*types.Pointer)
		if !ok || !c13Carries(pt.Elem()) || fn == nil || fn.Object() == nil {
			return nil
		}
		idx := -1
		for i, q := range fn.Params {
			if q == a {
				idx = i
			}
		}
		var root ssa.Value
		n := 0
		for _, cs := range e.p.callSites(fn.Object()) {
			args := cs.Call.Common().Args
			if cs.Call.Common().IsInvoke() || idx < 0 || idx >= len(args) {
				return nil
			}
			c := e.cell(args[idx])
			if c == nil || (root != nil && c != root) {
				return nil
			}
			root = c
			n++
		}
		if n == 0 || root == nil {
			return nil
		}
		e.cellOfPar[a] = root
		return root
	}
	return nil
}

// ---------------------------------------------------------------------------
// sanitisers

func (e *c13Engine) factsOf(fn *ssa.Function) map[ssa.Value][]c13Fact {
	if m, ok := e.facts[fn]; ok {
		return m
	}
	m := map[ssa.Value][]c13Fact{}
	e.facts[fn] = m
	trunc0 := e.truncated
	defer func() {
		if e.truncated != trunc0 {
			delete(e.facts, fn) // a helper summary was cut short (nesting limit): do not keep the incomplete map
		}
	}()
	reg := func(v ssa.Value, f c13Fact) { e.regFact(m, v, f, 0) }
	for _, b := range fn.Blocks {
		ifi := blockIf(b)
		if ifi == nil || (len(b.Succs) == 2 && b.Succs[0] == b.Succs[1]) {
			continue
		}
		for succ := 0; succ < 2; succ++ {
			e.condFacts(ifi.Cond, succ == 0, c13Fact{edge: Edge{b, succ}}, reg, 0)
		}
	}
	// nil-error edges of checked calls whose callee bounds the parameter on every success return
	allInstrs(fn, func(_ *ssa.BasicBlock, _ int, in ssa.Instruction) {
		call, ok := in.(*ssa.Call)
		if !ok {
			return
		}
		g := calleeFn(call)
		if g == nil || g.Blocks == nil || !e.inLib[g] {
			return
		}
		args := call.Call.Args
		var succ []Edge
		done := false
		edges := func() []Edge {
			if !done {
				done = true
				succ, _, _ = callErrEdges(fn, call)
			}
			return succ
		}
		for i, arg := range args {
			if i >= len(g.Params) || !c13IsInt(arg.Type()) {
				continue
			}
			if _, isC := arg.(*ssa.Const); isC {
				continue
			}
			if !e.ubOnSuccess(g, i, 0) {
				continue
			}
			for _, ed := range edges() {
				reg(arg, c13Fact{edge: ed, ub: true})
			}
		}
		// what the callee establishes about its parameters on every nil-error return (an extracted
		// "func checkLen(n int) error" guard), with its parameters mapped to the arguments
		if sfs := e.summary(g, c13OnNilErr); len(sfs) > 0 {
			for _, ed := range edges() {
				e.applySummary(call, sfs, c13Fact{edge: ed}, reg)
			}
		}
	})
	return m
}

// factsAbout: the facts of fn about parameter par, also when par lives in a cell because a closure
// captures it (the comparisons then load the cell, which is written once).
func (e *c13Engine) factsAbout(fn *ssa.Function, par *ssa.Parameter) []c13Fact {
	m := e.factsOf(fn)
	out := append([]c13Fact{}, m[par]...)
	for _, r := range *par.Referrers() {
		if st, ok := r.(*ssa.Store); ok && st.Val == ssa.Value(par) {
			if c := e.cell(st.Addr); c != nil && e.singleStore(c) {
				out = append(out, m[c]...)
			}
		}
	}
	return out
}

// regFact registers f under v and under the values whose bounds follow from a bound of v.
func (e *c13Engine) regFact(m map[ssa.Value][]c13Fact, v ssa.Value, f c13Fact, d int) {
	if v == nil || d > 6 {
		return
	}
	if _, isC := v.(*ssa.Const); isC {
		return
	}
	m[v] = append(m[v], f)
	switch x := v.(type) {
	case *ssa.ChangeType:
		e.regFact(m, x.X, f, d+1)
	case *ssa.Convert:
		if e.valuePreserving(x) {
			e.regFact(m, x.X, f, d+1)
		}
	case *ssa.BinOp:
		// (a + b) <= bound bounds a and b above when the other addend is not negative (offset+length idiom)
		if x.Op == token.ADD && f.ub {
			g := f
			g.lb = false
			e.regFact(m, x.X, g, d+1)
			e.regFact(m, x.Y, g, d+1)
		}
	case *ssa.UnOp:
		// load of a local cell that is assigned exactly once: the fact holds for every load of it
		if x.Op == token.MUL {
			if c := e.cell(x.X); c != nil && e.singleStore(c) {
				m[c] = append(m[c], f)
			}
		}
	case *ssa.Call:
		// a bound of len(s) is also recorded under s (minimum-length guards of buffers)
		if b, ok := x.Call.Value.(*ssa.Builtin); ok && b.Name() == "len" && len(x.Call.Args) == 1 && !f.lenOf {
			g := f
			g.lenOf = true
			m[x.Call.Args[0]] = append(m[x.Call.Args[0]], g)
		}
	}
}

// condFacts emits the facts that hold when boolean value v is pol, on top of base (the edge and,
// possibly, the phi condition under which v decides the branch). v may be a comparison, a negation,
// a boolean phi (local "ok := a && b": resolved per incoming value), or a call of a module predicate
// (its summary with the parameters mapped to the arguments).
func (e *c13Engine) condFacts(v ssa.Value, pol bool, base c13Fact, reg func(ssa.Value, c13Fact), depth int) {
	if depth > 4 {
		return
	}
	for {
		u, ok := v.(*ssa.UnOp)
		if !ok || u.Op != token.NOT {
			break
		}
		v, pol = u.X, !pol
	}
	switch x := v.(type) {
	case *ssa.BinOp:
		if !c13IsNum(x.X.Type()) {
			return
		}
		op := x.Op
		if !pol {
			op = c13NegOp(op)
		}
		mk := func(ub, lb bool, by ssa.Value, strict bool) c13Fact {
			f := base
			f.ub, f.lb, f.by, f.strict = ub, lb, by, strict
			return f
		}
		switch op {
		case token.LSS, token.LEQ: // x < y
			reg(x.X, mk(true, false, x.Y, op == token.LSS))
			reg(x.Y, mk(false, true, x.X, op == token.LSS))
		case token.GTR, token.GEQ: // x > y
			reg(x.Y, mk(true, false, x.X, op == token.GTR))
			reg(x.X, mk(false, true, x.Y, op == token.GTR))
		case token.EQL:
			reg(x.X, mk(true, true, x.Y, false))
			reg(x.Y, mk(true, true, x.X, false))
		}
	case *ssa.Phi:
		if base.phi != nil || !c13IsBool(x.Type()) {
			return
		}
		for i, ev := range x.Edges {
			if _, isC := ev.(*ssa.Const); isC {
				continue // a constant incoming value decides the branch by itself (pruned by the path search)
			}
			nb := base
			nb.phi, nb.idx = x, i
			e.condFacts(ev, pol, nb, reg, depth+1)
		}
	case *ssa.Call:
		g := calleeFn(x)
		if g == nil || g.Blocks == nil || !e.inLib[g] || !c13IsBool(x.Type()) {
			return
		}
		mode := c13OnTrue
		if !pol {
			mode = c13OnFalse
		}
		e.applySummary(x, e.summary(g, mode), base, reg)
	}
}

// c13HasLen: slices and strings (values whose len() a guard may test).
func c13HasLen(t types.Type) bool {
	switch u := t.Underlying().(type) {
	case *types.Slice:
		return true
	case *types.Basic:
		return u.Info()&types.IsString != 0
	}
	return false
}

func c13IsBool(t types.Type) bool {
	b, ok := t.Underlying().(*types.Basic)
	return ok && b.Info()&types.IsBoolean != 0
}

func c13NegOp(op token.Token) token.Token {
	switch op {
	case token.LSS:
		return token.GEQ
	case token.LEQ:
		return token.GTR
	case token.GTR:
		return token.LEQ
	case token.GEQ:
		return token.LSS
	case token.EQL:
		return token.NEQ
	case token.NEQ:
		return token.EQL
	}
	return token.ILLEGAL
}

// valuePreserving: the conversion cannot change the numeric value of any operand value
// (widening, same signedness or unsigned source).
func (e *c13Engine) valuePreserving(x *ssa.Convert) bool {
	s, d := x.X.Type(), x.Type()
	if !c13IsInt(s) || !c13IsInt(d) {
		return false
	}
	ws, wd := e.width(s), e.width(d)
	if c13Unsigned(s) == c13Unsigned(d) {
		return wd >= ws
	}
	return c13Unsigned(s) && wd > ws
}

func (e *c13Engine) singleStore(c ssa.Value) bool {
	al, ok := c.(*ssa.Alloc)
	if !ok {
		return false
	}
	n := 0
	bad := false
	var visit func(fn *ssa.Function)
	visit = func(fn *ssa.Function) {
		allInstrs(fn, func(_ *ssa.BasicBlock, _ int, in ssa.Instruction) {
			st, ok := in.(*ssa.Store)
			if !ok {
				return
			}
			if e.cell(st.Addr) == ssa.Value(al) {
				n++
			}
		})
		for _, a := range fn.AnonFuncs {
			visit(a)
		}
	}
	visit(al.Parent())
	// the address must not escape other than into closures / loads / stores
	for _, r := range *al.Referrers() {
		switch u := r.(type) {
		case *ssa.Store:
			if u.Val == ssa.Value(al) {
				bad = true
			}
		case *ssa.UnOp, *ssa.MakeClosure, *ssa.DebugRef:
		default:
			bad = true
		}
	}
	return n <= 1 && !bad
}

// boundOK: may By serve as an upper bound (it is not itself an unbounded peer value)?
func (e *c13Engine) boundOK(by ssa.Value, at ssa.Instruction) bool {
	if by == nil {
		return true
	}
	t := e.eval(by)
	if !t.hi {
		return true
	}
	// the bound itself may have been sanitised before the comparison
	return !e.sanitise(t, by, at, nil, 1).hi
}

// lowOK: is By known to be >= 0 (>= -1 for a strict relation), or at least not peer-controlled?
func (e *c13Engine) lowOK(by ssa.Value, strict bool) bool {
	if by == nil {
		return false
	}
	if c, ok := constInt(by); ok {
		if _, isConst := c13StripConv(by).(*ssa.Const); isConst {
			return c >= 0 || (strict && c >= -1)
		}
	}
	t := e.eval(by)
	return !t.lo && !(t.hi && !c13Unsigned(by.Type()))
}

func c13StripConv(v ssa.Value) ssa.Value {
	for {
		switch x := v.(type) {
		case *ssa.Convert:
			v = x.X
		case *ssa.ChangeType:
			v = x.X
		default:
			return v
		}
	}
}

// sanitise clears the hi/lo flags of t (the abstract value of v) that are excluded by a fact on an
// edge dominating the use: the instruction at, or — when pe is set — the control-flow edge pe
// (phi operands are used on their incoming edge).
func (e *c13Engine) sanitise(t c13T, v ssa.Value, at ssa.Instruction, pe *Edge, depth int) c13T {
	if !t.peer() || v == nil || depth > 4 {
		return t
	}
	var fn *ssa.Function
	if at != nil {
		fn = at.Parent()
	} else if pe != nil {
		fn = pe.From.Parent()
	}
	if fn == nil {
		return t
	}
	facts := e.factsOf(fn)
	// the chain of values whose bounds carry over to v
	cur := v
	for i := 0; i < 6 && cur != nil; i++ {
		t = e.applyFacts(t, facts[cur], at, pe, depth)
		if !t.peer() {
			break
		}
		switch x := cur.(type) {
		case *ssa.ChangeType:
			cur = x.X
		case *ssa.Convert:
			if e.valuePreserving(x) {
				cur = x.X
			} else {
				cur = nil
			}
		case *ssa.UnOp:
			if x.Op == token.MUL {
				if c := e.cell(x.X); c != nil {
					t = e.applyFacts(t, facts[c], at, pe, depth)
				}
			}
			cur = nil
		default:
			cur = nil
		}
	}
	return t.norm()
}

func (e *c13Engine) applyFacts(t c13T, fs []c13Fact, at ssa.Instruction, pe *Edge, depth int) c13T {
	for _, f := range fs {
		if !t.peer() {
			break
		}
		if f.lenOf || !((f.ub && (t.hi || t.ub > 0)) || (f.lb && t.lo)) {
			continue
		}
		if !e.factDominates(f, at, pe) {
			continue
		}
		ifInstr := f.edge.From.Instrs[len(f.edge.From.Instrs)-1]
		bys := f.bys()
		if f.ub && (t.hi || t.ub > 0) {
			ok := true
			for _, by := range bys {
				bt := e.eval(by.v)
				if !bt.hi {
					continue
				}
				where := by.at
				if where == nil {
					where = ifInstr
				}
				if e.sanitise(bt, by.v, where, nil, depth+1).hi {
					ok = false
				}
			}
			if ok {
				t.hi = false
				t.ub = 0 // bounded by a program quantity from here on
			}
		}
		if f.lb && t.lo && len(bys) > 0 {
			ok := true
			for _, by := range bys {
				if !e.lowOK(by.v, f.strict) {
					ok = false
				}
			}
			if ok {
				t.lo = false
			}
		}
	}
	return t
}

// boundedBy: v, as used at the instruction (or on the phi edge), is a constant, is bound itself, or is
// known <= bound through a dominating comparison; a phi needs every operand bounded on its edge.
func (e *c13Engine) boundedBy(v ssa.Value, at ssa.Instruction, pe *Edge, bound ssa.Value, depth int) bool {
	if depth > 6 {
		return false
	}
	same := func(x ssa.Value) bool { return c13StripConv(x) == c13StripConv(bound) }
	if _, isC := c13StripConv(v).(*ssa.Const); isC || same(v) {
		return true
	}
	var fn *ssa.Function
	if at != nil {
		fn = at.Parent()
	} else {
		fn = pe.From.Parent()
	}
	facts := e.factsOf(fn)
	cur := v
	for i := 0; i < 6 && cur != nil; i++ {
		for _, f := range facts[cur] {
			if f.ub && !f.lenOf && f.by != nil && len(f.also) == 0 && same(f.by) && e.factDominates(f, at, pe) {
				return true
			}
		}
		switch x := cur.(type) {
		case *ssa.ChangeType:
			cur = x.X
		case *ssa.Convert:
			if e.valuePreserving(x) {
				cur = x.X
			} else {
				cur = nil
			}
		default:
			cur = nil
		}
	}
	if phi, ok := v.(*ssa.Phi); ok {
		for i, ev := range phi.Edges {
			pred := phi.Block().Preds[i]
			ed := Edge{pred, c13SuccIndex(pred, phi.Block())}
			if !e.boundedBy(ev, nil, &ed, bound, depth+1) {
				return false
			}
		}
		return true
	}
	if call, ok := v.(*ssa.Call); ok {
		if b, ok := call.Call.Value.(*ssa.Builtin); ok && b.Name() == "min" {
			for _, a := range call.Call.Args {
				if e.boundedBy(a, call, nil, bound, depth+1) {
					return true
				}
			}
		}
	}
	return false
}

// dominates: every path from entry to the use passes edge ed.
func (e *c13Engine) dominates(ed Edge, at ssa.Instruction, pe *Edge) bool {
	return e.factDominates(c13Fact{edge: ed}, at, pe)
}

// factDominates: every path from entry to the use (the instruction at, or the control-flow edge pe)
// passes f's edge (with f's phi receiving its idx-th incoming value, when f is conditional). Plain
// dominance is tried first; when the function branches on boolean phis the question is decided by the
// path search that resolves those branches per incoming value.
func (e *c13Engine) factDominates(f c13Fact, at ssa.Instruction, pe *Edge) bool {
	ed := f.edge
	var b *ssa.BasicBlock
	k := c13DomKey{e: ed, phi: f.phi, idx: f.idx}
	if pe != nil {
		if f.phi == nil && ed.From == pe.From && ed.Succ == pe.Succ {
			return true
		}
		b = pe.From
		k.pe = *pe
	} else {
		if at == nil {
			return false
		}
		b = at.Block()
	}
	k.b = b
	if r, ok := e.domMem[k]; ok {
		return r
	}
	r := false
	if f.phi == nil {
		s := ed.To()
		if len(s.Preds) == 1 {
			r = s.Dominates(b)
		} else if s.Dominates(b) {
			r = len(b.Instrs) > 0 && instrDominatedByEdge(b.Parent(), ed, b.Instrs[0])
		}
	}
	if !r && len(e.boolPhis(b.Parent())) > 0 {
		cuts := newC13Cuts()
		if f.phi != nil {
			cuts.cond[c13CondEdge{ed, f.phi, f.idx}] = true
		} else {
			cuts.edges[ed] = true
		}
		tg := c13Tgt{b: b}
		if pe != nil {
			tg = c13Tgt{edge: pe}
		}
		r = !e.reach(entryPoint(b.Parent()), tg, cuts)
	}
	e.domMem[k] = r
	return r
}

// ---------------------------------------------------------------------------
// path search that resolves branches on boolean phis per incoming value

type c13CondEdge struct {
	e   Edge
	phi *ssa.Phi
	idx int
}

// c13Cuts: edges, edges-under-a-phi-condition and instructions a path may not pass.
type c13Cuts struct {
	edges  map[Edge]bool
	cond   map[c13CondEdge]bool
	instrs map[ssa.Instruction]bool
}

func newC13Cuts() *c13Cuts {
	return &c13Cuts{edges: map[Edge]bool{}, cond: map[c13CondEdge]bool{}, instrs: map[ssa.Instruction]bool{}}
}

func (c *c13Cuts) addFact(f c13Fact) {
	if f.phi != nil {
		c.cond[c13CondEdge{f.edge, f.phi, f.idx}] = true
	} else {
		c.edges[f.edge] = true
	}
}

// c13Tgt: reach instruction idx of block b (entering b through pred, when set), or traverse edge.
type c13Tgt struct {
	b    *ssa.BasicBlock
	idx  int
	pred *ssa.BasicBlock
	edge *Edge
}

func c13CondRoot(v ssa.Value) (ssa.Value, bool) {
	neg := false
	for {
		u, ok := v.(*ssa.UnOp)
		if !ok || u.Op != token.NOT {
			return v, neg
		}
		v, neg = u.X, !neg
	}
}

// boolPhis: the boolean phis of fn that decide a branch (possibly negated).
func (e *c13Engine) boolPhis(fn *ssa.Function) []*ssa.Phi {
	if r, ok := e.phis[fn]; ok {
		return r
	}
	var out []*ssa.Phi
	seen := map[*ssa.Phi]bool{}
	for _, b := range fn.Blocks {
		if ifi := blockIf(b); ifi != nil {
			root, _ := c13CondRoot(ifi.Cond)
			if phi, ok := root.(*ssa.Phi); ok && !seen[phi] {
				seen[phi] = true
				out = append(out, phi)
			}
		}
	}
	e.phis[fn] = out
	return out
}

// reach: is there a path from start to the target that passes no cut? The search state carries, for
// every branch-deciding boolean phi, the incoming edge it last received its value through: a branch on
// such a phi takes only the successor a constant incoming value allows, and an edge cut under a phi
// condition is closed exactly for the paths on which the phi got that incoming value.
func (e *c13Engine) reach(start Point, tg c13Tgt, cuts *c13Cuts) bool {
	fn := start.Block.Parent()
	tracked := e.boolPhis(fn)
	pos := map[*ssa.Phi]int{}
	for i, p := range tracked {
		pos[p] = i
	}
	blocked := func(b *ssa.BasicBlock, from, to int) bool {
		if len(cuts.instrs) == 0 {
			return false
		}
		for i := from; i < to && i < len(b.Instrs); i++ {
			if cuts.instrs[b.Instrs[i]] {
				return true
			}
		}
		return false
	}
	type state struct {
		b   *ssa.BasicBlock
		env string
	}
	if tg.edge == nil && tg.pred == nil && start.Block == tg.b && start.Idx <= tg.idx && !blocked(tg.b, start.Idx, tg.idx) {
		return true
	}
	if blocked(start.Block, start.Idx, len(start.Block.Instrs)) {
		return false
	}
	seen := map[state]bool{}
	first := state{start.Block, string(make([]byte, len(tracked)))}
	seen[first] = true
	queue := []state{first}
	for len(queue) > 0 {
		st := queue[0]
		queue = queue[1:]
		b := st.b
		forced := -1
		var cphi *ssa.Phi
		cidx := -1
		if ifi := blockIf(b); ifi != nil && len(b.Succs) == 2 {
			root, neg := c13CondRoot(ifi.Cond)
			if phi, ok := root.(*ssa.Phi); ok {
				if i, ok := pos[phi]; ok && st.env[i] > 0 {
					cphi, cidx = phi, int(st.env[i])-1
					if bv, isC := constBool(phi.Edges[cidx]); isC {
						if bv != neg {
							forced = 0
						} else {
							forced = 1
						}
					}
				}
			}
		}
		for i, s := range b.Succs {
			if forced >= 0 && i != forced {
				continue
			}
			ed := Edge{b, i}
			if cuts.edges[ed] {
				continue
			}
			if cphi != nil && cuts.cond[c13CondEdge{ed, cphi, cidx}] {
				continue
			}
			if tg.edge != nil {
				if tg.edge.From == b && tg.edge.Succ == i {
					return true
				}
			} else if s == tg.b && (tg.pred == nil || tg.pred == b) && !blocked(s, 0, tg.idx) {
				return true
			}
			if blocked(s, 0, len(s.Instrs)) {
				continue
			}
			env := st.env
			if len(tracked) > 0 {
				var nb []byte
				for _, in := range s.Instrs {
					phi, ok := in.(*ssa.Phi)
					if !ok {
						break
					}
					j, ok := pos[phi]
					if !ok {
						continue
					}
					if nb == nil {
						nb = []byte(env)
					}
					nb[j] = 0
					n := 0
					for pi, p := range s.Preds {
						if p == b {
							n++
							nb[j] = byte(pi + 1)
						}
					}
					if n != 1 || len(s.Preds) > 250 {
						nb[j] = 0 // both successors of b lead here: the incoming value is not determined
					}
				}
				if nb != nil {
					env = string(nb)
				}
			}
			ns := state{s, env}
			if !seen[ns] {
				seen[ns] = true
				queue = append(queue, ns)
			}
		}
	}
	return false
}

// ---------------------------------------------------------------------------
// helper summaries: what a module function establishes about its integer parameters

const (
	c13OnNilErr = iota // on every (possibly) nil-error return
	c13OnTrue          // whenever its single boolean result is true
	c13OnFalse         // ... is false
)

type c13SumKey struct {
	fn   *ssa.Function
	mode int
}

// c13SumBy: a bound inside a summary: parameter param of the helper (mapped to the argument at the
// call site), or a constant / value of the helper (or of its callees) judged at instruction at.
type c13SumBy struct {
	param int
	v     ssa.Value
	at    ssa.Instruction
}

// c13SumFact: parameter param (or, when param < 0, result number result) is bounded above / known
// non-negative by every one of bys.
type c13SumFact struct {
	param  int
	result int
	lenOf  bool // the fact is about len(parameter)
	ub, lb bool
	strict bool
	bys    []c13SumBy // empty: unconditional (a callee's own success fact)
}

// paramIndex: v is parameter i of g, possibly through value-preserving conversions.
func (e *c13Engine) paramIndex(g *ssa.Function, v ssa.Value) int {
	for d := 0; d < 4 && v != nil; d++ {
		if p, ok := v.(*ssa.Parameter); ok {
			for i, q := range g.Params {
				if q == p {
					return i
				}
			}
			return -1
		}
		switch x := v.(type) {
		case *ssa.ChangeType:
			v = x.X
		case *ssa.Convert:
			if !e.valuePreserving(x) {
				return -1
			}
			v = x.X
		default:
			return -1
		}
	}
	return -1
}

type c13RetTgt struct {
	ret  *ssa.Return
	pred *ssa.BasicBlock
	val  ssa.Value // boolean modes: the (non-constant) value returned through this target
}

// summary computes the facts g establishes in the given mode: for every integer parameter, the
// comparisons (and callee summaries) inside g that every path to a qualifying return passes. A
// boolean result that is itself a condition ("return 0 <= n && n <= max") counts as passing that
// condition. Bounds that are other parameters are kept symbolic and mapped at the call site.
func (e *c13Engine) summary(g *ssa.Function, mode int) []c13SumFact {
	k := c13SumKey{g, mode}
	if r, ok := e.sums[k]; ok {
		return r
	}
	if g == nil || g.Blocks == nil {
		return nil
	}
	if e.sumOn[k] {
		return nil // recursion: the callee contributes nothing (fewer facts: conservative)
	}
	if len(e.sumOn) > 24 {
		e.truncated++ // nesting limit (never reached on today's call graph): results computed meanwhile are not cached
		return nil
	}
	e.sumOn[k] = true
	defer delete(e.sumOn, k)
	var out []c13SumFact
	trunc0 := e.truncated
	defer func() {
		if e.truncated == trunc0 {
			e.sums[k] = out
		}
	}()
	res := g.Signature.Results()
	var tgs []c13RetTgt
	pol := mode == c13OnTrue
	switch mode {
	case c13OnNilErr:
		hasErr := false
		for i := 0; i < res.Len(); i++ {
			if isErrorType(res.At(i).Type()) {
				hasErr = true
			}
		}
		if !hasErr {
			return nil
		}
		for _, t := range c13SuccessTargets(e.p, g) {
			tgs = append(tgs, c13RetTgt{ret: t.Ret, pred: t.Pred})
		}
	default:
		if res.Len() != 1 || !c13IsBool(res.At(0).Type()) {
			return nil
		}
		for _, b := range g.Blocks {
			if len(b.Instrs) == 0 {
				continue
			}
			ret, ok := b.Instrs[len(b.Instrs)-1].(*ssa.Return)
			if !ok || len(ret.Results) != 1 {
				continue
			}
			add := func(v ssa.Value, pred *ssa.BasicBlock) {
				if bv, isC := constBool(v); isC {
					if bv == pol {
						tgs = append(tgs, c13RetTgt{ret: ret, pred: pred})
					}
					return
				}
				tgs = append(tgs, c13RetTgt{ret: ret, pred: pred, val: v})
			}
			v := ret.Results[0]
			if phi, ok := v.(*ssa.Phi); ok && phi.Block() == b {
				for i, ev := range phi.Edges {
					add(ev, b.Preds[i])
				}
			} else {
				add(v, nil)
			}
		}
	}
	if len(tgs) == 0 {
		return nil
	}
	facts := e.factsOf(g)
	// facts the returned condition itself establishes, per target
	direct := make([]map[ssa.Value][]c13Fact, len(tgs))
	for i, t := range tgs {
		if t.val != nil {
			m := map[ssa.Value][]c13Fact{}
			e.condFacts(t.val, pol, c13Fact{}, func(v ssa.Value, f c13Fact) { e.regFact(m, v, f, 0) }, 0)
			direct[i] = m
		}
	}
	// calls whose error is handed straight to the caller: g succeeds only if the callee did
	type retCall struct {
		call *ssa.Call
		sfs  []c13SumFact
	}
	var retCalls []retCall
	if mode == c13OnNilErr {
		allInstrs(g, func(_ *ssa.BasicBlock, _ int, in ssa.Instruction) {
			call, ok := in.(*ssa.Call)
			if !ok || !c13ErrOnlyReturned(call) {
				return
			}
			if h := calleeFn(call); h != nil && h.Blocks != nil && e.inLib[h] {
				if sfs := e.summary(h, c13OnNilErr); len(sfs) > 0 {
					retCalls = append(retCalls, retCall{call, sfs})
				}
			}
		})
	}
	sumBy := func(by c13By, f c13Fact) c13SumBy {
		if i := e.paramIndex(g, by.v); i >= 0 {
			return c13SumBy{param: i}
		}
		at := by.at
		if at == nil && f.edge.From != nil {
			at = f.edge.From.Instrs[len(f.edge.From.Instrs)-1]
		}
		return c13SumBy{param: -1, v: by.v, at: at}
	}
	byKey := func(bs []c13SumBy) string {
		var parts []string
		for _, b := range bs {
			switch {
			case b.param >= 0:
				parts = append(parts, fmt.Sprintf("p%d", b.param))
			case b.v == nil:
				parts = append(parts, "nil")
			default:
				if c, ok := b.v.(*ssa.Const); ok && c.Value != nil {
					parts = append(parts, "c"+c.Value.ExactString())
				} else {
					parts = append(parts, fmt.Sprintf("v%p", b.v))
				}
			}
		}
		sort.Strings(parts)
		return strings.Join(parts, ",")
	}
	type item struct {
		f      c13Fact         // a fact of g about the parameter (cut: its edge), or
		call   ssa.Instruction // a returned-only call that establishes it (cut: the call)
		bys    []c13SumBy
		strict bool
	}
	for pi, par := range g.Params {
		isLen := c13HasLen(par.Type())
		if !c13IsInt(par.Type()) && !isLen {
			continue
		}
		for _, wantUb := range []bool{true, false} {
			var items []item
			for _, f := range facts[par] {
				if (wantUb && !f.ub) || (!wantUb && !f.lb) || f.lenOf != isLen {
					continue
				}
				var bs []c13SumBy
				for _, by := range f.bys() {
					bs = append(bs, sumBy(by, f))
				}
				items = append(items, item{f: f, bys: bs, strict: f.strict})
			}
			for _, rc := range retCalls {
				for _, sf := range rc.sfs {
					if sf.param < 0 || sf.lenOf != isLen || (wantUb && !sf.ub) || (!wantUb && !sf.lb) || sf.param >= len(rc.call.Call.Args) || e.paramIndex(g, rc.call.Call.Args[sf.param]) != pi {
						continue
					}
					var bs []c13SumBy
					okBys := true
					for _, b := range sf.bys {
						if b.param >= 0 {
							if b.param >= len(rc.call.Call.Args) {
								okBys = false
								break
							}
							bs = append(bs, sumBy(c13By{v: rc.call.Call.Args[b.param]}, c13Fact{}))
							if bs[len(bs)-1].at == nil && bs[len(bs)-1].param < 0 {
								bs[len(bs)-1].at = rc.call
							}
						} else {
							bs = append(bs, b)
						}
					}
					if okBys {
						items = append(items, item{call: rc.call, bys: bs, strict: sf.strict})
					}
				}
			}
			holds := func(sel func(item) bool, key string) bool {
				cuts := newC13Cuts()
				for _, it := range items {
					if !sel(it) {
						continue
					}
					if it.call != nil {
						cuts.instrs[it.call] = true
					} else {
						cuts.addFact(it.f)
					}
				}
				for ti, t := range tgs {
					if direct[ti] != nil {
						sat := false
						for _, f := range direct[ti][par] {
							if (wantUb && !f.ub) || (!wantUb && !f.lb) || f.lenOf != isLen {
								continue
							}
							var bs []c13SumBy
							for _, by := range f.bys() {
								bs = append(bs, sumBy(by, f))
							}
							if sel(item{f: f, bys: bs, strict: f.strict}) {
								sat = true
							}
						}
						if sat {
							continue
						}
					}
					tp := pointOf(t.ret)
					if e.reach(entryPoint(g), c13Tgt{b: tp.Block, idx: tp.Idx, pred: t.pred}, cuts) {
						return false
					}
				}
				return true
			}
			// one bound at a time first, then all comparisons of the parameter together
			keys := map[string]bool{}
			var order []string
			all := items
			for ti := range tgs {
				if direct[ti] == nil {
					continue
				}
				for _, f := range direct[ti][par] {
					if (wantUb && !f.ub) || (!wantUb && !f.lb) || f.lenOf != isLen {
						continue
					}
					var bs []c13SumBy
					for _, by := range f.bys() {
						bs = append(bs, sumBy(by, f))
					}
					all = append(all, item{f: f, bys: bs, strict: f.strict})
				}
			}
			for _, it := range all {
				kk := fmt.Sprintf("%v|%s", it.strict, byKey(it.bys))
				if !keys[kk] {
					keys[kk] = true
					order = append(order, kk)
				}
			}
			found := false
			for _, kk := range order {
				kk := kk
				var rep *item
				for i := range all {
					if fmt.Sprintf("%v|%s", all[i].strict, byKey(all[i].bys)) == kk {
						rep = &all[i]
						break
					}
				}
				if holds(func(it item) bool { return fmt.Sprintf("%v|%s", it.strict, byKey(it.bys)) == kk }, kk) {
					found = true
					out = append(out, c13SumFact{param: pi, lenOf: isLen, ub: wantUb, lb: !wantUb, strict: rep.strict, bys: rep.bys})
				}
			}
			if !found && len(order) > 1 && holds(func(item) bool { return true }, "*") {
				sf := c13SumFact{param: pi, lenOf: isLen, ub: wantUb, lb: !wantUb, strict: true}
				seenBy := map[string]bool{}
				for _, it := range all {
					if !it.strict {
						sf.strict = false
					}
					if len(it.bys) == 0 {
						continue
					}
					for _, b := range it.bys {
						bk := byKey([]c13SumBy{b})
						if !seenBy[bk] {
							seenBy[bk] = true
							sf.bys = append(sf.bys, b)
						}
					}
				}
				out = append(out, sf)
			}
		}
	}
	// what a nil-error return says about the integer results: "n, err := checkedLen(x)" - the result
	// was compared inside the helper on the way to every success return
	if mode == c13OnNilErr {
		for ri := 0; ri < res.Len(); ri++ {
			if !c13IsInt(res.At(ri).Type()) {
				continue
			}
			type rf struct {
				ub, lb, strict bool
				bys            []c13SumBy
			}
			var common []rf
			for ti, t := range tgs {
				if ri >= len(t.ret.Results) {
					common = nil
					break
				}
				rv := t.ret.Results[ri]
				if phi, ok := rv.(*ssa.Phi); ok && t.pred != nil && phi.Block() == t.ret.Block() {
					for i, p := range phi.Block().Preds {
						if p == t.pred {
							rv = phi.Edges[i]
						}
					}
				}
				var here []rf
				for _, f := range facts[rv] {
					var pe *Edge
					if t.pred != nil {
						pe = &Edge{t.pred, c13SuccIndex(t.pred, t.ret.Block())}
					}
					var at ssa.Instruction = t.ret
					if pe != nil {
						at = nil
					}
					if !e.factDominates(f, at, pe) {
						continue
					}
					var bs []c13SumBy
					for _, by := range f.bys() {
						bs = append(bs, sumBy(by, f))
					}
					if f.ub {
						here = append(here, rf{ub: true, strict: f.strict, bys: bs})
					}
					if f.lb {
						here = append(here, rf{lb: true, strict: f.strict, bys: bs})
					}
				}
				if ti == 0 {
					common = here
					continue
				}
				var keep []rf
				for _, c := range common {
					for _, h := range here {
						if c.ub == h.ub && c.lb == h.lb && c.strict == h.strict && byKey(c.bys) == byKey(h.bys) {
							keep = append(keep, c)
							break
						}
					}
				}
				common = keep
			}
			for _, c := range common {
				out = append(out, c13SumFact{param: -1, result: ri, ub: c.ub, lb: c.lb, strict: c.strict, bys: c.bys})
			}
		}
	}
	return out
}

// deepOrigins: the leaf origins of v, looking through the results of module callees (the value a
// helper returns): for a call result, the origins of the matching operand of every return of the callee.
func (e *c13Engine) deepOrigins(fn *ssa.Function, v ssa.Value, depth int) []ssa.Value {
	var out []ssa.Value
	for _, o := range origins(fn, v) {
		call, idx := originCall(o)
		var g *ssa.Function
		if call != nil {
			g = calleeFn(call)
		}
		if g == nil || g.Blocks == nil || !e.inLib[g] || depth >= 3 {
			out = append(out, o)
			continue
		}
		n := 0
		for _, b := range g.Blocks {
			if len(b.Instrs) == 0 {
				continue
			}
			if ret, ok := b.Instrs[len(b.Instrs)-1].(*ssa.Return); ok && idx < len(ret.Results) {
				n++
				out = append(out, e.deepOrigins(g, ret.Results[idx], depth+1)...)
			}
		}
		if n == 0 {
			out = append(out, o)
		}
	}
	return out
}

// applySummary registers the summary facts of the callee of call on top of base, parameters mapped
// to the call's arguments.
func (e *c13Engine) applySummary(call *ssa.Call, sfs []c13SumFact, base c13Fact, reg func(ssa.Value, c13Fact)) {
	args := call.Call.Args
	for _, sf := range sfs {
		var subject ssa.Value
		if sf.param < 0 {
			subject = extractN(call, sf.result)
			if subject == nil {
				continue
			}
		} else {
			if sf.param >= len(args) || !(c13IsInt(args[sf.param].Type()) || (sf.lenOf && c13HasLen(args[sf.param].Type()))) {
				continue
			}
			subject = args[sf.param]
		}
		f := base
		f.lenOf = sf.lenOf
		f.ub, f.lb, f.strict = sf.ub, sf.lb, sf.strict
		f.by, f.byAt, f.also = nil, nil, nil
		ok := true
		var bys []c13By
		for _, b := range sf.bys {
			if b.param >= 0 {
				if b.param >= len(args) {
					ok = false
					break
				}
				bys = append(bys, c13By{v: args[b.param]})
			} else if b.v != nil {
				bys = append(bys, c13By{v: b.v, at: b.at})
			}
		}
		if !ok {
			continue
		}
		if len(bys) > 0 {
			f.by, f.byAt, f.also = bys[0].v, bys[0].at, bys[1:]
		}
		reg(subject, f)
	}
}

// ubOnSuccess: every (possibly) success return of g is reached only through an edge on which
// parameter idx is bounded above by a constant, a len/cap, or the result of a call into code outside
// the module (bytes.Buffer.Len), or through the nil-error edge of a callee that does so.
func (e *c13Engine) ubOnSuccess(g *ssa.Function, idx int, depth int) bool {
	k := c13ParamKey{g, idx}
	switch e.ubSucc[k] {
	case 1, 3:
		return false
	case 2:
		return true
	}
	if depth > 3 || g.Blocks == nil || idx >= len(g.Params) {
		return false
	}
	hasErr := false
	for i := 0; i < g.Signature.Results().Len(); i++ {
		if isErrorType(g.Signature.Results().At(i).Type()) {
			hasErr = true
		}
	}
	if !hasErr {
		e.ubSucc[k] = 3
		return false
	}
	e.ubSucc[k] = 1
	cuts := newCuts()
	par := g.Params[idx]
	isPar := func(v ssa.Value) bool {
		for i := 0; i < 4; i++ {
			if v == ssa.Value(par) {
				return true
			}
			switch x := v.(type) {
			case *ssa.ChangeType:
				v = x.X
			case *ssa.Convert:
				if !e.valuePreserving(x) {
					return false
				}
				v = x.X
			default:
				return false
			}
		}
		return false
	}
	localBound := func(v ssa.Value) bool {
		v = c13StripConv(v)
		switch x := v.(type) {
		case *ssa.Const:
			return true
		case *ssa.Call:
			if b, ok := x.Call.Value.(*ssa.Builtin); ok {
				return b.Name() == "len" || b.Name() == "cap"
			}
			if f := calleeObj(x); f != nil && f.Pkg() != nil && !inModule(f.Pkg().Path()) {
				return true
			}
		}
		return false
	}
	for _, b := range g.Blocks {
		ifi := blockIf(b)
		if ifi == nil || (len(b.Succs) == 2 && b.Succs[0] == b.Succs[1]) {
			continue
		}
		a := condAtom(ifi.Cond)
		if a.Op == token.ILLEGAL {
			continue
		}
		for succ := 0; succ < 2; succ++ {
			holds := succ == 0
			if a.Neg {
				holds = !holds
			}
			op := a.Op
			if !holds {
				op = c13NegOp(op)
			}
			switch op {
			case token.LSS, token.LEQ, token.EQL:
				if isPar(a.X) && localBound(a.Y) {
					cuts.AddEdges(Edge{b, succ})
				}
			}
			switch op {
			case token.GTR, token.GEQ, token.EQL:
				if isPar(a.Y) && localBound(a.X) {
					cuts.AddEdges(Edge{b, succ})
				}
			}
		}
	}
	allInstrs(g, func(_ *ssa.BasicBlock, _ int, in ssa.Instruction) {
		call, ok := in.(*ssa.Call)
		if !ok {
			return
		}
		h := calleeFn(call)
		if h == nil || h.Blocks == nil || !e.inLib[h] {
			return
		}
		for i, arg := range call.Call.Args {
			if isPar(arg) && e.ubOnSuccess(h, i, depth+1) {
				if succ, _, checked := callErrEdges(g, call); checked {
					cuts.AddEdges(succ...)
				} else if c13ErrOnlyReturned(call) {
					cuts.AddInstrs(call)
				}
			}
		}
	})
	ok := true
	for _, t := range c13SuccessTargets(e.p, g) {
		if findPath(entryPoint(g), t.Target(), cuts) != nil {
			ok = false
			break
		}
	}
	if ok {
		e.ubSucc[k] = 2
	} else {
		e.ubSucc[k] = 3
	}
	return ok
}

// c13SuccessTargets is successTargets minus the returns whose error operand is a package-level
// sentinel error variable (io.EOF, ErrNetwork, ...): those are never nil.
func c13SuccessTargets(p *Prog, fn *ssa.Function) []RetPoint {
	var out []RetPoint
	for _, t := range p.successTargets(fn) {
		if c13SentinelReturn(fn, t) {
			continue
		}
		out = append(out, t)
	}
	return out
}

func c13SentinelReturn(fn *ssa.Function, t RetPoint) bool {
	sig := fn.Signature
	ei := -1
	for i := 0; i < sig.Results().Len(); i++ {
		if isErrorType(sig.Results().At(i).Type()) {
			ei = i
		}
	}
	if ei < 0 || ei >= len(t.Ret.Results) {
		return false
	}
	v := t.Ret.Results[ei]
	if phi, ok := v.(*ssa.Phi); ok && t.Pred != nil && phi.Block() == t.Ret.Block() {
		for i, p := range phi.Block().Preds {
			if p == t.Pred {
				v = phi.Edges[i]
			}
		}
	}
	// "if ctx.Err() != nil { return ctx.Err() }": the context's error, returned after cancellation was seen
	if call, ok := v.(*ssa.Call); ok && call.Call.IsInvoke() && call.Call.Method.Name() == "Err" &&
		call.Call.Method.Pkg() != nil && call.Call.Method.Pkg().Path() == "context" {
		return true
	}
	ld, ok := v.(*ssa.UnOp)
	if !ok || ld.Op != token.MUL {
		return false
	}
	g, ok := ld.X.(*ssa.Global)
	if !ok || !isErrorType(g.Type().(*types.Pointer).Elem()) {
		return false
	}
	return strings.HasPrefix(g.Name(), "Err") || strings.HasPrefix(g.Name(), "err") || g.Name() == "EOF"
}

// c13ErrOnlyReturned: the call's error result is handed straight to the caller (return g(...) or
// v, err := g(...); return v, err): the caller succeeds only if the callee did.
func c13ErrOnlyReturned(call *ssa.Call) bool {
	errs := errResults(call)
	if len(errs) == 0 {
		return false
	}
	for _, ev := range errs {
		n := 0
		for _, r := range *ev.Referrers() {
			switch r.(type) {
			case *ssa.Return:
				n++
			case *ssa.DebugRef:
			default:
				return false
			}
		}
		if n == 0 {
			return false
		}
	}
	return true
}

// ---------------------------------------------------------------------------
// transfer

func (e *c13Engine) use(v ssa.Value, at ssa.Instruction) c13T {
	return e.sanitise(e.eval(v), v, at, nil, 0)
}

func (e *c13Engine) transferFn(fn *ssa.Function) {
	for _, b := range fn.Blocks {
		for _, in := range b.Instrs {
			e.transfer(fn, in)
		}
	}
}

func (e *c13Engine) transfer(fn *ssa.Function, in ssa.Instruction) {
	switch x := in.(type) {
	case *ssa.Phi:
		if !c13Carries(x.Type()) {
			return
		}
		var t c13T
		for i, ev := range x.Edges {
			pred := x.Block().Preds[i]
			pe := Edge{pred, c13SuccIndex(pred, x.Block())}
			t = c13Join(t, e.sanitise(e.eval(ev), ev, nil, &pe, 0))
		}
		e.set(x, t)
	case *ssa.BinOp:
		if !c13IsNum(x.Type()) {
			return
		}
		e.set(x, e.binop(x))
	case *ssa.UnOp:
		e.unop(x)
	case *ssa.Convert:
		if !c13IsNum(x.Type()) || !c13IsNum(x.X.Type()) {
			return
		}
		e.set(x, e.convert(x))
	case *ssa.ChangeType:
		if c13Carries(x.Type()) {
			e.set(x, e.use(x.X, x))
		}
	case *ssa.MakeInterface:
		if c13IsNum(x.X.Type()) {
			e.set(x, e.use(x.X, x))
		}
	case *ssa.ChangeInterface:
		e.set(x, e.eval(x.X))
	case *ssa.TypeAssert:
		if !x.CommaOk && c13Carries(x.Type()) {
			e.set(x, e.eval(x.X))
		}
	case *ssa.Extract:
		if !c13Carries(x.Type()) {
			return
		}
		switch tup := x.Tuple.(type) {
		case *ssa.Call:
			e.set(x, e.callResult(fn, tup, x.Index))
		case *ssa.TypeAssert:
			if x.Index == 0 {
				e.set(x, e.eval(tup.X))
			}
		}
	case *ssa.Field:
		if c13Carries(x.Type()) {
			st := x.X.Type().Underlying().(*types.Struct)
			e.set(x, e.field[st.Field(x.Field)])
		}
	case *ssa.Call:
		e.callArgs(fn, x)
		if c13Carries(x.Type()) {
			e.set(x, e.callResult(fn, x, 0))
		}
	case *ssa.Go:
		e.callArgs(fn, x)
	case *ssa.Defer:
		e.callArgs(fn, x)
	case *ssa.Store:
		if !c13Carries(x.Val.Type()) {
			return
		}
		t := e.use(x.Val, x)
		switch a := x.Addr.(type) {
		case *ssa.FieldAddr:
			e.joinField(fieldOfAddr(a), t)
		case *ssa.Global:
			e.joinGlobal(a, t)
		default:
			if c := e.cell(x.Addr); c != nil {
				e.set(c, t)
			}
		}
	case *ssa.Return:
		for i, r := range x.Results {
			if c13Carries(r.Type()) {
				e.joinResult(fn, i, e.use(r, x))
			}
		}
	case *ssa.MakeClosure:
		// free variables bound by value
		if g, ok := x.Fn.(*ssa.Function); ok {
			for i, b := range x.Bindings {
				if i < len(g.FreeVars) && c13Carries(b.Type()) {
					e.set(g.FreeVars[i], e.use(b, x))
				}
			}
		}
	}
}

func c13SuccIndex(from, to *ssa.BasicBlock) int {
	for i, s := range from.Succs {
		if s == to {
			return i
		}
	}
	return 0
}

func (e *c13Engine) unop(x *ssa.UnOp) {
	switch x.Op {
	case token.MUL:
		if !c13Carries(x.Type()) {
			return
		}
		switch a := x.X.(type) {
		case *ssa.FieldAddr:
			e.set(x, e.field[fieldOfAddr(a)])
		case *ssa.Global:
			e.set(x, e.global[a])
		default:
			if c := e.cell(x.X); c != nil {
				e.set(x, e.val[c])
			}
		}
	case token.SUB:
		if !c13IsNum(x.Type()) {
			return
		}
		t := e.use(x.X, x)
		if t.peer() {
			e.set(x, c13T{hi: t.lo, lo: true, why: t.why})
		} else if t.was {
			e.set(x, c13T{was: true, why: t.why})
		}
	case token.XOR:
		if !c13IsNum(x.Type()) {
			return
		}
		t := e.use(x.X, x)
		if t.peer() {
			e.set(x, c13T{hi: true, lo: !c13Unsigned(x.Type()), why: t.why})
		} else if t.was {
			e.set(x, c13T{was: true, why: t.why})
		}
	}
}

func (e *c13Engine) binop(x *ssa.BinOp) c13T {
	a, b := e.use(x.X, x), e.use(x.Y, x)
	why := a.why
	if why == "" {
		why = b.why
	}
	if !a.peer() && !b.peer() {
		if a.was || b.was {
			return c13T{was: true, why: why}
		}
		return c13T{}
	}
	signed := !c13Unsigned(x.Type())
	r := c13T{why: why, was: a.was || b.was}
	cx, xIsC := c13ConstU(x.X)
	cy, yIsC := c13ConstU(x.Y)
	switch x.Op {
	case token.ADD:
		r.hi = a.hi || b.hi
		r.lo = a.lo || b.lo
		r.ub = c13SatAdd(a.ub, b.ub)
	case token.SUB:
		r.hi = a.hi || (b.lo && signed)
		r.lo = signed && (a.lo || b.peer())
		r.ub = a.ub
		if !signed && b.peer() {
			r.hi = true // unsigned underflow wraps
		}
	case token.MUL:
		r.hi = a.hi || b.hi
		r.lo = a.lo || b.lo
		switch {
		case xIsC:
			r.ub = c13SatMul(cx, b.ub)
		case yIsC:
			r.ub = c13SatMul(a.ub, cy)
		case a.peer() && b.peer():
			r.ub = c13SatMul(a.ub, b.ub)
		default:
			r.hi = true // peer value times an unknown program quantity
		}
	case token.SHL:
		r.lo = a.lo
		if b.peer() || !yIsC || cy >= 64 {
			r.hi = a.peer() || b.hi
			if !a.peer() && !b.hi {
				// constant shifted by a small peer amount: still bounded by the type, treat as unbounded only if > 16
				r.hi = b.ub > 16
			}
		} else {
			r.hi = a.hi
			r.ub = a.ub
			for i := uint64(0); i < cy; i++ {
				r.ub = c13SatAdd(r.ub, r.ub)
			}
		}
	case token.SHR:
		r.lo = a.lo
		r.hi = a.hi
		r.ub = a.ub
		if yIsC && cy < 64 {
			r.ub = a.ub >> cy
			if a.hi && e.width(x.Type())-int64(cy) <= 16 {
				r.hi = false
				r.ub = uint64(1)<<uint(e.width(x.Type())-int64(cy)) - 1
			}
		}
	case token.QUO:
		r.lo = a.lo || b.lo
		r.hi = a.hi
		r.ub = a.ub
	case token.REM:
		r.lo = a.lo
		if yIsC && cy > 0 {
			r.ub = cy
		} else if !b.hi {
			r.ub = 0 // bounded by a program quantity
		} else {
			r.hi = true
		}
		if !r.lo && r.ub == 0 && !r.hi {
			return c13T{was: r.was, why: why}
		}
	case token.AND:
		switch {
		case yIsC && (!signed || int64(cy) >= 0):
			r.ub = cy
		case xIsC && (!signed || int64(cx) >= 0):
			r.ub = cx
		default:
			r.hi = a.hi && b.hi || (a.hi && !b.peer()) || (b.hi && !a.peer())
			r.lo = a.lo && b.lo
			r.ub = a.ub
			if b.ub > 0 && (b.ub < r.ub || r.ub == 0) {
				r.ub = b.ub
			}
		}
	case token.OR, token.XOR:
		r.hi = a.hi || b.hi
		r.lo = a.lo || b.lo
		r.ub = c13SatAdd(a.ub, b.ub)
	case token.AND_NOT:
		r = a
		r.was = a.was || b.was
	default:
		return c13T{}
	}
	if r.ub == 0 && !r.hi && !r.lo {
		// a bounded peer value combined with a program value: keep it marked as (small) peer data
		if a.ub > 0 || b.ub > 0 {
			r.ub = 1
		}
	}
	return r.norm()
}

func c13ConstU(v ssa.Value) (uint64, bool) {
	c, ok := c13StripConv(v).(*ssa.Const)
	if !ok || c.Value == nil || c.Value.Kind() != constant.Int {
		return 0, false
	}
	if u, ok := constant.Uint64Val(c.Value); ok {
		return u, true
	}
	if i, ok := constant.Int64Val(c.Value); ok {
		return uint64(i), true
	}
	return 0, false
}

func (e *c13Engine) convert(x *ssa.Convert) c13T {
	t := e.use(x.X, x)
	if !t.peer() {
		if t.was {
			return c13T{was: true, why: t.why}
		}
		return c13T{}
	}
	s, d := x.X.Type(), x.Type()
	sb, db := s.Underlying().(*types.Basic), d.Underlying().(*types.Basic)
	if sb.Info()&types.IsFloat != 0 || db.Info()&types.IsFloat != 0 {
		r := t
		if db.Info()&types.IsUnsigned != 0 {
			r.hi = t.hi || t.lo
			r.lo = false
		}
		return r
	}
	ws, wd := e.width(s), e.width(d)
	r := c13T{why: t.why, ub: t.ub, was: t.was}
	if r.why == "" {
		r.why = "type-bounded peer data widened at " + e.p.Pos(x.Pos())
	}
	if c13Unsigned(d) {
		r.hi = t.hi || t.lo
		return r
	}
	// signed destination
	r.hi = t.hi
	switch {
	case c13Unsigned(s) && wd <= ws:
		r.lo = t.hi
	case c13Unsigned(s):
		r.lo = false
	case wd >= ws:
		r.lo = t.lo
	default:
		r.lo = t.lo || t.hi
	}
	return r
}

// ---------------------------------------------------------------------------
// calls

// c13Source classifies a callee whose result is a peer-controlled integer regardless of its body.
func c13Source(o *types.Func) (name string, resultIdx int, signed bool, ok bool) {
	if o == nil || o.Pkg() == nil {
		return
	}
	pk, n := o.Pkg().Path(), o.Name()
	sig := o.Type().(*types.Signature)
	switch {
	case pk == "encoding/binary" && (n == "Uint16" || n == "Uint32" || n == "Uint64" || n == "Uvarint" || n == "ReadUvarint"):
		return "binary." + n, 0, false, true
	case pk == "encoding/binary" && (n == "Varint" || n == "ReadVarint"):
		return "binary." + n, 0, true, true
	case pk == "strconv" && (n == "Atoi" || n == "ParseInt"):
		return "strconv." + n, 0, true, true
	case pk == "strconv" && n == "ParseUint":
		return "strconv." + n, 0, false, true
	case pk == "strconv" && n == "ParseFloat":
		return "strconv." + n, 0, true, true
	case pk == ModPath+"/message" && sig.Recv() != nil && strings.HasPrefix(n, "Get") && sig.Results().Len() == 2 &&
		c13IsNum(sig.Results().At(0).Type()) && isErrorType(sig.Results().At(1).Type()):
		return "(*Message)." + n, 0, !c13Unsigned(sig.Results().At(0).Type()), true
	case strings.HasSuffix(pk, "/classad/classad") && sig.Recv() != nil && strings.HasPrefix(n, "EvaluateAttr") &&
		sig.Results().Len() >= 1 && c13IsNum(sig.Results().At(0).Type()):
		return "ClassAd." + n, 0, true, true
	}
	return
}

func (e *c13Engine) callees(call ssa.CallInstruction) []*ssa.Function {
	if g := calleeFn(call); g != nil {
		if g.Blocks != nil && e.inLib[g] {
			return []*ssa.Function{g}
		}
		return nil
	}
	if call.Common().IsInvoke() {
		return e.invoke[call]
	}
	return nil
}

func (e *c13Engine) callArgs(fn *ssa.Function, call ssa.CallInstruction) {
	cc := call.Common()
	gs := e.callees(call)
	in := call.(ssa.Instruction)
	// builtins
	if _, ok := cc.Value.(*ssa.Builtin); ok {
		return
	}
	for _, g := range gs {
		args := cc.Args
		off := 0
		if cc.IsInvoke() {
			off = 1 // g.Params[0] is the receiver
		}
		for i, a := range args {
			if i+off >= len(g.Params) || !c13Carries(a.Type()) {
				continue
			}
			e.set(g.Params[i+off], e.use(a, in))
		}
	}
	if len(gs) == 0 && !c13KnownSink(call) {
		// hi integer handed to code we cannot see into: a func-valued call that does not resolve to a
		// closure, or an invoke of a module interface method without a resolved implementation
		dynamic := false
		if cc.IsInvoke() {
			dynamic = c13InModuleIface(cc) && len(e.invoke[call]) == 0
		} else if calleeFn(call) == nil {
			// a func value loaded from a struct field or received as a parameter is an application
			// callback (ServerConfigForCommand, PostAuthPolicy): outside the library, not a sink
			switch v := cc.Value.(type) {
			case *ssa.Parameter:
			case *ssa.UnOp:
				if _, isField := v.X.(*ssa.FieldAddr); !isField {
					dynamic = true
				}
			default:
				dynamic = true
			}
		}
		if dynamic {
			for _, a := range cc.Args {
				if c13IsInt(a.Type()) {
					if t := e.use(a, in); t.hi {
						e.lostArgs = append(e.lostArgs, c13Lost{fn, call, t, "dynamic call"})
					}
				}
			}
		}
	}
}

func c13InModuleIface(cc *ssa.CallCommon) bool {
	return cc.Method != nil && cc.Method.Pkg() != nil && inModule(cc.Method.Pkg().Path())
}

func (e *c13Engine) callResult(fn *ssa.Function, call *ssa.Call, idx int) c13T {
	cc := call.Common()
	if b, ok := cc.Value.(*ssa.Builtin); ok {
		switch b.Name() {
		case "min":
			var r c13T
			allHi := true
			for i, a := range cc.Args {
				t := e.use(a, call)
				if i == 0 {
					r = t
				} else {
					r = c13Join(r, t)
				}
				if !t.hi {
					allHi = false
				}
			}
			r.hi = allHi
			return r.norm()
		case "max":
			var r c13T
			allLo := true
			for i, a := range cc.Args {
				t := e.use(a, call)
				if i == 0 {
					r = t
				} else {
					r = c13Join(r, t)
				}
				if !t.lo {
					allLo = false
				}
			}
			r.lo = allLo
			return r.norm()
		}
		return c13T{}
	}
	if o := calleeObj(call); o != nil {
		if name, ri, signed, ok := c13Source(o); ok && ri == idx {
			key := name
			e.sourceSites[key]++
			why := fmt.Sprintf("%s at %s", name, e.p.Pos(call.Pos()))
			t := c13T{hi: true, lo: signed, why: why}
			if name == "strconv.ParseInt" || name == "strconv.ParseUint" {
				// bitSize argument bounds the result
				if bs, ok := constInt(cc.Args[len(cc.Args)-1]); ok && bs > 0 && bs <= 16 {
					t = c13T{ub: uint64(1)<<uint(bs) - 1, lo: signed, why: why}
				}
			}
			return t
		}
	}
	var r c13T
	for _, g := range e.callees(call) {
		rs := e.result[g]
		if idx < len(rs) {
			t := rs[idx]
			r = c13Join(r, t)
		}
	}
	return r
}

// c13KnownSink: non-module callees modelled as sinks (see c13Sinks).
func c13KnownSink(call ssa.CallInstruction) bool {
	_, _, ok := c13SinkCall(call)
	return ok
}

// c13SinkCall: (*bytes.Buffer).Grow, (*strings.Builder).Grow, slices.Grow, strings.Repeat, bytes.Repeat:
// the size operand.
func c13SinkCall(call ssa.CallInstruction) (kind string, arg ssa.Value, ok bool) {
	o := calleeObj(call)
	if o == nil || o.Pkg() == nil {
		return
	}
	args := call.Common().Args
	switch o.Pkg().Path() + "." + o.Name() {
	case "bytes.Grow", "strings.Grow":
		if len(args) == 2 {
			return "grow", args[1], true
		}
	case "slices.Grow":
		if len(args) == 2 {
			return "grow", args[1], true
		}
	case "strings.Repeat", "bytes.Repeat":
		if len(args) == 2 {
			return "grow", args[1], true
		}
	}
	return
}

// ---------------------------------------------------------------------------
// sinks

type c13Sink struct {
	Fn    *ssa.Function
	Instr ssa.Instruction
	Kind  string // make | grow | slice | index
	Op    ssa.Value
	Raw   c13T // abstract value before use-site sanitising
	T     c13T // after
	Key   string
}

// sinks enumerates, in library functions, every size/bound/index operand that carries peer data.
func (e *c13Engine) sinks() []c13Sink {
	var out []c13Sink
	for _, fn := range e.fns {
		ord := map[string]int{}
		var local []c13Sink
		add := func(in ssa.Instruction, kind string, op ssa.Value) {
			if op == nil {
				return
			}
			if _, isC := op.(*ssa.Const); isC {
				return
			}
			if !c13IsInt(op.Type()) {
				return
			}
			raw := e.eval(op)
			local = append(local, c13Sink{Fn: fn, Instr: in, Kind: kind, Op: op, Raw: raw, T: e.sanitise(raw, op, in, nil, 0)})
		}
		allInstrs(fn, func(_ *ssa.BasicBlock, _ int, in ssa.Instruction) {
			switch x := in.(type) {
			case *ssa.MakeSlice:
				add(x, "make", x.Len)
				if x.Cap != x.Len {
					add(x, "make", x.Cap)
				}
			case *ssa.MakeMap:
				add(x, "make", x.Reserve)
			case *ssa.MakeChan:
				add(x, "make", x.Size)
			case *ssa.Slice:
				add(x, "slice", x.Low)
				add(x, "slice", x.High)
				add(x, "slice", x.Max)
			case *ssa.IndexAddr:
				add(x, "index", x.Index)
			case *ssa.Index:
				add(x, "index", x.Index)
			case *ssa.Lookup:
				if c13IsInt(x.Index.Type()) {
					if _, isMap := x.X.Type().Underlying().(*types.Map); !isMap {
						add(x, "index", x.Index)
					}
				}
			case ssa.CallInstruction:
				if kind, arg, ok := c13SinkCall(x); ok {
					add(in, kind, arg)
				}
			}
		})
		sort.SliceStable(local, func(i, j int) bool { return local[i].Instr.Pos() < local[j].Instr.Pos() })
		for i := range local {
			s := &local[i]
			ord[s.Kind]++
			s.Key = fmt.Sprintf("%s#%s%d", fnName(fn), s.Kind, ord[s.Kind])
			if s.Raw.hi || s.Raw.lo || s.Raw.was {
				out = append(out, *s)
			}
		}
	}
	return out
}

// ---------------------------------------------------------------------------
// loops (C13-R2)

type c13Loop struct {
	Fn     *ssa.Function
	Header *ssa.BasicBlock
	Blocks map[*ssa.BasicBlock]bool
	Key    string
}

// c13Loops returns the natural loops of fn (back edge = edge to a dominating block), merged per header.
func c13Loops(fn *ssa.Function) []*c13Loop {
	byHeader := map[*ssa.BasicBlock]*c13Loop{}
	var order []*ssa.BasicBlock
	for _, b := range fn.Blocks {
		for _, h := range b.Succs {
			if !h.Dominates(b) {
				continue
			}
			l := byHeader[h]
			if l == nil {
				l = &c13Loop{Fn: fn, Header: h, Blocks: map[*ssa.BasicBlock]bool{h: true}}
				byHeader[h] = l
				order = append(order, h)
			}
			// blocks that reach b without passing h
			work := []*ssa.BasicBlock{b}
			for len(work) > 0 {
				x := work[len(work)-1]
				work = work[:len(work)-1]
				if l.Blocks[x] {
					continue
				}
				l.Blocks[x] = true
				work = append(work, x.Preds...)
			}
		}
	}
	sort.Slice(order, func(i, j int) bool { return c13BlockPos(order[i]) < c13BlockPos(order[j]) })
	var out []*c13Loop
	for i, h := range order {
		l := byHeader[h]
		l.Key = fmt.Sprintf("%s#loop%d", fnName(fn), i+1)
		out = append(out, l)
	}
	return out
}

func c13BlockPos(b *ssa.BasicBlock) token.Pos {
	for _, in := range b.Instrs {
		if in.Pos().IsValid() {
			return in.Pos()
		}
	}
	return token.Pos(b.Index)
}

// tripOperands: the operands of the comparisons that decide whether the loop is left, with the
// deciding If instruction.
func (l *c13Loop) exitConds() []*ssa.If {
	var out []*ssa.If
	for b := range l.Blocks {
		ifi := blockIf(b)
		if ifi == nil {
			continue
		}
		if l.Blocks[b.Succs[0]] != l.Blocks[b.Succs[1]] {
			out = append(out, ifi)
		}
	}
	sort.Slice(out, func(i, j int) bool { return out[i].Block().Index < out[j].Block().Index })
	return out
}

// programBounded: the test in the loop header leaves the loop on an ordering comparison none of whose
// operands is an unbounded peer value (for i < len(x), range over a slice), or when a range iterator
// is exhausted: the trip count is the program's, whatever other exits the body has.
// headerWas: the source of a once-peer-controlled operand of the header test (a bound that was
// sanitised before it got here), "" when there is none. Only used to count instances.
func (l *c13Loop) headerWas(e *c13Engine) string {
	ifi := blockIf(l.Header)
	if ifi == nil {
		return ""
	}
	a := condAtom(ifi.Cond)
	for _, op := range []ssa.Value{a.X, a.Y} {
		if op != nil && c13IsNum(op.Type()) {
			if t := e.eval(op); t.was {
				return t.why
			}
		}
	}
	return ""
}

func (l *c13Loop) programBounded(e *c13Engine) bool {
	ifi := blockIf(l.Header)
	if ifi == nil || l.Blocks[l.Header.Succs[0]] == l.Blocks[l.Header.Succs[1]] {
		return false
	}
	if ex, ok := ifi.Cond.(*ssa.Extract); ok {
		if _, isNext := ex.Tuple.(*ssa.Next); isNext {
			return true
		}
	}
	a := condAtom(ifi.Cond)
	switch a.Op {
	case token.LSS, token.LEQ, token.GTR, token.GEQ:
		return c13IsNum(a.X.Type()) && !e.use(a.X, ifi).hi && !e.use(a.Y, ifi).hi && !e.eval(a.X).hi && !e.eval(a.Y).hi
	}
	return false
}

// cycleAvoiding reports whether the loop body can be traversed from the header back to the header
// without passing a cut edge or a cut instruction (a witness block path is returned).
func (l *c13Loop) cycleAvoiding(cuts *Cuts) []*ssa.BasicBlock {
	blocked := func(b *ssa.BasicBlock) bool {
		for _, in := range b.Instrs {
			if cuts.Instrs[in] {
				return true
			}
		}
		return false
	}
	parent := map[*ssa.BasicBlock]*ssa.BasicBlock{}
	seen := map[*ssa.BasicBlock]bool{l.Header: true}
	queue := []*ssa.BasicBlock{l.Header}
	for len(queue) > 0 {
		b := queue[0]
		queue = queue[1:]
		if blocked(b) {
			continue
		}
		for i, s := range b.Succs {
			if !l.Blocks[s] || cuts.Edges[Edge{b, i}] {
				continue
			}
			if s == l.Header {
				path := []*ssa.BasicBlock{l.Header}
				for x := b; x != nil && x != l.Header; x = parent[x] {
					path = append(path, x)
				}
				path = append(path, l.Header)
				for i, j := 0, len(path)-1; i < j; i, j = i+1, j-1 {
					path[i], path[j] = path[j], path[i]
				}
				return path
			}
			if !seen[s] {
				seen[s] = true
				parent[s] = b
				queue = append(queue, s)
			}
		}
	}
	return nil
}

// c13EOM: which functions return a non-nil error once the peer's input (message or connection) is
// exhausted. Base facts: (*Message).ensureData with a constant demand >= 1; io.ReadFull/ReadAtLeast;
// any Read([]byte) (int, error). Derived: module functions every success return of which passes the
// nil-error edge of such a call (or hands its error straight to the caller).
type c13EOM struct {
	e      *c13Engine
	ensure *ssa.Function
	memo   map[*ssa.Function]int            // 1 in progress, 2 yes, 3 no
	memoB  map[string]map[*ssa.Function]int // the same per binding of func-typed parameters
}

func (q *c13EOM) baseHit(call ssa.CallInstruction) bool {
	cc := call.Common()
	if g := calleeFn(call); g != nil && g == q.ensure {
		if len(cc.Args) == 3 {
			if n, ok := constInt(cc.Args[2]); ok && n >= 1 {
				return true
			}
		}
		return false
	}
	o := calleeObj(call)
	if o == nil {
		return false
	}
	if o.Pkg() != nil && o.Pkg().Path() == "io" && (o.Name() == "ReadFull" || o.Name() == "ReadAtLeast") {
		return true
	}
	if o.Name() == "Read" {
		sig := o.Type().(*types.Signature)
		if sig.Recv() != nil && sig.Params().Len() == 1 && sig.Results().Len() == 2 && isErrorType(sig.Results().At(1).Type()) {
			if sl, ok := sig.Params().At(0).Type().Underlying().(*types.Slice); ok {
				if b, ok := sl.Elem().Underlying().(*types.Basic); ok && b.Kind() == types.Uint8 {
					return true
				}
			}
		}
	}
	return false
}

// c13EOMBind: the functions bound to func-typed parameters of the function under analysis (the closure a
// caller hands to a helper that runs it: "interruptible(ctx, func() error { io.ReadFull(...) })").
type c13EOMBind map[*ssa.Parameter]*ssa.Function

func (b c13EOMBind) key() string {
	if len(b) == 0 {
		return ""
	}
	var parts []string
	for p, f := range b {
		parts = append(parts, fmt.Sprintf("%p=%p", p, f))
	}
	sort.Strings(parts)
	return strings.Join(parts, ",")
}

// hit: the call errs at end of input (base fact or derived callee). A call of a func-typed parameter is
// judged by the function the caller bound to it (context-sensitive: the read wrapper's closure reads,
// the write wrapper's does not).
func (q *c13EOM) hit(call ssa.CallInstruction, depth int) bool {
	return q.hitWith(call, nil, depth)
}

func (q *c13EOM) hitWith(call ssa.CallInstruction, bind c13EOMBind, depth int) bool {
	if q.baseHit(call) {
		return true
	}
	if par, ok := call.Common().Value.(*ssa.Parameter); ok && !call.Common().IsInvoke() {
		if f := bind[par]; f != nil {
			return q.errsAtEOMWith(f, nil, depth+1)
		}
		return false
	}
	gs := q.e.callees(call)
	if len(gs) == 0 {
		return false
	}
	for _, g := range gs {
		// closures / functions handed to func-typed parameters of a static callee
		var sub c13EOMBind
		if calleeFn(call) == g {
			for i, a := range call.Common().Args {
				if i >= len(g.Params) {
					break
				}
				if _, isFunc := g.Params[i].Type().Underlying().(*types.Signature); !isFunc {
					continue
				}
				var f *ssa.Function
				switch x := a.(type) {
				case *ssa.MakeClosure:
					f, _ = x.Fn.(*ssa.Function)
				case *ssa.Function:
					f = x
				case *ssa.Parameter:
					f = bind[x]
				}
				if f != nil {
					if sub == nil {
						sub = c13EOMBind{}
					}
					sub[g.Params[i]] = f
				}
			}
		}
		if !q.errsAtEOMWith(g, sub, depth+1) {
			return false
		}
	}
	return true
}

func (q *c13EOM) errsAtEOM(g *ssa.Function, depth int) bool {
	return q.errsAtEOMWith(g, nil, depth)
}

func (q *c13EOM) errsAtEOMWith(g *ssa.Function, bind c13EOMBind, depth int) bool {
	var memo map[*ssa.Function]int
	if len(bind) == 0 {
		memo = q.memo
	} else {
		if q.memoB == nil {
			q.memoB = map[string]map[*ssa.Function]int{}
		}
		k := bind.key()
		if q.memoB[k] == nil {
			q.memoB[k] = map[*ssa.Function]int{}
		}
		memo = q.memoB[k]
	}
	switch memo[g] {
	case 1, 3:
		return false
	case 2:
		return true
	}
	if depth > 8 || g.Blocks == nil {
		return false
	}
	hasErr := false
	for i := 0; i < g.Signature.Results().Len(); i++ {
		if isErrorType(g.Signature.Results().At(i).Type()) {
			hasErr = true
		}
	}
	if !hasErr {
		memo[g] = 3
		return false
	}
	memo[g] = 1
	cuts := q.cutsInWith(g, nil, bind, depth)
	ok := true
	for _, t := range c13SuccessTargets(q.e.p, g) {
		if findPath(entryPoint(g), t.Target(), cuts) != nil {
			ok = false
			break
		}
	}
	if ok {
		memo[g] = 2
	} else {
		memo[g] = 3
	}
	return ok
}

// cutsIn: nil-error edges (or the call itself when its error is only returned) of the calls in fn
// (restricted to blocks, when given) that err at end of input.
func (q *c13EOM) cutsIn(fn *ssa.Function, blocks map[*ssa.BasicBlock]bool, depth int) *Cuts {
	return q.cutsInWith(fn, blocks, nil, depth)
}

func (q *c13EOM) cutsInWith(fn *ssa.Function, blocks map[*ssa.BasicBlock]bool, bind c13EOMBind, depth int) *Cuts {
	cuts := newCuts()
	for _, b := range fn.Blocks {
		if blocks != nil && !blocks[b] {
			continue
		}
		for _, in := range b.Instrs {
			call, ok := in.(*ssa.Call)
			if !ok || !q.hitWith(call, bind, depth) {
				continue
			}
			if succ, _, checked := callErrEdges(fn, call); checked {
				cuts.AddEdges(succ...)
			} else if c13ErrOnlyReturned(call) {
				cuts.AddInstrs(call)
			}
		}
	}
	return cuts
}

// c13RejectsEmpty: does module function g return a non-nil error whenever its string parameter idx is
// the empty string? Decided by cutting the edges the empty string cannot take: the false edge of
// strings.Index*(p, "non-empty const") == -1 / < 0, of len(p) == 0 and of p == "".
func c13RejectsEmpty(p *Prog, g *ssa.Function, idx int) bool {
	if g == nil || g.Blocks == nil || idx >= len(g.Params) {
		return false
	}
	par := g.Params[idx]
	cuts := newCuts()
	n := 0
	for _, b := range g.Blocks {
		ifi := blockIf(b)
		if ifi == nil {
			continue
		}
		a := condAtom(ifi.Cond)
		if a.Op != token.EQL && a.Op != token.NEQ && a.Op != token.LSS && a.Op != token.GEQ {
			continue
		}
		// value of the comparison for the empty string, if known
		val, known := false, false
		if call, ok := a.X.(*ssa.Call); ok {
			if o := calleeObj(call); o != nil && o.Pkg() != nil && o.Pkg().Path() == "strings" &&
				(o.Name() == "Index" || o.Name() == "IndexByte" || o.Name() == "LastIndex" || o.Name() == "IndexRune") &&
				len(call.Call.Args) == 2 && call.Call.Args[0] == ssa.Value(par) {
				needleOK := false
				if s, ok := constString(call.Call.Args[1]); ok && s != "" {
					needleOK = true
				} else if _, ok := constInt(call.Call.Args[1]); ok {
					needleOK = true
				}
				if c, ok := constInt(a.Y); ok && needleOK {
					// the call yields -1
					switch a.Op {
					case token.EQL:
						val, known = c == -1, true
					case token.NEQ:
						val, known = c != -1, true
					case token.LSS:
						val, known = -1 < c, true
					case token.GEQ:
						val, known = -1 >= c, true
					}
				}
			}
			if b, ok := call.Call.Value.(*ssa.Builtin); ok && b.Name() == "len" && call.Call.Args[0] == ssa.Value(par) {
				if c, ok := constInt(a.Y); ok {
					switch a.Op {
					case token.EQL:
						val, known = c == 0, true
					case token.NEQ:
						val, known = c != 0, true
					case token.LSS:
						val, known = 0 < c, true
					case token.GEQ:
						val, known = 0 >= c, true
					}
				}
			}
		}
		if a.X == ssa.Value(par) && (a.Op == token.EQL || a.Op == token.NEQ) {
			if s, ok := constString(a.Y); ok {
				val, known = (s == "") == (a.Op == token.EQL), true
			}
		}
		if !known {
			continue
		}
		if a.Neg {
			val = !val
		}
		n++
		if val {
			cuts.AddEdges(Edge{b, 1}) // the empty string takes the true edge
		} else {
			cuts.AddEdges(Edge{b, 0})
		}
	}
	if n == 0 {
		return false
	}
	for _, t := range c13SuccessTargets(p, g) {
		if findPath(entryPoint(g), t.Target(), cuts) != nil {
			return false
		}
	}
	return true
}
