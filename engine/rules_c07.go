package main

import (
	"fmt"
	"go/token"
	"go/types"
	"sort"
	"strings"

	"golang.org/x/tools/go/ssa"
)

func init() {
	register("C07", c06Timed("C07-R1", c07r1), c06Timed("C07-R2", c07r2), c06Timed("C07-R3", c07r3), c06Timed("C07-R4", c07r4), c06Timed("C07-R5", c07r5), c06Timed("C07-R6", c07r6))
}

// c07Desc renders the provenance of a leaf value as an access path over parameters, fields and
// static callees ("param#0.config.SecurityTag", "call:GetPeerAddr(param#0.stream)", "const:\"\"").
func c07Desc(v ssa.Value, d int) string {
	if d > 8 {
		return "?"
	}
	v = stripConv(v)
	switch x := v.(type) {
	case *ssa.Parameter:
		for i, p := range x.Parent().Params {
			if p == x {
				return fmt.Sprintf("param#%d", i)
			}
		}
	case *ssa.Const:
		return "const:" + x.String()
	case *ssa.UnOp:
		if x.Op == token.MUL {
			if fa, ok := x.X.(*ssa.FieldAddr); ok {
				return c07Desc(fa.X, d+1) + "." + fieldOfAddr(fa).Name()
			}
		}
	case *ssa.Field:
		return c07Desc(x.X, d+1) + "." + x.X.Type().Underlying().(*types.Struct).Field(x.Field).Name()
	case *ssa.Call:
		if o := calleeObj(x); o != nil {
			var as []string
			for _, a := range callArgs(x) {
				as = append(as, c07Desc(a, d+1))
			}
			return "call:" + o.Name() + "(" + strings.Join(as, ",") + ")"
		}
	case *ssa.Extract:
		return fmt.Sprintf("%s#%d", c07Desc(x.Tuple, d+1), x.Index)
	}
	return "?" + v.Type().String()
}

// c07Prov: the sorted set of provenance descriptions of v's leaf origins.
func c07Prov(fn *ssa.Function, v ssa.Value) string {
	set := map[string]bool{}
	for _, o := range origins(fn, v) {
		set[c07Desc(o, 0)] = true
	}
	var l []string
	for s := range set {
		l = append(l, s)
	}
	sort.Strings(l)
	return "{" + strings.Join(l, " | ") + "}"
}

// C07-R1: the key a client session is filed under is the key it is looked up with.
func c07r1(c *Ctx) {
	const rule = "C07-R1"
	c.Doc(rule, "the tag and address arguments of cache.LookupByCommand in ClientHandshake and of NewSessionEntry / cache.MapCommand in storeClientSession have the same provenance: tag = the SecurityTag field of the authenticator's own config, address = config.PeerName else stream.GetPeerAddr(); a constant on one side and a field on the other is a report")
	ch := c.needFn(rule, "security", "(*Authenticator).ClientHandshake")
	sc := c.needFn(rule, "security", "(*Authenticator).storeClientSession")
	lbc := c.needFn(rule, "security", "(*SessionCache).LookupByCommand")
	mc := c.needFn(rule, "security", "(*SessionCache).MapCommand")
	nse := c.needFn(rule, "security", "NewSessionEntry")
	fTag := c.needField(rule, "security", "SecurityConfig", "SecurityTag")
	fCfg := c.needField(rule, "security", "Authenticator", "config")
	if ch == nil || sc == nil || lbc == nil || mc == nil || nse == nil || fTag == nil || fCfg == nil {
		return
	}
	ownTag := func(fn *ssa.Function, v ssa.Value) bool {
		return c06AllOrigins(fn, v, func(o ssa.Value) bool {
			base, ok := c06FieldLoadOf(o, fTag)
			if !ok {
				return false
			}
			recv, ok := c06FieldLoadOf(base, fCfg)
			return ok && len(fn.Params) > 0 && recv == fn.Params[0]
		})
	}
	var tagProv, addrProv string
	nl := 0
	for _, cs := range callsIn(ch, lbc.Object()) {
		nl++
		args := callArgs(cs) // cache, tag, addr, command
		tagProv, addrProv = c07Prov(ch, args[1]), c07Prov(ch, args[2])
		c.Check(ownTag(ch, args[1]), rule, fnName(ch)+"#LookupByCommand:tag", "the lookup tag is the authenticator's own SecurityTag "+tagProv,
			"the lookup tag is not the authenticator's own config.SecurityTag: "+tagProv, cs.Pos())
	}
	c.MinCount(rule, "LookupByCommand calls in ClientHandshake", nl, 1)
	if nl != 1 {
		if nl > 1 {
			c.Undecided(rule, fnName(ch)+"#LookupByCommand", "several command lookups: which one the filing must agree with is not decided", ch.Pos())
		}
		return
	}
	nf := 0
	chk := func(cs ssa.CallInstruction, what string, tag, addr ssa.Value) {
		nf++
		tp, ap := c07Prov(sc, tag), c07Prov(sc, addr)
		c.Check(ownTag(sc, tag) && tp == tagProv, rule, fnName(sc)+"#"+what+":tag", "filed under the tag it is looked up with "+tp,
			"the session is filed under tag "+tp+" but looked up under "+tagProv+": a session established under one tag is ridden by handshakes of another (or none) and never by its own", cs.Pos())
		c.Check(ap == addrProv, rule, fnName(sc)+"#"+what+":addr", "filed under the address it is looked up with "+ap,
			"the session is filed under address "+ap+" but looked up under "+addrProv, cs.Pos())
	}
	for _, cs := range callsIn(sc, nse.Object()) {
		a := callArgs(cs) // id, addr, keyInfo, policy, expiration, lease, tag
		if len(a) != 7 {
			c.Undecided(rule, fnName(sc)+"#NewSessionEntry", "unexpected NewSessionEntry signature", cs.Pos())
			continue
		}
		chk(cs, "NewSessionEntry", a[6], a[1])
	}
	for _, cs := range callsIn(sc, mc.Object()) {
		a := callArgs(cs) // cache, tag, addr, command, sessionID
		if len(a) != 5 {
			c.Undecided(rule, fnName(sc)+"#MapCommand", "unexpected MapCommand signature", cs.Pos())
			continue
		}
		chk(cs, "MapCommand", a[1], a[2])
	}
	c.MinCount(rule, "filing sites in storeClientSession", nf, 2)
}

// C07-R2: the commands mapped are the ones the server declared.
func c07r2(c *Ctx) {
	const rule = "C07-R2"
	c.Doc(rule, "the command strings storeClientSession maps are derived from negotiation.ValidCommands, and every assignment of SecurityNegotiation.ValidCommands in the module takes its value from the ValidCommands attribute of a received ad or of a cached policy")
	sc := c.needFn(rule, "security", "(*Authenticator).storeClientSession")
	mc := c.needFn(rule, "security", "(*SessionCache).MapCommand")
	fVC := c.needField(rule, "security", "SecurityNegotiation", "ValidCommands")
	if sc == nil || mc == nil || fVC == nil {
		return
	}
	n := 0
	for _, cs := range callsIn(sc, mc.Object()) {
		n++
		a := callArgs(cs)
		ok := len(a) == 5 && mustDepend(sc, a[3], func(v ssa.Value) bool {
			base, isF := c06FieldLoadOf(v, fVC)
			return isF && len(sc.Params) > 1 && base == sc.Params[1]
		})
		c.Check(ok, rule, fnName(sc)+"#MapCommand:command", "mapped commands come from negotiation.ValidCommands", "a mapped command is not derived from negotiation.ValidCommands (the server's declaration)", cs.Pos())
	}
	c.MinCount(rule, "MapCommand calls in storeClientSession", n, 1)
	nw := 0
	for _, acc := range c.fieldAccesses(fVC) {
		fa, ok := acc.Instr.(*ssa.FieldAddr)
		if !ok || !acc.Write {
			continue
		}
		for _, r := range *fa.Referrers() {
			st, ok := r.(*ssa.Store)
			if !ok || st.Addr != fa {
				continue
			}
			nw++
			good := c06AllOrigins(acc.Fn, st.Val, func(o ssa.Value) bool {
				_, _, name, idx, ok := c06AttrLookup(o)
				return ok && idx == 0 && name == "ValidCommands"
			})
			c.Check(good, rule, fnName(acc.Fn)+"#store:ValidCommands", "ValidCommands is taken from the ValidCommands attribute of an ad",
				"ValidCommands is assigned from something other than an ad's ValidCommands attribute", st.Pos())
		}
	}
	c.MinCount(rule, "assignments of SecurityNegotiation.ValidCommands", nw, 2)
}

// c07VarArgs returns the values boxed into the variadic slice argument v ([]any built by the compiler).
func c07VarArgs(fn *ssa.Function, v ssa.Value) []ssa.Value {
	sl, ok := v.(*ssa.Slice)
	if !ok {
		return nil
	}
	arr, ok := sl.X.(*ssa.Alloc)
	if !ok {
		return nil
	}
	byIdx := map[int64]ssa.Value{}
	max := int64(-1)
	for _, r := range *arr.Referrers() {
		ia, ok := r.(*ssa.IndexAddr)
		if !ok {
			continue
		}
		i, isC := constInt(ia.Index)
		if !isC {
			return nil
		}
		for _, u := range *ia.Referrers() {
			if st, ok := u.(*ssa.Store); ok && st.Addr == ia {
				byIdx[i] = stripConv(st.Val)
				if i > max {
					max = i
				}
			}
		}
	}
	var out []ssa.Value
	for i := int64(0); i <= max; i++ {
		out = append(out, byIdx[i])
	}
	return out
}

// c07KeyShape abstracts how f builds its commandMap key: one line per fmt.Sprintf feeding the key.
func (c *Ctx) c07KeyShape(rule string, f *ssa.Function, fCmd *types.Var) ([]string, bool) {
	var keyVals []ssa.Value
	allInstrs(f, func(_ *ssa.BasicBlock, _ int, in ssa.Instruction) {
		switch x := in.(type) {
		case *ssa.Lookup:
			if readsField(x.X, fCmd) {
				keyVals = append(keyVals, x.Index)
			}
		case *ssa.MapUpdate:
			if readsField(x.Map, fCmd) {
				keyVals = append(keyVals, x.Key)
			}
		}
	})
	if len(keyVals) != 1 {
		c.Undecided(rule, fnName(f)+"#commandMap-key", fmt.Sprintf("expected exactly one commandMap access, found %d", len(keyVals)), f.Pos())
		return nil, false
	}
	if len(f.Params) < 2 {
		return nil, false
	}
	tagCmps := c06StringCompares(f, f.Params[1])
	var shape []string
	for _, o := range origins(f, keyVals[0]) {
		cl, ok := o.(*ssa.Call)
		co := calleeObj(cl)
		if !ok || co == nil || co.Pkg() == nil || co.Pkg().Path() != "fmt" || co.Name() != "Sprintf" {
			c.Undecided(rule, fnName(f)+"#commandMap-key", "the key is not built by fmt.Sprintf: "+c07Desc(o, 0), f.Pos())
			return nil, false
		}
		format, _ := constString(cl.Call.Args[0])
		var as []string
		for _, a := range c07VarArgs(f, cl.Call.Args[1]) {
			if a == nil {
				as = append(as, "?")
			} else {
				as = append(as, c07Desc(a, 0))
			}
		}
		when := "always"
		for _, cm := range tagCmps {
			if cm.Const != "" {
				continue
			}
			if instrDominatedByEdge(f, cm.NeqEdge, cl) {
				when = `param#1!=""`
			} else if instrDominatedByEdge(f, cm.EqEdge, cl) {
				when = `param#1==""`
			}
		}
		shape = append(shape, fmt.Sprintf("when %s: Sprintf(%q, %s)", when, format, strings.Join(as, ", ")))
	}
	sort.Strings(shape)
	return shape, true
}

// C07-R3: lookup and mapping build the same key.
func c07r3(c *Ctx) {
	const rule = "C07-R3"
	c.Doc(rule, "LookupByCommand and MapCommand build the commandMap key with the same fmt.Sprintf formats over the same parameters (tag, addr, command) under the same tag-empty/non-empty branches")
	lbc := c.needFn(rule, "security", "(*SessionCache).LookupByCommand")
	mc := c.needFn(rule, "security", "(*SessionCache).MapCommand")
	fCmd := c.needField(rule, "security", "SessionCache", "commandMap")
	if lbc == nil || mc == nil || fCmd == nil {
		return
	}
	s1, ok1 := c.c07KeyShape(rule, lbc, fCmd)
	s2, ok2 := c.c07KeyShape(rule, mc, fCmd)
	if !ok1 || !ok2 {
		return
	}
	j1, j2 := strings.Join(s1, " ; "), strings.Join(s2, " ; ")
	c.Check(j1 == j2, rule, "commandMap-key:LookupByCommand=MapCommand", "both build the key as "+j1,
		"LookupByCommand builds the key as ["+j1+"] but MapCommand as ["+j2+"]: mapped commands are never found (or found under another tag/address)", mc.Pos())
	c.MinCount(rule, "key formats", len(s1), 2)
	for _, sh := range s1 {
		for _, p := range []string{"param#2", "param#3"} {
			c.Check(strings.Contains(sh, p), rule, "commandMap-key:uses-"+p+"/"+strings.SplitN(sh, ":", 2)[0], "the key includes "+p, "a key format omits "+p+" (address/command): sessions of different servers or commands collide", lbc.Pos())
		}
	}
	tagged := false
	for _, sh := range s1 {
		if strings.Contains(sh, "param#1,") || strings.Contains(sh, "param#1)") {
			tagged = true
		}
	}
	c.Check(tagged, rule, "commandMap-key:uses-tag", "a key format includes the tag", "no key format includes the tag: sessions of different tags collide", lbc.Pos())
}

// C07-R4: a failed resumption drops the cached session.
func c07r4(c *Ctx) {
	const rule = "C07-R4"
	c.Doc(rule, "resumeSession: every error return invalidates the cached session (cache.Invalidate(entry.ID()) on the way, directly or inside the fail closure it returns through) and yields a *SessionResumptionError so the caller retries with a full handshake; frozen exceptions: exits taken after the server answered with something other than the 'session gone' code, and the local key-install failure")
	a := c06Resolve(c, rule)
	if a == nil {
		return
	}
	R := a.R
	idFn := c.needFn(rule, "security", "(*SessionEntry).ID")
	sre := c.needObj(rule, "security", "SessionResumptionError")
	if idFn == nil || sre == nil {
		return
	}
	// invalidating calls: Invalidate(cache param, ID(entry param)) in R or in a closure of R over the same cells
	isInvalidate := func(fn *ssa.Function, in ssa.Instruction) bool {
		cl, ok := isCallTo(in, a.invalidate.Object())
		if !ok {
			return false
		}
		args := callArgs(cl)
		if len(args) != 2 {
			return false
		}
		idc := c06CallOf(args[1], idFn.Object())
		if idc == nil {
			return false
		}
		return c07IsParamCell(fn, R, callArgs(idc)[0], 2) && c07IsParamCell(fn, R, args[0], 3)
	}
	invalidates := func(fn *ssa.Function) []ssa.Instruction {
		var out []ssa.Instruction
		allInstrs(fn, func(_ *ssa.BasicBlock, _ int, in ssa.Instruction) {
			if isInvalidate(fn, in) {
				out = append(out, in)
			}
		})
		return out
	}
	// frozen exception edges
	type exc struct {
		edges  []Edge
		reason string
	}
	var excs []exc
	gone, cmps := a.clientCodes(R)
	var answered []Edge
	for _, cm := range cmps {
		if gone[cm.Const] {
			answered = append(answered, cm.NeqEdge)
		}
	}
	// an absent ReturnCode: the "present" result of the lookup is false
	allInstrs(R, func(_ *ssa.BasicBlock, _ int, in ssa.Instruction) {
		if ex, ok := in.(*ssa.Extract); ok && ex.Index == 1 {
			if _, _, name, _, ok := c06AttrLookup(ex); ok && name == "ReturnCode" {
				_, f := boolEdges(R, ex)
				answered = append(answered, f...)
			}
		}
	})
	excs = append(excs, exc{answered, "the server answered, and not with the 'session gone' code: it has not said it forgot the session and the exchange completed (property: drop only when 'the server no longer knows the session or the exchange breaks')"})
	var installFail []Edge
	for _, cs := range callsIn(R, a.S.Object(), a.setKey.Object()) {
		_, f, _ := callErrEdges(R, cs.Value())
		installFail = append(installFail, f...)
	}
	excs = append(excs, exc{installFail, "local key installation failed after the exchange completed: neither 'the server no longer knows the session' nor 'the exchange breaks'"})
	// anything that fails after the server's success code was seen is a local refusal
	okCodes := map[string]bool{}
	for _, r := range a.replies(a.H) {
		if r.Code != "" && !gone[r.Code] {
			okCodes[r.Code] = true
		}
	}
	var accepted []Edge
	for _, cm := range cmps {
		if okCodes[cm.Const] {
			accepted = append(accepted, cm.EqEdge)
		}
	}
	excs = append(excs, exc{accepted, "the server accepted the resumption (it knows the session and the exchange completed); what fails afterwards is a local decision, not 'the server no longer knows the session or the exchange breaks'"})
	// exits taken before anything was sent are not failures of a resumption attempt
	var ioCalls []ssa.Instruction
	allInstrs(R, func(_ *ssa.BasicBlock, _ int, in ssa.Instruction) {
		if cl, ok := in.(ssa.CallInstruction); ok {
			if o := calleeObj(cl); o != nil && o.Pkg() != nil && o.Pkg() == a.putAd.Object().Pkg() {
				if sig, ok := o.Type().(*types.Signature); ok && sig.Recv() != nil {
					ioCalls = append(ioCalls, in)
				}
			}
		}
	})
	c.MinCount(rule, "message I/O calls in resumeSession", len(ioCalls), 4)

	isSucc := map[*ssa.Return]bool{}
	for _, t := range c.c06SuccessTargets(R) {
		isSucc[t.Ret] = true
	}
	rInv := invalidates(R)
	nClosure, nDirect, nExc := 0, 0, 0
	seen := map[*ssa.Return]bool{}
	for _, r := range c.returnsOf(R) {
		if isSucc[r.Ret] || seen[r.Ret] {
			continue
		}
		seen[r.Ret] = true
		construct := fmt.Sprintf("%s#return%d:invalidates", fnName(R), retOrdinal(R, r.Ret))
		ev := c06ErrOperand(R, r.Ret)
		afterIO := false
		for _, io := range ioCalls {
			if findPath(after(io), r.Target(), nil) != nil {
				afterIO = true
			}
		}
		if !afterIO {
			c.Ok(rule, construct, "excepted: taken before anything was sent on the connection: no resumption was attempted", r.Ret.Pos())
			continue
		}
		if g := c.c06ErrFromNeverNil(R, r); g != nil && g.Parent() == R {
			// "return fail(...)": the closure must invalidate on every path and build a SessionResumptionError
			nClosure++
			gInv := invalidates(g)
			var wit []*ssa.BasicBlock
			for _, gr := range c.returnsOf(g) {
				if p := findPath(entryPoint(g), gr.Target(), newCuts().AddInstrs(gInv...)); p != nil {
					wit = p
				}
			}
			c.Check(wit == nil && len(gInv) > 0, rule, construct, "returns through "+fnName(g)+", which invalidates the cached session",
				"returns through "+fnName(g)+", which does not call cache.Invalidate(entry.ID()) on every path: the stale session stays cached and every reconnect re-attempts the doomed resumption", r.Ret.Pos(), c.describePath(wit)...)
			c.Check(c07ReturnsSRE(g, sre), rule, construct+"/retryable", "the error is a *SessionResumptionError", "the error built by "+fnName(g)+" is not a *SessionResumptionError: the client does not retry with a full handshake", r.Ret.Pos())
			continue
		}
		p := findPath(entryPoint(R), r.Target(), newCuts().AddInstrs(rInv...))
		if p == nil {
			nDirect++
			c.Ok(rule, construct, "every path to this error return invalidates the cached session", r.Ret.Pos())
			isSRE := ev != nil && c06AllOrigins(R, ev, func(o ssa.Value) bool { return c07IsSREValue(o, sre) })
			c.Check(isSRE, rule, construct+"/retryable", "the error is a *SessionResumptionError", "the error is not a *SessionResumptionError: the client does not retry with a full handshake", r.Ret.Pos())
			continue
		}
		excepted := ""
		for _, x := range excs {
			for _, e := range x.edges {
				if instrDominatedByEdge(R, e, r.Ret) {
					excepted = x.reason
				}
			}
		}
		if excepted != "" {
			nExc++
			c.Ok(rule, construct, "excepted: "+excepted, r.Ret.Pos())
			continue
		}
		c.Violate(rule, construct, "an error exit of the resumption exchange leaves the session cached (no cache.Invalidate(entry.ID()) on the way): every reconnect re-attempts the doomed resumption", r.Ret.Pos(), c.describePath(p)...)
	}
	c.MinCount(rule, "error returns through the fail closure", nClosure, 4)
	c.MinCount(rule, "error returns invalidating directly", nDirect, 1)
	c.MinCount(rule, "excepted error returns", nExc, 2)
}

// c07IsParamCell: v (in fn, which is outer or a closure of outer) denotes outer's parameter #idx,
// directly, through the parameter's spill cell, or through the closure's free variable bound to that cell.
func c07IsParamCell(fn, outer *ssa.Function, v ssa.Value, idx int) bool {
	if idx >= len(outer.Params) {
		return false
	}
	par := outer.Params[idx]
	isCellOf := func(addr ssa.Value) bool {
		al, ok := addr.(*ssa.Alloc)
		if !ok {
			return false
		}
		n := 0
		for _, r := range *al.Referrers() {
			if st, ok := r.(*ssa.Store); ok && st.Addr == al {
				n++
				if st.Val != par {
					return false
				}
			}
		}
		return n == 1
	}
	for _, o := range origins(fn, v) {
		if o == ssa.Value(par) {
			continue
		}
		ld, ok := o.(*ssa.UnOp)
		if !ok || ld.Op != token.MUL {
			return false
		}
		switch x := ld.X.(type) {
		case *ssa.Alloc:
			if !isCellOf(x) {
				return false
			}
		case *ssa.FreeVar:
			// find the binding in outer's MakeClosure of fn
			bound := false
			fi := -1
			for i, fv := range fn.FreeVars {
				if fv == x {
					fi = i
				}
			}
			allInstrs(outer, func(_ *ssa.BasicBlock, _ int, in ssa.Instruction) {
				if mc, ok := in.(*ssa.MakeClosure); ok && mc.Fn == fn && fi >= 0 && fi < len(mc.Bindings) {
					if isCellOf(mc.Bindings[fi]) {
						bound = true
					}
				}
			})
			if !bound {
				return false
			}
		default:
			return false
		}
	}
	return true
}

// c07IsSREValue: o (a leaf origin of an error value; origins() looks through MakeInterface) is a *SessionResumptionError.
func c07IsSREValue(o ssa.Value, sre types.Object) bool {
	if mi, ok := o.(*ssa.MakeInterface); ok {
		o = mi.X
	}
	pt, ok := o.Type().(*types.Pointer)
	return ok && types.Identical(pt.Elem(), sre.Type())
}

// c07ReturnsSRE: every return of g yields a *SessionResumptionError as its error.
func c07ReturnsSRE(g *ssa.Function, sre types.Object) bool {
	n := 0
	for _, b := range g.Blocks {
		if len(b.Instrs) == 0 {
			continue
		}
		ret, ok := b.Instrs[len(b.Instrs)-1].(*ssa.Return)
		if !ok {
			continue
		}
		n++
		ev := c06ErrOperand(g, ret)
		if ev == nil || !c06AllOrigins(g, ev, func(o ssa.Value) bool { return c07IsSREValue(o, sre) }) {
			return false
		}
	}
	return n > 0
}

// C07-R5: routes die with the session.
func c07r5(c *Ctx) {
	const rule = "C07-R5"
	c.Doc(rule, "Invalidate and InvalidateExpired sweep commandMap in a complete loop (range over commandMap, delete(commandMap, key) for every entry whose session id is the removed one / is no longer in sessions, no early exit) on every path that removed a session; LookupByCommand follows a mapping only to an entry present in sessions and not expired; only the cache's own removers delete from sessions")
	a := c06Resolve(c, rule)
	inve := c.needFn(rule, "security", "(*SessionCache).InvalidateExpired")
	isExp := c.needFn(rule, "security", "(*SessionEntry).IsExpired")
	clr := c.needFn(rule, "security", "(*SessionCache).Clear")
	fSess := c.needField(rule, "security", "SessionCache", "sessions")
	fCmd := c.needField(rule, "security", "SessionCache", "commandMap")
	if a == nil || inve == nil || isExp == nil || clr == nil || fSess == nil || fCmd == nil {
		return
	}
	isDelete := func(in ssa.Instruction, f *types.Var) *ssa.Call {
		cl, ok := in.(*ssa.Call)
		if !ok {
			return nil
		}
		if bi, ok := cl.Call.Value.(*ssa.Builtin); ok && bi.Name() == "delete" && readsField(cl.Call.Args[0], f) {
			return cl
		}
		return nil
	}
	for _, f := range []*ssa.Function{a.invalidate, inve} {
		var sweeps []*ssa.Call
		var sessDels []ssa.Instruction
		allInstrs(f, func(_ *ssa.BasicBlock, _ int, in ssa.Instruction) {
			if d := isDelete(in, fCmd); d != nil {
				sweeps = append(sweeps, d)
			}
			if d := isDelete(in, fSess); d != nil {
				sessDels = append(sessDels, d)
			}
		})
		if len(sweeps) == 0 {
			c.Violate(rule, fnName(f)+"#sweep", "no delete(commandMap, …): command mappings of a removed session survive it and route to whatever is later stored under the same id", f.Pos())
			continue
		}
		for _, d := range sweeps {
			// the deleted key is the key of a range over commandMap
			var next *ssa.Next
			if ex, ok := d.Call.Args[1].(*ssa.Extract); ok && ex.Index == 1 {
				next, _ = ex.Tuple.(*ssa.Next)
			}
			var rng *ssa.Range
			if next != nil {
				rng, _ = next.Iter.(*ssa.Range)
			}
			okRange := rng != nil && readsField(rng.X, fCmd)
			c.Check(okRange, rule, fnName(f)+"#sweep:range-key", "the sweep deletes the keys of a range over commandMap", "the deleted commandMap key is not the key of a range over commandMap", d.Pos())
			if !okRange {
				continue
			}
			// guard: the mapping's value is the removed id (Invalidate) or misses in sessions (InvalidateExpired)
			val := extractN(next, 2)
			guarded := false
			for _, b := range f.Blocks {
				ifi := blockIf(b)
				if ifi == nil || val == nil {
					continue
				}
				at := condAtom(ifi.Cond)
				switch at.Op {
				case token.EQL, token.NEQ:
					var other ssa.Value
					if at.X == val {
						other = at.Y
					} else if at.Y == val {
						other = at.X
					}
					if other == nil || len(f.Params) < 2 || other != ssa.Value(f.Params[1]) {
						continue
					}
					eq := Edge{b, 0}
					if (at.Op == token.NEQ) != at.Neg {
						eq = Edge{b, 1}
					}
					if instrDominatedByEdge(f, eq, d) {
						guarded = true
					}
				case token.ILLEGAL:
					ex, ok := at.X.(*ssa.Extract)
					if !ok || ex.Index != 1 {
						continue
					}
					lk, ok := ex.Tuple.(*ssa.Lookup)
					if !ok || !readsField(lk.X, fSess) || lk.Index != val {
						continue
					}
					miss := Edge{b, 1}
					if at.Neg {
						miss = Edge{b, 0}
					}
					if instrDominatedByEdge(f, miss, d) {
						guarded = true
					}
				}
			}
			c.Check(guarded, rule, fnName(f)+"#sweep:guard", "a mapping is deleted exactly when its session is the removed one / is gone", "the sweep's delete is not guarded by 'value == removed id' / 'value not in sessions'", d.Pos())
			// complete loop: after a delete the only way on is back through next
			var wit []*ssa.BasicBlock
			for _, r := range c.c06LiveReturns(f) {
				if p := findPath(after(d), r.Target(), newCuts().AddInstrs(next)); p != nil {
					wit = p
				}
			}
			c.Check(wit == nil, rule, fnName(f)+"#sweep:complete", "the sweep continues after each delete", "the sweep can stop after deleting one mapping: the session's other command mappings survive", d.Pos(), c.describePath(wit)...)
			// every path that removed a session runs the sweep
			for _, sd := range sessDels {
				var w2 []*ssa.BasicBlock
				for _, r := range c.c06LiveReturns(f) {
					if p := findPath(after(sd), r.Target(), newCuts().AddInstrs(rng)); p != nil {
						w2 = p
					}
				}
				c.Check(w2 == nil, rule, fnName(f)+"#sweep:after-removal", "every removal of a session is followed by the sweep", "a session can be removed and the function return without sweeping commandMap", sd.Pos(), c.describePath(w2)...)
			}
		}
		c.MinCount(rule, "session removals in "+fnName(f), len(sessDels), 1)
	}
	// LookupByCommand: mapping -> present, unexpired entry
	c.c06AccessorChecks(rule, a.lookupByCmd, isExp, fSess)
	// who deletes from sessions / replaces the maps
	allow := map[*ssa.Function]string{
		a.invalidate: "sweeps commandMap (checked above)",
		inve:         "sweeps commandMap (checked above)",
		a.lookupNE:   "exception: lazy removal of an expired entry; its mappings can no longer be followed (LookupByCommand requires the entry in sessions, checked above) and InvalidateExpired sweeps them",
	}
	nd := 0
	for _, fn := range c.ModFns {
		allInstrs(fn, func(_ *ssa.BasicBlock, _ int, in ssa.Instruction) {
			if d := isDelete(in, fSess); d != nil {
				nd++
				t := topFn(fn)
				if why, ok := allow[t]; ok {
					c.Ok(rule, "delete(sessions)@"+fnName(t), why, d.Pos())
				} else {
					c.Violate(rule, "delete(sessions)@"+fnName(t), fnName(t)+" removes a session without being one of the removers that sweep commandMap", d.Pos())
				}
			}
		})
	}
	c.MinCount(rule, "delete(sessions, …) sites", nd, 3)
	// Clear replaces both maps
	sStores, cStores := c06StoresToField(clr, fSess), c06StoresToField(clr, fCmd)
	c.Check(len(sStores) > 0 && len(cStores) > 0, rule, fnName(clr)+"#both-maps", "Clear resets sessions and commandMap together", "Clear resets sessions without resetting commandMap", clr.Pos())
}

// C07-R6: the connect helper retries a failed resumption on a fresh connection.
func c07r6(c *Ctx) {
	const rule = "C07-R6"
	c.Doc(rule, "ConnectAndAuthenticateWithConfig: when ClientHandshake fails with a session-resumption error the failed client is closed and the loop goes round again through NewClient/Connect (a fresh connection, full handshake since the session was dropped); success is returned only when the handshake error is nil")
	f := c.needFn(rule, "client", "ConnectAndAuthenticateWithConfig")
	isSRE := c.needFn(rule, "security", "IsSessionResumptionError")
	chs := c.needFn(rule, "security", "(*Authenticator).ClientHandshake")
	newC := c.needFn(rule, "client", "NewClient")
	conn := c.needFn(rule, "client", "(*HTCondorClient).Connect")
	cls := c.needFn(rule, "client", "(*HTCondorClient).Close")
	newA := c.needFn(rule, "security", "NewAuthenticator")
	fSec := c.needField(rule, "client", "ClientConfig", "Security")
	if f == nil || isSRE == nil || chs == nil || newC == nil || conn == nil || cls == nil || newA == nil || fSec == nil {
		return
	}
	hs := callsIn(f, chs.Object())
	c.MinCount(rule, "ClientHandshake calls", len(hs), 1)
	// success = a return that hands back a client (result #0 is not the nil constant)
	var succ []RetPoint
	for _, r := range c.returnsOf(f) {
		if len(r.Ret.Results) == 2 && !isNilConst(r.Ret.Results[0]) {
			succ = append(succ, r)
		}
	}
	c.MinCount(rule, "returns handing back a client", len(succ), 1)
	secNil, _ := c07SecurityNilEdges(f, fSec)
	n := 0
	for _, t := range callsIn(f, isSRE.Object()) {
		n++
		// its argument is the handshake's error
		argOK := c06AllOrigins(f, callArgs(t)[0], func(o ssa.Value) bool {
			ex, ok := o.(*ssa.Extract)
			return ok && c06CallOf(o, chs.Object()) != nil && isErrorType(ex.Type())
		})
		c.Check(argOK, rule, fnName(f)+"#IsSessionResumptionError:arg", "the tested error is ClientHandshake's", "IsSessionResumptionError is not applied to ClientHandshake's error", t.Pos())
		te, _ := boolEdges(f, t.Value())
		if len(te) == 0 {
			c.Violate(rule, fnName(f)+"#retry", "the result of IsSessionResumptionError is not branched on", t.Pos())
			continue
		}
		for _, e := range te {
			start := Point{e.To(), 0}
			if len(e.To().Instrs) == 0 {
				continue
			}
			closes := callsIn(f, cls.Object())
			var closeI, newI, connI []ssa.Instruction
			for _, x := range closes {
				closeI = append(closeI, x)
			}
			for _, x := range callsIn(f, newC.Object()) {
				newI = append(newI, x)
			}
			for _, x := range callsIn(f, conn.Object()) {
				connI = append(connI, x)
			}
			// (1) the loop goes round: NewClient is reachable again
			again := false
			for _, x := range newI {
				if findPath(start, Target{Instr: x}, nil) != nil {
					again = true
				}
			}
			c.Check(again, rule, fnName(f)+"#retry:new-connection", "a resumption failure leads back to NewClient", "after a resumption failure the function does not go back to NewClient: no retry with a full handshake", t.Pos())
			// (2) the failed client is closed before anything else happens
			var wit []*ssa.BasicBlock
			for _, x := range newI {
				if p := findPath(start, Target{Instr: x}, newCuts().AddInstrs(closeI...)); p != nil {
					wit = p
				}
			}
			for _, r := range c.returnsOf(f) {
				if p := findPath(start, r.Target(), newCuts().AddInstrs(closeI...)); p != nil {
					wit = p
				}
			}
			c.Check(wit == nil && len(closeI) > 0, rule, fnName(f)+"#retry:close-first", "the failed connection is closed before retrying or returning", "after a resumption failure the connection is not closed on some path", t.Pos(), c.describePath(wit)...)
			// (3) no handshake on the old connection: ClientHandshake is reached again only through NewClient and Connect
			var w3 []*ssa.BasicBlock
			for _, h := range hs {
				if p := findPath(start, Target{Instr: h}, newCuts().AddInstrs(newI...)); p != nil {
					w3 = p
				}
				if p := findPath(start, Target{Instr: h}, newCuts().AddInstrs(connI...)); p != nil {
					w3 = p
				}
			}
			c.Check(w3 == nil, rule, fnName(f)+"#retry:fresh-stream", "the retry handshakes on a new client and connection", "the retry can handshake again without NewClient/Connect: it reuses the stream the failed resumption left unusable", t.Pos(), c.describePath(w3)...)
			// (4) a success return is not reachable from the failure edge without a new handshake
			var w4 []*ssa.BasicBlock
			var hsI []ssa.Instruction
			for _, h := range hs {
				hsI = append(hsI, h)
			}
			for _, r := range succ {
				if p := findPath(start, r.Target(), newCuts().AddInstrs(hsI...).AddEdges(secNil...)); p != nil {
					w4 = p
				}
			}
			c.Check(w4 == nil, rule, fnName(f)+"#retry:no-success-without-handshake", "a resumption failure never falls through to success", "a resumption failure can fall through to a success return", t.Pos(), c.describePath(w4)...)
		}
	}
	c.MinCount(rule, "IsSessionResumptionError tests", n, 1)
	// the authenticator handshaking is built on the client's own stream of this iteration
	for _, h := range hs {
		recv := callArgs(h)[0]
		ok := c06AllOrigins(f, recv, func(o ssa.Value) bool { return c06CallOf(o, newA.Object()) != nil })
		c.Check(ok, rule, fnName(f)+"#handshake:authenticator", "the handshake runs on a NewAuthenticator of this attempt", "the handshake's authenticator is not a NewAuthenticator of this attempt", h.Pos())
		// success requires err == nil
		succE, _, checked := callErrEdges(f, h.Value())
		cuts := newCuts().AddEdges(succE...)
		// attempts without security configured skip the handshake altogether
		cuts.AddEdges(secNil...)
		var w []*ssa.BasicBlock
		for _, r := range succ {
			if p := findPath(entryPoint(f), r.Target(), cuts); p != nil {
				w = p
			}
		}
		c.Check(checked && w == nil, rule, fnName(f)+"#success=>handshake-ok", "success is returned only past a nil handshake error (or with no security configured)", "a success return is reachable without a nil ClientHandshake error", h.Pos(), c.describePath(w)...)
	}
}

// c07SecurityNilEdges: edges on which config.Security is nil (no handshake requested).
func c07SecurityNilEdges(f *ssa.Function, fSec *types.Var) (nilE, nonNil []Edge) {
	for _, b := range f.Blocks {
		ifi := blockIf(b)
		if ifi == nil {
			continue
		}
		at := condAtom(ifi.Cond)
		if at.Op != token.EQL && at.Op != token.NEQ {
			continue
		}
		var x ssa.Value
		if isNilConst(at.Y) {
			x = at.X
		} else if isNilConst(at.X) {
			x = at.Y
		} else {
			continue
		}
		_, fld, ok := fieldRead(stripConv(x))
		if !ok || fld != fSec {
			continue
		}
		eqNil := at.Op == token.EQL
		if at.Neg {
			eqNil = !eqNil
		}
		if eqNil {
			nilE = append(nilE, Edge{b, 0})
			nonNil = append(nonNil, Edge{b, 1})
		} else {
			nilE = append(nilE, Edge{b, 1})
			nonNil = append(nonNil, Edge{b, 0})
		}
	}
	return
}
