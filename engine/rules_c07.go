package main

import (
	"fmt"
	"go/token"
	"go/types"
	"sort"
	"strings"

	"golang.org/x/tools/go/ssa"
)

func init() {
	register("C07", c06Timed("C07-R1", c07r1), c06Timed("C07-R2", c07r2), c06Timed("C07-R3", c07r3), c06Timed("C07-R4", c07r4), c06Timed("C07-R5", c07r5), c06Timed("C07-R6", c07r6))
}

// c07Desc renders the provenance of a leaf value as an access path over parameters, fields and
// static callees ("param#0.config.SecurityTag", "call:GetPeerAddr(param#0.stream)", "const:\"\"").
// Leaves are values of a view: what a helper receives is described by what its call site passes.
func (vw *c06View) Desc(o c06FV, d int) string {
	if d > 8 || o.V == nil {
		return "?"
	}
	v := stripConv(o.V)
	switch x := v.(type) {
	case *ssa.Parameter:
		if i := c06ParamIndex(o.F.Fn, x); i >= 0 {
			if o.F == vw.Root {
				return fmt.Sprintf("param#%d", i)
			}
			return fmt.Sprintf("param#%d@%s", i, fnName(o.F.Fn))
		}
	case *ssa.Const:
		return "const:" + x.String()
	case *ssa.Global:
		return "global:" + x.Name()
	case *ssa.UnOp:
		if x.Op == token.MUL {
			if fa, ok := x.X.(*ssa.FieldAddr); ok {
				return vw.prov1(c06FV{fa.X, o.F}, d+1) + "." + fieldOfAddr(fa).Name()
			}
			if g, ok := x.X.(*ssa.Global); ok {
				return "global:" + g.Name()
			}
		}
	case *ssa.Field:
		return vw.prov1(c06FV{x.X, o.F}, d+1) + "." + x.X.Type().Underlying().(*types.Struct).Field(x.Field).Name()
	case *ssa.Call:
		if ob := calleeObj(x); ob != nil {
			var as []string
			for _, a := range callArgs(x) {
				as = append(as, vw.prov1(c06FV{a, o.F}, d+1))
			}
			return "call:" + ob.Name() + "(" + strings.Join(as, ",") + ")"
		}
	case *ssa.Extract:
		return fmt.Sprintf("%s#%d", vw.Desc(c06FV{x.Tuple, o.F}, d+1), x.Index)
	case *ssa.BinOp:
		return "(" + vw.prov1(c06FV{x.X, o.F}, d+1) + x.Op.String() + vw.prov1(c06FV{x.Y, o.F}, d+1) + ")"
	}
	return "?" + v.Type().String()
}

// prov1 describes a sub-value: the description of its single leaf origin, or the set of them.
func (vw *c06View) prov1(v c06FV, d int) string {
	set := map[string]bool{}
	for _, o := range vw.Origins(v) {
		set[vw.Desc(o, d)] = true
	}
	var l []string
	for s := range set {
		l = append(l, s)
	}
	sort.Strings(l)
	if len(l) == 1 {
		return l[0]
	}
	return "{" + strings.Join(l, " | ") + "}"
}

// Prov: the sorted set of provenance descriptions of v's leaf origins.
func (vw *c06View) Prov(v c06FV) string {
	set := map[string]bool{}
	for _, o := range vw.Origins(v) {
		set[vw.Desc(o, 0)] = true
	}
	var l []string
	for s := range set {
		l = append(l, s)
	}
	sort.Strings(l)
	return "{" + strings.Join(l, " | ") + "}"
}

// c07OptFns resolves functions that a view should not look into when they exist (no anchor obligation).
func (c *Ctx) c07OptFns(rel string, names ...string) []*ssa.Function {
	var out []*ssa.Function
	for _, n := range names {
		if f := c.LookupFn(rel, n); f != nil {
			out = append(out, f)
		}
	}
	return out
}

// C07-R1: the key a client session is filed under is the key it is looked up with.
func c07r1(c *Ctx) {
	const rule = "C07-R1"
	c.Doc(rule, "the tag and address arguments of cache.LookupByCommand in ClientHandshake and of NewSessionEntry / cache.MapCommand in storeClientSession (or in helpers of these) have the same provenance: tag = the SecurityTag field of the authenticator's own config, address = config.PeerName else stream.GetPeerAddr(); a constant on one side and a field on the other is a report")
	ch := c.needFn(rule, "security", "(*Authenticator).ClientHandshake")
	sc := c.needFn(rule, "security", "(*Authenticator).storeClientSession")
	lbc := c.needFn(rule, "security", "(*SessionCache).LookupByCommand")
	mc := c.needFn(rule, "security", "(*SessionCache).MapCommand")
	nse := c.needFn(rule, "security", "NewSessionEntry")
	fTag := c.needField(rule, "security", "SecurityConfig", "SecurityTag")
	fCfg := c.needField(rule, "security", "Authenticator", "config")
	if ch == nil || sc == nil || lbc == nil || mc == nil || nse == nil || fTag == nil || fCfg == nil {
		return
	}
	stop := append([]*ssa.Function{ch, sc, lbc, mc, nse}, c.c07OptFns("security", "(*Authenticator).resumeSession", "(*Authenticator).performFullAuthentication")...)
	vch, vsc := c.c06NewView(ch, stop...), c.c06NewView(sc, stop...)
	ownTag := func(vw *c06View, v c06FV) bool {
		return vw.AllOrigins(v, func(o c06FV) bool {
			base, ok := c06XFieldLoad(o, fTag)
			if !ok {
				return false
			}
			return vw.AllOrigins(base, func(b c06FV) bool {
				recv, ok := c06XFieldLoad(b, fCfg)
				return ok && vw.IsRootParam(recv, 0)
			})
		})
	}
	var tagProv, addrProv string
	nl := 0
	for _, cs := range vch.Calls(lbc.Object()) {
		nl++
		// cache, tag, addr, command
		tagProv, addrProv = vch.Prov(cs.Arg(1)), vch.Prov(cs.Arg(2))
		c.Check(ownTag(vch, cs.Arg(1)), rule, fnName(ch)+"#LookupByCommand:tag", "the lookup tag is the authenticator's own SecurityTag "+tagProv,
			"the lookup tag is not the authenticator's own config.SecurityTag: "+tagProv, cs.Pos())
	}
	c.MinCount(rule, "LookupByCommand calls in ClientHandshake", nl, 1)
	if nl != 1 {
		if nl > 1 {
			c.Undecided(rule, fnName(ch)+"#LookupByCommand", "several command lookups: which one the filing must agree with is not decided", ch.Pos())
		}
		return
	}
	nf := map[string]int{}
	chk := func(cs c06Site, what string, tag, addr c06FV) {
		nf[what]++
		tp, ap := vsc.Prov(tag), vsc.Prov(addr)
		c.Check(ownTag(vsc, tag) && tp == tagProv, rule, fnName(sc)+"#"+what+":tag", "filed under the tag it is looked up with "+tp,
			"the session is filed under tag "+tp+" but looked up under "+tagProv+": a session established under one tag is ridden by handshakes of another (or none) and never by its own", cs.Pos())
		c.Check(ap == addrProv, rule, fnName(sc)+"#"+what+":addr", "filed under the address it is looked up with "+ap,
			"the session is filed under address "+ap+" but looked up under "+addrProv, cs.Pos())
	}
	for _, cs := range vsc.Calls(nse.Object()) {
		// id, addr, keyInfo, policy, expiration, lease, tag
		if cs.NArgs() != 7 {
			c.Undecided(rule, fnName(sc)+"#NewSessionEntry", "unexpected NewSessionEntry signature", cs.Pos())
			continue
		}
		chk(cs, "NewSessionEntry", cs.Arg(6), cs.Arg(1))
	}
	for _, cs := range vsc.Calls(mc.Object()) {
		// cache, tag, addr, command, sessionID
		if cs.NArgs() != 5 {
			c.Undecided(rule, fnName(sc)+"#MapCommand", "unexpected MapCommand signature", cs.Pos())
			continue
		}
		chk(cs, "MapCommand", cs.Arg(1), cs.Arg(2))
	}
	c.MinCount(rule, "NewSessionEntry calls in storeClientSession", nf["NewSessionEntry"], 1)
	c.MinCount(rule, "MapCommand calls in storeClientSession", nf["MapCommand"], 1)
}

// c07AllOriginsUp: every leaf origin of v (a value of fn) satisfies pred; a parameter of fn, when fn is an
// unexported function never used as a value, is followed to the arguments of all of fn's call sites.
func (c *Ctx) c07AllOriginsUp(fn *ssa.Function, v ssa.Value, pred func(vw *c06View, o c06FV) bool, depth int) bool {
	vw := c.c06NewView(fn)
	return vw.AllOrigins(vw.fv(v), func(o c06FV) bool {
		if pred(vw, o) {
			return true
		}
		par, ok := o.V.(*ssa.Parameter)
		if !ok || o.F != vw.Root || depth <= 0 || fn.Parent() != nil || fn.Object() == nil || fn.Object().Exported() || c.c06UsedAsValue(fn) {
			return false
		}
		i := c06ParamIndex(fn, par)
		sites := c.callSites(fn.Object())
		if i < 0 || len(sites) == 0 {
			return false
		}
		for _, s := range sites {
			args := s.Call.Common().Args
			if i >= len(args) || !c.c07AllOriginsUp(s.Fn, args[i], pred, depth-1) {
				return false
			}
		}
		return true
	})
}

// C07-R2: the commands mapped are the ones the server declared.
func c07r2(c *Ctx) {
	const rule = "C07-R2"
	c.Doc(rule, "the command strings storeClientSession (or a helper of it) maps are derived from negotiation.ValidCommands, and every assignment of SecurityNegotiation.ValidCommands in the module takes its value from the ValidCommands attribute of a received ad or of a cached policy")
	sc := c.needFn(rule, "security", "(*Authenticator).storeClientSession")
	mc := c.needFn(rule, "security", "(*SessionCache).MapCommand")
	fVC := c.needField(rule, "security", "SecurityNegotiation", "ValidCommands")
	if sc == nil || mc == nil || fVC == nil {
		return
	}
	vsc := c.c06NewView(sc, mc)
	n := 0
	for _, cs := range vsc.Calls(mc.Object()) {
		n++
		ok := cs.NArgs() == 5 && vsc.MustDepend(cs.Arg(3), func(v c06FV) bool {
			base, isF := c06XFieldLoad(v, fVC)
			return isF && vsc.IsRootParam(base, 1)
		})
		c.Check(ok, rule, fnName(sc)+"#MapCommand:command", "mapped commands come from negotiation.ValidCommands", "a mapped command is not derived from negotiation.ValidCommands (the server's declaration)", cs.Pos())
	}
	c.MinCount(rule, "MapCommand calls in storeClientSession", n, 1)
	nw := 0
	for _, acc := range c.fieldAccesses(fVC) {
		fa, ok := acc.Instr.(*ssa.FieldAddr)
		if !ok || !acc.Write {
			continue
		}
		for _, r := range *fa.Referrers() {
			st, ok := r.(*ssa.Store)
			if !ok || st.Addr != fa {
				continue
			}
			nw++
			good := c.c07AllOriginsUp(acc.Fn, st.Val, func(vw *c06View, o c06FV) bool {
				_, _, name, idx, ok := vw.AttrLookup(o)
				return ok && idx == 0 && name == "ValidCommands"
			}, 2)
			c.Check(good, rule, fnName(acc.Fn)+"#store:ValidCommands", "ValidCommands is taken from the ValidCommands attribute of an ad",
				"ValidCommands is assigned from something other than an ad's ValidCommands attribute", st.Pos())
		}
	}
	c.MinCount(rule, "assignments of SecurityNegotiation.ValidCommands", nw, 1)
}

// c07VarArgs returns the values boxed into the variadic slice argument v ([]any built by the compiler).
func c07VarArgs(fn *ssa.Function, v ssa.Value) []ssa.Value {
	sl, ok := v.(*ssa.Slice)
	if !ok {
		return nil
	}
	arr, ok := sl.X.(*ssa.Alloc)
	if !ok {
		return nil
	}
	byIdx := map[int64]ssa.Value{}
	max := int64(-1)
	for _, r := range *arr.Referrers() {
		ia, ok := r.(*ssa.IndexAddr)
		if !ok {
			continue
		}
		i, isC := constInt(ia.Index)
		if !isC {
			return nil
		}
		for _, u := range *ia.Referrers() {
			if st, ok := u.(*ssa.Store); ok && st.Addr == ia {
				byIdx[i] = stripConv(st.Val)
				if i > max {
					max = i
				}
			}
		}
	}
	var out []ssa.Value
	for i := int64(0); i <= max; i++ {
		out = append(out, byIdx[i])
	}
	return out
}

// c07KeyShape abstracts how f builds its commandMap key: one line per fmt.Sprintf feeding the key (the
// Sprintf may be written in f or in a helper f calls; arguments and tag tests are described in terms of f's parameters).
func (c *Ctx) c07KeyShape(rule string, f *ssa.Function, fCmd *types.Var) ([]string, bool) {
	vw := c.c06NewView(f)
	var keyVals []c06FV
	vw.EachInstr(func(fr *c06Frame, in ssa.Instruction) {
		switch x := in.(type) {
		case *ssa.Lookup:
			if readsField(x.X, fCmd) {
				keyVals = append(keyVals, c06FV{x.Index, fr})
			}
		case *ssa.MapUpdate:
			if readsField(x.Map, fCmd) {
				keyVals = append(keyVals, c06FV{x.Key, fr})
			}
		}
	})
	if len(keyVals) != 1 {
		c.Undecided(rule, fnName(f)+"#commandMap-key", fmt.Sprintf("expected exactly one commandMap access, found %d", len(keyVals)), f.Pos())
		return nil, false
	}
	if len(f.Params) < 2 {
		return nil, false
	}
	// tag tests: comparisons of f's tag parameter with ""
	tagTest := func(nonEmpty bool) *c06Fact {
		return &c06Fact{Cond: func(fr *c06Frame, at Atom) (bool, bool) {
			if at.Op != token.EQL && at.Op != token.NEQ || at.X == nil || at.Y == nil {
				return false, false
			}
			x, y := c06FV{at.X, fr}, c06FV{at.Y, fr}
			var other c06FV
			if s, ok := vw.ConstString(y); ok && s == "" {
				other = x
			} else if s, ok := vw.ConstString(x); ok && s == "" {
				other = y
			} else {
				return false, false
			}
			if !vw.IsRootParam(other, 1) {
				return false, false
			}
			emptyOnTrue := at.Op == token.EQL
			if nonEmpty {
				return !emptyOnTrue, emptyOnTrue
			}
			return emptyOnTrue, !emptyOnTrue
		}}
	}
	nonEmpty, empty := tagTest(true), tagTest(false)
	var shape []string
	for _, o := range vw.Origins(keyVals[0]) {
		in, isInstr := o.V.(ssa.Instruction)
		if !isInstr {
			c.Undecided(rule, fnName(f)+"#commandMap-key", "the key is not computed from the parameters: "+vw.Desc(o, 0), f.Pos())
			return nil, false
		}
		when := "always"
		if ok, _ := vw.MustPassTo(o.F, in, nonEmpty); ok {
			when = `param#1!=""`
		} else if ok, _ := vw.MustPassTo(o.F, in, empty); ok {
			when = `param#1==""`
		}
		cl, ok := o.V.(*ssa.Call)
		var co *types.Func
		if ok {
			co = calleeObj(cl)
		}
		if !ok || co == nil || co.Pkg() == nil || co.Pkg().Path() != "fmt" || co.Name() != "Sprintf" || len(cl.Call.Args) != 2 {
			// some other construction (string concatenation, a builder): its provenance expression is the shape
			shape = append(shape, fmt.Sprintf("when %s: Sprintf(%s)", when, vw.Desc(o, 0)))
			continue
		}
		format, _ := vw.ConstString(c06FV{cl.Call.Args[0], o.F})
		var as []string
		for _, a := range c07VarArgs(o.F.Fn, cl.Call.Args[1]) {
			if a == nil {
				as = append(as, "?")
			} else {
				as = append(as, vw.prov1(c06FV{a, o.F}, 0))
			}
		}
		shape = append(shape, fmt.Sprintf("when %s: Sprintf(%q, %s)", when, format, strings.Join(as, ", ")))
	}
	sort.Strings(shape)
	return shape, true
}

// C07-R3: lookup and mapping build the same key.
func c07r3(c *Ctx) {
	const rule = "C07-R3"
	c.Doc(rule, "LookupByCommand and MapCommand build the commandMap key (directly or through a shared helper) with the same construction (fmt.Sprintf formats, or the same concatenation) over the same parameters (tag, addr, command) under the same tag-empty/non-empty branches")
	lbc := c.needFn(rule, "security", "(*SessionCache).LookupByCommand")
	mc := c.needFn(rule, "security", "(*SessionCache).MapCommand")
	fCmd := c.needField(rule, "security", "SessionCache", "commandMap")
	if lbc == nil || mc == nil || fCmd == nil {
		return
	}
	s1, ok1 := c.c07KeyShape(rule, lbc, fCmd)
	s2, ok2 := c.c07KeyShape(rule, mc, fCmd)
	if !ok1 || !ok2 {
		return
	}
	j1, j2 := strings.Join(s1, " ; "), strings.Join(s2, " ; ")
	c.Check(j1 == j2, rule, "commandMap-key:LookupByCommand=MapCommand", "both build the key as "+j1,
		"LookupByCommand builds the key as ["+j1+"] but MapCommand as ["+j2+"]: mapped commands are never found (or found under another tag/address)", mc.Pos())
	c.MinCount(rule, "key formats", len(s1), 1)
	for _, sh := range s1 {
		for _, p := range []string{"param#2", "param#3"} {
			c.Check(strings.Contains(sh, p), rule, "commandMap-key:uses-"+p+"/"+strings.SplitN(sh, ":", 2)[0], "the key includes "+p, "a key format omits "+p+" (address/command): sessions of different servers or commands collide", lbc.Pos())
		}
	}
	tagged := false
	for _, sh := range s1 {
		// the tag as an argument of the format (not only in the "when" clause): param#1 followed by a non-digit
		if args := strings.SplitN(sh, ": Sprintf(", 2); len(args) == 2 {
			for i := strings.Index(args[1], "param#1"); i >= 0; {
				rest := args[1][i+len("param#1"):]
				if rest == "" || rest[0] < '0' || rest[0] > '9' {
					tagged = true
				}
				j := strings.Index(rest, "param#1")
				if j < 0 {
					break
				}
				i += len("param#1") + j
			}
		}
	}
	c.Check(tagged, rule, "commandMap-key:uses-tag", "a key format includes the tag", "no key format includes the tag: sessions of different tags collide", lbc.Pos())
}

// c07MayDo: the instructions of the root function that are, or lead (through expanded calls) to, an instruction
// satisfying hit somewhere in the view.
func c07MayDo(vw *c06View, hit func(fr *c06Frame, in ssa.Instruction) bool) []ssa.Instruction {
	seen := map[ssa.Instruction]bool{}
	var out []ssa.Instruction
	vw.EachInstr(func(fr *c06Frame, in ssa.Instruction) {
		if !hit(fr, in) {
			return
		}
		if top := c06Lift(fr, in, vw.Root); top != nil && !seen[top] {
			seen[top] = true
			out = append(out, top)
		}
	})
	return out
}

// C07-R4: a failed resumption drops the cached session.
func c07r4(c *Ctx) {
	const rule = "C07-R4"
	c.Doc(rule, "resumeSession: every error return invalidates the cached session (cache.Invalidate(entry.ID()) on the way, directly or inside the closure / helper it returns through) and yields a *SessionResumptionError so the caller retries with a full handshake; frozen exceptions: exits taken after the server answered with something other than the 'session gone' code, and the local key-install failure")
	a := c06Resolve(c, rule)
	if a == nil {
		return
	}
	R := a.R
	idFn := c.needFn(rule, "security", "(*SessionEntry).ID")
	sre := c.needObj(rule, "security", "SessionResumptionError")
	if idFn == nil || sre == nil {
		return
	}
	fID := c.Field("security", "SessionEntry", "id")
	vw := c.c06NewView(R, append(a.stopFns(), idFn)...)
	// invalidating calls: Invalidate(cache param, ID(entry param)) in R, in a closure of R or in a helper that is handed both
	inv := &c06Fact{Name: "cache.Invalidate(entry.ID())", Instr: func(fr *c06Frame, in ssa.Instruction) bool {
		cl, ok := isCallTo(in, a.invalidate.Object())
		if !ok {
			return false
		}
		args := callArgs(cl)
		if len(args) != 2 || !vw.IsRootParam(c06FV{args[0], fr}, 3) {
			return false
		}
		return vw.AllOrigins(c06FV{args[1], fr}, func(o c06FV) bool {
			if s, ok := c06SiteOf(o, idFn.Object()); ok {
				return vw.IsRootParam(s.Arg(0), 2)
			}
			if fID != nil {
				if base, ok := c06XFieldLoad(o, fID); ok {
					return vw.IsRootParam(base, 2)
				}
			}
			return false
		})
	}}
	// frozen exceptions
	type exc struct {
		fact   *c06Fact
		reason string
	}
	gone, _ := a.clientCodes(vw)
	absent := &c06Fact{Cond: func(fr *c06Frame, at Atom) (bool, bool) {
		if at.Op != token.ILLEGAL || at.X == nil {
			return false, false
		}
		ok := vw.AllOrigins(c06FV{at.X, fr}, func(o c06FV) bool {
			_, _, name, idx, ok := vw.AttrLookup(o)
			return ok && name == "ReturnCode" && idx == 1
		})
		return false, ok
	}}
	okCodes := map[string]bool{}
	for _, r := range a.replies(c.c06View(a, a.H)) {
		if r.Code != "" && !gone[r.Code] {
			okCodes[r.Code] = true
		}
	}
	excs := []exc{
		{c06AnyOf("answered", a.codeFact(vw, gone, false), absent), "the server answered, and not with the 'session gone' code: it has not said it forgot the session and the exchange completed (property: drop only when 'the server no longer knows the session or the exchange breaks')"},
		{&c06Fact{CallFail: func(fr *c06Frame, cl ssa.CallInstruction) bool {
			o := calleeObj(cl)
			return o != nil && (types.Object(o) == a.S.Object() || types.Object(o) == a.setKey.Object())
		}}, "local key installation failed after the exchange completed: neither 'the server no longer knows the session' nor 'the exchange breaks'"},
		{a.codeFact(vw, okCodes, true), "the server accepted the resumption (it knows the session and the exchange completed); what fails afterwards is a local decision, not 'the server no longer knows the session or the exchange breaks'"},
	}
	// exits taken before anything was sent are not failures of a resumption attempt
	nIO := 0
	ioInstrs := c07MayDo(vw, func(fr *c06Frame, in ssa.Instruction) bool {
		cl, ok := in.(ssa.CallInstruction)
		if !ok {
			return false
		}
		o := calleeObj(cl)
		if o == nil || o.Pkg() == nil || o.Pkg() != a.putAd.Object().Pkg() {
			return false
		}
		if sig, ok := o.Type().(*types.Signature); ok && sig.Recv() != nil {
			nIO++
			return true
		}
		return false
	})
	c.MinCount(rule, "message I/O calls in resumeSession", nIO, 1)

	isSucc := map[*ssa.Return]bool{}
	for _, t := range c.c06SuccessTargets(R) {
		isSucc[t.Ret] = true
	}
	nInv, nExc := 0, 0
	byRet := map[*ssa.Return][]RetPoint{}
	var order []*ssa.Return
	for _, r := range c.returnsOf(R) {
		if isSucc[r.Ret] {
			continue
		}
		if _, ok := byRet[r.Ret]; !ok {
			order = append(order, r.Ret)
		}
		byRet[r.Ret] = append(byRet[r.Ret], r)
	}
	for _, ret := range order {
		rps := byRet[ret]
		construct := fmt.Sprintf("%s#return%d:invalidates", fnName(R), retOrdinal(R, ret))
		afterIO := false
		for _, io := range ioInstrs {
			for _, r := range rps {
				if findPath(after(io), r.Target(), nil) != nil {
					afterIO = true
				}
			}
		}
		if !afterIO {
			c.Ok(rule, construct, "excepted: taken before anything was sent on the connection: no resumption was attempted", ret.Pos())
			continue
		}
		p := vw.PathToReturns(vw.Root, rps, inv, 2)
		if p == nil {
			nInv++
			c.Ok(rule, construct, "every path to this error return invalidates the cached session", ret.Pos())
			ev := c06ErrOperand(R, ret)
			isSRE := ev != nil && vw.AllOrigins(vw.fv(ev), func(o c06FV) bool { return c07IsSREValue(o.V, sre) })
			c.Check(isSRE, rule, construct+"/retryable", "the error is a *SessionResumptionError", "the error is not a *SessionResumptionError: the client does not retry with a full handshake", ret.Pos())
			continue
		}
		excepted := ""
		for _, x := range excs {
			if ok, _ := vw.MustPassTo(vw.Root, ret, x.fact); ok {
				excepted = x.reason
			}
		}
		if excepted != "" {
			nExc++
			c.Ok(rule, construct, "excepted: "+excepted, ret.Pos())
			continue
		}
		c.Violate(rule, construct, "an error exit of the resumption exchange leaves the session cached (no cache.Invalidate(entry.ID()) on the way): every reconnect re-attempts the doomed resumption", ret.Pos(), c.describePath(p)...)
	}
	c.MinCount(rule, "error returns invalidating the cached session", nInv, 1)
	c.Note("%s: %d error returns invalidate the cached session, %d are frozen exceptions", rule, nInv, nExc)
}

// c07IsSREValue: o (a leaf origin of an error value; origins() looks through MakeInterface) is a *SessionResumptionError.
func c07IsSREValue(o ssa.Value, sre types.Object) bool {
	if mi, ok := o.(*ssa.MakeInterface); ok {
		o = mi.X
	}
	pt, ok := o.Type().(*types.Pointer)
	return ok && types.Identical(pt.Elem(), sre.Type())
}

// C07-R5: routes die with the session.
func c07r5(c *Ctx) {
	const rule = "C07-R5"
	c.Doc(rule, "Invalidate and InvalidateExpired sweep commandMap in a complete loop (range over commandMap, delete(commandMap, key) for every entry whose session id is the removed one / is no longer in sessions, no early exit; the loop may live in a helper) on every path that removed a session; LookupByCommand follows a mapping only to an entry present in sessions and not expired; only the cache's own removers (and helpers only they call) delete from sessions")
	a := c06Resolve(c, rule)
	inve := c.needFn(rule, "security", "(*SessionCache).InvalidateExpired")
	isExp := c.needFn(rule, "security", "(*SessionEntry).IsExpired")
	clr := c.needFn(rule, "security", "(*SessionCache).Clear")
	fSess := c.needField(rule, "security", "SessionCache", "sessions")
	fCmd := c.needField(rule, "security", "SessionCache", "commandMap")
	if a == nil || inve == nil || isExp == nil || clr == nil || fSess == nil || fCmd == nil {
		return
	}
	isDelete := func(in ssa.Instruction, f *types.Var) *ssa.Call {
		cl, ok := in.(*ssa.Call)
		if !ok {
			return nil
		}
		if bi, ok := cl.Call.Value.(*ssa.Builtin); ok && bi.Name() == "delete" && readsField(cl.Call.Args[0], f) {
			return cl
		}
		return nil
	}
	for _, f := range []*ssa.Function{a.invalidate, inve} {
		vw := c.c06NewView(f, a.stopFns()...)
		var sweeps, sessDels []c06Site
		vw.EachInstr(func(fr *c06Frame, in ssa.Instruction) {
			if d := isDelete(in, fCmd); d != nil {
				sweeps = append(sweeps, c06Site{d, fr})
			}
			if d := isDelete(in, fSess); d != nil {
				sessDels = append(sessDels, c06Site{d, fr})
			}
		})
		if len(sweeps) == 0 {
			c.Violate(rule, fnName(f)+"#sweep", "no delete(commandMap, …): command mappings of a removed session survive it and route to whatever is later stored under the same id", f.Pos())
			continue
		}
		for _, sw := range sweeps {
			d, g := sw.Call.(*ssa.Call), sw.F.Fn
			// the deleted key is the key of a range over commandMap
			var next *ssa.Next
			if ex, ok := d.Call.Args[1].(*ssa.Extract); ok && ex.Index == 1 {
				next, _ = ex.Tuple.(*ssa.Next)
			}
			var rng *ssa.Range
			if next != nil {
				rng, _ = next.Iter.(*ssa.Range)
			}
			okRange := rng != nil && readsField(rng.X, fCmd)
			c.Check(okRange, rule, fnName(f)+"#sweep:range-key", "the sweep deletes the keys of a range over commandMap", "the deleted commandMap key is not the key of a range over commandMap", d.Pos())
			if !okRange {
				continue
			}
			// guard: the mapping's value is the removed id (Invalidate) or misses in sessions (InvalidateExpired)
			val := extractN(next, 2)
			guarded := false
			for _, b := range g.Blocks {
				ifi := blockIf(b)
				if ifi == nil || val == nil {
					continue
				}
				at := condAtom(ifi.Cond)
				switch at.Op {
				case token.EQL, token.NEQ:
					var other ssa.Value
					if at.X == val {
						other = at.Y
					} else if at.Y == val {
						other = at.X
					}
					if other == nil || !vw.IsRootParam(c06FV{other, sw.F}, 1) {
						continue
					}
					eq := Edge{b, 0}
					if (at.Op == token.NEQ) != at.Neg {
						eq = Edge{b, 1}
					}
					if instrDominatedByEdge(g, eq, d) {
						guarded = true
					}
				case token.ILLEGAL:
					ex, ok := at.X.(*ssa.Extract)
					if !ok || ex.Index != 1 {
						continue
					}
					lk, ok := ex.Tuple.(*ssa.Lookup)
					if !ok || !readsField(lk.X, fSess) || lk.Index != val {
						continue
					}
					miss := Edge{b, 1}
					if at.Neg {
						miss = Edge{b, 0}
					}
					if instrDominatedByEdge(g, miss, d) {
						guarded = true
					}
				}
			}
			c.Check(guarded, rule, fnName(f)+"#sweep:guard", "a mapping is deleted exactly when its session is the removed one / is gone", "the sweep's delete is not guarded by 'value == removed id' / 'value not in sessions'", d.Pos())
			// complete loop: after a delete the only way on is back through next
			var wit []*ssa.BasicBlock
			for _, r := range c.c06LiveReturns(g) {
				if p := findPath(after(d), r.Target(), newCuts().AddInstrs(next)); p != nil {
					wit = p
				}
			}
			c.Check(wit == nil, rule, fnName(f)+"#sweep:complete", "the sweep continues after each delete", "the sweep can stop after deleting one mapping: the session's other command mappings survive", d.Pos(), c.describePath(wit)...)
			// every path that removed a session runs the sweep
			sweep := &c06Fact{Name: "sweep", Instr: func(fr *c06Frame, in ssa.Instruction) bool { return fr == sw.F && in == ssa.Instruction(rng) }}
			for _, sd := range sessDels {
				w2 := vw.EscapesFrom(sd.F, after(sd.Call), sweep)
				c.Check(w2 == nil, rule, fnName(f)+"#sweep:after-removal", "every removal of a session is followed by the sweep", "a session can be removed and the function return without sweeping commandMap", sd.Pos(), c.describePath(w2)...)
			}
		}
		c.MinCount(rule, "session removals in "+fnName(f), len(sessDels), 1)
	}
	// LookupByCommand: mapping -> present, unexpired entry
	c.c06AccessorChecks(rule, a, a.lookupByCmd, isExp, fSess)
	// who deletes from sessions / replaces the maps
	allow := map[*ssa.Function]string{
		a.invalidate: "sweeps commandMap (checked above)",
		inve:         "sweeps commandMap (checked above)",
		a.lookupNE:   "exception: lazy removal of an expired entry; its mappings can no longer be followed (LookupByCommand requires the entry in sessions, checked above) and InvalidateExpired sweeps them",
	}
	allowSet := map[*ssa.Function]bool{}
	for f := range allow {
		allowSet[f] = true
	}
	nd := 0
	for _, fn := range c.ModFns {
		allInstrs(fn, func(_ *ssa.BasicBlock, _ int, in ssa.Instruction) {
			if d := isDelete(in, fSess); d != nil {
				nd++
				t := topFn(fn)
				if why, ok := allow[t]; ok {
					c.Ok(rule, "delete(sessions)@"+fnName(t), why, d.Pos())
				} else if tops, ok := c.c06AllowedTopsFor(fn, d, allowSet, 0); ok {
					var names []string
					for _, x := range tops {
						names = append(names, fnName(x))
					}
					sort.Strings(names)
					c.Ok(rule, "delete(sessions)@"+fnName(t), "helper only called from "+strings.Join(names, ", ")+" (checked above)", d.Pos())
				} else {
					c.Violate(rule, "delete(sessions)@"+fnName(t), fnName(t)+" removes a session without being one of the removers that sweep commandMap", d.Pos())
				}
			}
		})
	}
	c.MinCount(rule, "delete(sessions, …) sites", nd, 1)
	// Clear replaces both maps
	vc := c.c06NewView(clr, a.stopFns()...)
	sStores, cStores := vc.StoresToField(fSess), vc.StoresToField(fCmd)
	c.Check(len(sStores) > 0 && len(cStores) > 0, rule, fnName(clr)+"#both-maps", "Clear resets sessions and commandMap together", "Clear resets sessions without resetting commandMap", clr.Pos())
}

// C07-R6: the connect helper retries a failed resumption on a fresh connection.
func c07r6(c *Ctx) {
	const rule = "C07-R6"
	c.Doc(rule, "ConnectAndAuthenticateWithConfig: when ClientHandshake (called directly or through a helper) fails with a session-resumption error the failed client is closed and the loop goes round again through NewClient/Connect (a fresh connection, full handshake since the session was dropped); success is returned only when the handshake error is nil")
	f := c.needFn(rule, "client", "ConnectAndAuthenticateWithConfig")
	isSRE := c.needFn(rule, "security", "IsSessionResumptionError")
	chs := c.needFn(rule, "security", "(*Authenticator).ClientHandshake")
	newC := c.needFn(rule, "client", "NewClient")
	conn := c.needFn(rule, "client", "(*HTCondorClient).Connect")
	cls := c.needFn(rule, "client", "(*HTCondorClient).Close")
	newA := c.needFn(rule, "security", "NewAuthenticator")
	fSec := c.needField(rule, "client", "ClientConfig", "Security")
	if f == nil || isSRE == nil || chs == nil || newC == nil || conn == nil || cls == nil || newA == nil || fSec == nil {
		return
	}
	vw := c.c06NewView(f, newC, conn, cls)
	root := vw.Root
	hs := vw.Calls(chs.Object())
	c.MinCount(rule, "ClientHandshake calls", len(hs), 1)
	// success = a return that hands back a client (result #0 is not the nil constant)
	var succ []RetPoint
	for _, r := range c.returnsOf(f) {
		if len(r.Ret.Results) == 2 && !isNilConst(r.Ret.Results[0]) {
			succ = append(succ, r)
		}
	}
	c.MinCount(rule, "returns handing back a client", len(succ), 1)
	callIs := func(obj types.Object) func(fr *c06Frame, in ssa.Instruction) bool {
		return func(fr *c06Frame, in ssa.Instruction) bool { _, ok := isCallTo(in, obj); return ok }
	}
	secNil := c07SecurityNilFact(fSec)
	hsErr := func(o c06FV) bool {
		ex, ok := o.V.(*ssa.Extract)
		return ok && c06CallOf(o.V, chs.Object()) != nil && isErrorType(ex.Type())
	}
	sreTrue := &c06Fact{Name: "IsSessionResumptionError", Cond: func(fr *c06Frame, at Atom) (bool, bool) {
		if at.Op != token.ILLEGAL || at.X == nil {
			return false, false
		}
		cl, ok := at.X.(*ssa.Call)
		if !ok || calleeFn(cl) != isSRE {
			return false, false
		}
		return true, false
	}}
	n := 0
	for _, t := range vw.Calls(isSRE.Object()) {
		n++
		// its argument is the handshake's error
		argOK := vw.AllOrigins(t.Arg(0), hsErr)
		c.Check(argOK, rule, fnName(f)+"#IsSessionResumptionError:arg", "the tested error is ClientHandshake's", "IsSessionResumptionError is not applied to ClientHandshake's error", t.Pos())
	}
	c.MinCount(rule, "IsSessionResumptionError tests", n, 1)
	type testEdge struct {
		fr *c06Frame
		e  Edge
	}
	var te []testEdge
	for _, fr := range vw.Frames() {
		var es []Edge
		for e := range vw.Cuts(fr, sreTrue).Edges {
			es = append(es, e)
		}
		sort.Slice(es, func(i, j int) bool { return es[i].From.Index < es[j].From.Index })
		for _, e := range es {
			te = append(te, testEdge{fr, e})
		}
	}
	if n > 0 && len(te) == 0 {
		c.Violate(rule, fnName(f)+"#retry", "the result of IsSessionResumptionError is not branched on", f.Pos())
	}
	closeF := &c06Fact{Name: "Close", Instr: callIs(cls.Object())}
	newF := &c06Fact{Name: "NewClient", Instr: callIs(newC.Object())}
	connF := &c06Fact{Name: "Connect", Instr: callIs(conn.Object())}
	hsF := c06AnyOf("ClientHandshake", &c06Fact{Instr: callIs(chs.Object())}, secNil)
	isSucc := map[*ssa.Return]bool{}
	for _, r := range succ {
		isSucc[r.Ret] = true
	}
	anyExit := func(RetPoint) bool { return true }
	succExit := func(r RetPoint) bool { return isSucc[r.Ret] }
	nClose := len(vw.Calls(cls.Object()))
	// the searches below are inter-procedural: the test may sit in a helper that makes one attempt, the loop in its caller
	for _, t := range te {
		e := t.e
		if len(e.To().Instrs) == 0 {
			continue
		}
		start := Point{e.To(), 0}
		pos := c06BlockPos(e.From)
		// (1) the loop goes round: NewClient is reachable again
		again := (&c06Reach{vw: vw, Target: callIs(newC.Object())}).From(t.fr, start, e.From) != nil
		c.Check(again, rule, fnName(f)+"#retry:new-connection", "a resumption failure leads back to NewClient", "after a resumption failure the function does not go back to NewClient: no retry with a full handshake", pos)
		// (2) the failed client is closed before anything else happens
		wit := (&c06Reach{vw: vw, Fact: closeF, Target: callIs(newC.Object()), Exit: anyExit}).From(t.fr, start, e.From)
		c.Check(wit == nil && nClose > 0, rule, fnName(f)+"#retry:close-first", "the failed connection is closed before retrying or returning", "after a resumption failure the connection is not closed on some path", pos, c.describePath(wit)...)
		// (3) no handshake on the old connection: ClientHandshake is reached again only through NewClient and Connect
		w3 := (&c06Reach{vw: vw, Fact: newF, Target: callIs(chs.Object())}).From(t.fr, start, e.From)
		if w3 == nil {
			w3 = (&c06Reach{vw: vw, Fact: connF, Target: callIs(chs.Object())}).From(t.fr, start, e.From)
		}
		c.Check(w3 == nil, rule, fnName(f)+"#retry:fresh-stream", "the retry handshakes on a new client and connection", "the retry can handshake again without NewClient/Connect: it reuses the stream the failed resumption left unusable", pos, c.describePath(w3)...)
		// (4) a success return is not reachable from the failure edge without a new handshake
		w4 := (&c06Reach{vw: vw, Fact: hsF, Exit: succExit}).From(t.fr, start, e.From)
		c.Check(w4 == nil, rule, fnName(f)+"#retry:no-success-without-handshake", "a resumption failure never falls through to success", "a resumption failure can fall through to a success return", pos, c.describePath(w4)...)
	}
	// the authenticator handshaking is built on the client's own stream of this iteration
	for _, h := range hs {
		_, ok := vw.CallOf(h.Arg(0), newA.Object())
		c.Check(ok, rule, fnName(f)+"#handshake:authenticator", "the handshake runs on a NewAuthenticator of this attempt", "the handshake's authenticator is not a NewAuthenticator of this attempt", h.Pos())
		// success requires err == nil; attempts without security configured skip the handshake altogether
		_, _, checked := callErrEdges(h.F.Fn, h.Call.Value())
		checked = checked || c06ErrOnlyReturned(h.Call)
		okF := c06AnyOf("nil handshake error", &c06Fact{CallOK: func(fr *c06Frame, cl ssa.CallInstruction) bool { return fr == h.F && cl == h.Call }}, secNil)
		w := vw.PathToReturns(root, succ, okF, 0)
		c.Check(checked && w == nil, rule, fnName(f)+"#success=>handshake-ok", "success is returned only past a nil handshake error (or with no security configured)", "a success return is reachable without a nil ClientHandshake error", h.Pos(), c.describePath(w)...)
	}
}

// c07SecurityNilFact: config.Security is nil (no handshake requested).
func c07SecurityNilFact(fSec *types.Var) *c06Fact {
	return &c06Fact{Name: "config.Security == nil", Cond: func(fr *c06Frame, at Atom) (bool, bool) {
		v, nilOnTrue, ok := c06NilAtom(at)
		if !ok {
			return false, false
		}
		_, fld, isF := fieldRead(stripConv(v))
		if !isF || fld != fSec {
			return false, false
		}
		return nilOnTrue, !nilOnTrue
	}}
}
