package main

// C17 — shared state is safe under concurrency. Decided clause (DESIGN.md section 5): the locking
// and ownership discipline on the named shared objects. Lockset engine: help_c17.go; provenance
// helpers: help_c05.go.

import (
	"fmt"
	"go/token"
	"go/types"
	"sort"
	"strings"

	"golang.org/x/tools/go/ssa"
)

func init() { register("C17", c17r1, c17r2, c17r3, c17r4, c17r5, c17r6) }

// c17Guard is one row of the guarded-field table.
type c17Guard struct {
	pkg, typ string
	mu       string
	fields   []string
}

// The table is frozen here. Sources: the repository's own `// guarded by mu` comments on
// SessionEntry (expiration, lastPeerVersion, inherited); for the others the locking visible in every
// accessor today (SessionCache, brokerReg, Server.handlers).
var c17Guards = []c17Guard{
	{"security", "SessionEntry", "mu", []string{"expiration", "lastPeerVersion", "inherited"}},
	{"security", "SessionCache", "mu", []string{"sessions", "commandMap"}},
	{"ccb", "brokerReg", "mu", []string{"stream", "conn", "contact", "cookie", "brokerStreaming", "registered"}},
	{"server", "Server", "mu", []string{"handlers"}},
}

// Fields of SessionEntry that are set once by the constructor and read without a lock.
var c17Immutable = []string{"id", "addr", "keyInfo", "policy", "lease", "tag", "createdAt"}

// c17OwnerExempt: unlocked READS that are safe because the reading function runs on the only
// goroutine that ever writes the field. One symbol per line; the premise is re-verified on each run
// (every function writing the field, and the reader, is `owner` or reached from it by plain calls only;
// `writers` documents who writes today and is not itself demanded).
var c17OwnerExempt = []struct {
	pkg, typ, field, reader, owner string
	writers                        []string
	reason                         string
}{
	{"ccb", "brokerReg", "stream", "(*brokerReg).serve", "(*brokerReg).run", []string{"(*brokerReg).register", "(*brokerReg).closeConn"},
		"serve runs on the registration goroutine (run), which is the only writer of brokerReg.stream (register, closeConn): a goroutine may read its own writes without the lock"},
}

type c17Finding struct {
	fn    *ssa.Function
	field string
	kind  string
	pos   token.Pos
	why   string
	mode  int
	need  int
}

// c17checkGuards runs the lockset check over the whole table; shared by R1 and R4.
func (c *Ctx) c17checkGuards(rule string) (bad []c17Finding, okCount int, perField map[string]int) {
	perField = map[string]int{}
	for _, g := range c17Guards {
		mu := c.needField(rule, g.pkg, g.typ, g.mu)
		if mu == nil {
			continue
		}
		for _, fname := range g.fields {
			f := c.needField(rule, g.pkg, g.typ, fname)
			if f == nil {
				continue
			}
			for _, a := range c.c17accesses(f) {
				if a.fresh {
					continue // constructor: the object is not shared yet
				}
				perField[g.typ+"."+fname]++
				need := c17R
				kind := "read"
				if a.write {
					need, kind = c17W, "write"
				}
				m, why := c.c17held(a.fn, a.in, a.base, mu, 0)
				if _, isRW := mu.Type().(*types.Named); isRW && mu.Type().(*types.Named).Obj().Name() == "Mutex" && m > 0 {
					m = c17W // a plain Mutex has one mode
				}
				if m >= need {
					okCount++
					continue
				}
				bad = append(bad, c17Finding{fn: a.fn, field: g.typ + "." + fname, kind: kind, pos: a.in.Pos(), why: why, mode: m, need: need})
			}
		}
	}
	return
}

// C17-R1: guarded fields are accessed with the guard of the same receiver held.
func c17r1(c *Ctx) {
	defer c05timer("c17r1")()
	const rule = "C17-R1"
	c.Doc(rule, "lockset: every access to a guarded field (SessionEntry.expiration/lastPeerVersion/inherited <- SessionEntry.mu; SessionCache.sessions/commandMap <- SessionCache.mu; brokerReg.stream/conn/contact/cookie/brokerStreaming/registered <- brokerReg.mu; Server.handlers <- Server.mu) of a possibly shared object happens with the mutex of that same object held (constructor writes on a fresh allocation exempt; unexported helpers judged at their call sites); the set-once SessionEntry fields have no writer outside the constructor")
	bad, okCount, perField := c.c17checkGuards(rule)
	// owner-goroutine exemptions, premise verified
	exempt := map[string]string{}
	for _, e := range c17OwnerExempt {
		f := c.needField(rule, e.pkg, e.typ, e.field)
		reader := c.needFn(rule, e.pkg, e.reader)
		owner := c.needFn(rule, e.pkg, e.owner)
		if f == nil || reader == nil || owner == nil {
			continue
		}
		// premise: every writer of the field and the reader run only on the owner's goroutine: they are the
		// owner itself or helpers reached from it by plain calls only (never started with go, never used
		// as a function value). The writers named in the table are today's; a helper they call is theirs.
		onOwner := fnSet(owner)
		premise := ""
		for _, a := range c.c17accesses(f) {
			if a.write && !a.fresh && !c.c17onlyCalledFrom(a.fn, onOwner, true, 0) {
				premise = fnName(a.fn) + " also writes the field and is not confined to the goroutine of " + fnName(owner)
			}
		}
		if !c.c17onlyCalledFrom(reader, onOwner, true, 0) {
			premise = fnName(reader) + " is not called (by plain calls only) from " + fnName(owner)
		}
		key := fnName(reader) + "#" + e.typ + "." + e.field + ":read"
		if premise == "" {
			exempt[key] = e.reason
		} else {
			c.Violate(rule, key+":owner-exemption", "the owner-goroutine exemption no longer holds: "+premise, reader.Pos())
		}
	}
	seen := map[string]bool{}
	nBad := 0
	for _, b := range bad {
		if b.mode > 0 {
			continue // held, but only for reading: reported by C17-R4
		}
		key := fnName(b.fn) + "#" + b.field + ":" + b.kind
		if seen[key] {
			continue
		}
		seen[key] = true
		if why, ok := exempt[key]; ok {
			c.Ok(rule, key, "unlocked read exempt: "+why, b.pos)
			continue
		}
		nBad++
		c.Violate(rule, key, fmt.Sprintf("%s of %s without holding the mutex of the same object (%s); another goroutine may write it under that mutex", b.kind, b.field, b.why), b.pos)
	}
	if nBad == 0 {
		c.Ok(rule, "guarded-accesses", fmt.Sprintf("all %d other accesses to guarded fields hold the guard of the same receiver", okCount), token.NoPos)
	}
	total := 0
	for _, g := range c17Guards {
		for _, f := range g.fields {
			if perField[g.typ+"."+f] == 0 {
				c.Undecided(rule, "min-count:"+g.typ+"."+f, "no access to this guarded field was found: the table is stale", token.NoPos)
			}
			total += perField[g.typ+"."+f]
		}
	}
	nGuarded := 0
	for _, g := range c17Guards {
		nGuarded += len(g.fields)
	}
	c.MinCount(rule, "accesses to guarded fields of shared objects", total, nGuarded) // one per guarded field (each also checked above)
	// set-once fields
	ctor := c.needFn(rule, "security", "NewSessionEntry")
	nImm := 0
	for _, name := range c17Immutable {
		f := c.needField(rule, "security", "SessionEntry", name)
		if f == nil {
			continue
		}
		var wr []*ssa.Function
		poss := map[*ssa.Function]token.Pos{}
		for _, a := range c.c17accesses(f) {
			nImm++
			// the constructor, or a helper only the constructor calls, initialises the fresh entry
			if a.write && !(a.fresh && ctor != nil && c.c17onlyCalledFrom(a.fn, fnSet(ctor), false, 0)) {
				wr = append(wr, a.fn)
				poss[a.fn] = a.in.Pos()
			}
		}
		if len(wr) == 0 {
			c.Ok(rule, "SessionEntry."+name+":set-once", "written only by NewSessionEntry on the fresh entry", token.NoPos)
		}
		c.whoMay(rule, "write SessionEntry."+name+" (read without a lock everywhere)", wr, poss, fnSet())
	}
	c.MinCount(rule, "accesses to set-once SessionEntry fields", nImm, len(c17Immutable)) // at least the constructor's write of each
}

// C17-R2: the handshake's configuration object is owned by the connection.
func c17r2(c *Ctx) {
	defer c05timer("c17r2")()
	const rule = "C17-R2"
	c.Doc(rule, "NewAuthenticator writes into the SecurityConfig it is given (derived: stores through its config parameter); every call site in the library packages passes the address of a struct copy local to the calling function, and every function installed as Authenticator.ServerConfigForCommand returns nil or a fresh copy (ServerHandshakeWithMessage writes into the returned config)")
	na := c.needFn(rule, "security", "NewAuthenticator")
	selF := c.needField(rule, "security", "Authenticator", "ServerConfigForCommand")
	if na == nil || selF == nil {
		return
	}
	// derived: which fields of the parameter does it write
	var written []string
	allInstrs(na, func(_ *ssa.BasicBlock, _ int, in ssa.Instruction) {
		if st, ok := in.(*ssa.Store); ok {
			if fa, ok := st.Addr.(*ssa.FieldAddr); ok && len(na.Params) > 0 && fa.X == ssa.Value(na.Params[0]) {
				written = append(written, fieldOfAddr(fa).Name())
			}
		}
	})
	sort.Strings(written)
	c.MinCount(rule, "fields of its config parameter NewAuthenticator writes ("+strings.Join(written, ",")+")", len(written), 1)
	nLib := 0
	var skipped []string
	for _, cs := range c.callSites(na.Object()) {
		pk := fnPkg(cs.Fn)
		if pk == nil {
			continue
		}
		if !libPkg(pk.Path()) {
			skipped = append(skipped, fnName(topFn(cs.Fn)))
			continue
		}
		nLib++
		key := fnName(topFn(cs.Fn)) + "#NewAuthenticator-config"
		ok, why := c.c05ownedAtCall(cs.Fn, cs.Call.Common().Args[0], 0)
		c.Check(ok, rule, key, "passes the address of a per-connection copy", "hands NewAuthenticator a configuration object it does not own ("+why+"): concurrent handshakes sharing it race on, and swap, each other's ephemeral ECDH public key", cs.Call.Pos())
	}
	sort.Strings(skipped)
	c.Note("%s: NewAuthenticator call sites outside the library packages (single-threaded mains, examples, test scaffolding), not checked: %s", rule, strings.Join(uniq(skipped), ", "))
	c.MinCount(rule, "NewAuthenticator call sites in library packages", nLib, 1)
	// per-command selector implementations
	nSel := 0
	for _, fn := range c.ModFns {
		pk := fnPkg(fn)
		if pk == nil || !libPkg(pk.Path()) {
			continue
		}
		allInstrs(fn, func(_ *ssa.BasicBlock, _ int, in ssa.Instruction) {
			st, ok := in.(*ssa.Store)
			if !ok {
				return
			}
			fa, ok := st.Addr.(*ssa.FieldAddr)
			if !ok || fieldOfAddr(fa) != selF {
				return
			}
			nSel++
			key := fnName(topFn(fn)) + "#ServerConfigForCommand"
			var impl *ssa.Function
			switch x := c05resolve(st.Val).(type) {
			case *ssa.MakeClosure: // function literal, or a method value (bound-method wrapper calling the method)
				impl, _ = x.Fn.(*ssa.Function)
			case *ssa.Function:
				impl = x
			}
			if impl == nil || impl.Blocks == nil {
				c.Undecided(rule, key, "the installed selector is not a function literal, method value or named function", st.Pos())
				return
			}
			good := true
			ifr := c.c05rootFrame(impl)
			for _, r := range c05returns(impl) {
				for _, o := range ifr.origins(r.Results[0]) {
					if isNilConst(o.v) {
						continue
					}
					of := o.fr
					if of == nil {
						of = ifr
					}
					if ok, _ := c05ownedCopy(of, o.v); !ok {
						good = false
					}
				}
			}
			c.Check(good, rule, key, "the selector returns nil or the address of a fresh copy", "the installed per-command selector returns a configuration object shared between connections; ServerHandshakeWithMessage writes this connection's ECDH public key into it", st.Pos())
		})
	}
	c.MinCount(rule, "ServerConfigForCommand installations in library packages", nSel, 1)
}

// ---------------------------------------------------------------------------
// C17-R3: send/receive partition of Stream

var c17SendAPI = []string{"SendMessage", "SendPartialMessage", "WriteMessage", "StartMessage", "EndMessage", "WriteFrame", "PutSecret", "PutFile"}
var c17RecvAPI = []string{"ReceiveFrame", "ReceiveFrameWithEnd", "ReceiveCompleteMessage", "ReadFrame", "StartMessageRead", "ReadMessageBytes", "EndMessageRead", "GetSecret", "GetFile"}

// Both directions of the message layer use these (message.putSecretExpr / message.getSecretString).
var c17BothAPI = []string{"PrepareCryptoForSecret", "RestoreCryptoAfterSecret"}

// c17FrozenDigests: fields of Stream that are non-nil from the moment a key is installed (SetSymmetricKey
// freezes both digests before it can succeed; premise verified in the rule). An access that every call
// chain from the API reaches only under "gcm != nil" and "<field> == nil" therefore never executes on a
// keyed stream, and on an unkeyed stream the other direction does not run the crypto path either: it is
// a no-op for the send/receive partition. The exemption is by guard, not by function name: it holds
// whether the freeze lives in finalizeSendDigest/finalizeRecvDigest, in a helper they are merged into,
// or inline at the call site.
var c17FrozenDigests = []string{"finalSendDigest", "finalRecvDigest"}

type c17Eff struct {
	fn    *ssa.Function
	in    ssa.Instruction
	field *types.Var
	write bool
}

func (c *Ctx) c17effects(roots []*ssa.Function, streamT types.Type) []c17Eff {
	var out []c17Eff
	reach := c.reachableFns(roots, false)
	for _, fn := range sortedFns(reach) {
		allInstrs(fn, func(_ *ssa.BasicBlock, _ int, in ssa.Instruction) {
			fa, ok := in.(*ssa.FieldAddr)
			if !ok {
				return
			}
			pt, ok := fa.X.Type().Underlying().(*types.Pointer)
			if !ok || !types.Identical(pt.Elem(), streamT) {
				return
			}
			rd, wr := false, false
			for _, r := range *fa.Referrers() {
				switch u := r.(type) {
				case *ssa.Store:
					if u.Addr == fa {
						wr = true
					} else {
						rd, wr = true, true
					}
				case *ssa.UnOp:
					rd = true
					if c17mutatedThrough(u) {
						wr = true
					}
				case *ssa.Slice, *ssa.IndexAddr, *ssa.FieldAddr:
					w, r2 := addrUses(u.(ssa.Value))
					wr, rd = wr || w, rd || r2
				case *ssa.DebugRef:
				default:
					rd, wr = true, true
				}
			}
			f := fieldOfAddr(fa)
			if rd {
				out = append(out, c17Eff{fn, fa, f, false})
			}
			if wr {
				out = append(out, c17Eff{fn, fa, f, true})
			}
		})
	}
	return out
}

// c17atom names the Stream-field condition an outcome of a branch establishes ("" if none): a boolean
// field (f / !f) or a nil test of a field (f!=nil / f==nil).
func c17atom(t c05Test, streamT types.Type) string {
	isStream := func(base ssa.Value) bool {
		pt, isP := base.Type().Underlying().(*types.Pointer)
		return isP && types.Identical(pt.Elem(), streamT)
	}
	if t.hasNil {
		for _, x := range append([]c05V{t.x}, t.xs...) {
			if base, f, ok := fieldRead(stripConv(c05resolve(x.v))); ok && isStream(base) {
				if t.isNil {
					return f.Name() + "==nil"
				}
				return f.Name() + "!=nil"
			}
		}
		return ""
	}
	if base, f, ok := fieldRead(stripConv(c05resolve(t.v.v))); ok && isStream(base) {
		if t.truth {
			return f.Name()
		}
		return "!" + f.Name()
	}
	return ""
}

// c17guards: the Stream-field conditions that dominate instruction in of fn, fn seen together with the
// same-package helpers it calls (a guard written as a call of a predicate helper counts by what the
// helper tests).
func (c *Ctx) c17guards(fn *ssa.Function, in ssa.Instruction, streamT types.Type) []string {
	root := c.c05rootFrame(fn)
	cands := map[string]bool{}
	for _, f := range root.all() {
		for _, b := range f.fn.Blocks {
			for _, o := range c05staticTests(f, b) {
				if a := c17atom(o.t, streamT); a != "" {
					cands[a] = true
				}
			}
		}
	}
	var parts []string
	for a := range cands {
		atom := a
		fact := func(t c05Test) bool { return c17atom(t, streamT) == atom }
		if ok, _ := c05dominated(c05Tg{fr: root, in: in}, c05newCuts(fact)); ok {
			parts = append(parts, atom)
		}
	}
	sort.Strings(parts)
	return uniq(parts)
}

func c17sig(parts []string) string {
	if len(parts) == 0 {
		return "always"
	}
	return strings.Join(parts, "&")
}

// c17Chains answers guard questions along call chains inside one API group (the functions reachable
// from the group's entry points).
type c17Chains struct {
	c       *Ctx
	reach   map[*ssa.Function]bool
	roots   map[*ssa.Function]bool
	streamT types.Type
	memo    map[c17ChainKey]bool
	gmemo   map[c05FI][]string
}

type c17ChainKey struct {
	in   ssa.Instruction
	atom string
}

func (ch *c17Chains) guards(fn *ssa.Function, in ssa.Instruction) []string {
	k := c05FI{nil, in}
	if g, ok := ch.gmemo[k]; ok {
		return g
	}
	g := ch.c.c17guards(fn, in, ch.streamT)
	ch.gmemo[k] = g
	return g
}

// callers: the plain call sites of fn inside the group.
func (ch *c17Chains) callers(fn *ssa.Function) []CallSite {
	if fn.Object() == nil {
		return nil
	}
	var out []CallSite
	for _, cs := range ch.c.callSites(fn.Object()) {
		if ch.reach[cs.Fn] {
			out = append(out, cs)
		}
	}
	return out
}

// always: every call chain from an entry point of the group to instruction in of fn passes the
// condition atom (locally, or at every call site of fn, transitively).
func (ch *c17Chains) always(fn *ssa.Function, in ssa.Instruction, atom string, depth int) bool {
	k := c17ChainKey{in, atom}
	if v, ok := ch.memo[k]; ok {
		return v
	}
	ch.memo[k] = false // recursion: not established
	res := false
	for _, g := range ch.guards(fn, in) {
		if g == atom {
			res = true
		}
	}
	if !res && depth < InlineDepth && !ch.roots[fn] && len(ch.c.c05funcValueUses(fn)) == 0 {
		sites := ch.callers(fn)
		res = len(sites) > 0
		for _, cs := range sites {
			if _, plain := cs.Call.(*ssa.Call); !plain || !ch.always(cs.Fn, cs.Call, atom, depth+1) {
				res = false
				break
			}
		}
	}
	ch.memo[k] = res
	return res
}

// attribute names the function(s) and guard signature a write is reported under: the writing function
// with the conditions that dominate the write; a write that its own function does not guard at all (a
// setter) is attributed to each calling function of the group with the conditions dominating the call.
type c17Attr struct {
	fn  *ssa.Function
	sig string
}

func (ch *c17Chains) attribute(fn *ssa.Function, in ssa.Instruction, depth int) []c17Attr {
	g := ch.guards(fn, in)
	if len(g) > 0 || depth >= InlineDepth || ch.roots[fn] || len(ch.c.c05funcValueUses(fn)) > 0 {
		return []c17Attr{{fn, c17sig(g)}}
	}
	sites := ch.callers(fn)
	if len(sites) == 0 {
		return []c17Attr{{fn, c17sig(g)}}
	}
	var out []c17Attr
	for _, cs := range sites {
		out = append(out, ch.attribute(cs.Fn, cs.Call, depth+1)...)
	}
	return out
}

func c17r3(c *Ctx) {
	defer c05timer("c17r3")()
	const rule = "C17-R3"
	c.Doc(rule, "effect partition: no field of Stream written (transitively) by the send API group is read or written by the receive API group and vice versa, so one goroutine may send while another receives; accesses that every call chain of their group reaches only under gcm != nil and final{Send,Recv}Digest == nil are exempt (never executed once SetSymmetricKey has frozen the digests; premises checked; by guard, wherever the freeze is written: finalizer, merged helper or inline); a conflicting write is keyed by field, writing function and the Stream-field conditions that dominate it (guards written as predicate helpers count by what they test; an unguarded setter is attributed to its callers)")
	st := c.LookupObj("stream", "Stream")
	if st == nil {
		c.AnchorMissing(rule, "stream.Stream")
		return
	}
	streamT := st.Type()
	get := func(names []string) []*ssa.Function {
		var out []*ssa.Function
		for _, n := range names {
			if f := c.needFn(rule, "stream", "(*Stream)."+n); f != nil {
				out = append(out, f)
			}
		}
		return out
	}
	both := get(c17BothAPI)
	send := c.c17effects(append(get(c17SendAPI), both...), streamT)
	recv := c.c17effects(append(get(c17RecvAPI), both...), streamT)
	c.MinCount(rule, "field effects of the send group", len(send), 1)
	c.MinCount(rule, "field effects of the receive group", len(recv), 1)

	// exemption premises: gcm is installed only by SetSymmetricKey / NewStreamWithCryptoState (or helpers only
	// they call), and SetSymmetricKey cannot succeed without both digests frozen (non-nil)
	gcm := c.needField(rule, "stream", "Stream", "gcm")
	ssk := c.needFn(rule, "stream", "(*Stream).SetSymmetricKey")
	imp := c.needFn(rule, "stream", "NewStreamWithCryptoState")
	premiseOK := gcm != nil && ssk != nil && imp != nil
	var frozen []*types.Var
	if premiseOK {
		var wr []*ssa.Function
		poss := map[*ssa.Function]token.Pos{}
		for _, a := range c.fieldAccesses(gcm) {
			if a.Write && !c.c17onlyCalledFrom(a.Fn, fnSet(ssk, imp), false, 0) {
				wr = append(wr, a.Fn)
				poss[a.Fn] = a.Instr.Pos()
			} else if a.Write {
				c.Ok(rule, "install Stream.gcm (finalizer exemption premise)@"+fnName(topFn(a.Fn)), fnName(topFn(a.Fn))+" is (a helper of) an allowed site of install Stream.gcm", a.Instr.Pos())
			}
		}
		c.whoMay(rule, "install Stream.gcm (finalizer exemption premise)", wr, poss, fnSet(ssk, imp))
		premiseOK = premiseOK && len(wr) == 0
		sroot := c.c05rootFrame(ssk)
		for _, name := range c17FrozenDigests {
			fv := c.needField(rule, "stream", "Stream", name)
			if fv == nil {
				premiseOK = false
				continue
			}
			frozen = append(frozen, fv)
			// every path to a success return stores a non-nil value into the field or finds it non-nil
			cuts := c05newCuts(func(t c05Test) bool { return c17atom(t, streamT) == fv.Name()+"!=nil" })
			for _, f := range sroot.all() {
				allInstrs(f.fn, func(_ *ssa.BasicBlock, _ int, in ssa.Instruction) {
					if st, ok := in.(*ssa.Store); ok && !isNilConst(st.Val) {
						if fa, ok := st.Addr.(*ssa.FieldAddr); ok && fieldOfAddr(fa) == fv {
							cuts.addInstr(f, st)
						}
					}
				})
			}
			good := true
			for _, t := range c.successTargets(ssk) {
				if c05path(c05entryPt(sroot), c05errTg(sroot, t), &c05Cuts{edges: cuts.edges, instrs: cuts.instrs, facts: cuts.facts}) != nil {
					good = false
				}
			}
			c.Check(good, rule, fnName(ssk)+"#freezes:"+name, "every successful key installation has frozen this digest", "SetSymmetricKey can succeed without finalizing the digest: the finalizer exemption is unfounded", ssk.Pos())
			premiseOK = premiseOK && good
		}
	}
	rootsOf := func(names []string) map[*ssa.Function]bool {
		m := map[*ssa.Function]bool{}
		for _, n := range names {
			if f := c.LookupFn("stream", "(*Stream)."+n); f != nil {
				m[f] = true
			}
		}
		return m
	}
	mkChains := func(names []string) *c17Chains {
		rs := rootsOf(append(append([]string{}, names...), c17BothAPI...))
		var rl []*ssa.Function
		for f := range rs {
			rl = append(rl, f)
		}
		return &c17Chains{c: c, reach: c.reachableFns(rl, false), roots: rs, streamT: streamT, memo: map[c17ChainKey]bool{}, gmemo: map[c05FI][]string{}}
	}
	sendCh, recvCh := mkChains(c17SendAPI), mkChains(c17RecvAPI)
	nEx := 0
	// exempt: on every call chain of its group the access is guarded by "gcm != nil" and "<frozen digest> == nil"
	exMemo := map[*c17Chains]map[ssa.Instruction]bool{sendCh: {}, recvCh: {}}
	exempt := func(ch *c17Chains, e c17Eff) bool {
		if !premiseOK {
			return false
		}
		if v, ok := exMemo[ch][e.in]; ok {
			return v
		}
		res := false
		if ch.always(e.fn, e.in, gcm.Name()+"!=nil", 0) {
			for _, fv := range frozen {
				if ch.always(e.fn, e.in, fv.Name()+"==nil", 0) {
					res = true
				}
			}
		}
		exMemo[ch][e.in] = res
		return res
	}
	type conflict struct {
		key, msg string
		pos      token.Pos
	}
	found := map[string]conflict{}
	check := func(wside, oside string, wch, och *c17Chains, ws, os []c17Eff) {
		other := map[*types.Var][]c17Eff{}
		for _, e := range os {
			other[e.field] = append(other[e.field], e)
		}
		for _, w := range ws {
			if !w.write || len(other[w.field]) == 0 {
				continue
			}
			if exempt(wch, w) {
				nEx++
				continue
			}
			// a function in both groups conflicts with itself only through another function's use
			var users []c17Eff
			for _, u := range other[w.field] {
				if !exempt(och, u) {
					users = append(users, u)
				}
			}
			if len(users) == 0 {
				continue
			}
			u := users[0]
			for _, x := range users {
				if x.fn != w.fn {
					u = x
					break
				}
			}
			kind := "reads"
			if u.write {
				kind = "writes"
			}
			for _, at := range wch.attribute(w.fn, w.in, 0) {
				key := fmt.Sprintf("Stream.%s@%s[%s]", w.field.Name(), fnName(at.fn), at.sig)
				cf := found[key]
				cf.key, cf.pos = key, w.in.Pos()
				cf.msg += fmt.Sprintf("%s side writes Stream.%s in %s (when: %s) while the %s side %s it (e.g. %s); ", wside, w.field.Name(), fnName(w.fn), at.sig, oside, kind, fnName(u.fn))
				found[key] = cf
			}
		}
	}
	check("send", "receive", sendCh, recvCh, send, recv)
	check("receive", "send", recvCh, sendCh, recv, send)
	var keys []string
	for k := range found {
		keys = append(keys, k)
	}
	sort.Strings(keys)
	for _, k := range keys {
		cf := found[k]
		msg := cf.msg
		if len(msg) > 420 {
			msg = msg[:420] + "…"
		}
		c.Violate(rule, k, "a concurrent send and receive on one stream race on this field: "+msg, cf.pos)
	}
	if len(keys) == 0 {
		c.Ok(rule, "partition", "send-side writes and receive-side uses are disjoint (finalizer no-op writes excepted)", token.NoPos)
	}
	c.Note("%s: %d accesses exempted as no-ops after key installation: reachable only under gcm != nil and a frozen digest == nil (premises hold: %t)", rule, nEx, premiseOK)
	c.Note("%s: mutation of the object a field points to through a method call (hash.Hash.Write on sendDigest/recvDigest) is counted as a read of the field; each digest object is used by one direction only until it is frozen under the exempted nil test", rule)
}

// C17-R4: read-modify-write on the cache is atomic.
func c17r4(c *Ctx) {
	defer c05timer("c17r4")()
	const rule = "C17-R4"
	c.Doc(rule, "no guarded field is written while only the read lock is held, and no SessionCache method releases SessionCache.mu between two accesses to sessions/commandMap (existence test and delete/insert form one critical section)")
	bad, _, _ := c.c17checkGuards(rule)
	seen := map[string]bool{}
	n := 0
	for _, b := range bad {
		if b.mode == 0 {
			continue // no lock at all: C17-R1
		}
		key := fnName(b.fn) + "#" + b.field + ":write-under-read-lock"
		if seen[key] {
			continue
		}
		seen[key] = true
		n++
		c.Violate(rule, key, "write of "+b.field+" while holding only RLock: concurrent readers (and other RLock holders) race with it", b.pos)
	}
	if n == 0 {
		c.Ok(rule, "no-write-under-read-lock", "every write to a guarded field holds the write lock", token.NoPos)
	}
	mu := c.needField(rule, "security", "SessionCache", "mu")
	if mu == nil {
		return
	}
	perFn := map[*ssa.Function][]c17Access{}
	for _, fname := range []string{"sessions", "commandMap"} {
		f := c.needField(rule, "security", "SessionCache", fname)
		if f == nil {
			continue
		}
		for _, a := range c.c17accesses(f) {
			if !a.fresh {
				perFn[a.fn] = append(perFn[a.fn], a)
			}
		}
	}
	nfn := 0
	// functions touching the maps directly or through a same-package helper
	touching := map[*ssa.Function][]ssa.Instruction{}
	for _, fn := range c.FnsOfPkg("security") {
		if pts := c.c17accessPoints(fn, perFn, 0); len(pts) > 0 {
			touching[fn] = pts
		}
	}
	for _, fn := range sortedFns(fnKeys(touching)) {
		nfn++
		acc := touching[fn]
		var wit []*ssa.BasicBlock
		var at token.Pos
		allInstrs(fn, func(_ *ssa.BasicBlock, _ int, in ssa.Instruction) {
			if _, isDefer := in.(*ssa.Defer); isDefer {
				return
			}
			op, ok := c17lockOp(in)
			if !ok || op.acquire || op.key.mu != types.Object(mu) {
				return
			}
			// an explicit release: is there an access before it and another after it?
			before, after2 := false, false
			for _, a := range acc {
				if findPath(after(a), Target{Instr: in}, nil) != nil {
					before = true
				}
				if p := findPath(after(in), Target{Instr: a}, nil); p != nil {
					after2 = true
					wit = p
				}
			}
			if before && after2 {
				at = in.Pos()
			} else {
				wit = nil
			}
		})
		c.Check(!at.IsValid(), rule, fnName(fn)+"#single-critical-section", "all accesses to the cache maps happen in one critical section", "the cache lock is released between two accesses to the cache maps: a concurrent Store/Invalidate can slip in between the test and the update (lost invalidation)", at, c.describePath(wit)...)
	}
	c.MinCount(rule, "SessionCache methods touching the maps", nfn, 1)
}

func fnKeys[T any](m map[*ssa.Function]T) map[*ssa.Function]bool {
	o := map[*ssa.Function]bool{}
	for k := range m {
		o[k] = true
	}
	return o
}

// C17-R5: lock order.
func c17r5(c *Ctx) {
	defer c05timer("c17r5")()
	const rule = "C17-R5"
	c.Doc(rule, "the lock-order graph over all mutex fields and global mutexes of the module (edge A->B: B is acquired, directly or through static callees, while A is held) is acyclic, and no function re-acquires a lock it already holds on the same object")
	edges, self := c.c17lockOrder()
	adj := map[string]map[string]c17OrderEdge{}
	for _, e := range edges {
		if adj[e.from] == nil {
			adj[e.from] = map[string]c17OrderEdge{}
		}
		if _, ok := adj[e.from][e.to]; !ok {
			adj[e.from][e.to] = e
		}
	}
	reaches := func(a, b string) bool {
		seen := map[string]bool{}
		var dfs func(x string) bool
		dfs = func(x string) bool {
			if x == b {
				return true
			}
			if seen[x] {
				return false
			}
			seen[x] = true
			for y := range adj[x] {
				if dfs(y) {
					return true
				}
			}
			return false
		}
		for y := range adj[a] {
			if dfs(y) {
				return true
			}
		}
		return false
	}
	var froms []string
	for f := range adj {
		froms = append(froms, f)
	}
	sort.Strings(froms)
	n := 0
	for _, f := range froms {
		var tos []string
		for t := range adj[f] {
			tos = append(tos, t)
		}
		sort.Strings(tos)
		for _, t := range tos {
			e := adj[f][t]
			n++
			via := ""
			if e.via != "" {
				via = " via " + e.via
			}
			c.Check(!reaches(t, f), rule, "order:"+f+"->"+t, "acquired in this order only (in "+fnName(e.fn)+via+")", "lock-order cycle: "+t+" is also held while "+f+" is acquired somewhere else; two goroutines taking them in opposite orders deadlock (this edge: "+fnName(e.fn)+via+")", e.pos)
		}
	}
	seen := map[string]bool{}
	for _, s := range self {
		key := "self:" + s.from + "@" + fnName(s.fn)
		if seen[key] {
			continue
		}
		seen[key] = true
		c.Violate(rule, key, "a non-reentrant lock is acquired again on the same object while held ("+s.via+"): self-deadlock", s.pos)
	}
	c.MinCount(rule, "nested acquisitions (lock-order edges)", n, 1)
}

// C17-R6: writes to a broker's registration stream are serialised; one reader.
func c17r6(c *Ctx) {
	defer c05timer("c17r6")()
	const rule = "C17-R6"
	c.Doc(rule, "brokerReg.stream is loaded only by writeToBroker (which writes under brokerReg.writeMu of the same registration) and by serve (the single reader, called by plain call from run only); every WriteControlAd on a stream loaded from brokerReg.stream holds writeMu")
	f := c.needField(rule, "ccb", "brokerReg", "stream")
	wmu := c.needField(rule, "ccb", "brokerReg", "writeMu")
	wtb := c.needFn(rule, "ccb", "(*brokerReg).writeToBroker")
	serve := c.needFn(rule, "ccb", "(*brokerReg).serve")
	run := c.needFn(rule, "ccb", "(*brokerReg).run")
	wca := c.needFn(rule, "ccb", "WriteControlAd")
	rca := c.needFn(rule, "ccb", "ReadControlAd")
	if f == nil || wmu == nil || wtb == nil || serve == nil || run == nil || wca == nil || rca == nil {
		return
	}
	var rd []*ssa.Function
	poss := map[*ssa.Function]token.Pos{}
	nW, nR := 0, 0
	for _, a := range c.c17accesses(f) {
		if a.write || a.fresh {
			continue
		}
		rd = append(rd, a.fn)
		poss[a.fn] = a.in.Pos()
		// what is done with the loaded stream (followed through the results of unexported getters)
		fa, ok := a.in.(*ssa.FieldAddr)
		if !ok {
			continue
		}
		for _, r := range *fa.Referrers() {
			ld, ok := r.(*ssa.UnOp)
			if !ok {
				continue
			}
			for _, u := range c.c17usesOf(a.fn, ld, a.base, 0) {
				call, ok := u.in.(ssa.CallInstruction)
				if !ok {
					if _, isIf := u.in.(*ssa.BinOp); isIf {
						continue
					}
					if _, dbg := u.in.(*ssa.DebugRef); dbg {
						continue
					}
					c.Undecided(rule, fnName(u.fn)+"#stream-use", "the loaded registration stream flows somewhere the rule does not follow", u.in.Pos())
					continue
				}
				switch calleeFn(call) {
				case wca:
					nW++
					m := 0
					if u.base != nil {
						m, _ = c.c17held(u.fn, call, u.base, wmu, 0)
					}
					c.Check(m > 0, rule, fnName(u.fn)+"#WriteControlAd", "writes to the registration stream hold writeMu of the same registration", "WriteControlAd on the registration stream without writeMu: concurrent heartbeat/result writers interleave frames", call.Pos())
				case rca:
					nR++
					c.Check(u.fn == serve, rule, fnName(u.fn)+"#ReadControlAd", "the registration stream is read by serve only", "a second reader of the registration stream", call.Pos())
				default:
					c.Violate(rule, fnName(u.fn)+"#stream-use:"+call.Common().Description(), "the registration stream is used by something other than WriteControlAd under writeMu / ReadControlAd in serve", call.Pos())
				}
			}
		}
	}
	// a helper reachable only from the allowed functions loads on their behalf
	var rd2 []*ssa.Function
	for _, f := range rd {
		if c.c17onlyCalledFrom(f, fnSet(wtb, serve), false, 0) && !fnSet(wtb, serve)[topFn(f)] {
			c.Ok(rule, "load brokerReg.stream@"+fnName(topFn(f)), fnName(topFn(f))+" is a helper called only from the allowed sites", poss[f])
			continue
		}
		rd2 = append(rd2, f)
	}
	rd = rd2
	c.whoMay(rule, "load brokerReg.stream", rd, poss, fnSet(wtb, serve))
	c.MinCount(rule, "WriteControlAd on the registration stream", nW, 1)
	c.MinCount(rule, "ReadControlAd on the registration stream", nR, 1)
	// exactly one reader goroutine: serve is called once, synchronously, from run
	sites := c.callSites(serve.Object())
	good := len(sites) == 1
	for _, cs := range sites {
		if _, plain := cs.Call.(*ssa.Call); !plain || cs.Fn != run {
			good = false
		}
	}
	c.Check(good && len(c.c05funcValueUses(serve)) == 0, rule, fnName(serve)+"#single-reader", "serve is called once, synchronously, from run", "serve may run more than once concurrently for one registration (several readers of one stream)", serve.Pos())
}
