package main

import (
	"fmt"
	"go/constant"
	"go/token"
	"go/types"
	"sort"
	"strings"

	"golang.org/x/tools/go/ssa"
)

// ---------------------------------------------------------------------------
// Virtual inlining (used by the rules of C01, C04 and C12).
//
// A rule that is written for code "inline in the anchored function" keeps working when a
// contributor extracts a guard into a predicate, a step into an error-returning helper, a
// value into a value helper, a store into a setter, or materialises a condition in a local
// boolean, if the rule is evaluated on the control flow of the anchored function with its
// same-module static callees inlined. go/ssa cannot inline, so this file provides the inlined
// *view* instead:
//
//   - c04Frame: one activation of a function, entered through a call instruction of its parent
//     frame (call strings of bounded depth, no recursion);
//   - values across frames (c04XV): parameters resolve to the caller's arguments, free variables
//     to the closure's bindings, results of entered calls to the callee's return operands, loads
//     of single-store local cells and of elements of locally built (variadic) argument arrays to
//     the stored value (canon / origins / wholeOf);
//   - a path search over the inlined control flow (Search): states are (frame, block, index,
//     incoming edge, small environment, suspended caller). The environment records, per path,
//     constants and aliases of boolean/loop phis and of the results of entered calls, so that
//     "ok := a && b; if !ok" is a branch on a or on b depending on the edge taken, "if helper()"
//     is a branch on the condition the helper returned, "if err := step(); err != nil" follows
//     only the edge that matches the return taken inside step, and a loop over a variadic
//     argument list of known length is unrolled exactly;
//   - cuts are predicates over instructions (with their frame) and over *atomic conditions*
//     (c04XAtom: comparison or boolean value with the frame it is evaluated in) rather than over
//     edges of one function; a query may also *mark* a path when it passes an instruction or takes
//     an outcome (MarkInstr/MarkCond) and ask for marked paths only, or apply its cuts only after
//     the mark ("after the key install every success path passes ...").
//
// Which callees are followed: static calls (methods, functions, closures called in line) of
// functions of the module, to depth 4, never recursively, never go/defer, never the functions a rule
// declares atomic (its own anchors: the call *is* the event). A rule may restrict path searches to
// callees that contain something it looks at (Relevant); small boolean predicates are always
// followed, and value resolution (Canon/Origins) follows every callee regardless.
// Two pieces of value knowledge beyond plain SSA: what a value helper returns next to a non-nil
// error is "no value" (c04RetOperands), and a local array a helper builds and returns by value is
// the caller's array it is stored into (arrayReturnedInto).
//
// Soundness direction: what the view does not know (a callee that is not followed, an unknown
// condition, an unknown value) only adds paths and removes cuts, so a must-pass query fails
// (alarm) rather than passes wrongly; queries that look for a bad event after a mark see the same
// instructions the rule enumerated with Walk, which follows the same callees. The one exception is
// the state budget: when a search gives up, Overflow is set and the rule must report undecided.
//
// Nothing here executes code or enumerates inputs: it is reachability in a finite graph.

// c04X is one engine instance (policy + memoised frames).
type c04X struct {
	p         *Prog
	MaxDepth  int
	MaxStates int
	// Atomic functions are never entered (the rule treats calls to them as instructions).
	Atomic map[*ssa.Function]bool
	// Relevant, when set, restricts entering to callees that (transitively) contain an instruction
	// for which it holds: a callee that contains nothing a query looks at cannot change its answer.
	Relevant func(ssa.Instruction) bool
	relMemo  map[*ssa.Function]bool
	roots    map[*ssa.Function]*c04Frame
	// Overflow is set when a search exceeded MaxStates (the caller must report undecided).
	Overflow bool
	visits   map[c04XVisit]int
	peak     int // largest number of states a search expanded (diagnostics)
}

type c04XVisit struct {
	fr *c04Frame
	b  *ssa.BasicBlock
}

func c04NewX(p *Prog, atomic ...*ssa.Function) *c04X {
	x := &c04X{p: p, MaxDepth: 4, MaxStates: 60000, Atomic: map[*ssa.Function]bool{}, relMemo: map[*ssa.Function]bool{}, roots: map[*ssa.Function]*c04Frame{}}
	for _, f := range atomic {
		if f != nil {
			x.Atomic[f] = true
		}
	}
	return x
}

// c04Frame is an activation of Fn entered through Call (an instruction of Parent.Fn); the root has no Call.
type c04Frame struct {
	X      *c04X
	Fn     *ssa.Function
	Call   ssa.CallInstruction
	Parent *c04Frame
	Depth  int
	kids   map[ssa.CallInstruction]*c04Frame
	noKid  map[ssa.CallInstruction]bool
	pathOK bool // the frame is followed by path searches and walks (see c04X.Relevant)
}

// c04XV is a value together with the frame it belongs to.
type c04XV struct {
	Fr *c04Frame
	V  ssa.Value
}

func (x *c04X) Root(fn *ssa.Function) *c04Frame {
	if fr, ok := x.roots[fn]; ok {
		return fr
	}
	fr := &c04Frame{X: x, Fn: fn, kids: map[ssa.CallInstruction]*c04Frame{}, noKid: map[ssa.CallInstruction]bool{}}
	x.roots[fn] = fr
	return fr
}

// relevantFn: g or a static module callee of g (bounded) contains an instruction x.Relevant accepts.
func (x *c04X) relevantFn(g *ssa.Function, depth int, active map[*ssa.Function]bool) bool {
	if x.Relevant == nil {
		return true
	}
	if v, ok := x.relMemo[g]; ok {
		return v
	}
	if active[g] || depth > x.MaxDepth+1 {
		return false
	}
	active[g] = true
	defer delete(active, g)
	res := false
	allInstrs(g, func(_ *ssa.BasicBlock, _ int, in ssa.Instruction) {
		if res {
			return
		}
		if x.Relevant(in) {
			res = true
			return
		}
		if call, ok := in.(ssa.CallInstruction); ok {
			if h := calleeFn(call); isModuleFn(h) && !x.Atomic[h] && x.relevantFn(h, depth+1, active) {
				res = true
			}
		}
	})
	if len(active) == 1 { // only memoise complete answers (no cycle cut-off above us)
		x.relMemo[g] = res
	}
	return res
}

// Enter returns the frame of the static module callee of call, or nil when the call is not followed
// (dynamic, outside the module, go/defer, atomic, too deep, recursive, irrelevant).
func (fr *c04Frame) Enter(call ssa.CallInstruction) *c04Frame {
	if k := fr.enter(call); k != nil && k.pathOK {
		return k
	}
	return nil
}

// EnterV is Enter for value resolution: the result of a call is followed into the callee's return operands
// even when the callee contains nothing a path query looks at (a pure value helper).
func (fr *c04Frame) EnterV(call ssa.CallInstruction) *c04Frame {
	return fr.enter(call)
}

func (fr *c04Frame) enter(call ssa.CallInstruction) *c04Frame {
	if k, ok := fr.kids[call]; ok {
		return k
	}
	if fr.noKid[call] {
		return nil
	}
	x := fr.X
	ok := func() bool {
		if _, isCall := call.(*ssa.Call); !isCall {
			return false // go / defer
		}
		g := calleeFn(call)
		if !isModuleFn(g) || x.Atomic[g] || fr.Depth >= x.MaxDepth {
			return false
		}
		for a := fr; a != nil; a = a.Parent {
			if a.Fn == g {
				return false
			}
		}
		return true
	}()
	if !ok {
		fr.noKid[call] = true
		return nil
	}
	g := calleeFn(call)
	k := &c04Frame{X: x, Fn: g, Call: call, Parent: fr, Depth: fr.Depth + 1, kids: map[ssa.CallInstruction]*c04Frame{}, noKid: map[ssa.CallInstruction]bool{}}
	k.pathOK = x.relevantFn(g, 0, map[*ssa.Function]bool{}) || c04SmallPredicate(g)
	fr.kids[call] = k
	return k
}

// c04SmallPredicate: g returns exactly one boolean and is small. Such helpers are always followed by path
// searches: a branch on their result is a branch on the conditions they evaluate ("if s.isFirstFrame()").
func c04SmallPredicate(g *ssa.Function) bool {
	res := g.Signature.Results()
	return res.Len() == 1 && isBoolType(res.At(0).Type()) && len(g.Blocks) <= 24
}

// Walk visits every instruction of the frame and of the frames entered from it (each frame once).
func (fr *c04Frame) Walk(f func(fr *c04Frame, in ssa.Instruction)) {
	allInstrs(fr.Fn, func(_ *ssa.BasicBlock, _ int, in ssa.Instruction) {
		f(fr, in)
		if call, ok := in.(ssa.CallInstruction); ok {
			if k := fr.Enter(call); k != nil {
				k.Walk(f)
			}
		}
	})
}

// Frames lists the frame and all frames entered from it.
func (fr *c04Frame) Frames() []*c04Frame {
	out := []*c04Frame{fr}
	allInstrs(fr.Fn, func(_ *ssa.BasicBlock, _ int, in ssa.Instruction) {
		if call, ok := in.(ssa.CallInstruction); ok {
			if k := fr.Enter(call); k != nil {
				out = append(out, k.Frames()...)
			}
		}
	})
	return out
}

// Chain renders the call string of the frame ("f > g > h").
func (fr *c04Frame) Chain() string {
	if fr.Parent == nil {
		return fnName(fr.Fn)
	}
	return fr.Parent.Chain() + " > " + fnName(fr.Fn)
}

// up maps a parameter / free variable of the frame to the caller's value.
func (fr *c04Frame) up(v ssa.Value) (c04XV, bool) {
	if fr.Call == nil {
		return c04XV{}, false
	}
	switch t := v.(type) {
	case *ssa.Parameter:
		args := fr.Call.Common().Args
		for i, p := range fr.Fn.Params {
			if p == t && i < len(args) {
				return c04XV{fr.Parent, args[i]}, true
			}
		}
	case *ssa.FreeVar:
		if mc, ok := fr.Call.Common().Value.(*ssa.MakeClosure); ok {
			for i, fv := range fr.Fn.FreeVars {
				if fv == t && i < len(mc.Bindings) {
					return c04XV{fr.Parent, mc.Bindings[i]}, true
				}
			}
		}
	}
	return c04XV{}, false
}

func c04Returns(fn *ssa.Function) []*ssa.Return {
	var out []*ssa.Return
	for _, b := range fn.Blocks {
		if len(b.Instrs) > 0 {
			if r, ok := b.Instrs[len(b.Instrs)-1].(*ssa.Return); ok {
				out = append(out, r)
			}
		}
	}
	return out
}

// c04RetOperands: the operands returned as result idx by fn, without "no value" operands: nil constants, and
// (for a non-error result of a function that also returns an error) whatever accompanies a non-nil error.
func c04RetOperands(p *Prog, fn *ssa.Function, idx int) []ssa.Value {
	var out []ssa.Value
	seen := map[ssa.Value]bool{}
	errRet := map[*ssa.Return]bool{}
	if res := fn.Signature.Results(); idx < res.Len() && !isErrorType(res.At(idx).Type()) && p != nil {
		cls := map[*ssa.Return][2]int{} // per return: [error-class points, other points]
		for _, r := range p.returnsOf(fn) {
			c := cls[r.Ret]
			if r.Class == "error" {
				c[0]++
			} else {
				c[1]++
			}
			cls[r.Ret] = c
		}
		for r, c := range cls {
			if c[0] > 0 && c[1] == 0 {
				errRet[r] = true
			}
		}
	}
	for _, r := range c04Returns(fn) {
		if idx >= len(r.Results) || errRet[r] {
			continue
		}
		v := r.Results[idx]
		if isNilConst(v) || seen[v] {
			continue
		}
		seen[v] = true
		out = append(out, v)
	}
	return out
}

// localArrayElem: arr is a local array cell that is only filled element-wise at constant indices and
// sliced (the argument array of a variadic call, a composite literal): the values stored at index idx
// (idx < 0: at any index).
func c04LocalArrayElems(arr *ssa.Alloc, idx int64) ([]ssa.Value, bool) {
	if _, ok := arr.Type().Underlying().(*types.Pointer).Elem().Underlying().(*types.Array); !ok {
		return nil, false
	}
	var out []ssa.Value
	for _, r := range *arr.Referrers() {
		switch u := r.(type) {
		case *ssa.IndexAddr:
			k, isC := constInt(u.Index)
			if !isC {
				return nil, false
			}
			for _, r2 := range *u.Referrers() {
				switch w := r2.(type) {
				case *ssa.Store:
					if w.Addr != ssa.Value(u) {
						return nil, false
					}
					if idx < 0 || k == idx {
						out = append(out, w.Val)
					}
				case *ssa.DebugRef:
				default:
					return nil, false
				}
			}
		case *ssa.Slice, *ssa.DebugRef:
		default:
			return nil, false
		}
	}
	return out, true
}

// resolve1 makes one step from a value towards what it stands for; ok=false when v is a leaf.
func (x *c04X) resolve1(st *c04XState, fr *c04Frame, v ssa.Value) (c04XV, bool) {
	switch t := v.(type) {
	case *ssa.ChangeType:
		return c04XV{fr, t.X}, true
	case *ssa.ChangeInterface:
		return c04XV{fr, t.X}, true
	case *ssa.MakeInterface:
		return c04XV{fr, t.X}, true
	case *ssa.Parameter, *ssa.FreeVar:
		return fr.up(v)
	case *ssa.Call:
		if k := fr.EnterV(t); k != nil && k.Fn.Signature.Results().Len() == 1 {
			if ops := c04RetOperands(x.p, k.Fn, 0); len(ops) == 1 {
				return c04XV{k, ops[0]}, true
			}
		}
	case *ssa.Extract:
		if call, ok := t.Tuple.(*ssa.Call); ok {
			if k := fr.EnterV(call); k != nil {
				if ops := c04RetOperands(x.p, k.Fn, t.Index); len(ops) == 1 {
					return c04XV{k, ops[0]}, true
				}
			}
		}
	case *ssa.UnOp:
		if t.Op != token.MUL {
			return c04XV{}, false
		}
		switch a := t.X.(type) {
		case *ssa.Alloc:
			var stores []*ssa.Store
			for _, r := range *a.Referrers() {
				switch u := r.(type) {
				case *ssa.Store:
					if u.Addr != ssa.Value(a) {
						return c04XV{}, false
					}
					stores = append(stores, u)
				case *ssa.UnOp, *ssa.DebugRef:
				case *ssa.MakeClosure:
					// captured: written by closures too
					return c04XV{}, false
				default:
					return c04XV{}, false
				}
			}
			if len(stores) == 1 {
				return c04XV{fr, stores[0].Val}, true
			}
		case *ssa.IndexAddr:
			base := x.Canon(st, fr, a.X)
			bv := base.V
			if sl, ok := bv.(*ssa.Slice); ok && (sl.Low == nil || isZeroConst(sl.Low)) {
				bv = sl.X
			}
			arr, ok := bv.(*ssa.Alloc)
			if !ok {
				return c04XV{}, false
			}
			idx, isC := x.constOf(st, fr, a.Index)
			if !isC {
				return c04XV{}, false
			}
			if vals, ok := c04LocalArrayElems(arr, idx); ok && len(vals) == 1 {
				return c04XV{base.Fr, vals[0]}, true
			}
		}
	}
	return c04XV{}, false
}

func isZeroConst(v ssa.Value) bool {
	k, ok := constInt(v)
	return ok && k == 0
}

// Canon follows resolve1 to the value v stands for (a leaf: an allocation, a field load, a call that is
// not followed, a phi, a root parameter, ...). Identity of canonical values is identity of values.
func (x *c04X) Canon(st *c04XState, fr *c04Frame, v ssa.Value) c04XV {
	cur := c04XV{fr, v}
	for i := 0; i < 40; i++ {
		nx, ok := x.resolve1(st, cur.Fr, cur.V)
		if !ok {
			break
		}
		cur = nx
	}
	return cur
}

// CanonInt is Canon that also strips integer conversions.
func (x *c04X) CanonInt(st *c04XState, fr *c04Frame, v ssa.Value) c04XV {
	cur := c04XV{fr, v}
	for i := 0; i < 40; i++ {
		s := c01Strip(cur.V)
		if s != cur.V {
			cur.V = s
			continue
		}
		nx, ok := x.resolve1(st, cur.Fr, cur.V)
		if !ok {
			break
		}
		cur = nx
	}
	return cur
}

// Origins returns the leaf values v may carry (the inter-frame version of origins()).
func (x *c04X) Origins(st *c04XState, fr *c04Frame, v ssa.Value) []c04XV {
	seen := map[c04XV]bool{}
	var out []c04XV
	var walk func(fr *c04Frame, v ssa.Value, d int)
	walk = func(fr *c04Frame, v ssa.Value, d int) {
		k := c04XV{fr, v}
		if v == nil || seen[k] {
			return
		}
		seen[k] = true
		if d > 60 {
			out = append(out, k)
			return
		}
		switch t := v.(type) {
		case *ssa.Phi:
			for _, e := range t.Edges {
				walk(fr, e, d+1)
			}
			return
		case *ssa.Convert:
			walk(fr, t.X, d+1)
			return
		case *ssa.Slice:
			walk(fr, t.X, d+1)
			return
		case *ssa.Call:
			if c := fr.EnterV(t); c != nil && c.Fn.Signature.Results().Len() == 1 {
				if ops := c04RetOperands(x.p, c.Fn, 0); len(ops) > 0 {
					for _, o := range ops {
						walk(c, o, d+1)
					}
					return
				}
			}
		case *ssa.Extract:
			if call, ok := t.Tuple.(*ssa.Call); ok {
				if c := fr.EnterV(call); c != nil {
					if ops := c04RetOperands(x.p, c.Fn, t.Index); len(ops) > 0 {
						for _, o := range ops {
							walk(c, o, d+1)
						}
						return
					}
				}
			}
			out = append(out, k)
			return
		case *ssa.UnOp:
			if t.Op == token.MUL {
				switch a := t.X.(type) {
				case *ssa.Alloc:
					n := 0
					for _, r := range *a.Referrers() {
						if s, ok := r.(*ssa.Store); ok && s.Addr == ssa.Value(a) {
							n++
							walk(fr, s.Val, d+1)
						}
					}
					if n == 0 {
						out = append(out, k)
					}
					return
				case *ssa.IndexAddr:
					if nx, ok := x.resolve1(st, fr, v); ok {
						walk(nx.Fr, nx.V, d+1)
						return
					}
					base := x.Canon(st, fr, a.X)
					bv := base.V
					if sl, ok := bv.(*ssa.Slice); ok {
						bv = sl.X
					}
					if arr, ok := bv.(*ssa.Alloc); ok {
						if vals, ok := c04LocalArrayElems(arr, -1); ok && len(vals) > 0 {
							for _, e := range vals {
								walk(base.Fr, e, d+1)
							}
							return
						}
					}
				}
			}
		}
		if nx, ok := x.resolve1(st, fr, v); ok {
			walk(nx.Fr, nx.V, d+1)
			return
		}
		out = append(out, k)
	}
	walk(fr, v, 0)
	return out
}

// One returns the single origin of v, if it has exactly one.
func (x *c04X) One(st *c04XState, fr *c04Frame, v ssa.Value) (c04XV, bool) {
	os := x.Origins(st, fr, v)
	if len(os) == 1 {
		return os[0], true
	}
	return c04XV{}, false
}

// WholeOf follows v through full-range slices (and through frames) to the buffer it is the whole of.
// whole=false when some slice on the way takes only a part.
func (x *c04X) WholeOf(st *c04XState, fr *c04Frame, v ssa.Value) (root c04XV, whole bool) {
	cur := c04XV{fr, v}
	whole = true
	var highs []int64
	for i := 0; i < 40; i++ {
		if sl, ok := cur.V.(*ssa.Slice); ok {
			if sl.Low != nil && !isZeroConst(sl.Low) {
				whole = false
			}
			if sl.High != nil {
				if hi, isC := x.constOf(st, cur.Fr, sl.High); isC {
					highs = append(highs, hi)
				} else if ln, isLen := c01IsBuiltin(c01Strip(sl.High), "len"); isLen && x.Canon(st, cur.Fr, ln.Call.Args[0]) == x.Canon(st, cur.Fr, sl.X) {
					// x[:len(x)]
				} else {
					whole = false
				}
			}
			cur.V = sl.X
			continue
		}
		nx, ok := x.resolve1(st, cur.Fr, cur.V)
		if !ok {
			break
		}
		cur = nx
	}
	if len(highs) > 0 {
		n := c04BufLen(cur.V)
		for _, h := range highs {
			if n < 0 || h != n {
				whole = false
			}
		}
	}
	// the local array of a value helper whose content is returned and stored whole into a local array of the
	// caller is that array (several calls may fill the same array of the caller, e.g. one per branch)
	for i := 0; i < 4; i++ {
		al, ok := cur.V.(*ssa.Alloc)
		if !ok {
			break
		}
		dst, ok := x.arrayReturnedInto(cur.Fr, al)
		if !ok {
			break
		}
		cur = dst
	}
	return cur, whole
}

// arrayReturnedInto: al is a local array of the helper activation fr whose value is what the helper returns
// (return *al), and the caller stores the call's result whole into a local array of its own that is never
// written element-wise there: the caller's array holds exactly what the helper built. Returns the caller's array.
func (x *c04X) arrayReturnedInto(fr *c04Frame, al *ssa.Alloc) (c04XV, bool) {
	if fr.Call == nil {
		return c04XV{}, false
	}
	if _, isArr := al.Type().Underlying().(*types.Pointer).Elem().Underlying().(*types.Array); !isArr {
		return c04XV{}, false
	}
	// every return of the helper returns a load of al as its only result
	rets := c04Returns(fr.Fn)
	if len(rets) == 0 {
		return c04XV{}, false
	}
	for _, r := range rets {
		if len(r.Results) != 1 {
			return c04XV{}, false
		}
		ld, ok := r.Results[0].(*ssa.UnOp)
		if !ok || ld.Op != token.MUL || ld.X != ssa.Value(al) {
			return c04XV{}, false
		}
	}
	cv := fr.Call.Value()
	if cv == nil || cv.Referrers() == nil {
		return c04XV{}, false
	}
	var dst *ssa.Alloc
	for _, r := range *cv.Referrers() {
		switch u := r.(type) {
		case *ssa.Store:
			a, ok := u.Addr.(*ssa.Alloc)
			if !ok || u.Val != cv || (dst != nil && dst != a) {
				return c04XV{}, false
			}
			dst = a
		case *ssa.DebugRef:
		default:
			return c04XV{}, false
		}
	}
	if dst == nil {
		return c04XV{}, false
	}
	// the caller's array: whole stores and reads only
	for _, r := range *dst.Referrers() {
		switch u := r.(type) {
		case *ssa.Store:
			if u.Addr != ssa.Value(dst) {
				return c04XV{}, false
			}
		case *ssa.Slice, *ssa.IndexAddr:
			if w, _ := addrUses(u.(ssa.Value)); w {
				return c04XV{}, false
			}
		case *ssa.UnOp, *ssa.DebugRef:
		default:
			return c04XV{}, false
		}
	}
	return c04XV{fr.Parent, dst}, true
}

// c04BufLen: the constant length of a local buffer (array cell or make with constant length), else -1.
func c04BufLen(v ssa.Value) int64 {
	switch t := v.(type) {
	case *ssa.Alloc:
		if arr, ok := t.Type().Underlying().(*types.Pointer).Elem().Underlying().(*types.Array); ok {
			return arr.Len()
		}
	case *ssa.MakeSlice:
		if n, ok := constInt(t.Len); ok {
			return n
		}
	case *ssa.Call:
		// bytes.Clone / slices.Clone of a slice expression of constant width: x[lo : lo+k], x[:k], x[a:b]
		if o := calleeObj(t); o != nil && o.Pkg() != nil && (o.Pkg().Path() == "bytes" || o.Pkg().Path() == "slices") && o.Name() == "Clone" && len(t.Call.Args) == 1 {
			if sl, ok := stripConv(t.Call.Args[0]).(*ssa.Slice); ok && sl.High != nil {
				if sl.Low == nil {
					if k, ok := constInt(sl.High); ok {
						return k
					}
				} else if lo, ok := constInt(sl.Low); ok {
					if hi, ok := constInt(sl.High); ok {
						return hi - lo
					}
				} else if add, ok := sl.High.(*ssa.BinOp); ok && add.Op == token.ADD {
					if add.X == sl.Low || c04SameCellLoad(add.X, sl.Low) {
						if k, ok := constInt(add.Y); ok {
							return k
						}
					} else if add.Y == sl.Low || c04SameCellLoad(add.Y, sl.Low) {
						if k, ok := constInt(add.X); ok {
							return k
						}
					}
				}
			}
		}
	}
	return -1
}

// c04SameCellLoad: a and b are loads of the same local cell in one block with no store to it in between
// (go/ssa does not merge them).
func c04SameCellLoad(a, b ssa.Value) bool {
	la, ok1 := a.(*ssa.UnOp)
	lb, ok2 := b.(*ssa.UnOp)
	if !ok1 || !ok2 || la.Op != token.MUL || lb.Op != token.MUL || la.X != lb.X || la.Block() != lb.Block() {
		return false
	}
	if _, isAlloc := la.X.(*ssa.Alloc); !isAlloc {
		return false
	}
	in := false
	for _, ins := range la.Block().Instrs {
		if ins == ssa.Instruction(la) || ins == ssa.Instruction(lb) {
			if in {
				return true
			}
			in = true
			continue
		}
		if !in {
			continue
		}
		switch x := ins.(type) {
		case *ssa.Store:
			if x.Addr == la.X {
				return false
			}
		case ssa.CallInstruction:
			return false // a call could write the cell through a closure
		}
	}
	return false
}

// ---------------------------------------------------------------------------
// path state

// c04XSym is what a path knows about a value: a constant (booleans 0/1, integers, nil-ness of
// interfaces/pointers: 0 nil, 1 non-nil) or, for booleans, the (possibly negated) value it equals.
type c04XSym struct {
	Const bool
	K     int64
	Alias c04XV
	Neg   bool
}

type c04XState struct {
	Fr   *c04Frame
	B    *ssa.BasicBlock
	Idx  int
	Via  *ssa.BasicBlock
	Env  map[ssa.Value]c04XSym
	Up   *c04XState // the caller's state at the call instruction
	Mark bool       // the path passed a marking event (see c04XQuery.Mark*)
	prev *c04XState
	key  string
}

func (st *c04XState) Key() string {
	if st.key != "" {
		return st.key
	}
	var sb strings.Builder
	via := -1
	if st.Via != nil {
		via = st.Via.Index
	}
	fmt.Fprintf(&sb, "%p:%d:%d:%d:%v|", st.Fr, st.B.Index, st.Idx, via, st.Mark)
	if len(st.Env) > 0 {
		es := make([]string, 0, len(st.Env))
		for v, s := range st.Env {
			if s.Const {
				es = append(es, fmt.Sprintf("%p=%d", v, s.K))
			} else {
				es = append(es, fmt.Sprintf("%p~%p/%p/%v", v, s.Alias.Fr, s.Alias.V, s.Neg))
			}
		}
		sort.Strings(es)
		sb.WriteString(strings.Join(es, ","))
	}
	sb.WriteString("|")
	if st.Up != nil {
		sb.WriteString(st.Up.Key())
	}
	st.key = sb.String()
	return st.key
}

func (st *c04XState) at(i int) *c04XState {
	if st.Idx == i {
		return st
	}
	c := *st
	c.Idx = i
	c.key = ""
	return &c
}

// Instr is the instruction the state is positioned at.
func (st *c04XState) Instr() ssa.Instruction { return st.B.Instrs[st.Idx] }

// After returns the state just after the instruction the state is positioned at.
func (st *c04XState) After() *c04XState {
	c := *st
	c.Idx = st.Idx + 1
	c.key = ""
	c.prev = nil
	c.Mark = false
	return &c
}

// Entry is the state at the entry of the frame's function (root frames only).
func (fr *c04Frame) Entry() *c04XState {
	return &c04XState{Fr: fr, B: fr.Fn.Blocks[0]}
}

// Path renders the blocks of the path that led to the state (for witnesses).
func (st *c04XState) Path() []*ssa.BasicBlock {
	var out []*ssa.BasicBlock
	for s := st; s != nil; s = s.prev {
		if len(out) == 0 || out[len(out)-1] != s.B {
			out = append(out, s.B)
		}
	}
	for i, j := 0, len(out)-1; i < j; i, j = i+1, j-1 {
		out[i], out[j] = out[j], out[i]
	}
	return out
}

func isBoolType(t types.Type) bool {
	b, ok := t.Underlying().(*types.Basic)
	return ok && b.Info()&types.IsBoolean != 0
}

func isIntType(t types.Type) bool {
	b, ok := t.Underlying().(*types.Basic)
	return ok && b.Info()&types.IsInteger != 0
}

// constOf evaluates v to a constant on the path of st (nil state: from its definition only).
func (x *c04X) constOf(st *c04XState, fr *c04Frame, v ssa.Value) (int64, bool) {
	return x.constOfD(st, fr, v, 0)
}

func (x *c04X) constOfD(st *c04XState, fr *c04Frame, v ssa.Value, d int) (int64, bool) {
	if v == nil || d > 24 {
		return 0, false
	}
	if st != nil {
		if s, ok := st.Env[v]; ok {
			if s.Const {
				return s.K, true
			}
			k, ok := x.constOfD(st, s.Alias.Fr, s.Alias.V, d+1)
			if ok && s.Neg {
				k = 1 - k
			}
			return k, ok
		}
	}
	switch t := v.(type) {
	case *ssa.Const:
		if t.Value == nil {
			return 0, false
		}
		switch t.Value.Kind() {
		case constant.Bool:
			if constant.BoolVal(t.Value) {
				return 1, true
			}
			return 0, true
		case constant.Int:
			return constInt(t)
		}
		return 0, false
	case *ssa.Convert:
		if isIntType(t.Type()) && isIntType(t.X.Type()) {
			return x.constOfD(st, fr, t.X, d+1)
		}
	case *ssa.ChangeType:
		return x.constOfD(st, fr, t.X, d+1)
	case *ssa.UnOp:
		if t.Op == token.NOT {
			if k, ok := x.constOfD(st, fr, t.X, d+1); ok {
				return 1 - k, true
			}
		}
	case *ssa.BinOp:
		// nil-ness tests
		if t.Op == token.EQL || t.Op == token.NEQ {
			var other ssa.Value
			if isNilConst(t.Y) {
				other = t.X
			} else if isNilConst(t.X) {
				other = t.Y
			}
			if other != nil {
				if n, ok := x.nilnessOf(st, fr, other, d+1); ok {
					isNil := n == 0
					if (t.Op == token.EQL) == isNil {
						return 1, true
					}
					return 0, true
				}
				return 0, false
			}
		}
		a, ok1 := x.constOfD(st, fr, t.X, d+1)
		b, ok2 := x.constOfD(st, fr, t.Y, d+1)
		if !ok1 || !ok2 {
			return 0, false
		}
		bv := func(c bool) (int64, bool) {
			if c {
				return 1, true
			}
			return 0, true
		}
		switch t.Op {
		case token.ADD:
			return a + b, true
		case token.SUB:
			return a - b, true
		case token.MUL:
			return a * b, true
		case token.EQL:
			return bv(a == b)
		case token.NEQ:
			return bv(a != b)
		case token.LSS:
			return bv(a < b)
		case token.LEQ:
			return bv(a <= b)
		case token.GTR:
			return bv(a > b)
		case token.GEQ:
			return bv(a >= b)
		}
	case *ssa.Call:
		if _, ok := c01IsBuiltin(t, "len"); ok {
			return x.lenOf(st, fr, t.Call.Args[0], d+1)
		}
	case *ssa.Parameter, *ssa.FreeVar:
		if u, ok := fr.up(v); ok {
			return x.constOfD(st, u.Fr, u.V, d+1)
		}
	}
	return 0, false
}

// nilnessOf: 0 = v is nil, 1 = v is not nil on this path.
func (x *c04X) nilnessOf(st *c04XState, fr *c04Frame, v ssa.Value, d int) (int64, bool) {
	if d > 24 {
		return 0, false
	}
	if isNilConst(v) {
		return 0, true
	}
	if st != nil {
		if s, ok := st.Env[v]; ok && s.Const {
			return s.K, true
		}
	}
	switch t := v.(type) {
	case *ssa.MakeInterface, *ssa.Alloc, *ssa.MakeSlice, *ssa.MakeMap, *ssa.MakeChan, *ssa.MakeClosure, *ssa.Function:
		return 1, true
	case *ssa.ChangeInterface:
		return x.nilnessOf(st, fr, t.X, d+1)
	case *ssa.ChangeType:
		return x.nilnessOf(st, fr, t.X, d+1)
	case *ssa.Call:
		if o := calleeObj(t); o != nil && o.Pkg() != nil {
			switch o.Pkg().Path() + "." + o.Name() {
			case "fmt.Errorf", "errors.New":
				return 1, true
			}
		}
	case *ssa.Parameter, *ssa.FreeVar:
		if u, ok := fr.up(v); ok {
			return x.nilnessOf(st, u.Fr, u.V, d+1)
		}
	}
	return 0, false
}

// lenOf: the constant length of the slice/array/string value v.
func (x *c04X) lenOf(st *c04XState, fr *c04Frame, v ssa.Value, d int) (int64, bool) {
	if d > 24 {
		return 0, false
	}
	arrLen := func(t types.Type) (int64, bool) {
		if p, ok := t.Underlying().(*types.Pointer); ok {
			t = p.Elem()
		}
		if a, ok := t.Underlying().(*types.Array); ok {
			return a.Len(), true
		}
		return 0, false
	}
	if n, ok := arrLen(v.Type()); ok {
		return n, true
	}
	switch t := v.(type) {
	case *ssa.Slice:
		lo := int64(0)
		if t.Low != nil {
			k, ok := x.constOfD(st, fr, t.Low, d+1)
			if !ok {
				return 0, false
			}
			lo = k
		}
		if t.High != nil {
			k, ok := x.constOfD(st, fr, t.High, d+1)
			if !ok {
				return 0, false
			}
			return k - lo, true
		}
		if n, ok := arrLen(t.X.Type()); ok {
			return n - lo, true
		}
		n, ok := x.lenOf(st, fr, t.X, d+1)
		return n - lo, ok
	case *ssa.MakeSlice:
		return x.constOfD(st, fr, t.Len, d+1)
	case *ssa.Const:
		if s, ok := constString(t); ok {
			return int64(len(s)), true
		}
	}
	if nx, ok := x.resolve1(st, fr, v); ok {
		return x.lenOf(st, nx.Fr, nx.V, d+1)
	}
	return 0, false
}

// boolRoot strips negations, path aliases and frame boundaries from a boolean value.
func (x *c04X) boolRoot(st *c04XState, fr *c04Frame, v ssa.Value) (c04XV, bool) {
	neg := false
	for i := 0; i < 40; i++ {
		if u, ok := v.(*ssa.UnOp); ok && u.Op == token.NOT {
			neg = !neg
			v = u.X
			continue
		}
		if st != nil {
			if s, ok := st.Env[v]; ok && !s.Const {
				fr, v = s.Alias.Fr, s.Alias.V
				neg = neg != s.Neg
				continue
			}
		}
		switch v.(type) {
		case *ssa.Parameter, *ssa.FreeVar, *ssa.ChangeType:
			if nx, ok := x.resolve1(st, fr, v); ok {
				fr, v = nx.Fr, nx.V
				continue
			}
		}
		break
	}
	return c04XV{fr, v}, neg
}

// c04XAtom is an atomic branch condition: X Op Y (a comparison) or the boolean value X (Op == ILLEGAL),
// evaluated in frame Fr.
type c04XAtom struct {
	Fr   *c04Frame
	Op   token.Token
	X, Y ssa.Value
	// V is the value of the whole condition (the BinOp or the boolean value itself): its identity
	// together with Fr identifies the test.
	V ssa.Value
}

// atomOf resolves the branch condition cond on the path of st: a known constant (k = 0/1), or an atom and
// whether the condition is its negation.
func (x *c04X) atomOf(st *c04XState, fr *c04Frame, cond ssa.Value) (a c04XAtom, neg bool, k int64, isConst bool) {
	if kk, ok := x.constOf(st, fr, cond); ok {
		return c04XAtom{}, false, kk, true
	}
	root, neg := x.boolRoot(st, fr, cond)
	a = c04XAtom{Fr: root.Fr, Op: token.ILLEGAL, X: root.V, V: root.V}
	if b, ok := root.V.(*ssa.BinOp); ok {
		switch b.Op {
		case token.EQL, token.NEQ, token.LSS, token.LEQ, token.GTR, token.GEQ:
			a.Op, a.X, a.Y = b.Op, b.X, b.Y
		}
	}
	return a, neg, 0, false
}

// symOf: what the path knows about v (for recording it under another name: a phi, a call result).
func (x *c04X) symOf(st *c04XState, fr *c04Frame, v ssa.Value) (c04XSym, bool) {
	if isBoolType(v.Type()) || isIntType(v.Type()) {
		if k, ok := x.constOf(st, fr, v); ok {
			return c04XSym{Const: true, K: k}, true
		}
		if isBoolType(v.Type()) {
			root, neg := x.boolRoot(st, fr, v)
			return c04XSym{Alias: root, Neg: neg}, true
		}
		return c04XSym{}, false
	}
	// nil-ness of interfaces and pointers
	switch v.Type().Underlying().(type) {
	case *types.Interface, *types.Pointer, *types.Slice, *types.Map, *types.Signature, *types.Chan:
		if n, ok := x.nilnessOf(st, fr, v, 0); ok {
			return c04XSym{Const: true, K: n}, true
		}
		if isErrorType(v.Type()) && st != nil {
			if x.p.classifyErr(fr.Fn, v, st.B, 0) == "error" {
				return c04XSym{Const: true, K: 1}, true
			}
		}
	}
	return c04XSym{}, false
}

// isLoopHeader: some predecessor of b is dominated by b.
func isLoopHeader(b *ssa.BasicBlock) bool {
	for _, p := range b.Preds {
		if b.Dominates(p) {
			return true
		}
	}
	return false
}

// ---------------------------------------------------------------------------
// path search

// c04XQuery describes a reachability question on the inlined control flow.
type c04XQuery struct {
	// Target: the instruction (in the frame of the state) ends the search successfully.
	Target func(st *c04XState, in ssa.Instruction) bool
	// CutInstr: paths may not pass the instruction.
	CutInstr func(st *c04XState, in ssa.Instruction) bool
	// CutCond: paths may not take the outcome truth of atomic condition a.
	CutCond func(st *c04XState, a c04XAtom, truth bool) bool
	// CutEdge: paths may not take this control-flow edge of the state's function.
	CutEdge func(st *c04XState, e Edge) bool
	// MarkInstr / MarkCond: passing the instruction / taking the outcome sets the path's mark.
	MarkInstr func(st *c04XState, in ssa.Instruction) bool
	MarkCond  func(st *c04XState, a c04XAtom, truth bool) bool
	// NeedMark: the target only counts on a marked path.
	NeedMark bool
	// CutAfterMark: the cuts only apply once the path is marked.
	CutAfterMark bool
	// Visit observes every instruction a path reaches (before target/cut are evaluated).
	Visit func(st *c04XState, in ssa.Instruction)
}

// Search looks for a path from start to a target that passes no cut. It returns the state at the target, or nil.
func (x *c04X) Search(start *c04XState, q *c04XQuery) *c04XState {
	seen := map[string]bool{start.Key(): true}
	queue := []*c04XState{start}
	x.visits = map[c04XVisit]int{}
	n := 0
	for len(queue) > 0 {
		st := queue[0]
		queue = queue[1:]
		n++
		if n > x.MaxStates {
			x.Overflow = true
			return nil
		}
		if n > x.peak {
			x.peak = n
		}
		next, hit := x.step(st, q)
		if hit != nil {
			return hit
		}
		for _, s := range next {
			k := s.Key()
			if seen[k] {
				continue
			}
			seen[k] = true
			s.prev = st
			queue = append(queue, s)
		}
	}
	return nil
}

// Reach collects (one per distinct path state) the states positioned at instructions satisfying pred that are
// reachable from start without passing a cut of q.
func (x *c04X) Reach(start *c04XState, q *c04XQuery, pred func(st *c04XState, in ssa.Instruction) bool) []*c04XState {
	var out []*c04XState
	seen := map[string]bool{}
	q2 := *q
	q2.Target = nil
	q2.Visit = func(st *c04XState, in ssa.Instruction) {
		if q.Visit != nil {
			q.Visit(st, in)
		}
		if pred(st, in) {
			if k := st.Key(); !seen[k] {
				seen[k] = true
				out = append(out, st)
			}
		}
	}
	x.Search(start, &q2)
	return out
}

func (x *c04X) step(st *c04XState, q *c04XQuery) (next []*c04XState, hit *c04XState) {
	b := st.B
	mark := st.Mark
	for i := st.Idx; i < len(b.Instrs); i++ {
		in := b.Instrs[i]
		if _, isPhi := in.(*ssa.Phi); isPhi {
			continue
		}
		cur := st.at(i)
		if cur.Mark != mark {
			c := *cur
			c.Mark, c.key = mark, ""
			cur = &c
		}
		if cur != st {
			cur.prev = st
		}
		if q.Visit != nil {
			q.Visit(cur, in)
		}
		if q.Target != nil && (!q.NeedMark || mark) && q.Target(cur, in) {
			return nil, cur
		}
		if q.CutInstr != nil && (!q.CutAfterMark || mark) && q.CutInstr(cur, in) {
			return nil, nil
		}
		if q.MarkInstr != nil && !mark && q.MarkInstr(cur, in) {
			mark = true
			c := *cur
			c.Mark, c.key = true, ""
			cur = &c
		}
		switch t := in.(type) {
		case *ssa.Call:
			if k := st.Fr.Enter(t); k != nil {
				return []*c04XState{{Fr: k, B: k.Fn.Blocks[0], Env: st.Env, Up: cur, Mark: mark}}, nil
			}
		case *ssa.Return:
			if st.Up == nil {
				return nil, nil
			}
			return []*c04XState{x.ret(cur, t, mark)}, nil
		case *ssa.Panic:
			return nil, nil
		case *ssa.Jump:
			return []*c04XState{x.succ(cur, 0, mark)}, nil
		case *ssa.If:
			a, neg, k, isC := x.atomOf(cur, st.Fr, t.Cond)
			for si := 0; si < 2; si++ {
				truth := si == 0
				m := mark
				if isC {
					if (k == 1) != truth {
						continue
					}
				} else {
					if q.CutCond != nil && (!q.CutAfterMark || mark) && q.CutCond(cur, a, truth != neg) {
						continue
					}
					if q.MarkCond != nil && !m && q.MarkCond(cur, a, truth != neg) {
						m = true
					}
				}
				if q.CutEdge != nil && q.CutEdge(cur, Edge{b, si}) {
					continue
				}
				next = append(next, x.succ(cur, si, m))
			}
			return next, nil
		}
	}
	return nil, nil
}

// succ moves over the si-th successor edge of the state's block, recording what the path then knows
// about the phis of the target block.
func (x *c04X) succ(st *c04XState, si int, mark bool) *c04XState {
	b := st.B
	to := b.Succs[si]
	occ := 0
	for k := 0; k < si; k++ {
		if b.Succs[k] == to {
			occ++
		}
	}
	pi := -1
	for j, p := range to.Preds {
		if p == b {
			if occ == 0 {
				pi = j
				break
			}
			occ--
		}
	}
	env := st.Env
	copied := false
	set := func(v ssa.Value, s c04XSym, ok bool) {
		if _, had := env[v]; !ok && !had {
			return
		}
		if !copied {
			n := make(map[ssa.Value]c04XSym, len(env)+2)
			for k, e := range env {
				n[k] = e
			}
			env, copied = n, true
		}
		if ok {
			env[v] = s
		} else {
			delete(env, v)
		}
	}
	vk := c04XVisit{st.Fr, to}
	x.visits[vk]++
	widen := x.visits[vk] > 40
	loop := false
	loopKnown := false
	for _, in := range to.Instrs {
		phi, ok := in.(*ssa.Phi)
		if !ok {
			break
		}
		if pi < 0 {
			set(phi, c04XSym{}, false)
			continue
		}
		track := isBoolType(phi.Type())
		if !track && isIntType(phi.Type()) {
			if !loopKnown {
				loop, loopKnown = isLoopHeader(to), true
			}
			track = loop && !widen
		}
		if !track {
			set(phi, c04XSym{}, false)
			continue
		}
		s, ok := x.symOf(st, st.Fr, phi.Edges[pi]) // evaluated in the old environment (simultaneous assignment)
		if ok && !s.Const && s.Alias.Fr == st.Fr && s.Alias.V == ssa.Value(phi) {
			ok = false
		}
		set(phi, s, ok)
	}
	return &c04XState{Fr: st.Fr, B: to, Idx: 0, Via: b, Env: env, Up: st.Up, Mark: mark}
}

// ret leaves the state's frame through return r and resumes the caller after the call, recording what the
// path knows about the call's results.
func (x *c04X) ret(st *c04XState, r *ssa.Return, mark bool) *c04XState {
	up := st.Up
	env := make(map[ssa.Value]c04XSym, len(st.Env))
	gone := st.Fr.Fn
	for v, s := range st.Env {
		if in, ok := v.(ssa.Instruction); ok && in.Parent() == gone {
			continue
		}
		env[v] = s
	}
	call, _ := up.B.Instrs[up.Idx].(*ssa.Call)
	if call != nil {
		for i, res := range r.Results {
			var target ssa.Value
			if len(r.Results) == 1 {
				target = call
			} else {
				target = extractN(call, i)
			}
			if target == nil {
				continue
			}
			if s, ok := x.symOf(st, st.Fr, res); ok {
				// an alias into the frame that is being left stays meaningful only for values that do not
				// depend on the path (no phis)
				if !s.Const {
					if _, isPhi := s.Alias.V.(*ssa.Phi); isPhi {
						continue
					}
				}
				env[target] = s
			}
		}
	}
	return &c04XState{Fr: up.Fr, B: up.B, Idx: up.Idx + 1, Via: up.Via, Env: env, Up: up.Up, Mark: mark}
}

// ---------------------------------------------------------------------------
// conveniences for rules

// Blocked reports that no path leads from start to a target without passing a cut; otherwise the witness path.
func (x *c04X) Blocked(start *c04XState, q *c04XQuery) (bool, []*ssa.BasicBlock) {
	if hit := x.Search(start, q); hit != nil {
		return false, hit.Path()
	}
	return true, nil
}

// c04AtomField: atom a tests field f (of any base): a nil test ("on" = non-nil) or the boolean field itself
// ("on" = true). Returns whether the outcome truth of the atom means "on". The operands are canonicalised
// first when the atom's frame is known (a helper may test its parameter, the caller passing the field).
func c04AtomField(a c04XAtom, f *types.Var, truth bool) (on, isTest bool) {
	cx, cy := a.X, a.Y
	if a.Fr != nil {
		if cx != nil {
			cx = a.Fr.X.Canon(nil, a.Fr, cx).V
		}
		if cy != nil {
			cy = a.Fr.X.Canon(nil, a.Fr, cy).V
		}
	}
	switch a.Op {
	case token.ILLEGAL:
		if readsField(cx, f) {
			return truth, true
		}
	case token.EQL, token.NEQ:
		var other ssa.Value
		if readsField(cx, f) {
			other = cy
		} else if readsField(cy, f) {
			other = cx
		} else {
			return false, false
		}
		if isNilConst(other) {
			nonNil := (a.Op == token.NEQ) == truth
			return nonNil, true
		}
		if b, isB := constBool(other); isB {
			eq := (a.Op == token.EQL) == truth
			return eq == b, true
		}
	}
	return false, false
}

// c04AtomZero: atom a compares R with zero (R unsigned or a length): the root R and whether the outcome
// truth means R == 0. ok=false for any other condition.
func c04AtomZero(a c04XAtom, truth bool) (root ssa.Value, zero bool, ok bool) {
	if a.Op == token.ILLEGAL {
		return nil, false, false
	}
	c, isC := constInt(a.Y)
	if !isC || c != 0 {
		return nil, false, false
	}
	xv := a.X
	unsignedOrLen := false
	if bt, k := xv.Type().Underlying().(*types.Basic); k && bt.Info()&types.IsUnsigned != 0 {
		unsignedOrLen = true
	}
	if _, k := c01IsBuiltin(xv, "len"); k {
		unsignedOrLen = true
	}
	var zeroOnTrue bool
	switch a.Op {
	case token.EQL:
		zeroOnTrue = true
	case token.NEQ:
		zeroOnTrue = false
	case token.GTR:
		if !unsignedOrLen {
			return nil, false, false
		}
		zeroOnTrue = false
	case token.LEQ:
		if !unsignedOrLen {
			return nil, false, false
		}
		zeroOnTrue = true
	default:
		return nil, false, false
	}
	return xv, zeroOnTrue == truth, true
}

// ZeroRoot canonicalises the value whose zero-ness a "== 0" test decides: conversions are stripped,
// len(make(T, n)) is n, len(s) of a parameter is len of the argument.
func (x *c04X) ZeroRoot(st *c04XState, fr *c04Frame, v ssa.Value) c04XV {
	cur := x.CanonInt(st, fr, v)
	for i := 0; i < 10; i++ {
		call, isLen := c01IsBuiltin(cur.V, "len")
		if !isLen {
			break
		}
		arg := x.Canon(st, cur.Fr, call.Call.Args[0])
		if ms, ok := arg.V.(*ssa.MakeSlice); ok {
			cur = x.CanonInt(st, arg.Fr, ms.Len)
			continue
		}
		// len of the same canonical slice: represent by the slice itself
		return arg
	}
	return cur
}

// c04IsTrueStore: in stores the constant true into field f.
func c04IsTrueStore(in ssa.Instruction, f *types.Var) bool {
	st, ok := in.(*ssa.Store)
	if !ok {
		return false
	}
	fa, ok := st.Addr.(*ssa.FieldAddr)
	if !ok || fieldOfAddr(fa) != f {
		return false
	}
	b, isC := constBool(st.Val)
	return isC && b
}

// IsTrueStore: in stores true into field f - the constant, or a value that is the constant true on this path
// (a setter's parameter).
func (x *c04X) IsTrueStore(st *c04XState, in ssa.Instruction, f *types.Var) bool {
	s, ok := in.(*ssa.Store)
	if !ok {
		return false
	}
	fa, ok := s.Addr.(*ssa.FieldAddr)
	if !ok || fieldOfAddr(fa) != f {
		return false
	}
	var fr *c04Frame
	if st != nil {
		fr = st.Fr
	}
	if fr == nil {
		b, isC := constBool(s.Val)
		return isC && b
	}
	k, isC := x.constOf(st, fr, s.Val)
	return isC && k == 1
}

// AtomCallNil: atom a tests the error (or other nil-able) result of a call satisfying isCall against nil;
// returns whether the outcome truth means "the result is nil". The result may have travelled through
// error-returning helpers ("return step()").
func (x *c04X) AtomCallNil(st *c04XState, a c04XAtom, truth bool, isCall func(ssa.CallInstruction) bool) (isNil, ok bool) {
	if a.Op != token.EQL && a.Op != token.NEQ {
		return false, false
	}
	var other ssa.Value
	if isNilConst(a.Y) {
		other = a.X
	} else if isNilConst(a.X) {
		other = a.Y
	} else {
		return false, false
	}
	hit := false
	for _, o := range x.Origins(st, a.Fr, other) {
		call, _ := originCall(o.V)
		if call == nil || !isCall(call) {
			return false, false
		}
		hit = true
	}
	if !hit {
		return false, false
	}
	return (a.Op == token.EQL) == truth, true
}

// c04IsHashWrite: in invokes Write on a value loaded from the digest field; returns the argument.
func c04IsHashWrite(in ssa.Instruction, digest *types.Var) (ssa.Value, bool) {
	call, ok := in.(ssa.CallInstruction)
	if !ok {
		return nil, false
	}
	cc := call.Common()
	if cc.IsInvoke() && cc.Method.Name() == "Write" && readsField(cc.Value, digest) && len(cc.Args) == 1 {
		return cc.Args[0], true
	}
	return nil, false
}

// c04XSuccessReturn: the state is at a return of the root frame that may be a success return (phi-operand
// returns are judged by the edge the path came in through).
func (x *c04X) SuccessReturn(st *c04XState, in ssa.Instruction, targets []RetPoint) (RetPoint, bool) {
	ret, ok := in.(*ssa.Return)
	if !ok || st.Up != nil {
		return RetPoint{}, false
	}
	for _, t := range targets {
		if t.Ret == ret && (t.Pred == nil || t.Pred == st.Via) {
			// the path may know more than the classification: an error handed up from a followed helper
			// ("return step()") is non-nil on the paths that left the helper through an error return
			for _, res := range ret.Results {
				if isErrorType(res.Type()) {
					if k, ok := x.nilnessOf(st, st.Fr, res, 0); ok && k == 1 {
						return RetPoint{}, false
					}
				}
			}
			return t, true
		}
	}
	return RetPoint{}, false
}
