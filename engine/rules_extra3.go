package main

// Rules added after batch B of the second round of independently seeded changes (DESIGN.md section 9.8):
// decoders reject only what the encoder cannot produce, the embedded expiry is judged without the clock,
// every successful claim import registers the entry it derived, shared configuration slices are never
// written through, and the stream's I/O paths leave no socket deadline behind.

import (
	"fmt"
	"go/constant"
	"go/token"
	"go/types"

	"golang.org/x/tools/go/ssa"
)

func init() {
	register("C12", c04r4)        // C04-R4 imported: each direction's first-frame flag is set by that direction only, so both first frames carry the digests
	register("C16", c06r1, c06r7) // imported: resumption installs the cached key on both sides - what "an importer holding a different secret cannot" rests on (C16-R5 derives the key from the secret)
	register("C14", c14r7)
	register("C16", c16r7, c16r8)
	register("C17", c17r7)
	register("C19", c19r6)
}

// ltZeroEdges: edges of fn on which a value satisfying isRoot (conversions stripped) is known negative
// through a comparison with the constant 0 or -1.
func ltZeroEdges(fn *ssa.Function, isRoot func(ssa.Value) bool) []Edge {
	var out []Edge
	for _, b := range fn.Blocks {
		ifi := blockIf(b)
		if ifi == nil {
			continue
		}
		a := condAtom(ifi.Cond)
		if a.Op == token.ILLEGAL {
			continue
		}
		op := a.Op
		var k int64
		var isK bool
		if isRoot(stripConv(a.X)) {
			k, isK = constInt(a.Y)
		} else if isRoot(stripConv(a.Y)) {
			k, isK = constInt(a.X)
			switch op {
			case token.LSS:
				op = token.GTR
			case token.LEQ:
				op = token.GEQ
			case token.GTR:
				op = token.LSS
			case token.GEQ:
				op = token.LEQ
			}
		} else {
			continue
		}
		if !isK {
			continue
		}
		var tEdge, fEdge bool
		switch op {
		case token.LSS: // v < k
			tEdge = k <= 0
		case token.LEQ: // v <= k
			tEdge = k <= -1
		case token.GEQ: // !(v >= k) == v < k
			fEdge = k <= 0
		case token.GTR: // !(v > k) == v <= k
			fEdge = k <= -1
		}
		if a.Neg {
			tEdge, fEdge = fEdge, tEdge
		}
		if tEdge {
			out = append(out, Edge{b, 0})
		}
		if fEdge {
			out = append(out, Edge{b, 1})
		}
	}
	return out
}

// C14-R7: a scalar/string decoder fails only on a failed read or on a length the encoder cannot emit.
func c14r7(c *Ctx) {
	const rule = "C14-R7"
	c.Doc(rule, "in GetChar, GetInt, GetInt32, GetInt64, GetUint32, GetFloat, GetDouble and GetString every error return lies behind the non-nil edge of an error some callee returned (a failed or short read) or behind a test that a decoded integer is negative: the encoders accept every value of their type and every string length, so a decoder that refuses on any other ground (a size limit, a value range) breaks the round trip for values the sender was allowed to put on the wire")
	names := []string{"GetChar", "GetInt", "GetInt32", "GetInt64", "GetUint32", "GetFloat", "GetDouble", "GetString"}
	n := 0
	for _, name := range names {
		fn := c.LookupFn("message", "(*Message)."+name)
		if fn == nil || fn.Blocks == nil {
			continue
		}
		n++
		cuts := newCuts()
		ints := map[ssa.Value]bool{}
		allInstrs(fn, func(_ *ssa.BasicBlock, _ int, in ssa.Instruction) {
			call, ok := in.(*ssa.Call)
			if !ok {
				return
			}
			if len(errResults(call)) > 0 {
				_, fail, _ := callErrEdges(fn, call)
				cuts.AddEdges(fail...)
			}
			// integers decoded from the wire: first result of a message-package call returning (integer, error)
			if g := calleeObj(call); g != nil && g.Pkg() != nil && g.Pkg().Name() == "message" {
				if sig, ok := g.Type().(*types.Signature); ok && sig.Results().Len() == 2 {
					if b, ok := sig.Results().At(0).Type().Underlying().(*types.Basic); ok && b.Info()&types.IsInteger != 0 {
						if v := extractN(call, 0); v != nil {
							ints[v] = true
						}
					}
				}
			}
		})
		cuts.AddEdges(ltZeroEdges(fn, func(v ssa.Value) bool { return ints[v] })...)
		// the same test made in a boolean helper handed the integer, or kept in a local boolean
		top := cxTop(fn)
		deep := c.cxFactCuts(top, func(fr *cxFrame, a Atom) (bool, bool) {
			if a.Op == token.ILLEGAL || a.X == nil || a.Y == nil {
				return false, false
			}
			isR := func(v ssa.Value) bool {
				r := fr.resolve(v)
				return r.fr == top && ints[stripConv(r.v)]
			}
			op := a.Op
			var k int64
			var isK bool
			if isR(a.X) {
				k, isK = constInt(a.Y)
			} else if isR(a.Y) {
				k, isK = constInt(a.X)
				switch op {
				case token.LSS:
					op = token.GTR
				case token.LEQ:
					op = token.GEQ
				case token.GTR:
					op = token.LSS
				case token.GEQ:
					op = token.LEQ
				}
			}
			if !isK {
				return false, false
			}
			var tE, fE bool
			switch op {
			case token.LSS:
				tE = k <= 0
			case token.LEQ:
				tE = k <= -1
			case token.GEQ:
				fE = k <= 0
			case token.GTR:
				fE = k <= -1
			}
			if a.Neg {
				tE, fE = fE, tE
			}
			return tE, fE
		}, 3)
		for e := range deep.Edges {
			cuts.AddEdges(e)
		}
		for v := range deep.Via {
			cuts.Via[v] = true
		}
		bad := false
		for _, r := range c.returnsOf(fn) {
			if r.Class != "error" {
				continue
			}
			if path := findPath(entryPoint(fn), r.Target(), cuts); path != nil {
				bad = true
				c.Violate(rule, fnName(fn)+fmt.Sprintf("#return%d:value-rejection", retOrdinal(fn, r.Ret)), "this error return is reachable although every read succeeded and no decoded length was negative: the decoder refuses a value the matching encoder accepts", r.Ret.Pos(), c.describePath(path)...)
			}
		}
		if !bad {
			c.Ok(rule, fnName(fn)+"#errors-are-read-failures", "every error return is behind a failed read or a negative length", fn.Pos())
		}
	}
	c.MinCount(rule, "decoders examined", n, 4)
}

func isClockCall(v ssa.Value) bool {
	call, ok := v.(*ssa.Call)
	if !ok {
		return false
	}
	o := calleeObj(call)
	if o == nil || o.Pkg() == nil || o.Pkg().Path() != "time" {
		return false
	}
	switch o.Name() {
	case "Now", "Since", "Until":
		return true
	}
	return false
}

// C16-R7: whether the embedded expiry is used does not depend on the importer's clock.
func c16r7(c *Ctx) {
	const rule = "C16-R7"
	c.Doc(rule, "no branch condition in claimExpiration (the function both MintClaimSession and ImportClaimSession obtain the entry's expiry from, C16-R1) depends on time.Now/Since/Until: whether the SessionExpires value embedded in the claim id becomes the expiry is decided by the policy text alone, so minter and importer - whenever each of them runs - compute the same instant; the clock may only enter the value of the fallback")
	fn := c.needFn(rule, "security", "claimExpiration")
	if fn == nil {
		return
	}
	n, bad := 0, false
	for _, f := range withClosures(fn) {
		for _, b := range f.Blocks {
			ifi := blockIf(b)
			if ifi == nil {
				continue
			}
			n++
			if mentions(ifi.Cond, isClockCall) {
				bad = true
				c.Violate(rule, fnName(f)+"#clock-in-condition", "a branch of claimExpiration compares against the current time: an identifier imported later than it was minted (or by a host whose clock differs) gets another expiry than the minter recorded", ifi.Pos())
			}
		}
	}
	if !bad {
		c.Ok(rule, fnName(fn)+"#clock-free-conditions", "no branch condition reads the clock", fn.Pos())
	}
	c.MinCount(rule, "branches examined", n, 1)
}

// C16-R8: a successful mint/import has stored the entry it built.
func c16r8(c *Ctx) {
	const rule = "C16-R8"
	c.Doc(rule, "every success return of MintClaimSession, ImportClaimSession and ImportFileTransferSession passes a call to SessionCache.Store (directly or in a helper that stores on all of its success paths): a call that reports success has (re)registered the entry derived from the claim id it was given, it never answers from what the cache happened to hold under that session id")
	store := c.needObj(rule, "security", "SessionCache.Store")
	if store == nil {
		return
	}
	n := 0
	for _, name := range []string{"MintClaimSession", "ImportClaimSession", "ImportFileTransferSession"} {
		fn := c.needFn(rule, "security", name)
		if fn == nil {
			continue
		}
		n++
		cuts := c.satisfyingCuts(fn, callHit(store), nil, 4, nil)
		c.mustPassReturns(rule, fn, c.successTargets(fn), cuts, "SessionCache.Store of the entry built from this claim id")
	}
	c.MinCount(rule, "registration entry points", n, 3)
}

// C17-R7: slices that belong to a shared SecurityConfig are never written through.
func c17r7(c *Ctx) {
	const rule = "C17-R7"
	c.Doc(rule, "no function of the module appends to, stores into an element of, or copies into a slice that aliases a slice-typed field of security.SecurityConfig (the field value itself or a re-slice of it such as cfg.AuthMethods[:0]): per-connection configuration copies are shallow, so the backing array is the one every other connection using that configuration reads; derived lists are built in fresh slices")
	cfgT := c.LookupObj("security", "SecurityConfig")
	if cfgT == nil {
		c.AnchorMissing(rule, "security.SecurityConfig")
		return
	}
	st, ok := cfgT.Type().Underlying().(*types.Struct)
	if !ok {
		c.AnchorMissing(rule, "security.SecurityConfig is not a struct")
		return
	}
	sliceFields := map[*types.Var]bool{}
	for i := 0; i < st.NumFields(); i++ {
		if _, ok := st.Field(i).Type().Underlying().(*types.Slice); ok {
			sliceFields[st.Field(i)] = true
		}
	}
	// cfgSlice: v is (a re-slice of) a load of a slice field of SecurityConfig
	cfgSlice := func(v ssa.Value) *types.Var {
		for _, r := range aliasRoots(v) {
			if u, ok := r.(*ssa.UnOp); ok && u.Op == token.MUL {
				if fa, ok := u.X.(*ssa.FieldAddr); ok && sliceFields[fieldOfAddr(fa)] {
					return fieldOfAddr(fa)
				}
			}
			if fl, ok := r.(*ssa.Field); ok {
				if s, ok := fl.X.Type().Underlying().(*types.Struct); ok && sliceFields[s.Field(fl.Field)] {
					return s.Field(fl.Field)
				}
			}
		}
		return nil
	}
	reads, bad := 0, false
	for _, rel := range []string{"security", "client", "server", "ccb", "stream", "message"} {
		for _, fn := range c.FnsOfPkg(rel) {
			allInstrs(fn, func(_ *ssa.BasicBlock, _ int, in ssa.Instruction) {
				switch x := in.(type) {
				case *ssa.UnOp:
					if fa, ok := x.X.(*ssa.FieldAddr); ok && x.Op == token.MUL && sliceFields[fieldOfAddr(fa)] {
						reads++
					}
				case *ssa.Call:
					if b, ok := x.Call.Value.(*ssa.Builtin); ok && (b.Name() == "append" || b.Name() == "copy") && len(x.Call.Args) > 0 {
						if f := cfgSlice(x.Call.Args[0]); f != nil {
							bad = true
							c.Violate(rule, fnName(fn)+"#"+b.Name()+":SecurityConfig."+f.Name(), b.Name()+" writes into the backing array of SecurityConfig."+f.Name()+", which connections sharing the configuration read concurrently (and keep using afterwards)", x.Pos())
						}
					}
				case *ssa.Store:
					if ia, ok := x.Addr.(*ssa.IndexAddr); ok {
						if f := cfgSlice(ia.X); f != nil {
							bad = true
							c.Violate(rule, fnName(fn)+"#element-store:SecurityConfig."+f.Name(), "stores into an element of SecurityConfig."+f.Name()+", shared by every connection using the configuration", x.Pos())
						}
					}
				}
			})
		}
	}
	if !bad {
		c.Ok(rule, "SecurityConfig#slices-read-only", "no append/copy/element store goes through a SecurityConfig slice field", cfgT.Pos())
	}
	c.MinCount(rule, "slice fields of SecurityConfig", len(sliceFields), 1)
	c.MinCount(rule, "reads of SecurityConfig slice fields examined", reads, 1)
}

// isDeadlineCall: call to a method SetDeadline/SetReadDeadline/SetWriteDeadline(time.Time); zero reports
// whether the argument is the zero time (the call clears the deadline).
func isDeadlineCall(in ssa.Instruction) (is, zero bool) {
	call, ok := in.(ssa.CallInstruction)
	if !ok {
		return false, false
	}
	o := calleeObj(call)
	if o == nil {
		return false, false
	}
	switch o.Name() {
	case "SetDeadline", "SetReadDeadline", "SetWriteDeadline":
	default:
		return false, false
	}
	sig, ok := o.Type().(*types.Signature)
	if !ok || sig.Recv() == nil || sig.Params().Len() != 1 {
		return false, false
	}
	if nt, ok := sig.Params().At(0).Type().(*types.Named); !ok || nt.Obj().Pkg() == nil || nt.Obj().Pkg().Path() != "time" || nt.Obj().Name() != "Time" {
		return false, false
	}
	args := call.Common().Args
	if len(args) == 0 {
		return true, false
	}
	return true, isZeroStruct(args[len(args)-1])
}

// isZeroStruct: v is the zero value of a struct type (T{} literal).
func isZeroStruct(v ssa.Value) bool {
	switch x := v.(type) {
	case *ssa.Const:
		return x.Value == nil
	case *ssa.UnOp:
		if x.Op != token.MUL {
			return false
		}
		al, ok := x.X.(*ssa.Alloc)
		if !ok || al.Referrers() == nil {
			return false
		}
		for _, r := range *al.Referrers() {
			switch y := r.(type) {
			case *ssa.UnOp, *ssa.DebugRef:
			case *ssa.Store:
				if y.Addr == al {
					return false
				}
			default:
				return false
			}
		}
		return true
	}
	return false
}

// c19Deadline summarises, per function, where socket deadlines are armed and cleared.
type c19Deadline struct {
	p    *Prog
	memo map[*ssa.Function]*c19DlSum
}

type c19DlSum struct {
	leavesArmed bool            // some path from an arming point reaches a return without a clear
	mustClear   bool            // every path entry -> return passes a clear
	at          ssa.Instruction // an arming point that is left armed
}

func (d *c19Deadline) sum(fn *ssa.Function, depth int) *c19DlSum {
	if s, ok := d.memo[fn]; ok {
		return s
	}
	s := &c19DlSum{}
	d.memo[fn] = s // recursion guard: treated as neutral while being computed
	if fn == nil || fn.Blocks == nil || depth < 0 {
		return s
	}
	var arms []ssa.Instruction
	cuts := newCuts()
	allInstrs(fn, func(_ *ssa.BasicBlock, _ int, in ssa.Instruction) {
		_, isDefer := in.(*ssa.Defer)
		_, isGo := in.(*ssa.Go)
		if isGo {
			return
		}
		if is, zero := isDeadlineCall(in); is {
			if zero {
				cuts.AddInstrs(in)
			} else if !isDefer {
				arms = append(arms, in)
			}
			return
		}
		call, ok := in.(ssa.CallInstruction)
		if !ok {
			return
		}
		var g *ssa.Function
		if mc, ok := call.Common().Value.(*ssa.MakeClosure); ok {
			g, _ = mc.Fn.(*ssa.Function)
		} else {
			g = calleeFn(call)
		}
		if g == nil || !isModuleFn(g) {
			return
		}
		gs := d.sum(g, depth-1)
		if gs.mustClear {
			cuts.AddInstrs(in) // a deferred clear counts where the defer is registered: it runs at every exit after it
		} else if gs.leavesArmed && !isDefer {
			arms = append(arms, in)
		}
	})
	rets := d.p.returnsOf(fn)
	s.mustClear = len(cuts.Instrs) > 0
	for _, r := range rets {
		if s.mustClear && findPath(entryPoint(fn), r.Target(), cuts) != nil {
			s.mustClear = false
		}
	}
	for _, a := range arms {
		for _, r := range rets {
			if findPath(after(a), r.Target(), cuts) != nil {
				s.leavesArmed, s.at = true, a
			}
		}
	}
	return s
}

// C19-R6: the stream's own I/O never leaves a deadline on the socket.
func c19r6(c *Ctx) {
	const rule = "C19-R6"
	c.Doc(rule, "no exported function of package stream from which readWithContext or writeWithContext is reachable returns with a socket deadline it (or a helper) set through SetDeadline/SetReadDeadline/SetWriteDeadline still armed: every path from such a call to a return passes a call that clears it (zero time.Time, possibly deferred or in a helper). A deadline left behind outlives the context it was derived from and fails a later operation whose context can never be cancelled; cancellation works by closing the connection from context.AfterFunc instead. SetTimeout, the caller's explicit request, performs no I/O and is outside the rule")
	rwc := c.needFn(rule, "stream", "(*Stream).readWithContext")
	wwc := c.needFn(rule, "stream", "(*Stream).writeWithContext")
	if rwc == nil || wwc == nil {
		return
	}
	d := &c19Deadline{p: c.Prog, memo: map[*ssa.Function]*c19DlSum{}}
	n, bad := 0, false
	roots := []*ssa.Function{rwc, wwc}
	for _, fn := range c.FnsOfPkg("stream") {
		if fn.Parent() != nil || fn.Object() == nil || !fn.Object().Exported() {
			continue
		}
		r := c.reachableFns([]*ssa.Function{fn}, false)
		if r[rwc] || r[wwc] {
			roots = append(roots, fn)
		}
	}
	for _, fn := range roots {
		n++
		if s := d.sum(fn, 6); s.leavesArmed {
			bad = true
			c.Violate(rule, fnName(fn)+"#deadline-left-armed", "returns with a socket deadline still set: a later operation under a context that can never be cancelled fails with an i/o timeout once that instant passes", s.at.Pos())
		}
	}
	if !bad {
		c.Ok(rule, "stream#no-deadline-left-behind", "no I/O entry point of the stream leaves a socket deadline armed", rwc.Pos())
	}
	c.MinCount(rule, "stream I/O entry points examined", n, 4)
}

func init() {
	register("C06", c06r12)
	register("C08", c08r7)
}

func isZeroNumConst(v ssa.Value) bool {
	k, ok := v.(*ssa.Const)
	if !ok || k.Value == nil {
		return false
	}
	switch k.Value.Kind() {
	case constant.Int, constant.Float:
		return constant.Sign(k.Value) == 0
	}
	return false
}

// C06-R12: renewing a leased session replaces its expiry by now + lease.
func c06r12(c *Ctx) {
	const rule = "C06-R12"
	c.Doc(rule, "in SessionEntry.RenewLease every path on which the lease is not zero passes a store of a value computed from time.Now() and the lease into SessionEntry.expiration (here or in a helper), with no further condition in between: after a resumption the session lives for one lease from now, so a session left idle for longer than its lease counts as expired at the next lookup even when the duration granted by the original handshake has not run out")
	fn := c.needFn(rule, "security", "(*SessionEntry).RenewLease")
	lease := c.needField(rule, "security", "SessionEntry", "lease")
	exp := c.needField(rule, "security", "SessionEntry", "expiration")
	if fn == nil || lease == nil || exp == nil {
		return
	}
	offEdges := func(g *ssa.Function) []Edge {
		var off []Edge
		for _, b := range g.Blocks {
			ifi := blockIf(b)
			if ifi == nil {
				continue
			}
			a := condAtom(ifi.Cond)
			op := a.Op
			var other ssa.Value
			if mentionsField(a.X, lease) {
				other = a.Y
			} else if a.Y != nil && mentionsField(a.Y, lease) {
				other = a.X
				switch op {
				case token.GTR:
					op = token.LSS
				case token.LSS:
					op = token.GTR
				case token.GEQ:
					op = token.LEQ
				case token.LEQ:
					op = token.GEQ
				}
			} else {
				continue
			}
			if other == nil || !isZeroNumConst(other) {
				continue
			}
			zeroOnTrue, zeroOnFalse := false, false
			switch op {
			case token.EQL, token.LEQ: // lease == 0, lease <= 0
				zeroOnTrue = true
			case token.NEQ, token.GTR: // lease != 0, lease > 0
				zeroOnFalse = true
			}
			if a.Neg {
				zeroOnTrue, zeroOnFalse = zeroOnFalse, zeroOnTrue
			}
			if zeroOnTrue {
				off = append(off, Edge{b, 0})
			}
			if zeroOnFalse {
				off = append(off, Edge{b, 1})
			}
		}
		return off
	}
	isStore := storeHit(exp)
	hit := func(in ssa.Instruction) bool {
		st, ok := in.(*ssa.Store)
		if !ok || !isStore(in) {
			return false
		}
		if mentions(st.Val, isClockCall) {
			return true
		}
		// a setter: the value is the helper's parameter, computed by the caller
		_, isPar := stripConv(st.Val).(*ssa.Parameter)
		return isPar && st.Parent() != fn
	}
	n := len(offEdges(fn))
	cuts := c.satisfyingCuts(fn, hit, offEdges, 3, nil)
	c.mustPassReturns(rule, fn, c.returnsOf(fn), cuts, "a store of now+lease into SessionEntry.expiration (given a non-zero lease)")
	c.MinCount(rule, "tests of the lease against zero in RenewLease", n, 1)
}

// C08-R7: the old-ClassAd string decoder is a fallback behind the parser, never a shortcut in front of it.
func c08r7(c *Ctx) {
	const rule = "C08-R7"
	c.Doc(rule, "decodeOldClassAdString is called only from parseAndInsertExpression (and helpers only it calls), and every path from the entry of parseAndInsertExpression to such a call - followed through same-module helpers - passes the failure edge of classad.ParseExpr: a value the full parser accepts is always given the expression the parser assigns, the old-style reading is used only for texts the parser rejects")
	fn := c.needFn(rule, "message", "parseAndInsertExpression")
	dec := c.needFn(rule, "message", "decodeOldClassAdString")
	if fn == nil || dec == nil {
		return
	}
	isParse := func(call ssa.CallInstruction) bool {
		o := calleeObj(call)
		return o != nil && o.Pkg() != nil && o.Pkg().Name() == "classad" && o.Name() == "ParseExpr"
	}
	// who may call the decoder
	var got []*ssa.Function
	poss := map[*ssa.Function]token.Pos{}
	for _, cs := range c.callSites(dec.Object()) {
		got = append(got, cs.Fn)
		poss[cs.Fn] = cs.Call.Pos()
	}
	c.whoMayDeep(rule, "call decodeOldClassAdString", got, poss, fnSet(fn))
	failEdges := map[*ssa.Function]map[Edge]bool{}
	parses := 0
	search := &cxSearch{
		target: func(fr *cxFrame, in ssa.Instruction, _ *ssa.BasicBlock) bool {
			call, ok := in.(ssa.CallInstruction)
			return ok && calleeFn(call) == dec
		},
		cutEdge: func(fr *cxFrame, e Edge) bool {
			m, ok := failEdges[fr.fn]
			if !ok {
				m = map[Edge]bool{}
				allInstrs(fr.fn, func(_ *ssa.BasicBlock, _ int, in ssa.Instruction) {
					if call, ok := in.(*ssa.Call); ok && isParse(call) {
						parses++
						_, fail, _ := callErrEdges(fr.fn, call)
						for _, f := range fail {
							m[f] = true
						}
					}
				})
				failEdges[fr.fn] = m
			}
			return m[e]
		},
	}
	p := search.find(cxEntry(cxTop(fn)))
	c.Check(p == nil, rule, fnName(fn)+"#old-string-decoder-behind-parser", "the old-style decoder is reached only after classad.ParseExpr failed", "decodeOldClassAdString is reachable without classad.ParseExpr having rejected the value: a shortcut in front of the parser can assign a value the parser would not", fn.Pos(), c.describePath(p)...)
	c.MinCount(rule, "call sites of decodeOldClassAdString", len(got), 1)
	c.MinCount(rule, "classad.ParseExpr calls on the way", parses, 1)
}
