package main

import (
	"go/ast"
	"go/constant"
	"go/token"
	"go/types"
	"sort"
	"strconv"
	"strings"

	"golang.org/x/tools/go/ssa"
)

// C15 — exported crypto state resumes the session exactly; export only when clean.
// Helpers are in help_c15.go.

func init() { register("C15", c15r1, c15r2, c15r3, c15r4, c15r5) }

// Frozen exception tables (one symbol per line, with the reason).
var c15notExported = map[string]string{
	"sendDigest": "the running send hash is dead once finalSendDigest is frozen; export is refused until the first protected frame was sent (finishedSendAAD, C15-R4), which freezes it",
	"recvDigest": "the running receive hash is dead once finalRecvDigest is frozen; export is refused until the first protected frame was received (finishedRecvAAD, C15-R4), which freezes it",
}

// Fields that are a function of another exported field: the obligation moves to that field.
var c15derivedFrom = map[string]string{
	"gcm": "encryptKey", // the AEAD object is not serialisable; SetSymmetricKey and the importer both build it from the key (checked in C15-R3)
}

// Buffering fields that need no refusal test of their own, with the structural fact that justifies it (verified).
var c15bufferingImplied = map[string]string{
	"totalMsgBytes": "receiveBuffer", // every store is len(receiveBuffer) or the zero written together with receiveBuffer = nil
}

// c15K computes the crypto-relevant field set: Stream fields read (transitively, inside package stream) by
// the functions that decide what the next protected frame looks like, plus the fields tested directly in
// the branch conditions of the frame sender and the two frame receivers. readers[f] lists the functions.
func (c *Ctx) c15K(rule string, e *c15env) (K map[*types.Var]bool, readers map[*types.Var][]*ssa.Function, ok bool) {
	K = map[*types.Var]bool{}
	readers = map[*types.Var][]*ssa.Function{}
	ok = true
	var roots []*ssa.Function
	for _, n := range []string{"(*Stream).encryptDataWithAAD", "(*Stream).decryptDataWithAAD", "(*Stream).calculateEncryptedSize", "(*Stream).finalizeSendDigest", "(*Stream).finalizeRecvDigest"} {
		if f := c.needFn(rule, "stream", n); f != nil {
			roots = append(roots, f)
		} else {
			ok = false
		}
	}
	var fns []*ssa.Function
	for f := range c.reachableFns(roots, false) {
		if fnPkg(f) == e.pkg {
			fns = append(fns, f)
		}
	}
	sort.Slice(fns, func(i, j int) bool { return fnName(fns[i]) < fnName(fns[j]) })
	for _, fn := range fns {
		rw := e.c15rw(fn)
		for f := range rw.reads {
			K[f] = true
			readers[f] = append(readers[f], fn)
		}
	}
	for _, n := range []string{"(*Stream).sendMessageWithEnd", "(*Stream).ReceiveFrame", "(*Stream).ReceiveFrameWithEnd"} {
		fn := c.needFn(rule, "stream", n)
		if fn == nil {
			ok = false
			continue
		}
		for f := range e.c15condReads(fn) {
			K[f] = true
			readers[f] = append(readers[f], fn)
		}
	}
	return
}

// c15scratch: every read of f in the functions that put it into K is preceded, inside that function, by a
// write of f on every path: the field carries no state from one operation to the next.
func (e *c15env) c15scratch(f *types.Var, fns []*ssa.Function) bool {
	if len(fns) == 0 {
		return false
	}
	for _, fn := range fns {
		rw := e.c15rw(fn)
		if len(rw.writes[f]) == 0 {
			return false
		}
		cuts := newCuts().AddInstrs(rw.writes[f]...)
		for _, r := range rw.reads[f] {
			if findPath(entryPoint(fn), Target{Instr: r}, cuts) != nil {
				return false
			}
		}
	}
	return true
}

func c15blobPred(imp *ssa.Function, blobCell ssa.Value) func(ssa.Value) bool {
	blob := ssa.Value(imp.Params[len(imp.Params)-1])
	return func(v ssa.Value) bool { return v == blob || v == blobCell }
}

func c15names(m map[*types.Var]bool) string {
	var n []string
	for _, f := range c15sortedFields(m) {
		n = append(n, f.Name())
	}
	return strings.Join(n, ",")
}

// ---------------------------------------------------------------------------
// C15-R1: the exported field set is sufficient.
func c15r1(c *Ctx) {
	const rule = "C15-R1"
	c.Doc(rule, "K = Stream fields read (transitively) by encryptDataWithAAD, decryptDataWithAAD, calculateEncryptedSize and the two digest finalizers, plus the fields tested in the branch conditions of sendMessageWithEnd/ReceiveFrame/ReceiveFrameWithEnd (computed); every field of K flows into the blob ExportCryptoState writes (as data or as the condition of a flag bit) and is stored by NewStreamWithCryptoState from a blob-derived value, except fields that are written before every read (scratch, computed), fields derived from an exported field (gcm from encryptKey) and the two running digests (frozen exceptions, conditional on C15-R4)")
	e := c.c15load(rule)
	if !e.ok {
		return
	}
	K, readers, ok := c.c15K(rule, e)
	if !ok {
		return
	}
	c.Note("%s: K = {%s}", rule, c15names(K))
	c.MinCount(rule, "crypto-relevant fields (K)", len(K), 5)
	exp, p1 := c.c15exportItems(e)
	_, p2, blobCell, stores, _ := c.c15importItems(e)
	for _, p := range append(p1, p2...) {
		c.Undecided(rule, "layout-extraction", p, e.exp.Pos())
	}
	exported := map[*types.Var]bool{}
	for _, it := range exp {
		for f := range it.fields {
			exported[f] = true
		}
	}
	fromBlob := func(f *types.Var) bool {
		pred := c15blobPred(e.imp, blobCell)
		for _, st := range stores[f] {
			if c.c15dep(st.fr, st.st.Val, pred, 0) {
				return true
			}
		}
		return false
	}
	for _, f := range c15sortedFields(K) {
		key := "K:" + f.Name()
		if e.c15scratch(f, readers[f]) {
			c.Ok(rule, key, "scratch: written before every read inside each operation that reads it", f.Pos())
			continue
		}
		if why, ok := c15notExported[f.Name()]; ok {
			c.Ok(rule, key, "frozen exception: "+why, f.Pos())
			c.Note("%s: %s is crypto-relevant and not exported (frozen exception: %s)", rule, f.Name(), why)
			continue
		}
		src := f
		if d, ok := c15derivedFrom[f.Name()]; ok {
			src = e.byName[d]
			if src == nil {
				c.AnchorMissing(rule, "stream.Stream."+d)
				continue
			}
		}
		what := f.Name()
		if src != f {
			what += " (through " + src.Name() + ")"
		}
		c.Check(exported[src], rule, key+"#exported", what+" flows into the exported blob", "crypto-relevant field "+what+" is not written into the blob by ExportCryptoState: the imported stream cannot continue the session", e.exp.Pos())
		c.Check(fromBlob(f) && fromBlob(src), rule, key+"#restored", what+" is restored from the blob", "crypto-relevant field "+what+" is not assigned from a blob-derived value by NewStreamWithCryptoState", e.imp.Pos())
	}
}

// ---------------------------------------------------------------------------
// C15-R2: layout agreement.
func c15r2(c *Ctx) {
	const rule = "C15-R2"
	c.Doc(rule, "the sequence of (width, source fields) items ExportCryptoState writes equals the sequence of (offset, width, destination fields) items NewStreamWithCryptoState reads: same count, same widths at contiguous offsets, fixed part = cryptoStateFixedLen, same magic and version constants, big-endian on both sides, each flag bit constant used for the same field on both sides, three uint16-length-prefixed trailing fields in the same order")
	e := c.c15load(rule)
	if !e.ok {
		return
	}
	exp, p1 := c.c15exportItems(e)
	imp, p2, _, stores, _ := c.c15importItems(e)
	for _, p := range append(p1, p2...) {
		c.Undecided(rule, "layout-extraction", p, e.exp.Pos())
	}
	if len(p1)+len(p2) > 0 {
		return
	}
	c.MinCount(rule, "exporter items", len(exp), 3)
	c.MinCount(rule, "importer items", len(imp), 3)
	if !c.Check(len(exp) == len(imp), rule, "item-count", "both sides handle the same number of items", "the exporter writes "+strconv.Itoa(len(exp))+" items but the importer reads "+strconv.Itoa(len(imp)), e.imp.Pos()) {
		return
	}
	fixed := c.needObj(rule, "stream", "cryptoStateFixedLen")
	var off int64
	nVar := 0
	for i := range exp {
		x, m := exp[i], imp[i]
		label := c15names(x.fields)
		if label == "" {
			label = "const"
			if x.konst != "" {
				label = "const:" + x.konst
			}
		}
		key := "item" + strconv.Itoa(i) + ":" + label
		okW := x.width == m.width
		if x.width > 0 {
			okW = okW && m.off == off
			off += x.width
		} else {
			nVar++
		}
		c.Check(okW, rule, key+"#width", "same width at the same offset", "item "+strconv.Itoa(i)+" ("+label+"): the exporter writes width "+strconv.FormatInt(x.width, 10)+" but the importer reads width "+strconv.FormatInt(m.width, 10)+" at offset "+strconv.FormatInt(m.off, 10)+" (expected offset "+strconv.FormatInt(off-c15max64(x.width, 0), 10)+"; -1 = uint16-prefixed)", m.instr.Pos())
		if x.konst != "" || m.konst != "" {
			c.Check(x.konst == m.konst, rule, key+"#constant", "the importer compares with the constant the exporter writes", "item "+strconv.Itoa(i)+": the exporter writes constant "+strconv.Quote(x.konst)+" but the importer compares with "+strconv.Quote(m.konst), m.instr.Pos())
		}
		okF := true
		for f := range x.fields {
			if !m.fields[f] {
				okF = false
			}
		}
		for g := range m.fields {
			if x.fields[g] {
				continue
			}
			if d, ok := c15derivedFrom[g.Name()]; ok && x.fields[e.byName[d]] {
				continue
			}
			okF = false
		}
		c.Check(okF, rule, key+"#fields", "the importer stores this item into the fields it was exported from", "item "+strconv.Itoa(i)+": exported from {"+c15names(x.fields)+"} but imported into {"+c15names(m.fields)+"}", m.instr.Pos())
		// numeric items are big-endian on the importer side too (the exporter's binary.Write order is checked during extraction)
		if _, isCall := x.instr.(ssa.CallInstruction); isCall && c15calleeIs(x.instr.(ssa.CallInstruction), "encoding/binary", "Write") {
			want := map[int64]string{2: "Uint16", 4: "Uint32", 8: "Uint64"}[x.width]
			okD := false
			if v, ok := m.val.(ssa.Value); ok && want != "" {
				for _, r := range *v.Referrers() {
					if call, ok := r.(*ssa.Call); ok && c15calleeIs(call, "encoding/binary", want) && c15isGlobalLoad(call.Call.Args[0], "encoding/binary", "BigEndian") {
						okD = true
					}
				}
			}
			c.Check(okD, rule, key+"#byteorder", "decoded big-endian with the matching width", "item "+strconv.Itoa(i)+": written with binary.Write(BigEndian) but not decoded with binary.BigEndian."+want, m.instr.Pos())
		}
		// flag bits
		si := e.c15sliceFr(x.fr, x.val)
		for _, f := range c15sortedFields(c15fieldKeys(si.ctrlFlds)) {
			k := si.bits[f]
			mk := int64(-1)
			for _, st := range stores[f] {
				if b := c15bitOfStore(st.st); b >= 0 {
					mk = b
				}
			}
			c.Check(k > 0 && k == mk, rule, "flag:"+f.Name(), "the same bit encodes this flag on both sides", "flag "+f.Name()+": the exporter sets bit "+strconv.FormatInt(k, 10)+" but the importer tests bit "+strconv.FormatInt(mk, 10)+" (-1 = not recognised)", e.imp.Pos())
		}
	}
	if fixed != nil {
		fv, _ := constant.Int64Val(c15constVal(fixed))
		c.Check(fv == off, rule, "fixed-length", "the fixed part adds up to cryptoStateFixedLen", "the fixed-width items add up to "+strconv.FormatInt(off, 10)+" bytes but cryptoStateFixedLen is "+strconv.FormatInt(fv, 10), fixed.Pos())
	}
	c.MinCount(rule, "uint16-prefixed trailing fields", nVar, 1)
}

func c15max64(a, b int64) int64 {
	if a > b {
		return a
	}
	return b
}

func c15fieldKeys(m map[*types.Var]*ssa.Phi) map[*types.Var]bool {
	out := map[*types.Var]bool{}
	for f := range m {
		out[f] = true
	}
	return out
}

func c15constVal(o types.Object) constant.Value {
	if k, ok := o.(*types.Const); ok {
		return k.Val()
	}
	return constant.MakeUnknown()
}

// ---------------------------------------------------------------------------
// C15-R3: verbatim restore.
func c15r3(c *Ctx) {
	const rule = "C15-R3"
	c.Doc(rule, "NewStreamWithCryptoState (and everything it calls in the module) neither calls SetSymmetricKey nor any random source; every store it makes - itself or in a helper it hands blob-derived data to - to a crypto-relevant field (K of C15-R1, plus encryptKey) is blob-derived; other functions it calls write no crypto-relevant field except the frozen exceptions; it builds the AEAD with the same constructors and nonce size as SetSymmetricKey")
	e := c.c15load(rule)
	ssk := c.needFn(rule, "stream", "(*Stream).SetSymmetricKey")
	if !e.ok || ssk == nil {
		return
	}
	K, _, ok := c.c15K(rule, e)
	if !ok {
		return
	}
	if ek := e.byName["encryptKey"]; ek != nil {
		K[ek] = true
	}
	_, probs, blobCell, stores, _ := c.c15importItems(e)
	// helpers the importer hands blob-derived data to (setters): their stores are checked like the importer's own
	storeFns := map[*ssa.Function]bool{}
	for _, sts := range stores {
		for _, st := range sts {
			storeFns[st.fr.fn] = true
		}
	}
	reach := c.reachableFns([]*ssa.Function{e.imp}, false)
	var fns []*ssa.Function
	for f := range reach {
		fns = append(fns, f)
	}
	sort.Slice(fns, func(i, j int) bool { return fnName(fns[i]) < fnName(fns[j]) })
	bad := 0
	for _, fn := range fns {
		allInstrs(fn, func(_ *ssa.BasicBlock, _ int, in ssa.Instruction) {
			call, ok := in.(ssa.CallInstruction)
			if !ok {
				return
			}
			o := calleeObj(call)
			if o == nil || o.Pkg() == nil {
				return
			}
			p := o.Pkg().Path()
			if types.Object(o) == ssk.Object() || p == "crypto/rand" || p == "math/rand" || p == "math/rand/v2" {
				bad++
				c.Violate(rule, "regenerates:"+fnName(fn)+"->"+o.Name(), "the import path calls "+o.FullName()+": IV/counters would be regenerated instead of restored", call.Pos())
			}
		})
		if topFn(fn) != e.imp && !storeFns[fn] {
			rw := e.c15rw(fn)
			for f := range rw.writes {
				if K[f] && c15notExported[f.Name()] == "" {
					bad++
					c.Violate(rule, "callee-writes:"+fnName(fn)+"."+f.Name(), fnName(fn)+" (called on the import path) writes crypto-relevant field "+f.Name(), rw.writes[f][0].Pos())
				}
			}
		}
	}
	if bad == 0 {
		c.Ok(rule, "no-regeneration", "no SetSymmetricKey / random source on the import path; callees write no crypto-relevant field", e.imp.Pos())
	}
	c.MinCount(rule, "functions on the import path", len(fns), 1)
	for _, p := range probs {
		c.Undecided(rule, "layout-extraction", p, e.imp.Pos())
	}
	pred := c15blobPred(e.imp, blobCell)
	n := 0
	for _, f := range c15sortedFields(K) {
		for _, st := range stores[f] {
			n++
			c.Check(c.c15dep(st.fr, st.st.Val, pred, 0), rule, "verbatim:"+f.Name(), "assigned from a blob-derived value", "NewStreamWithCryptoState assigns "+f.Name()+" a value that does not come from the blob", st.st.Pos())
		}
	}
	c.MinCount(rule, "stores to crypto-relevant fields in the importer", n, 5)
	// writes that are not plain stores (copy into / call on a slice of the field) cannot be followed
	indirectIn := withClosures(e.imp)
	for g := range storeFns {
		if topFn(g) != e.imp {
			indirectIn = append(indirectIn, g)
		}
	}
	sort.Slice(indirectIn, func(i, j int) bool { return fnName(indirectIn[i]) < fnName(indirectIn[j]) })
	for _, g := range indirectIn {
		rw := e.c15rw(g)
		for _, f := range c15sortedFields(K) {
			for _, w := range rw.writes[f] {
				plain := false
				for _, r := range *w.(ssa.Value).Referrers() {
					if st, ok := r.(*ssa.Store); ok && st.Addr == w.(ssa.Value) {
						plain = true
					}
				}
				if !plain {
					c.Undecided(rule, "verbatim:"+f.Name()+"#indirect", "NewStreamWithCryptoState writes "+f.Name()+" through a slice or a call; the rule cannot prove the value blob-derived", w.Pos())
				}
			}
		}
	}
	// AEAD construction agrees with SetSymmetricKey
	sig := func(fn *ssa.Function) (string, bool) {
		var parts []string
		okKey := false
		// the constructors called by fn or by a same-package helper it delegates to (a shared "build the AEAD" step)
		var scan func(g *ssa.Function, depth int)
		seen := map[*ssa.Function]bool{}
		scan = func(g *ssa.Function, depth int) {
			if seen[g] {
				return
			}
			seen[g] = true
			allInstrs(g, func(_ *ssa.BasicBlock, _ int, in ssa.Instruction) {
				call, ok := in.(ssa.CallInstruction)
				if !ok {
					return
				}
				if h := calleeFn(call); h != nil && h.Blocks != nil && fnPkg(h) == e.pkg && depth < 2 {
					scan(h, depth+1)
					return
				}
				o := calleeObj(call)
				if o == nil || o.Pkg() == nil || !(o.Pkg().Path() == "crypto/aes" || o.Pkg().Path() == "crypto/cipher") {
					return
				}
				s := o.Pkg().Path() + "." + o.Name()
				for _, a := range call.Common().Args {
					if k, ok := constInt(a); ok {
						s += "(" + strconv.FormatInt(k, 10) + ")"
					}
				}
				parts = append(parts, s)
				if o.Name() == "NewCipher" {
					okKey = true
				}
			})
		}
		scan(fn, 0)
		sort.Strings(parts)
		return strings.Join(parts, " "), okKey
	}
	a, okA := sig(ssk)
	b, okB := sig(e.imp)
	c.Check(okA && okB && a == b, rule, "aead-construction", "the importer builds the AEAD exactly as SetSymmetricKey does ("+b+")", "AEAD construction differs: SetSymmetricKey uses ["+a+"], the importer ["+b+"]", e.imp.Pos())
}

// ---------------------------------------------------------------------------
// C15-R4: refusal conditions.
func c15r4(c *Ctx) {
	const rule = "C15-R4"
	c.Doc(rule, "every success return of ExportCryptoState is preceded by an edge (a branch, also through a local boolean, a predicate or an error-returning helper) on which encrypted is true, gcm is non-nil, finishedSendAAD and finishedRecvAAD are true, and, for each buffering field (B = Stream fields written by WriteMessage/StartMessage/EndMessage/flushPartialFrame/readNextFrame/StartMessageRead/ReadMessageBytes/EndMessageRead, computed), by an edge on which it is false/zero/empty")
	e := c.c15load(rule)
	if !e.ok {
		return
	}
	tg := c.successTargets(e.exp)
	c.MinCount(rule, "success returns of ExportCryptoState", len(tg), 1)
	pass := func(key string, test c15test, okMsg, badMsg string) {
		if ok, p, ret := c.c15mustPass(e, e.exp, test); !ok {
			c.Violate(rule, key, badMsg, ret.Pos(), c.describePath(p)...)
			return
		}
		c.Ok(rule, key, okMsg, e.exp.Pos())
	}
	for _, n := range []string{"encrypted", "gcm", "finishedSendAAD", "finishedRecvAAD"} {
		f := c.needField(rule, "stream", "Stream", n)
		if f == nil {
			continue
		}
		pass("requires:"+n, c15fieldOn(f), "export is refused unless "+n+" is set", "ExportCryptoState can succeed without "+n+" being set")
	}
	B := map[*types.Var]bool{}
	var apiFns []*ssa.Function
	nf := 0
	for _, n := range []string{"WriteMessage", "StartMessage", "EndMessage", "flushPartialFrame", "readNextFrame", "StartMessageRead", "ReadMessageBytes", "EndMessageRead"} {
		fn := c.needFn(rule, "stream", "(*Stream)."+n)
		if fn == nil {
			continue
		}
		nf++
		for f := range e.c15rw(fn).writes {
			B[f] = true
		}
		apiFns = append(apiFns, fn)
	}
	// unexported helpers only the buffer API calls (an extracted "reset the receive state" step) write for it
	apiSet := fnSet(apiFns...)
	var helpers []*ssa.Function
	for g := range c.reachableFns(apiFns, false) {
		if !apiSet[g] && fnPkg(g) == e.pkg && g.Parent() == nil && g.Object() != nil && !g.Object().Exported() && len(e.c15rw(g).writes) > 0 {
			helpers = append(helpers, g)
		}
	}
	sort.Slice(helpers, func(i, j int) bool { return fnName(helpers[i]) < fnName(helpers[j]) })
	for _, g := range helpers {
		if c.onlyReachableFrom(g, apiSet) {
			for f := range e.c15rw(g).writes {
				B[f] = true
			}
		}
	}
	c.Note("%s: B = {%s}", rule, c15names(B))
	c.MinCount(rule, "buffering fields (B)", len(B), 2)
	for _, f := range c15sortedFields(B) {
		key := "clean:" + f.Name()
		if of, ok := c15bufferingImplied[f.Name()]; ok {
			other := e.byName[of]
			if other == nil {
				c.AnchorMissing(rule, "stream.Stream."+of)
				continue
			}
			if why := c.c15impliedBy(e, f, other); why != "" {
				c.Violate(rule, key, f.Name()+" is exempt from its own refusal test only because it mirrors "+of+", but "+why, f.Pos())
			} else if B[other] {
				c.Ok(rule, key, "exception: "+f.Name()+" is len("+of+") or zero together with it (every store verified); "+of+" is tested", f.Pos())
			} else {
				c.Violate(rule, key, of+" is no longer a buffering field, the exception for "+f.Name()+" is void", f.Pos())
			}
			continue
		}
		pass(key, c15fieldClean(f), "export is refused while "+f.Name()+" holds buffered state", "ExportCryptoState can succeed while "+f.Name()+" is non-zero: a partially sent or partially consumed message would be stranded")
	}
}

// c15impliedBy verifies that every store to f in package stream is len(<other>) or a zero stored in a block
// that also clears other. Returns "" when that holds.
func (c *Ctx) c15impliedBy(e *c15env, f, other *types.Var) string {
	n := 0
	for _, fn := range c.FnsOfPkg("stream") {
		var bad string
		allInstrs(fn, func(b *ssa.BasicBlock, _ int, in ssa.Instruction) {
			st, ok := in.(*ssa.Store)
			if !ok {
				return
			}
			fa, ok := st.Addr.(*ssa.FieldAddr)
			if !ok || e.c15fieldOf(fa) != f {
				return
			}
			n++
			if l, ok := c15isBuiltin(st.Val, "len"); ok && readsField(l.Call.Args[0], other) {
				return
			}
			if k, ok := constInt(st.Val); ok && k == 0 {
				for _, o := range b.Instrs {
					if os, ok := o.(*ssa.Store); ok {
						if ofa, ok := os.Addr.(*ssa.FieldAddr); ok && e.c15fieldOf(ofa) == other && isNilConst(os.Val) {
							return
						}
					}
				}
			}
			bad = fnName(fn) + " stores another value into it (" + c.Pos(st.Pos()) + ")"
		})
		if bad != "" {
			return bad
		}
	}
	if n == 0 {
		return "no store was found"
	}
	return ""
}

// ---------------------------------------------------------------------------
// C15-R5: import rejects.
func c15r5(c *Ctx) {
	const rule = "C15-R5"
	c.Doc(rule, "every success return of NewStreamWithCryptoState passes the edges len(blob) >= cryptoStateFixedLen, magic == cryptoStateMagic, version == cryptoStateVersion and the nil-error edge of each of the three trailing-field reads; every fixed read lies below the tested length and after the test; the trailing-field reader tests off+2 and off+n against len(blob) before slicing")
	e := c.c15load(rule)
	fixed := c.needObj(rule, "stream", "cryptoStateFixedLen")
	magic := c.needObj(rule, "stream", "cryptoStateMagic")
	version := c.needObj(rule, "stream", "cryptoStateVersion")
	if !e.ok || fixed == nil || magic == nil || version == nil {
		return
	}
	fn := e.imp
	items, probs, blobCell, _, unchecked := c.c15importItems(e)
	for _, p := range probs {
		c.Undecided(rule, "layout-extraction", p, fn.Pos())
	}
	blob := ssa.Value(fn.Params[len(fn.Params)-1])
	isBlob := func(fr *c15frame, v ssa.Value) bool { return c15isBlob(blob, blobCell, fr, v) }
	fv, _ := constant.Int64Val(c15constVal(fixed))
	mv := constant.StringVal(c15constVal(magic))
	vv, _ := constant.Int64Val(constant.ToInt(c15constVal(version)))
	// the three acceptance facts as atom tests (evaluated in the importer or in a helper it hands the blob to)
	lenTest := func(fr *c15frame, a Atom) (bool, bool) { // len(blob) >= cryptoStateFixedLen
		l, ok := c15isBuiltin(a.X, "len")
		if !ok || !isBlob(fr, l.Call.Args[0]) {
			return false, false
		}
		if k, isC := constInt(a.Y); !isC || k != fv {
			return false, false
		}
		switch a.Op {
		case token.LSS:
			return a.Neg, !a.Neg
		case token.GEQ:
			return !a.Neg, a.Neg
		}
		return false, false
	}
	magicTest := func(fr *c15frame, a Atom) (bool, bool) { // string(blob[:len(magic)]) == magic
		if a.Op != token.NEQ && a.Op != token.EQL {
			return false, false
		}
		s, ok := constString(a.Y)
		if !ok || s != mv {
			return false, false
		}
		cv, ok := a.X.(*ssa.Convert)
		if !ok {
			return false, false
		}
		sl, ok := cv.X.(*ssa.Slice)
		if !ok || !isBlob(fr, sl.X) {
			return false, false
		}
		lo, hi := int64(0), int64(-1)
		if sl.Low != nil {
			lo, _ = constInt(sl.Low)
		}
		if sl.High != nil {
			hi, _ = constInt(sl.High)
		}
		if lo != 0 || hi != int64(len(mv)) {
			return false, false
		}
		eq := a.Op == token.EQL
		if a.Neg {
			eq = !eq
		}
		return eq, !eq
	}
	verTest := func(fr *c15frame, a Atom) (bool, bool) { // version (decoded from the item at offset len(magic)) == cryptoStateVersion
		if a.Op != token.NEQ && a.Op != token.EQL {
			return false, false
		}
		if k, ok := constInt(a.Y); !ok || k != vv {
			return false, false
		}
		call, ok := a.X.(*ssa.Call)
		if !ok || !c15calleeIs(call, "encoding/binary", "Uint16") {
			return false, false
		}
		found := false
		for _, it := range items {
			if it.val == call.Call.Args[len(call.Call.Args)-1] && it.off == int64(len(mv)) {
				found = true
			}
		}
		if !found {
			return false, false
		}
		eq := a.Op == token.EQL
		if a.Neg {
			eq = !eq
		}
		return eq, !eq
	}
	tg := c.successTargets(fn)
	c.MinCount(rule, "success returns of NewStreamWithCryptoState", len(tg), 1)
	pass := func(key string, test c15test, okMsg, badMsg string) {
		if ok, p, ret := c.c15mustPass(e, fn, test); !ok {
			c.Violate(rule, key, badMsg, ret.Pos(), c.describePath(p)...)
			return
		}
		c.Ok(rule, key, okMsg, fn.Pos())
	}
	pass("rejects:short", lenTest, "a blob shorter than cryptoStateFixedLen is rejected", "NewStreamWithCryptoState can succeed without testing len(blob) against cryptoStateFixedLen")
	pass("rejects:magic", magicTest, "a blob with the wrong magic is rejected", "NewStreamWithCryptoState can succeed without the first bytes equalling cryptoStateMagic")
	pass("rejects:version", verTest, "a blob of another version is rejected", "NewStreamWithCryptoState can succeed without the version field equalling cryptoStateVersion")
	// the layout constants are named by the importer or by the helpers it delegates to
	uses := func(obj types.Object) int {
		n := 0
		for g := range c.reachableFns([]*ssa.Function{fn}, false) {
			if fnPkg(g) == e.pkg && g.Parent() == nil {
				n += c15astUses(c, g, obj)
			}
		}
		return n
	}
	c.Check(uses(fixed) >= 1 && uses(magic) >= 1 && uses(version) >= 1, rule, "names-constants", "the importer names cryptoStateFixedLen, cryptoStateMagic and cryptoStateVersion", "the importer does not refer to the layout constants the exporter is written against", fn.Pos())
	// guardedAt: every path to in (of frame fr) passes a len(blob) >= cryptoStateFixedLen edge, in fr or - for a
	// helper - on the way to the call through which it is entered
	var guardedAt func(fr *c15frame, in ssa.Instruction) bool
	guardedAt = func(fr *c15frame, in ssa.Instruction) bool {
		if findPath(entryPoint(fr.fn), Target{Instr: in}, e.factCuts(c.Prog, fr, lenTest, 3)) == nil {
			return true
		}
		return fr.parent != nil && guardedAt(fr.parent, fr.site.(ssa.Instruction))
	}
	// fixed reads: below the tested length and after the test
	nFixed, nVar := 0, 0
	for i, it := range items {
		if it.width > 0 {
			nFixed++
			key := "fixed-read@" + strconv.FormatInt(it.off, 10)
			within := it.off+it.width <= fv
			c.Check(within && guardedAt(it.fr, it.instr), rule, key, "lies below cryptoStateFixedLen and after the length test", "the read of blob["+strconv.FormatInt(it.off, 10)+":"+strconv.FormatInt(it.off+it.width, 10)+"] is not covered by the length test (a truncated blob panics or is misread)", it.instr.Pos())
			continue
		}
		nVar++
		key := "rejects:truncated-field" + strconv.Itoa(i)
		call, isCall := it.instr.(*ssa.Call)
		if !isCall {
			// read inline in the importer: rejection is the bounds test itself (trailing-reader-bounds below)
			c.Ok(rule, key, "the trailing field is read inline, behind its bounds tests", it.instr.Pos())
			continue
		}
		succ, _, checked := callErrEdges(fn, call)
		if !checked {
			c.Violate(rule, key, "the error of a trailing-field read is never tested", call.Pos())
			continue
		}
		okT := true
		for _, t := range tg {
			if p := findPath(entryPoint(fn), t.Target(), newCuts().AddEdges(succ...)); p != nil {
				c.Violate(rule, key, "NewStreamWithCryptoState can succeed although reading this trailing field failed", t.Ret.Pos(), c.describePath(p)...)
				okT = false
				break
			}
		}
		if okT {
			c.Ok(rule, key, "a blob truncated in this trailing field is rejected", fn.Pos())
		}
	}
	c.MinCount(rule, "fixed reads", nFixed, 3)
	c.MinCount(rule, "trailing-field reads", nVar, 1)
	seen := map[string]bool{}
	for _, u := range unchecked {
		if !seen[u] {
			seen[u] = true
			c.Violate(rule, "trailing-reader-bounds", u, fn.Pos())
		}
	}
	if len(unchecked) == 0 && nVar > 0 {
		c.Ok(rule, "trailing-reader-bounds", "the trailing-field reader tests every upper bound against len(blob) before slicing", fn.Pos())
	}
}

func c15astUses(c *Ctx, fn *ssa.Function, obj types.Object) int {
	syn := fn.Syntax()
	if syn == nil || fnPkg(fn) == nil {
		return 0
	}
	pk := c.All[fnPkg(fn).Path()]
	if pk == nil || pk.TypesInfo == nil {
		return 0
	}
	n := 0
	ast.Inspect(syn, func(x ast.Node) bool {
		if id, ok := x.(*ast.Ident); ok && pk.TypesInfo.Uses[id] == obj {
			n++
		}
		return true
	})
	return n
}
