package main

import (
	"go/token"
	"go/types"
	"sort"

	"golang.org/x/tools/go/ssa"
)

// Helpers of the C19 rules (cancellation reaches every blocking stream operation). Names are prefixed c19.

func c19isCtx(t types.Type) bool {
	n, ok := t.(*types.Named)
	return ok && n.Obj().Pkg() != nil && n.Obj().Pkg().Path() == "context" && n.Obj().Name() == "Context"
}

func c19isCtxPtr(t types.Type) bool {
	p, ok := t.Underlying().(*types.Pointer)
	return ok && c19isCtx(p.Elem())
}

// c19hasCtxParam: fn, or a function lexically enclosing it, has a context.Context parameter.
func c19hasCtxParam(fn *ssa.Function) bool {
	for f := fn; f != nil; f = f.Parent() {
		for _, p := range f.Params {
			if c19isCtx(p.Type()) {
				return true
			}
		}
	}
	return false
}

// ---------------------------------------------------------------------------
// call graph view: the engine's VTA-over-CHA graph (p.CG()) indexed by call site, plus closure-creation
// edges (a function "reaches" the closures it creates). Only module functions are nodes: paths through the
// standard library are not followed (fmt's reflection-driven dispatch would make everything reach everything);
// the CEDAR net.Conn adapter that crypto/tls calls back into is itself a node and is checked on its own.

type c19graph struct {
	out  map[*ssa.Function][]*ssa.Function
	site map[ssa.CallInstruction][]*ssa.Function
	all  []*ssa.Function
}

func (c *Ctx) c19build() *c19graph {
	g := &c19graph{out: map[*ssa.Function][]*ssa.Function{}, site: map[ssa.CallInstruction][]*ssa.Function{}}
	cg := c.CG()
	for fn, n := range cg.Nodes {
		if fn == nil || fnPkg(fn) == nil || !inModule(fnPkg(fn).Path()) {
			continue
		}
		g.all = append(g.all, fn)
		seen := map[*ssa.Function]bool{}
		for _, e := range n.Out {
			t := e.Callee.Func
			if t == nil || fnPkg(t) == nil || !inModule(fnPkg(t).Path()) {
				continue
			}
			if e.Site != nil {
				g.site[e.Site] = append(g.site[e.Site], t)
			}
			if !seen[t] {
				seen[t] = true
				g.out[fn] = append(g.out[fn], t)
			}
		}
		if fn.Blocks == nil {
			continue
		}
		allInstrs(fn, func(_ *ssa.BasicBlock, _ int, in ssa.Instruction) {
			if mc, ok := in.(*ssa.MakeClosure); ok {
				if t, ok := mc.Fn.(*ssa.Function); ok && !seen[t] {
					seen[t] = true
					g.out[fn] = append(g.out[fn], t)
				}
			}
		})
	}
	return g
}

// targets resolves the functions a call may reach.
func (g *c19graph) targets(call ssa.CallInstruction) []*ssa.Function {
	if t := call.Common().StaticCallee(); t != nil {
		if fnPkg(t) == nil || !inModule(fnPkg(t).Path()) {
			return nil
		}
		return []*ssa.Function{t}
	}
	return g.site[call]
}

// reaching: the module functions from which one of roots is reachable (roots included).
func (g *c19graph) reaching(roots ...*ssa.Function) map[*ssa.Function]bool {
	in := map[*ssa.Function][]*ssa.Function{}
	for _, f := range g.all {
		for _, t := range g.out[f] {
			in[t] = append(in[t], f)
		}
	}
	set := map[*ssa.Function]bool{}
	var work []*ssa.Function
	for _, r := range roots {
		if r != nil && !set[r] {
			set[r] = true
			work = append(work, r)
		}
	}
	for len(work) > 0 {
		f := work[len(work)-1]
		work = work[:len(work)-1]
		for _, p := range in[f] {
			if !set[p] {
				set[p] = true
				work = append(work, p)
			}
		}
	}
	return set
}

// reachableFrom: module functions reachable from roots over the graph.
func (g *c19graph) reachableFrom(roots ...*ssa.Function) map[*ssa.Function]bool {
	set := map[*ssa.Function]bool{}
	var work []*ssa.Function
	for _, r := range roots {
		if r != nil && !set[r] {
			set[r] = true
			work = append(work, r)
		}
	}
	for len(work) > 0 {
		f := work[len(work)-1]
		work = work[:len(work)-1]
		for _, t := range g.out[f] {
			if !set[t] {
				set[t] = true
				work = append(work, t)
			}
		}
	}
	return set
}

// ---------------------------------------------------------------------------
// provenance of a context value

// c19src is one leaf source of a context argument.
type c19src struct {
	Kind string // "param" | "field" | "background" | "nil" | "without-cancel" | "other"
	What string
	Fld  *types.Var
	Pos  token.Pos
}

var c19deriving = map[string]bool{
	"WithCancel": true, "WithTimeout": true, "WithDeadline": true, "WithValue": true,
	"WithCancelCause": true, "WithTimeoutCause": true, "WithDeadlineCause": true,
}

// c19sources classifies where context value v (in fn) comes from.
func c19sources(fn *ssa.Function, v ssa.Value, depth int) []c19src {
	if depth > 8 {
		return []c19src{{Kind: "other", What: "derivation too deep", Pos: v.Pos()}}
	}
	var out []c19src
	for _, o := range origins(fn, v) {
		switch x := o.(type) {
		case *ssa.Parameter:
			if c19isCtx(x.Type()) {
				out = append(out, c19src{Kind: "param", What: x.Name(), Pos: x.Pos()})
			} else {
				out = append(out, c19src{Kind: "other", What: "parameter " + x.Name(), Pos: x.Pos()})
			}
		case *ssa.Const:
			out = append(out, c19src{Kind: "nil", What: "nil context", Pos: v.Pos()})
		case *ssa.Extract:
			if call, ok := x.Tuple.(*ssa.Call); ok {
				out = append(out, c19fromCall(fn, call, depth)...)
			} else {
				out = append(out, c19src{Kind: "other", What: x.String(), Pos: x.Pos()})
			}
		case *ssa.Call:
			out = append(out, c19fromCall(fn, x, depth)...)
		case *ssa.UnOp:
			if x.Op != token.MUL {
				out = append(out, c19src{Kind: "other", What: x.String(), Pos: x.Pos()})
				break
			}
			switch a := x.X.(type) {
			case *ssa.FieldAddr:
				out = append(out, c19src{Kind: "field", What: fieldOfAddr(a).Name(), Fld: fieldOfAddr(a), Pos: x.Pos()})
			case *ssa.FreeVar:
				out = append(out, c19fromFreeVar(fn, a, depth)...)
			default:
				out = append(out, c19src{Kind: "other", What: "load of " + x.X.String(), Pos: x.Pos()})
			}
		case *ssa.Field:
			f := x.X.Type().Underlying().(*types.Struct).Field(x.Field)
			out = append(out, c19src{Kind: "field", What: f.Name(), Fld: f, Pos: x.Pos()})
		case *ssa.FreeVar:
			out = append(out, c19fromFreeVar(fn, x, depth)...)
		default:
			out = append(out, c19src{Kind: "other", What: o.String(), Pos: o.Pos()})
		}
	}
	return out
}

func c19fromCall(fn *ssa.Function, call *ssa.Call, depth int) []c19src {
	o := calleeObj(call)
	if o != nil && o.Pkg() != nil && o.Pkg().Path() == "context" {
		switch {
		case o.Name() == "Background" || o.Name() == "TODO":
			return []c19src{{Kind: "background", What: "context." + o.Name() + "()", Pos: call.Pos()}}
		case o.Name() == "WithoutCancel":
			return []c19src{{Kind: "without-cancel", What: "context.WithoutCancel", Pos: call.Pos()}}
		case c19deriving[o.Name()]:
			return c19sources(fn, call.Call.Args[0], depth+1)
		}
	}
	// any other function taking contexts and returning one is taken to derive from its context arguments
	var out []c19src
	for _, a := range callArgs(call) {
		if c19isCtx(a.Type()) {
			out = append(out, c19sources(fn, a, depth+1)...)
		}
	}
	if len(out) == 0 {
		name := "dynamic call"
		if o != nil {
			name = o.FullName()
		}
		out = append(out, c19src{Kind: "other", What: "result of " + name, Pos: call.Pos()})
	}
	return out
}

// c19fromFreeVar: a captured variable: the values stored into the captured cell in the enclosing function.
func c19fromFreeVar(fn *ssa.Function, fv *ssa.FreeVar, depth int) []c19src {
	parent := fn.Parent()
	if parent == nil {
		return []c19src{{Kind: "other", What: "free variable " + fv.Name(), Pos: fv.Pos()}}
	}
	idx := -1
	for i, f := range fn.FreeVars {
		if f == fv {
			idx = i
		}
	}
	var out []c19src
	allInstrs(parent, func(_ *ssa.BasicBlock, _ int, in ssa.Instruction) {
		mc, ok := in.(*ssa.MakeClosure)
		if !ok || mc.Fn != ssa.Value(fn) || idx < 0 || idx >= len(mc.Bindings) {
			return
		}
		b := mc.Bindings[idx]
		switch cell := b.(type) {
		case *ssa.Alloc:
			n := 0
			for _, r := range *cell.Referrers() {
				if st, ok := r.(*ssa.Store); ok && st.Addr == ssa.Value(cell) {
					n++
					out = append(out, c19sources(parent, st.Val, depth+1)...)
				}
			}
			if n == 0 {
				out = append(out, c19src{Kind: "other", What: "captured cell never stored", Pos: cell.Pos()})
			}
		case *ssa.FreeVar:
			out = append(out, c19fromFreeVar(parent, cell, depth+1)...)
		default:
			if c19isCtx(b.Type()) {
				out = append(out, c19sources(parent, b, depth+1)...)
			} else {
				out = append(out, c19src{Kind: "other", What: "captured " + b.String(), Pos: b.Pos()})
			}
		}
	})
	if len(out) == 0 {
		out = append(out, c19src{Kind: "other", What: "free variable " + fv.Name() + " without binding", Pos: fv.Pos()})
	}
	return out
}

// c19fieldOK: every store into context-typed field f in the module assigns a context that derives from a
// context parameter (directly or through another such field). Returns "" or the reason it does not.
func (c *Ctx) c19fieldOK(f *types.Var, memo map[*types.Var]string, active map[*types.Var]bool) string {
	if r, ok := memo[f]; ok {
		return r
	}
	if active[f] {
		return ""
	}
	active[f] = true
	defer delete(active, f)
	n := 0
	res := ""
	for _, fn := range c.ModFns {
		allInstrs(fn, func(_ *ssa.BasicBlock, _ int, in ssa.Instruction) {
			st, ok := in.(*ssa.Store)
			if !ok || res != "" {
				return
			}
			fa, ok := st.Addr.(*ssa.FieldAddr)
			if !ok || fieldOfAddr(fa) != f {
				return
			}
			n++
			for _, s := range c19sources(fn, st.Val, 0) {
				switch s.Kind {
				case "param":
				case "field":
					if why := c.c19fieldOK(s.Fld, memo, active); why != "" {
						res = why
					}
				default:
					res = "field " + f.Name() + " is assigned " + s.What + " in " + fnName(fn) + " (" + c.Pos(st.Pos()) + ")"
				}
			}
		})
	}
	if res == "" && n == 0 {
		res = "field " + f.Name() + " is never assigned"
	}
	memo[f] = res
	return res
}

func c19sortFns(m map[*ssa.Function]bool) []*ssa.Function {
	var out []*ssa.Function
	for f := range m {
		out = append(out, f)
	}
	sort.Slice(out, func(i, j int) bool {
		if fnName(out[i]) != fnName(out[j]) {
			return fnName(out[i]) < fnName(out[j])
		}
		return out[i].Pos() < out[j].Pos()
	})
	return out
}
