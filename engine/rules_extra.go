package main

// Rules added after the first round of independently seeded changes (DESIGN.md section 9):
// imports of one property's obligations into another that depends on them, and four new rules.

import (
	"fmt"
	"go/token"
	"go/types"
	"sort"

	"golang.org/x/tools/go/ssa"
)

func init() {
	// C12's first-frame AAD is made of the two handshake digests: what feeds and freezes them (C04-R2/R3)
	// is part of the wire format ("all-zero for a direction in which nothing was sent in the clear").
	register("C12", c04r2, c04r3)
	// C05-R6: the flags the dispatch check reads must be what really happened (C03-R3: Encryption = stream
	// state; C03-R5: Authentication = what ran; C03-R7: a resumed session reports the authentication status that was recorded) - imported obligations, reported under their own rule ids.
	register("C05", c03r3, c03r5, c03r7)
	register("C06", c06r8, c06r9)
	register("C15", c15r6, c15r7)
}

// storesToField lists the stores in fn whose address is field f (of any base).
func storesToField(fn *ssa.Function, f *types.Var) []*ssa.Store {
	var out []*ssa.Store
	allInstrs(fn, func(_ *ssa.BasicBlock, _ int, in ssa.Instruction) {
		if st, ok := in.(*ssa.Store); ok {
			if fa, ok := st.Addr.(*ssa.FieldAddr); ok && fieldOfAddr(fa) == f {
				out = append(out, st)
			}
		}
	})
	return out
}

// C06-R8: on the resumption paths the values that decide whether (and with what) the key is installed
// come from the cached entry only.
func c06r8(c *Ctx) {
	const rule = "C06-R8"
	c.Doc(rule, "in handleSessionResumption and resumeSession every store to negotiation.NegotiatedCrypto / Encryption and every setSharedSecret argument is a constant, the stream's own state, or derives from entry.KeyInfo() of the looked-up entry - never from the peer's ad: the peer cannot steer setupStreamEncryption into its cleartext branch (everything after the reply is protected by the cached key)")
	keyInfo := c.needObj(rule, "security", "SessionEntry.KeyInfo")
	setSecret := c.needObj(rule, "security", "SecurityNegotiation.setSharedSecret")
	fNC := c.needField(rule, "security", "SecurityNegotiation", "NegotiatedCrypto")
	fEnc := c.needField(rule, "security", "SecurityNegotiation", "Encryption")
	isEnc := c.needObj(rule, "stream", "Stream.IsEncrypted")
	if keyInfo == nil || setSecret == nil || fNC == nil || fEnc == nil || isEnc == nil {
		return
	}
	var adType types.Type
	if tp := c.PkgTypes("github.com/PelicanPlatform/classad/classad"); tp != nil {
		if o := tp.Scope().Lookup("ClassAd"); o != nil {
			adType = types.NewPointer(o.Type())
		}
	}
	if adType == nil {
		c.AnchorMissing(rule, "classad.ClassAd")
		return
	}
	n := 0
	var roots []*ssa.Function
	for _, name := range []string{"(*Authenticator).handleSessionResumption", "(*Authenticator).resumeSession"} {
		if fn := c.needFn(rule, "security", name); fn != nil {
			roots = append(roots, fn)
		}
	}
	// the resumption functions and the same-package helpers they call (a restore step may live in a helper)
	var scope []*ssa.Function
	rootSet := fnSet(roots...)
	for f := range c.reachableFns(roots, false) {
		// helpers that serve the resumption functions only (the generic key setup shared with the full
		// handshake is judged by C03/C04/C10)
		if fnPkg(f) == fnPkg(roots[0]) && (rootSet[f] || c.onlyReachableFrom(f, rootSet)) {
			scope = append(scope, f)
		}
	}
	sort.Slice(scope, func(i, j int) bool { return fnName(scope[i]) < fnName(scope[j]) })
	for _, fn := range scope {
		fn := fn
		fromPeerAd := func(v ssa.Value) bool {
			return mentions(v, func(x ssa.Value) bool {
				// any method call on a *classad.ClassAd value other than entry.Policy(): the peer's ad
				call, ok := x.(*ssa.Call)
				if !ok || len(call.Call.Args) == 0 || call.Call.IsInvoke() {
					return false
				}
				recv := call.Call.Args[0]
				if !types.Identical(recv.Type(), adType) {
					return false
				}
				var fromPolicy func(f *ssa.Function, v ssa.Value, d int) bool
				fromPolicy = func(f *ssa.Function, v ssa.Value, d int) bool {
					for _, o := range origins(f, v) {
						if oc, _ := originCall(o); oc != nil {
							if co := calleeObj(oc); co != nil && co.Name() == "Policy" {
								continue
							}
						}
						if par, isPar := o.(*ssa.Parameter); isPar && d > 0 {
							// helper parameter: every call site in scope must pass a cached policy
							idx, nSites, all := -1, 0, true
							for i, q := range f.Params {
								if q == par {
									idx = i
								}
							}
							for _, g := range scope {
								for _, cs := range callsIn(g, f.Object()) {
									nSites++
									if idx < 0 || idx >= len(cs.Common().Args) || !fromPolicy(g, cs.Common().Args[idx], d-1) {
										all = false
									}
								}
							}
							if all && nSites > 0 {
								continue
							}
						}
						return false
					}
					return true
				}
				return !fromPolicy(fn, recv, 2)
			})
		}
		fromEntryKey := func(v ssa.Value) bool {
			return mentions(v, func(x ssa.Value) bool {
				call, ok := x.(*ssa.Call)
				return ok && calleeObj(call) == keyInfo
			})
		}
		check := func(what string, v ssa.Value, pos token.Pos) {
			n++
			construct := fnName(fn) + "#" + what
			if fromPeerAd(v) {
				c.Violate(rule, construct, what+" is computed from the peer's ad: the requester can choose the cipher / key material of a resumed session (e.g. name a cipher cedar cannot run and get the session resumed in the clear)", pos)
				return
			}
			if _, isConst := v.(*ssa.Const); isConst || fromEntryKey(v) {
				c.Ok(rule, construct, what+" derives from the cached entry's KeyInfo (or is a constant)", pos)
				return
			}
			if mentions(v, func(x ssa.Value) bool { call, ok := x.(*ssa.Call); return ok && calleeObj(call) == isEnc }) {
				c.Ok(rule, construct, what+" is the stream's own state", pos)
				return
			}
			// isAESGCM(negotiation.NegotiatedCrypto): a field of the negotiation itself, whose stores are checked here
			if mentionsField(v, fNC) {
				c.Ok(rule, construct, what+" is a function of negotiation.NegotiatedCrypto (checked separately)", pos)
				return
			}
			c.Undecided(rule, construct, "cannot establish the provenance of "+what, pos)
		}
		for _, st := range storesToField(fn, fNC) {
			check("NegotiatedCrypto", st.Val, st.Pos())
		}
		for _, st := range storesToField(fn, fEnc) {
			check("Encryption", st.Val, st.Pos())
		}
		for _, cs := range callsIn(fn, setSecret) {
			args := cs.Common().Args
			check("setSharedSecret-argument", args[len(args)-1], cs.Pos())
		}
	}
	c.MinCount(rule, "crypto-deciding stores on the resumption paths", n, 3)
}

// C06-R9: the renewed entry goes back into the cache it was found in.
func c06r9(c *Ctx) {
	const rule = "C06-R9"
	c.Doc(rule, "in handleSessionResumption the SessionCache that receives Store(entry) is, on every incoming path, the cache whose LookupNonExpired returned that entry: a session is never copied into a second cache where Invalidate on the original would not reach it (an invalidated session is not revived)")
	fn := c.needFn(rule, "security", "(*Authenticator).handleSessionResumption")
	store := c.needObj(rule, "security", "SessionCache.Store")
	lookup := c.needObj(rule, "security", "SessionCache.LookupNonExpired")
	if fn == nil || store == nil || lookup == nil {
		return
	}
	// lookupRecv: the receiver of the LookupNonExpired call that produced entry value e (nil if unknown)
	lookupRecv := func(e ssa.Value) ssa.Value {
		call, idx := originCall(e)
		if call == nil || idx != 0 || calleeObj(call) != lookup {
			return nil
		}
		return call.Common().Args[0]
	}
	// checkPair: in function f, is entry value ent (on every incoming path) the result of LookupNonExpired on
	// cache value recv? Follows phis edge-wise and a same-module helper that returns (entry, cache, ...) together.
	var checkPair func(f *ssa.Function, recv, ent ssa.Value, depth int) (bad string, undecided string)
	checkPair = func(f *ssa.Function, recv, ent ssa.Value, depth int) (string, string) {
		if _, isConst := ent.(*ssa.Const); isConst {
			return "", "" // the "not found" value: never reaches Store
		}
		// both come out of one helper call: judge the helper's returns
		if ec, ei := originCall(ent); ec != nil && depth > 0 {
			if rc, ri := originCall(recv); rc != nil && rc == ec && calleeObj(ec) != lookup {
				g := calleeFn(ec)
				if !isModuleFn(g) {
					return "", "entry and cache come from a call that cannot be followed"
				}
				for _, b := range g.Blocks {
					if len(b.Instrs) == 0 {
						continue
					}
					ret, ok := b.Instrs[len(b.Instrs)-1].(*ssa.Return)
					if !ok || ei >= len(ret.Results) || ri >= len(ret.Results) {
						continue
					}
					if bad, und := checkPair(g, ret.Results[ri], ret.Results[ei], depth-1); bad != "" || und != "" {
						return bad, und
					}
				}
				return "", ""
			}
		}
		if lr := lookupRecv(ent); lr != nil {
			if lr != recv {
				return "the entry found in one cache (" + lr.Name() + ") is stored into another (" + recv.Name() + ")", ""
			}
			return "", ""
		}
		ephi, eIsPhi := ent.(*ssa.Phi)
		rphi, rIsPhi := recv.(*ssa.Phi)
		switch {
		case eIsPhi && rIsPhi && ephi.Block() == rphi.Block():
			for i := range ephi.Edges {
				if bad, und := checkPair(f, rphi.Edges[i], ephi.Edges[i], depth); bad != "" || und != "" {
					return bad, und
				}
			}
			return "", ""
		case eIsPhi:
			// the cache value is not merged where the entry is: one cache receives whichever entry arrives
			for _, e := range ephi.Edges {
				if bad, und := checkPair(f, recv, e, depth); bad != "" || und != "" {
					return bad, und
				}
			}
			return "", ""
		case rIsPhi:
			return "", "the cache is merged from several values but the entry is not; cannot pair them"
		}
		lr := lookupRecv(ent)
		if lr == nil {
			return "", "an entry reaching Store does not come from LookupNonExpired"
		}
		if lr != recv {
			return "the entry found in one cache (" + lr.Name() + ") is stored into another (" + recv.Name() + ")", ""
		}
		return "", ""
	}
	n := 0
	for _, cs := range callsIn(fn, store) {
		n++
		recv, ent := cs.Common().Args[0], cs.Common().Args[1]
		construct := fnName(fn) + "#Store(entry)"
		bad, und := checkPair(fn, recv, ent, 2)
		if und != "" {
			c.Undecided(rule, construct, und, cs.Pos())
			continue
		}
		c.Check(bad == "", rule, construct, "the entry is stored back into the cache it was looked up in, on every incoming path", bad+": Invalidate on the original cache no longer removes every copy, so an invalidated session can be resumed again", cs.Pos())
	}
	c.MinCount(rule, "SessionCache.Store calls in handleSessionResumption", n, 1)
}

// C15-R6: the state that witnesses a partial message is cleared only where the message is known complete.
func c15r6(c *Ctx) {
	const rule = "C15-R6"
	c.Doc(rule, "the Stream fields ExportCryptoState tests for a partially sent/consumed message (inMessage, bytesRead, receiveBuffer, totalMsgBytes, sendBuffer, sendEOM) are reset to their zero value only at the completion points of the buffer API: EndMessageRead past the fully-consumed test, StartMessageRead/EndMessage/flushPartialFrame past a nil-error frame operation, StartMessage; nowhere else (an error path that wipes them would let a broken, half-received message pass the export check)")
	type allow struct {
		fn    string
		after string // callee whose nil-error edge must dominate the reset ("" = none, "!" = fully-consumed test)
	}
	table := map[string][]allow{
		"inMessage":     {{"(*Stream).EndMessageRead", "!"}},
		"bytesRead":     {{"(*Stream).EndMessageRead", "!"}, {"(*Stream).StartMessageRead", "(*Stream).readNextFrame"}},
		"receiveBuffer": {{"(*Stream).EndMessageRead", "!"}},
		"totalMsgBytes": {{"(*Stream).EndMessageRead", "!"}},
		"sendBuffer":    {{"(*Stream).StartMessage", ""}, {"(*Stream).EndMessage", "(*Stream).sendMessageWithEnd"}, {"(*Stream).flushPartialFrame", "(*Stream).sendMessageWithEnd"}},
		"sendEOM":       {{"(*Stream).StartMessage", ""}},
	}
	fBytesRead := c.needField(rule, "stream", "Stream", "bytesRead")
	fTotal := c.needField(rule, "stream", "Stream", "totalMsgBytes")
	newStream := c.LookupFn("stream", "NewStream")
	imp := c.LookupFn("stream", "NewStreamWithCryptoState")
	isZeroStore := func(f *types.Var) func(ssa.Instruction) bool {
		return func(in ssa.Instruction) bool {
			st, ok := in.(*ssa.Store)
			if !ok {
				return false
			}
			fa, ok := st.Addr.(*ssa.FieldAddr)
			if !ok || fieldOfAddr(fa) != f {
				return false
			}
			k, ok := st.Val.(*ssa.Const)
			if !ok {
				return false
			}
			if k.Value == nil {
				return true
			}
			if b, ok := constBool(k); ok && !b {
				return true
			}
			if i, ok := constInt(k); ok && i == 0 {
				return true
			}
			return false
		}
	}
	// guard edges per allowed function
	guardEdges := func(fn *ssa.Function, after string) ([]Edge, bool) {
		switch after {
		case "":
			return nil, false // unconditional reset allowed
		case "!":
			var es []Edge
			for _, b := range fn.Blocks {
				ifi := blockIf(b)
				if ifi == nil {
					continue
				}
				a := condAtom(ifi.Cond)
				if fBytesRead == nil || fTotal == nil || a.Neg {
					continue
				}
				if a.Op == token.LSS && readsField(a.X, fBytesRead) && readsField(a.Y, fTotal) {
					es = append(es, Edge{b, 1})
				}
				if a.Op == token.GEQ && readsField(a.X, fBytesRead) && readsField(a.Y, fTotal) {
					es = append(es, Edge{b, 0})
				}
			}
			return es, true
		default:
			g := c.needFn(rule, "stream", after)
			if g == nil {
				return nil, true
			}
			var es []Edge
			for _, cs := range callsIn(fn, g.Object()) {
				succ, _, _ := callErrEdges(fn, cs.Value())
				es = append(es, succ...)
			}
			return es, true
		}
	}
	n := 0
	for _, fname := range []string{"inMessage", "bytesRead", "receiveBuffer", "totalMsgBytes", "sendBuffer", "sendEOM"} {
		f := c.needField(rule, "stream", "Stream", fname)
		if f == nil {
			continue
		}
		hit := isZeroStore(f)
		allowed := map[*ssa.Function]bool{}
		for _, al := range table[fname] {
			if g := c.LookupFn("stream", al.fn); g != nil {
				allowed[g] = true
			}
		}
		// (1) every resetting function is an allowed one or a helper only they reach
		for _, fn := range c.ModFns {
			if fn == newStream || fn == imp || !containsHit(fn, hit) {
				continue
			}
			t := topFn(fn)
			construct := "reset:Stream." + fname + "@" + fnName(t)
			n++
			if !allowed[t] && !c.onlyReachableFrom(t, allowed) {
				var pos token.Pos
				allInstrs(fn, func(_ *ssa.BasicBlock, _ int, in ssa.Instruction) {
					if hit(in) {
						pos = in.Pos()
					}
				})
				c.Violate(rule, construct, "resets Stream."+fname+" outside the completion points of the message-buffer API: evidence of a partially sent/consumed message is erased, so ExportCryptoState would no longer refuse", pos)
			} else if !allowed[t] {
				c.Ok(rule, construct, "helper reachable only from the completion points", fn.Pos())
			}
		}
		// (2) in each allowed function the reset (there or in its helpers) lies behind the completion edge
		for _, al := range table[fname] {
			fn := c.LookupFn("stream", al.fn)
			if fn == nil {
				continue
			}
			construct := "reset:Stream." + fname + "@" + fnName(fn)
			es, guarded := guardEdges(fn, al.after)
			if !guarded {
				c.Ok(rule, construct, "reset at a message start", fn.Pos())
				continue
			}
			guards := func(g *ssa.Function) []Edge {
				if g == fn {
					return es
				}
				return nil
			}
			what := "the message-fully-consumed edge (bytesRead >= totalMsgBytes)"
			if al.after != "!" {
				what = "a nil-error " + al.after
			}
			bad := c.unguardedDeep(fn, hit, guards)
			for _, w := range bad {
				c.Violate(rule, construct, "Stream."+fname+" is reset on a path that has not passed "+what, w.In.Pos(), c.describePath(w.Path)...)
			}
			if len(bad) == 0 {
				c.Ok(rule, construct, "every reset lies behind "+what, fn.Pos())
			}
		}
	}
	c.MinCount(rule, "zero-value resets of the buffering fields", n, 4)
}

// C15-R7: the importer rejects a blob only for its framing, never for the values it carries.
func c15r7(c *Ctx) {
	const rule = "C15-R7"
	c.Doc(rule, "no rejecting branch of NewStreamWithCryptoState (an edge from which only error returns are reachable) is decided by the blob's payload values - counters (BigEndian.Uint32/64 reads), flag/IV/key bytes (element loads of the blob or of arrays filled from it); the importer refuses blobs for length, magic, version and truncation only, so every state ExportCryptoState can produce is importable (hand-off continues the session for every history, e.g. when base counter + frame counter wraps)")
	fn := c.needFn(rule, "stream", "NewStreamWithCryptoState")
	if fn == nil {
		return
	}
	n := 0
	for _, f := range withClosures(fn) {
		succ := c.successTargets(f)
		for _, b := range f.Blocks {
			ifi := blockIf(b)
			if ifi == nil {
				continue
			}
			for si := 0; si < 2; si++ {
				e := Edge{b, si}
				if len(e.To().Instrs) == 0 {
					continue
				}
				// rejecting edge: no success return reachable from it
				reach := false
				for _, t := range succ {
					if findPath(Point{e.To(), 0}, t.Target(), nil) != nil {
						reach = true
						break
					}
				}
				if reach || len(succ) == 0 {
					continue
				}
				n++
				payload := mentions(ifi.Cond, func(x ssa.Value) bool {
					switch v := x.(type) {
					case *ssa.Call:
						if o := calleeObj(v); o != nil && o.Pkg() != nil && o.Pkg().Path() == "encoding/binary" && (o.Name() == "Uint32" || o.Name() == "Uint64") {
							return true
						}
					case *ssa.UnOp:
						if v.Op == token.MUL {
							if ia, ok := v.X.(*ssa.IndexAddr); ok {
								_ = ia
								return true // a single byte of the blob or of a local array: flags / IV / key material
							}
						}
					}
					return false
				})
				construct := fnName(f) + "#reject@" + c.condKey(ifi)
				c.Check(!payload, rule, construct, "rejecting condition depends on framing only (length, magic, version, truncation, constructor error)", "the importer rejects a blob because of the values it carries (counter / IV / flag bytes): a state that ExportCryptoState legitimately produces would be refused and the hand-off breaks the session", ifi.Cond.Pos())
			}
		}
	}
	c.MinCount(rule, "rejecting branches of the importer", n, 3)
}

// condKey renders a stable, line-free key for a branch condition: operator and operand kinds.
func (c *Ctx) condKey(ifi *ssa.If) string {
	a := condAtom(ifi.Cond)
	kind := func(v ssa.Value) string {
		if v == nil {
			return ""
		}
		switch x := stripConv(v).(type) {
		case *ssa.Const:
			if x.Value == nil {
				return "nil"
			}
			return x.Value.String()
		case *ssa.Call:
			if o := calleeObj(x); o != nil {
				return o.Name() + "()"
			}
			if b, ok := x.Call.Value.(*ssa.Builtin); ok {
				return b.Name() + "()"
			}
			return "call"
		case *ssa.BinOp:
			return "expr"
		case *ssa.Parameter:
			return x.Name()
		default:
			if isNilConst(v) {
				return "nil"
			}
			return "val"
		}
	}
	neg := ""
	if a.Neg {
		neg = "!"
	}
	if a.Op == token.ILLEGAL {
		return neg + kind(a.X)
	}
	return neg + kind(a.X) + a.Op.String() + kind(a.Y)
}

func init() { register("C15", c15r8) }

// C15-R8: a message in flight leaves a mark the export check tests.
func c15r8(c *Ctx) {
	const rule = "C15-R8"
	c.Doc(rule, "sendMessageWithEnd (every success return) stores into a boolean Stream field a value computed from its end-flag parameter, and both frame receivers store one computed from the received header's flag byte; those fields are written nowhere else; ExportCryptoState returns success only past the false edge of each of them: a partially sent or partially received message (also one framed by the typed-message layer or SendPartialMessage, which buffer nothing in the stream) makes export refuse")
	send := c.needFn(rule, "stream", "(*Stream).sendMessageWithEnd")
	rf := c.needFn(rule, "stream", "(*Stream).ReceiveFrame")
	rfe := c.needFn(rule, "stream", "(*Stream).ReceiveFrameWithEnd")
	exp := c.needFn(rule, "stream", "(*Stream).ExportCryptoState")
	rwc := c.needFn(rule, "stream", "(*Stream).readWithContext")
	partial := c.needObj(rule, "stream", "EndFlagPartial")
	if send == nil || rf == nil || rfe == nil || exp == nil || rwc == nil || partial == nil {
		return
	}
	pv, _ := constantInt(partial)
	// markStores: sites in fn that store a bool computed by comparing a src-derived value with EndFlagPartial
	// into a Stream field: a direct store, or a call to a same-module helper that makes such a store from one of
	// its parameters on every path, with a src-derived argument in that position.
	var markStoresD func(fn *ssa.Function, isSrc func(ssa.Value) bool, depth int) map[*types.Var][]ssa.Instruction
	markStoresD = func(fn *ssa.Function, isSrc func(ssa.Value) bool, depth int) map[*types.Var][]ssa.Instruction {
		out := map[*types.Var][]ssa.Instruction{}
		allInstrs(fn, func(_ *ssa.BasicBlock, _ int, in ssa.Instruction) {
			if call, ok := in.(*ssa.Call); ok && depth > 0 {
				g := calleeFn(call)
				if !isModuleFn(g) || g == fn {
					return
				}
				for i, par := range g.Params {
					if i >= len(call.Call.Args) || !mentions(call.Call.Args[i], isSrc) {
						continue
					}
					inner := markStoresD(g, func(v ssa.Value) bool { return v == ssa.Value(par) }, depth-1)
					for f, sts := range inner {
						// the helper must make the store on every path to every return
						all := true
						for _, r := range c.successTargets(g) {
							if findPath(entryPoint(g), r.Target(), newCuts().AddInstrs(sts...)) != nil {
								all = false
							}
						}
						if all {
							out[f] = append(out[f], in)
						}
					}
				}
				return
			}
			st, ok := in.(*ssa.Store)
			if !ok {
				return
			}
			fa, ok := st.Addr.(*ssa.FieldAddr)
			if !ok {
				return
			}
			if b, ok := st.Val.Type().Underlying().(*types.Basic); !ok || b.Kind() != types.Bool {
				return
			}
			bo, ok := st.Val.(*ssa.BinOp)
			if !ok || (bo.Op != token.EQL && bo.Op != token.NEQ) {
				return
			}
			k, isC := constInt(bo.Y)
			x := bo.X
			if !isC {
				k, isC = constInt(bo.X)
				x = bo.Y
			}
			if !isC || k != pv || !mentions(x, isSrc) {
				return
			}
			out[fieldOfAddr(fa)] = append(out[fieldOfAddr(fa)], st)
		})
		return out
	}
	markStores := func(fn *ssa.Function, isSrc func(ssa.Value) bool) map[*types.Var][]ssa.Instruction {
		return markStoresD(fn, isSrc, 2)
	}
	var marks []*types.Var
	allow := map[*types.Var]map[*ssa.Function]bool{}
	n := 0
	// send side: source = the end parameter (last parameter)
	endPar := send.Params[len(send.Params)-1]
	sm := markStores(send, func(v ssa.Value) bool { return v == ssa.Value(endPar) })
	if len(sm) == 0 {
		c.Violate(rule, fnName(send)+"#mark", "sendMessageWithEnd records nowhere whether the frame it sent was a partial frame: a message in flight (flushPartialFrame, SendPartialMessage, Message.FlushFrame(isEOM=false)) is invisible to ExportCryptoState", send.Pos())
	}
	for f, sts := range sm {
		n++
		marks = append(marks, f)
		allow[f] = fnSet(send)
		c.mustPassReturns(rule+"", send, c.successTargets(send), newCuts().AddInstrs(sts...), "the store of (end == EndFlagPartial) into Stream."+f.Name())
	}
	// receive side: source = byte 0 of the header buffer read from the wire
	for _, fn := range []*ssa.Function{rfe, rf} {
		isFlagByte := func(v ssa.Value) bool { return c.isWireByte0(fn, v, rwc.Object(), 2, 2) }
		rm := markStores(fn, isFlagByte)
		// delegation: a receiver implemented on top of the other one marks through it
		for _, other := range []*ssa.Function{rfe, rf} {
			if other == fn {
				continue
			}
			for f, okFns := range allow {
				if !okFns[other] {
					continue
				}
				for _, cs := range callsIn(fn, other.Object()) {
					rm[f] = append(rm[f], cs.(ssa.Instruction))
				}
			}
		}
		if len(rm) == 0 {
			c.Violate(rule, fnName(fn)+"#mark", fnName(fn)+" records nowhere whether the frame it accepted was a partial frame: an inbound message in progress is invisible to ExportCryptoState", fn.Pos())
		}
		for f, sts := range rm {
			n++
			seen := false
			for _, m := range marks {
				if m == f {
					seen = true
				}
			}
			if !seen {
				marks = append(marks, f)
				allow[f] = map[*ssa.Function]bool{}
			}
			allow[f][fn] = true
			c.mustPassReturns(rule, fn, c.successTargets(fn), newCuts().AddInstrs(sts...), "the store of (end flag == EndFlagPartial) into Stream."+f.Name())
		}
	}
	// export tests every mark; nobody else writes them
	for _, f := range marks {
		f := f
		offCuts := c.condCutsDeep(exp, func(g *ssa.Function) []Edge { o, _ := fieldCondEdges(g, f); return o }, deepDepth)
		tg := c.successTargets(exp)
		ok := len(offCuts.Edges)+len(offCuts.Instrs) > 0
		var wit []string
		for _, t := range tg {
			if p := findPath(entryPoint(exp), t.Target(), offCuts); p != nil {
				ok = false
				wit = c.describePath(p)
			}
		}
		c.Check(ok, rule, fnName(exp)+"#tests:Stream."+f.Name(), "export succeeds only when Stream."+f.Name()+" is false", "ExportCryptoState can succeed while Stream."+f.Name()+" is set (a message is in flight)", exp.Pos(), wit...)
		var wr []*ssa.Function
		poss := map[*ssa.Function]token.Pos{}
		for _, a := range c.fieldAccesses(f) {
			if a.Write {
				wr = append(wr, a.Fn)
				poss[a.Fn] = a.Instr.Pos()
			}
		}
		c.whoMayDeep(rule, "write Stream."+f.Name(), wr, poss, allow[f])
	}
	c.MinCount(rule, "in-flight marks (send + two receivers)", n, 3)
}

func init() { register("C15", c15r9) }

// C15-R9: "a protected frame was received" is recorded only for a frame that authenticated.
func c15r9(c *Ctx) {
	const rule = "C15-R9"
	c.Doc(rule, "in decryptDataWithAAD every store to Stream.finishedRecvAAD (the flag ExportCryptoState reads as 'a protected frame has been received in this direction') lies behind the nil-error edge of cipher.AEAD.Open: a first frame that failed authentication does not make the stream look past its handshake")
	dec := c.needFn(rule, "stream", "(*Stream).decryptDataWithAAD")
	flag := c.needField(rule, "stream", "Stream", "finishedRecvAAD")
	open := c.aeadMethod(rule, "Open")
	if dec == nil || flag == nil || open == nil {
		return
	}
	var succ []Edge
	for _, cs := range callsIn(dec, open) {
		se, _, _ := callErrEdges(dec, cs.Value())
		succ = append(succ, se...)
	}
	guards := func(f *ssa.Function) []Edge {
		if f == dec {
			return succ
		}
		return nil
	}
	a, m := c.deepSites(dec, storeHit(flag))
	n := len(a) + len(m)
	bad := c.unguardedDeep(dec, storeHit(flag), guards)
	for _, w := range bad {
		c.Violate(rule, fnName(dec)+"#finishedRecvAAD-store", "finishedRecvAAD is set on a path that has not passed a nil-error Open", w.In.Pos(), c.describePath(w.Path)...)
	}
	if len(bad) == 0 && n > 0 {
		c.Ok(rule, fnName(dec)+"#finishedRecvAAD-store", "every store (here or in a helper) lies behind a nil-error Open", dec.Pos())
	}
	c.MinCount(rule, "stores to finishedRecvAAD in decryptDataWithAAD", n, 1)
}

func init() { register("C19", c19r5) }

// C19-R5: a cancelled send is all-or-nothing.
func c19r5(c *Ctx) {
	const rule = "C19-R5"
	c.Doc(rule, "in sendMessageWithEnd every state-changing step of a send (encryptDataWithAAD, which spends a nonce; writes to the send digest; the sendDigestWritten flag) lies behind the nil edge of ctx.Err() - a context that is already done changes nothing and leaves the connection usable; and writeWithContext, which only sees frames whose state is committed, passes s.conn.Close() on every path from its own ctx.Err()!=nil entry edge to the return (the connection is closed rather than left half-used)")
	send := c.needFn(rule, "stream", "(*Stream).sendMessageWithEnd")
	wwc := c.needFn(rule, "stream", "(*Stream).writeWithContext")
	enc := c.needFn(rule, "stream", "(*Stream).encryptDataWithAAD")
	digest := c.needField(rule, "stream", "Stream", "sendDigest")
	written := c.needField(rule, "stream", "Stream", "sendDigestWritten")
	conn := c.needField(rule, "stream", "Stream", "conn")
	if send == nil || wwc == nil || enc == nil || digest == nil || written == nil || conn == nil {
		return
	}
	// edges on which ctx.Err() is known nil / non-nil in fn
	errEdges := func(fn *ssa.Function) (nilE, nonNil []Edge) {
		allInstrs(fn, func(_ *ssa.BasicBlock, _ int, in ssa.Instruction) {
			call, ok := in.(*ssa.Call)
			if !ok || !call.Call.IsInvoke() || call.Call.Method.Name() != "Err" {
				return
			}
			if call.Call.Method.Pkg() == nil || call.Call.Method.Pkg().Path() != "context" {
				return
			}
			n, nn := nilEdges(fn, call)
			nilE = append(nilE, n...)
			nonNil = append(nonNil, nn...)
		})
		return
	}
	nilE, _ := errEdges(send)
	isStep := func(in ssa.Instruction) bool {
		switch x := in.(type) {
		case *ssa.Call:
			if calleeFn(x) == enc {
				return true
			}
			return x.Call.IsInvoke() && x.Call.Method.Name() == "Write" && readsField(x.Call.Value, digest)
		case *ssa.Store:
			fa, ok := x.Addr.(*ssa.FieldAddr)
			return ok && fieldOfAddr(fa) == written
		}
		return false
	}
	guards := func(f *ssa.Function) []Edge {
		if f == send {
			return nilE
		}
		return nil
	}
	// count the steps wherever they live (send itself or a helper it calls)
	n := 0
	for f := range c.reachableFns([]*ssa.Function{send}, false) {
		if f == enc || fnPkg(f) != fnPkg(send) {
			continue
		}
		allInstrs(f, func(_ *ssa.BasicBlock, _ int, in ssa.Instruction) {
			if isStep(in) {
				n++
			}
		})
	}
	bad := c.unguardedDeep(send, isStep, guards)
	for _, w := range bad {
		c.Violate(rule, fnName(send)+"#state-change<-ctx-live", "a state-changing step of a send (nonce spent / digest fed) can run although the context is already done", w.In.Pos(), c.describePath(w.Path)...)
	}
	if len(bad) == 0 {
		c.Ok(rule, fnName(send)+"#state-change<-ctx-live", "every state-changing step of a send lies behind the ctx.Err() == nil edge", send.Pos())
	}
	c.MinCount(rule, "state-changing steps of a send", n, 2)
	// writeWithContext: entry edge with ctx.Err() != nil must close the connection before returning
	_, nonNil := errEdges(wwc)
	var closes []ssa.Instruction
	allInstrs(wwc, func(_ *ssa.BasicBlock, _ int, in ssa.Instruction) {
		if call, ok := in.(*ssa.Call); ok && call.Call.IsInvoke() && call.Call.Method.Name() == "Close" && readsField(call.Call.Value, conn) {
			closes = append(closes, call)
		}
	})
	ok := len(nonNil) > 0
	var wit []string
	for _, e := range nonNil {
		if len(e.To().Instrs) == 0 {
			continue
		}
		for _, r := range c.returnsOf(wwc) {
			if p := findPath(Point{e.To(), 0}, r.Target(), newCuts().AddInstrs(closes...)); p != nil {
				ok = false
				wit = c.describePath(p)
			}
		}
	}
	c.Check(ok, rule, fnName(wwc)+"#cancelled-entry=>Close", "a frame abandoned because the context is done closes the connection", "writeWithContext can give up on an already-committed frame (ctx done on entry) and leave the connection open: both ends are out of step (nonce spent, digest fed) on a connection that looks usable", wwc.Pos(), wit...)
}

func init() {
	register("C01", c01r6)
	register("C04", c04r6)
	register("C08", c08r5)
}

// C01-R6: the receiver never rejects a frame because of the nonce arithmetic.
func c01r6(c *Ctx) {
	const rule = "C01-R6"
	c.Doc(rule, "no rejecting branch of decryptDataWithAAD (an edge from which only error returns are reachable) is decided by the receive counter or the base IV: the sender derives each nonce as base + counter with 32-bit wrap and never refuses on that sum, so a receiver that does would reject frames the sender accepted (sibling agreement encrypt/decrypt; the only rejections are short data and AEAD failure)")
	dec := c.needFn(rule, "stream", "(*Stream).decryptDataWithAAD")
	ctr := c.needField(rule, "stream", "Stream", "decryptCounter")
	iv := c.needField(rule, "stream", "Stream", "decryptIV")
	if dec == nil || ctr == nil || iv == nil {
		return
	}
	succ := c.successTargets(dec)
	n := 0
	for _, b := range dec.Blocks {
		ifi := blockIf(b)
		if ifi == nil {
			continue
		}
		for si := 0; si < 2; si++ {
			e := Edge{b, si}
			if len(e.To().Instrs) == 0 {
				continue
			}
			reach := false
			for _, t := range succ {
				if findPath(Point{e.To(), 0}, t.Target(), nil) != nil {
					reach = true
					break
				}
			}
			if reach {
				continue
			}
			n++
			bad := mentionsField(ifi.Cond, ctr) || mentionsField(ifi.Cond, iv)
			c.Check(!bad, rule, fnName(dec)+"#reject@"+c.condKey(ifi), "rejecting condition does not depend on the receive counter / base IV", "decryptDataWithAAD rejects a frame because of the value of decryptCounter / decryptIV: the sender wraps base+counter silently and keeps sending, so a frame it accepted is refused here and the stream is dead from then on", ifi.Cond.Pos())
		}
	}
	c.MinCount(rule, "rejecting branches of decryptDataWithAAD", n, 2)
}

// C04-R6: the handshake digests are frozen early only where no key can follow.
func c04r6(c *Ctx) {
	const rule = "C04-R6"
	c.Doc(rule, "Stream.FinalizeDigests (the explicit freeze used for sessions that stay in the clear) is called only from setupStreamEncryption, no SetSymmetricKey is reachable after that call inside it, and in every caller of setupStreamEncryption no key install is reachable after the call returns: cleartext exchanged after a freeze can never precede an encrypted channel (it would escape the first frame's associated data)")
	fin := c.needFn(rule, "stream", "(*Stream).FinalizeDigests")
	ssk := c.needFn(rule, "stream", "(*Stream).SetSymmetricKey")
	setup := c.needFn(rule, "security", "(*Authenticator).setupStreamEncryption")
	if fin == nil || ssk == nil || setup == nil {
		return
	}
	// functions from which SetSymmetricKey is reachable over static module calls
	reachesSSK := map[*ssa.Function]bool{}
	var reaches func(f *ssa.Function, depth int) bool
	reaches = func(f *ssa.Function, depth int) bool {
		if f == ssk {
			return true
		}
		if v, ok := reachesSSK[f]; ok {
			return v
		}
		reachesSSK[f] = false
		if f == nil || f.Blocks == nil || depth > 8 || fnPkg(f) == nil || !inModule(fnPkg(f).Path()) {
			return false
		}
		res := false
		allInstrs(f, func(_ *ssa.BasicBlock, _ int, in ssa.Instruction) {
			if call, ok := in.(ssa.CallInstruction); ok && !res {
				if g := calleeFn(call); g != nil && reaches(g, depth+1) {
					res = true
				}
			}
		})
		reachesSSK[f] = res
		return res
	}
	// keyInstallAfter: a call from which SetSymmetricKey is reachable lies after instruction at in fn
	keyInstallAfter := func(fn *ssa.Function, at ssa.Instruction) ssa.Instruction {
		var hit ssa.Instruction
		allInstrs(fn, func(_ *ssa.BasicBlock, _ int, in ssa.Instruction) {
			if hit != nil || in == at {
				return
			}
			call, ok := in.(ssa.CallInstruction)
			if !ok {
				return
			}
			g := calleeFn(call)
			if g == nil || !reaches(g, 0) {
				return
			}
			if findPath(after(at), Target{Instr: in}, nil) != nil {
				hit = in
			}
		})
		return hit
	}
	var fns []*ssa.Function
	poss := map[*ssa.Function]token.Pos{}
	n := 0
	for _, cs := range c.callSites(fin.Object()) {
		if !libPkg(fnPkg(cs.Fn).Path()) {
			continue
		}
		n++
		fns = append(fns, cs.Fn)
		poss[cs.Fn] = cs.Call.Pos()
		if h := keyInstallAfter(cs.Fn, cs.Call.(ssa.Instruction)); h != nil {
			c.Violate(rule, fnName(topFn(cs.Fn))+"#FinalizeDigests=>no-key", "a key install is reachable after the handshake digests were frozen: cleartext exchanged in between is not bound into the first protected frame", cs.Call.Pos(), c.Pos(h.Pos()))
		} else {
			c.Ok(rule, fnName(topFn(cs.Fn))+"#FinalizeDigests=>no-key", "no key install is reachable after the explicit freeze in this function", cs.Call.Pos())
		}
	}
	c.whoMay(rule, "call Stream.FinalizeDigests", fns, poss, fnSet(setup))
	for _, cs := range c.callSites(setup.Object()) {
		n++
		if h := keyInstallAfter(cs.Fn, cs.Call.(ssa.Instruction)); h != nil {
			c.Violate(rule, fnName(topFn(cs.Fn))+"#after-setupStreamEncryption", "a (second) key install is reachable after setupStreamEncryption returned, which may have frozen the digests for a cleartext session", cs.Call.Pos(), c.Pos(h.Pos()))
		} else {
			c.Ok(rule, fnName(topFn(cs.Fn))+"#after-setupStreamEncryption", "no key install follows setupStreamEncryption here", cs.Call.Pos())
		}
	}
	c.MinCount(rule, "FinalizeDigests / setupStreamEncryption call sites", n, 3)
}

// C08-R5: serialising does not write through its byte-slice arguments.
func c08r5(c *Ctx) {
	const rule = "C08-R5"
	c.Doc(rule, "no encode-side function of package message (Put*, putClassAd*) appends to, stores into or copy()s into memory rooted at one of its []byte parameters: a caller may hand sub-slices of one shared buffer (PutClassAdRawBytes documents this), and an append with spare capacity would overwrite the next expression's first byte")
	n := 0
	for _, fn := range c.FnsOfPkg("message") {
		name := fn.Name()
		if fn.Parent() != nil || !(len(name) >= 3 && (name[:3] == "Put" || name[:3] == "put")) {
			continue
		}
		var params []ssa.Value
		for _, p := range fn.Params {
			if sl, ok := p.Type().Underlying().(*types.Slice); ok {
				if b, ok := sl.Elem().Underlying().(*types.Basic); ok && b.Kind() == types.Byte {
					params = append(params, p)
				}
			}
		}
		if len(params) == 0 {
			continue
		}
		n++
		rootedAtParam := func(v ssa.Value) bool {
			seen := map[ssa.Value]bool{}
			var walk func(v ssa.Value) bool
			walk = func(v ssa.Value) bool {
				if v == nil || seen[v] {
					return false
				}
				seen[v] = true
				for _, p := range params {
					if v == p {
						return true
					}
				}
				switch x := v.(type) {
				case *ssa.Slice:
					return walk(x.X)
				case *ssa.Phi:
					for _, e := range x.Edges {
						if walk(e) {
							return true
						}
					}
				case *ssa.IndexAddr:
					return walk(x.X)
				}
				return false
			}
			return walk(v)
		}
		bad := false
		allInstrs(fn, func(_ *ssa.BasicBlock, _ int, in ssa.Instruction) {
			switch x := in.(type) {
			case *ssa.Call:
				if b, ok := x.Call.Value.(*ssa.Builtin); ok {
					if (b.Name() == "append" || b.Name() == "copy") && len(x.Call.Args) > 0 && rootedAtParam(x.Call.Args[0]) {
						bad = true
						c.Violate(rule, fnName(fn)+"#"+b.Name()+"-to-param", b.Name()+"() targets the caller's byte slice: with spare capacity this overwrites the bytes that follow it in the caller's buffer", x.Pos())
					}
				}
			case *ssa.Store:
				if rootedAtParam(x.Addr) {
					bad = true
					c.Violate(rule, fnName(fn)+"#store-to-param", "stores into the caller's byte slice", x.Pos())
				}
			}
		})
		if !bad {
			c.Ok(rule, fnName(fn)+"#args-read-only", "does not write through its []byte parameters", fn.Pos())
		}
	}
	c.MinCount(rule, "encode functions with []byte parameters", n, 2)
}

func init() { register("C13", c13r7) }

// C13-R7: x[c1 : len(x)-c2] needs len(x) >= c1+c2 on the dominating path.
func c13r7(c *Ctx) {
	const rule = "C13-R7"
	c.Doc(rule, "every slice expression x[c1:len(x)-c2] with constants c1 >= 1, c2 >= 1 (the strip-the-delimiters idiom of the text parsers: claim ids, session info, sinful strings, ClassAd literals) in library code is dominated by an edge on which len(x) >= c1+c2 is established by a comparison of len(x) with a constant; a pair of HasPrefix/HasSuffix tests is not such a bound (one byte can be both)")
	n := 0
	for _, fn := range c.ModFns {
		if pk := fnPkg(fn); pk == nil || !libPkg(pk.Path()) {
			continue
		}
		allInstrs(fn, func(_ *ssa.BasicBlock, _ int, in ssa.Instruction) {
			sl, ok := in.(*ssa.Slice)
			if !ok || sl.High == nil {
				return
			}
			c1 := int64(0)
			if sl.Low != nil {
				k, isC := constInt(sl.Low)
				if !isC {
					return
				}
				c1 = k
			}
			bo, ok := sl.High.(*ssa.BinOp)
			if !ok || bo.Op != token.SUB {
				return
			}
			c2, isC := constInt(bo.Y)
			lenCall, isLen := bo.X.(*ssa.Call)
			if !isC || !isLen || c2 <= 0 || c1 <= 0 {
				// c1 == 0 (drop a trailing byte) is always preceded by an element test x[len(x)-1], which is
				// the earlier panic point and belongs to the index sinks of C13-R1
				return
			}
			if b, ok := lenCall.Call.Value.(*ssa.Builtin); !ok || b.Name() != "len" || lenCall.Call.Args[0] != sl.X {
				return
			}
			n++
			need := c1 + c2
			// edges establishing len(x) >= need
			cuts := newCuts()
			for _, b := range fn.Blocks {
				ifi := blockIf(b)
				if ifi == nil {
					continue
				}
				a := condAtom(ifi.Cond)
				if a.Op == token.ILLEGAL {
					continue
				}
				lc, isCall := a.X.(*ssa.Call)
				k, isK := constInt(a.Y)
				op := a.Op
				if !isCall || !isK {
					// constant on the left
					lc, isCall = a.Y.(*ssa.Call)
					k, isK = constInt(a.X)
					switch op {
					case token.LSS:
						op = token.GTR
					case token.LEQ:
						op = token.GEQ
					case token.GTR:
						op = token.LSS
					case token.GEQ:
						op = token.LEQ
					}
				}
				if !isCall || !isK {
					continue
				}
				if bi, ok := lc.Call.Value.(*ssa.Builtin); !ok || bi.Name() != "len" || lc.Call.Args[0] != sl.X {
					continue
				}
				// which edge implies len >= need?
				var tEdge, fEdge bool
				switch op {
				case token.GEQ:
					tEdge = k >= need
				case token.GTR:
					tEdge = k+1 >= need
				case token.LSS:
					fEdge = k >= need
				case token.LEQ:
					fEdge = k+1 >= need
				case token.EQL:
					tEdge = k >= need
				case token.NEQ:
					fEdge = k >= need
				}
				if a.Neg {
					tEdge, fEdge = fEdge, tEdge
				}
				if tEdge {
					cuts.AddEdges(Edge{b, 0})
				}
				if fEdge {
					cuts.AddEdges(Edge{b, 1})
				}
			}
			construct := fmt.Sprintf("%s#%s[%d:len-%d]", fnName(fn), sl.X.Name(), c1, c2)
			if p := findPath(entryPoint(fn), Target{Instr: sl}, cuts); p != nil {
				c.Violate(rule, construct, fmt.Sprintf("x[%d:len(x)-%d] is reachable without len(x) >= %d having been established: an input of %d byte(s) panics with 'slice bounds out of range'", c1, c2, need, need-1), sl.Pos(), c.describePath(p)...)
			} else {
				c.Ok(rule, construct, fmt.Sprintf("dominated by len(x) >= %d", need), sl.Pos())
			}
		})
	}
	c.MinCount(rule, "x[c1:len(x)-c2] slice sites in library code", n, 3)
}

func init() { register("C13", c13r8) }

// c13LenFacts: edges of fn on which len(x) >= k is established by a comparison of len(x) with a constant.
func c13LenGeqEdges(fn *ssa.Function, x ssa.Value, need int64) []Edge {
	var out []Edge
	same := func(v ssa.Value) bool {
		lc, ok := v.(*ssa.Call)
		if !ok {
			return false
		}
		bi, ok := lc.Call.Value.(*ssa.Builtin)
		return ok && bi.Name() == "len" && lc.Call.Args[0] == x
	}
	for _, b := range fn.Blocks {
		ifi := blockIf(b)
		if ifi == nil {
			continue
		}
		a := condAtom(ifi.Cond)
		if a.Op == token.ILLEGAL {
			continue
		}
		op := a.Op
		var k int64
		var isK bool
		if same(a.X) {
			k, isK = constInt(a.Y)
		} else if same(a.Y) {
			k, isK = constInt(a.X)
			switch op {
			case token.LSS:
				op = token.GTR
			case token.LEQ:
				op = token.GEQ
			case token.GTR:
				op = token.LSS
			case token.GEQ:
				op = token.LEQ
			}
		} else {
			continue
		}
		if !isK {
			continue
		}
		var tEdge, fEdge bool
		switch op {
		case token.GEQ:
			tEdge = k >= need
		case token.GTR:
			tEdge = k+1 >= need
		case token.LSS:
			fEdge = k >= need
		case token.LEQ:
			fEdge = k+1 >= need
		case token.EQL:
			tEdge = k >= need
		case token.NEQ:
			fEdge = k >= need
		}
		if a.Neg {
			tEdge, fEdge = fEdge, tEdge
		}
		if tEdge {
			out = append(out, Edge{b, 0})
		}
		if fEdge {
			out = append(out, Edge{b, 1})
		}
	}
	return out
}

// C13-R8: constant offsets into a received buffer need a length test first.
func c13r8(c *Ctx) {
	const rule = "C13-R8"
	c.Doc(rule, "in the frame-level decoders of package stream (functions that receive a []byte parameter holding bytes from the peer, or a frame returned by a receiver) every slice or index expression with a constant positive offset k into such a buffer - including offsets that are a phi of constants, like the optional 16-byte IV prefix - is dominated by an edge on which len(buffer) >= k (k+1 for an index) was established by a comparison with a constant; a frame shorter than the fixed layout yields an error, not a slice-bounds panic")
	n := 0
	recvFns := map[*ssa.Function]bool{}
	for _, name := range []string{"(*Stream).ReceiveFrame", "(*Stream).ReceiveFrameWithEnd", "(*Stream).ReceiveCompleteMessage", "(*Stream).decryptDataWithAAD", "(*Stream).ReadFrame"} {
		if f := c.needFn(rule, "stream", name); f != nil {
			recvFns[f] = true
		}
	}
	for _, fn := range c.FnsOfPkg("stream") {
		// peer buffers: []byte parameters, and the frames returned by the receive functions
		isPeerBuf := func(v ssa.Value) bool {
			if _, ok := v.Type().Underlying().(*types.Slice); !ok {
				return false
			}
			switch x := v.(type) {
			case *ssa.Parameter:
				return true
			case *ssa.Extract:
				if call, ok := x.Tuple.(*ssa.Call); ok {
					return recvFns[calleeFn(call)]
				}
			case *ssa.Call:
				return recvFns[calleeFn(x)]
			}
			return false
		}
		// reqs: the constant offsets a bound operand can take, each with the phi edge it arrives through
		type req struct {
			k    int64
			phi  *ssa.Phi
			pred *ssa.BasicBlock
		}
		var consts func(v ssa.Value, d int) ([]req, bool)
		consts = func(v ssa.Value, d int) ([]req, bool) {
			if k, ok := constInt(v); ok {
				return []req{{k: k}}, true
			}
			if phi, ok := v.(*ssa.Phi); ok && d == 0 {
				var out []req
				for i, e := range phi.Edges {
					k, ok := constInt(e)
					if !ok {
						return nil, false
					}
					out = append(out, req{k, phi, phi.Block().Preds[i]})
				}
				return out, true
			}
			return nil, false
		}
		allInstrs(fn, func(_ *ssa.BasicBlock, _ int, in ssa.Instruction) {
			var buf ssa.Value
			var reqs []req
			switch x := in.(type) {
			case *ssa.Slice:
				if !isPeerBuf(x.X) {
					return
				}
				buf = x.X
				for _, op := range []ssa.Value{x.Low, x.High} {
					if op != nil {
						if r, ok := consts(op, 0); ok {
							reqs = append(reqs, r...)
						}
					}
				}
			case *ssa.IndexAddr:
				if !isPeerBuf(x.X) {
					return
				}
				buf = x.X
				if r, ok := consts(x.Index, 0); ok {
					for _, q := range r {
						q.k++
						reqs = append(reqs, q)
					}
				}
			default:
				return
			}
			for _, q := range reqs {
				if q.k <= 0 {
					continue
				}
				n++
				construct := fmt.Sprintf("%s#%s@offset%d", fnName(fn), buf.Name(), q.k)
				// a helper's parameter that every caller fills with a buffer of fixed, sufficient length
				if par, isPar := buf.(*ssa.Parameter); isPar && c13ParamMinLen(c, fn, par) >= q.k {
					c.Ok(rule, construct, fmt.Sprintf("every caller passes a buffer of at least %d bytes", q.k), in.Pos())
					continue
				}
				cuts := newCuts().AddEdges(c13LenGeqEdges(fn, buf, q.k)...)
				var p []*ssa.BasicBlock
				if q.phi != nil {
					// only paths that enter the merge through the edge carrying this constant
					p = findPath(entryPoint(fn), Target{Instr: q.phi.Block().Instrs[0], Pred: q.pred}, cuts)
				} else {
					p = findPath(entryPoint(fn), Target{Instr: in}, cuts)
				}
				if p != nil {
					c.Violate(rule, construct, fmt.Sprintf("a constant offset needing %d byte(s) is applied to a peer-sized buffer without a dominating len(buffer) >= %d test: a shorter frame panics (slice bounds / index out of range)", q.k, q.k), in.Pos(), c.describePath(p)...)
				} else {
					c.Ok(rule, construct, fmt.Sprintf("dominated by len(buffer) >= %d", q.k), in.Pos())
				}
			}
		})
	}
	c.MinCount(rule, "constant offsets into peer buffers in package stream", n, 1)
}

func init() { register("C14", c14r6) }

// C14-R6: the fixed-layout decoders are total on the value domain.
func c14r6(c *Ctx) {
	const rule = "C14-R6"
	c.Doc(rule, "GetChar, GetInt, GetInt32, GetInt64, GetUint32, GetFloat and GetDouble construct no error of their own: every error they return is one a callee returned (out of data / stream failure). Every 8-byte pattern the encoders can emit - e.g. the frexp exponent 1024 of a double in [2^1023, MaxFloat64] - therefore decodes")
	n := 0
	for _, name := range []string{"GetChar", "GetInt", "GetInt32", "GetInt64", "GetUint32", "GetFloat", "GetDouble"} {
		fn := c.needFn(rule, "message", "(*Message)."+name)
		if fn == nil {
			continue
		}
		n++
		bad := ""
		var pos token.Pos = fn.Pos()
		for _, r := range c.returnsOf(fn) {
			ev := r.Ret.Results[len(r.Ret.Results)-1]
			for _, o := range origins(fn, ev) {
				if isNilConst(o) {
					continue
				}
				if call, _ := originCall(o); call != nil {
					if obj := calleeObj(call); obj != nil && obj.Pkg() != nil {
						if full := obj.Pkg().Path() + "." + obj.Name(); full == "fmt.Errorf" || full == "errors.New" {
							bad = "constructs its own error (" + full + ")"
							pos = call.Pos()
						}
					}
					continue
				}
				if _, isMI := o.(*ssa.MakeInterface); isMI {
					bad = "returns an error value it builds itself"
					pos = r.Ret.Pos()
				}
			}
		}
		c.Check(bad == "", rule, fnName(fn)+"#no-own-errors", "only propagates its callees' errors", "a fixed-layout decoder "+bad+": some value the encoder can emit is rejected on receipt", pos)
	}
	c.MinCount(rule, "fixed-layout decoders", n, 7)
}

func init() { register("C16", c16r6) }

// C16-R6: what Import stores as a string, Export reads as a string.
func c16r6(c *Ctx) {
	const rule = "C16-R6"
	c.Doc(rule, "for every attribute that ImportSecSessionInfo stores into the policy with a string-typed value (it stores every field of the text as a string, SessionExpires included), ExportSecSessionInfo has an EvaluateAttrString lookup of that attribute: the ClassAd library does not coerce a string to an integer, so a policy that came from text and is rendered again keeps every attribute (Export(Import(text)) round trip)")
	a := c16Resolve(c, rule)
	if a == nil {
		return
	}
	// names Import stores as strings
	stored := map[string]token.Pos{}
	undecided := ""
	for _, f := range withClosures(a.importInfo) {
		allInstrs(f, func(_ *ssa.BasicBlock, _ int, in ssa.Instruction) {
			call, ok := in.(*ssa.Call)
			if !ok {
				return
			}
			o := calleeObj(call)
			if o == nil || o.Name() != "Set" || o.Pkg() == nil || o.Pkg().Name() != "classad" || len(call.Call.Args) != 3 {
				return
			}
			val := stripConv(call.Call.Args[2])
			if b, ok := val.Type().Underlying().(*types.Basic); !ok || b.Info()&types.IsString == 0 {
				return
			}
			nameV := call.Call.Args[1]
			var names []string
			if par, isPar := nameV.(*ssa.Parameter); isPar && f.Parent() != nil {
				// closure parameter: the constant arguments at its call sites in the parent
				idx := -1
				for i, p := range f.Params {
					if p == par {
						idx = i
					}
				}
				for _, g := range withClosures(a.importInfo) {
					allInstrs(g, func(_ *ssa.BasicBlock, _ int, in2 ssa.Instruction) {
						if c2, ok := in2.(*ssa.Call); ok && calleeFn(c2) == f && idx >= 0 && idx < len(c2.Call.Args) {
							if s, ok := constString(c2.Call.Args[idx]); ok {
								names = append(names, s)
							} else {
								undecided = "a copyIf-style helper is called with a non-constant attribute name"
							}
						}
					})
				}
			} else if ks, ok := c16ConstStrings(f, nameV); ok {
				names = ks
			} else {
				undecided = "an attribute name stored by ImportSecSessionInfo is not a constant"
			}
			for _, s := range names {
				stored[s] = call.Pos()
			}
		})
	}
	if undecided != "" {
		c.Undecided(rule, fnName(a.importInfo)+"#stored-names", undecided, a.importInfo.Pos())
	}
	// names Export reads with a string lookup - in the exporter itself or in same-package helpers it calls,
	// where the attribute name may be a helper parameter fed with constants by the caller
	readsStr := map[string]bool{}
	var scope []*ssa.Function
	for f := range c.reachableFns([]*ssa.Function{a.export}, false) {
		if fnPkg(f) == fnPkg(a.export) {
			scope = append(scope, f)
		}
	}
	var constArg func(f *ssa.Function, v ssa.Value, depth int) []string
	constArg = func(f *ssa.Function, v ssa.Value, depth int) []string {
		if ks, ok := c16ConstStrings(f, v); ok {
			return ks
		}
		var out []string
		if depth <= 0 {
			return nil
		}
		for _, o := range origins(f, v) {
			par, ok := o.(*ssa.Parameter)
			if !ok {
				continue
			}
			idx := -1
			for i, q := range f.Params {
				if q == par {
					idx = i
				}
			}
			for _, g := range scope {
				for _, cs := range callsIn(g, f.Object()) {
					if idx >= 0 && idx < len(cs.Common().Args) {
						out = append(out, constArg(g, cs.Common().Args[idx], depth-1)...)
					}
				}
			}
		}
		return out
	}
	for _, f := range scope {
		f := f
		allInstrs(f, func(_ *ssa.BasicBlock, _ int, in ssa.Instruction) {
			call, ok := in.(*ssa.Call)
			if !ok {
				return
			}
			o := calleeObj(call)
			if o == nil || o.Name() != "EvaluateAttrString" || len(call.Call.Args) != 2 {
				return
			}
			for _, k := range constArg(f, call.Call.Args[1], 2) {
				readsStr[k] = true
			}
		})
	}
	var names []string
	for k := range stored {
		names = append(names, k)
	}
	sort.Strings(names)
	for _, k := range names {
		c.Check(readsStr[k], rule, "import-string->export:"+k, "ExportSecSessionInfo reads "+k+" as a string", "ImportSecSessionInfo stores "+k+" as a string but ExportSecSessionInfo has no string lookup for it: a policy parsed from text loses "+k+" when it is rendered again", stored[k])
	}
	c.MinCount(rule, "attributes ImportSecSessionInfo stores as strings", len(names), 3)
}

// c13ParamMinLen: the smallest statically known length of the buffers passed for parameter par of fn over all
// static call sites in the module (make([]byte, K) / array slices); 0 when unknown or when fn has no caller
// or is exported (anyone may call it).
func c13ParamMinLen(c *Ctx, fn *ssa.Function, par *ssa.Parameter) int64 {
	if fn.Object() == nil || fn.Object().Exported() {
		return 0
	}
	idx := -1
	for i, q := range fn.Params {
		if q == par {
			idx = i
		}
	}
	min, n := int64(-1), 0
	for _, g := range c.ModFns {
		for _, cs := range callsIn(g, fn.Object()) {
			n++
			args := cs.Common().Args
			if idx < 0 || idx >= len(args) {
				return 0
			}
			k := int64(0)
			if l := c01LenLin(args[idx]); l.isConst() {
				k = l.k
			} else {
				for _, o := range origins(g, args[idx]) {
					l := c01LenLin(o)
					if !l.isConst() {
						return 0
					}
					if k == 0 || l.k < k {
						k = l.k
					}
				}
			}
			if k <= 0 {
				return 0
			}
			if min < 0 || k < min {
				min = k
			}
		}
	}
	if n == 0 || min < 0 {
		return 0
	}
	return min
}
