package main

// C05 — the server runs a command only on a session that meets that command's policy.
// Decided clause (DESIGN.md section 5): the dispatch skeleton of server.ServeConn. Helpers shared
// with C17/C20 live in help_c05.go.

import (
	"fmt"
	"go/token"
	"go/types"
	"sort"
	"strings"

	"golang.org/x/tools/go/ssa"
)

func init() { register("C05", c05r1, c05r2, c05r3, c05r4, c05r5, c05r6) }

// c05Direct is a dynamic call through registeredHandler.fn.
type c05Direct struct {
	fn   *ssa.Function
	call ssa.CallInstruction
}

// c05Site is one place where a registered handler function is invoked, seen from a dispatching root
// function: the frame (root function or a helper it calls, e.g. the wrapper run) and the call.
type c05Site struct {
	fr   *c05Frame
	call *ssa.Call
}

// c05Root is a dispatching function: it (or a helper below it) compares the command integer read
// first with DC_AUTHENTICATE, and handler invocations are reachable below it.
type c05Root struct {
	fr    *c05Frame
	first c05V // the command value compared with DC_AUTHENTICATE
	sites []c05Site
}

type c05Model struct {
	fnField, rawField *types.Var
	lookup, satisfies *ssa.Function
	dca               int64
	direct            []c05Direct
	roots             []*c05Root
	problems          []string
	unrooted          []c05Direct
}

var c05models = map[*Prog]*c05Model{}

// c05build enumerates handler invocations in the module (memoised per loaded program).
func (c *Ctx) c05build(rule string) *c05Model {
	if m, ok := c05models[c.Prog]; ok {
		return m
	}
	m := c.c05build1(rule)
	if m != nil {
		c05models[c.Prog] = m
	}
	return m
}

// dispatchOf looks for the DC_AUTHENTICATE comparison in the frames below fr. ok when there is at
// least one and all of them compare the same value.
func (m *c05Model) dispatchOf(fr *c05Frame) (first c05V, ok bool, why string) {
	n := 0
	same := true
	for _, f := range fr.all() {
		allInstrs(f.fn, func(_ *ssa.BasicBlock, _ int, in ssa.Instruction) {
			v, isV := in.(ssa.Value)
			if !isV {
				return
			}
			if o, is := m.dcaOperand(v); is {
				r := f.res(o)
				if n > 0 && r != first {
					same = false
				}
				first = r
				n++
			}
		})
	}
	if n == 0 {
		return first, false, fmt.Sprintf("no test against DC_AUTHENTICATE found in %s or its helpers", fnName(fr.fn))
	}
	if !same {
		return first, false, fmt.Sprintf("%d tests against DC_AUTHENTICATE on different values found below %s", n, fnName(fr.fn))
	}
	return first, true, ""
}

// dcaOperand: v is "X ==/!= DC_AUTHENTICATE" with X not a constant; returns X.
func (m *c05Model) dcaOperand(v ssa.Value) (ssa.Value, bool) {
	x, y, _, ok := c05eqTest(v)
	if !ok {
		return nil, false
	}
	if k, isC := constInt(x); isC && k == m.dca {
		x, y = y, x
	}
	if k, isC := constInt(y); !isC || k != m.dca {
		return nil, false
	}
	if _, isConst := x.(*ssa.Const); isConst {
		return nil, false
	}
	return x, true
}

// authFact: the outcome "first command == DC_AUTHENTICATE" (want=true) or its negation.
func (m *c05Model) authFact(r *c05Root, want bool) c05Fact {
	return func(t c05Test) bool {
		o, ok := m.dcaOperand(t.v.v)
		if !ok || t.v.fr == nil || t.v.fr.res(o) != r.first {
			return false
		}
		_, _, eq, _ := c05eqTest(t.v.v)
		return (eq == t.truth) == want
	}
}

func (c *Ctx) c05build1(rule string) *c05Model {
	m := &c05Model{}
	m.fnField = c.needField(rule, "server", "registeredHandler", "fn")
	m.rawField = c.needField(rule, "server", "registeredHandler", "raw")
	m.lookup = c.needFn(rule, "server", "(*Server).lookup")
	m.satisfies = c.needFn(rule, "server", "(*Server).sessionSatisfies")
	dca, _ := c.needObj(rule, "commands", "DC_AUTHENTICATE").(*types.Const)
	if m.fnField == nil || m.rawField == nil || m.lookup == nil || m.satisfies == nil || dca == nil {
		return nil
	}
	m.dca, _ = constInt(ssa.NewConst(dca.Val(), dca.Type()))
	// every read of the fn field must be used only as the callee of a call
	for _, fn := range c.ModFns {
		allInstrs(fn, func(_ *ssa.BasicBlock, _ int, in ssa.Instruction) {
			v, ok := in.(ssa.Value)
			if !ok {
				return
			}
			_, f, isRead := fieldRead(v)
			if !isRead || f != m.fnField {
				return
			}
			for _, r := range *v.Referrers() {
				if _, dbg := r.(*ssa.DebugRef); dbg {
					continue
				}
				call, isCall := r.(ssa.CallInstruction)
				if isCall && call.Common().Value == v && !call.Common().IsInvoke() {
					m.direct = append(m.direct, c05Direct{fn: fn, call: call})
					continue
				}
				m.problems = append(m.problems, fmt.Sprintf("%s: the handler function value is used other than as a callee (%s)", fnName(fn), c.Pos(r.Pos())))
			}
		})
	}
	// dispatching roots: go up the static callers of the invoking function until a function with the
	// DC_AUTHENTICATE dispatch is found
	roots := map[*ssa.Function]*c05Root{}
	var order []*ssa.Function
	var up func(fn *ssa.Function, depth int, seen map[*ssa.Function]bool) bool
	up = func(fn *ssa.Function, depth int, seen map[*ssa.Function]bool) bool {
		if seen[fn] || depth > c05MaxDepth {
			return false
		}
		seen[fn] = true
		if _, ok := roots[fn]; ok {
			return true
		}
		fr := c.c05rootFrame(fn, m.lookup, m.satisfies)
		if first, ok, _ := m.dispatchOf(fr); ok {
			roots[fn] = &c05Root{fr: fr, first: first}
			order = append(order, fn)
			return true
		}
		if fn.Parent() != nil {
			return up(fn.Parent(), depth+1, seen)
		}
		if fn.Object() == nil {
			return false
		}
		if uses := c.c05funcValueUses(fn); len(uses) > 0 {
			m.problems = append(m.problems, fmt.Sprintf("%s invokes a handler and is used as a function value at %s: its callers cannot be enumerated", fnName(fn), c.Pos(uses[0].Pos())))
		}
		found := false
		for _, cs := range c.callSites(fn.Object()) {
			if up(cs.Fn, depth+1, seen) {
				found = true
			}
		}
		return found
	}
	for _, d := range m.direct {
		up(d.fn, 0, map[*ssa.Function]bool{})
	}
	covered := map[ssa.CallInstruction]bool{}
	for _, fn := range order {
		r := roots[fn]
		for _, f := range r.fr.all() {
			for _, d := range m.direct {
				if cl, ok := d.call.(*ssa.Call); ok && d.fn == f.fn {
					r.sites = append(r.sites, c05Site{f, cl})
					covered[d.call] = true
				}
			}
		}
		if len(r.sites) > 0 {
			m.roots = append(m.roots, r)
		}
	}
	for _, d := range m.direct {
		if !covered[d.call] {
			m.unrooted = append(m.unrooted, d)
		}
	}
	return m
}

// c05zeroValue: v is the zero value of its type (a nil-valued constant, or a load of a local variable
// that is never written).
func c05zeroValue(v ssa.Value) bool {
	if k, ok := v.(*ssa.Const); ok {
		return k.Value == nil
	}
	ld, ok := v.(*ssa.UnOp)
	if !ok || ld.Op != token.MUL {
		return false
	}
	al, ok := ld.X.(*ssa.Alloc)
	if !ok {
		return false
	}
	for _, r := range *al.Referrers() {
		switch r.(type) {
		case *ssa.UnOp, *ssa.DebugRef:
		default:
			return false
		}
	}
	return true
}

// handlerLookup: v denotes a handler struct (or one of its fields) as seen from fr; returns the
// (*Server).lookup call whose first result is the only non-zero value that variable can hold.
func (m *c05Model) handlerLookup(fr *c05Frame, v ssa.Value) (c05Call, bool) {
	var found c05Call
	n := 0
	bad := false
	seen := map[c05V]bool{}
	var walk func(f *c05Frame, v ssa.Value, d int)
	walk = func(f *c05Frame, v ssa.Value, d int) {
		if d > 12 || bad {
			bad = true
			return
		}
		root := c05cellRoot(v)
		if h := f.home(root); h != nil {
			f = h
		}
		if seen[c05V{root, f}] {
			return
		}
		seen[c05V{root, f}] = true
		if al, ok := root.(*ssa.Alloc); ok {
			if _, isStruct := al.Type().Underlying().(*types.Pointer).Elem().Underlying().(*types.Struct); isStruct {
				st := c05cellStores(al)
				if c05cellEscapes(al) {
					bad = true
					return
				}
				if len(st) == 0 {
					if !c05zeroValue(&ssa.UnOp{Op: token.MUL, X: al}) {
						bad = true
					}
					return
				}
				for _, s := range st {
					walk(f, s.Val, d+1)
				}
				return
			}
		}
		for _, o := range f.origins(root) {
			of := o.fr
			if of == nil {
				of = f
			}
			if c05zeroValue(o.v) {
				continue
			}
			if ld, ok := o.v.(*ssa.UnOp); ok && ld.Op == token.MUL {
				if _, isCell := c05cellOf(ld.X); isCell {
					walk(of, o.v, d+1)
					continue
				}
			}
			call, idx := c05resultOf(o.v)
			if call == nil || idx != 0 || calleeFn(call) != m.lookup {
				bad = true
				return
			}
			c := c05Call{of, call}
			if n > 0 && c != found {
				bad = true
				return
			}
			found = c
			n++
		}
	}
	walk(fr, v, 0)
	return found, n > 0 && !bad
}

func c05siteLabel(r *c05Root, class string, ord int) string {
	l := fnName(r.fr.fn) + "#handler-call[" + class + "]"
	if ord > 0 {
		l += fmt.Sprintf("/%d", ord+1)
	}
	return l
}

// c05connArg: the *Conn argument of a handler invocation.
func (c *Ctx) c05connArg(call *ssa.Call) ssa.Value {
	connT := c.LookupObj("server", "Conn")
	for _, a := range call.Call.Args {
		if p, ok := a.Type().Underlying().(*types.Pointer); ok && connT != nil && types.Identical(p.Elem(), connT.Type()) {
			return a
		}
	}
	return nil
}

// c05fieldVals: the values stored into field f of the struct allocated by al, resolved in frame fr.
func c05fieldVals(fr *c05Frame, al *ssa.Alloc, f *types.Var) []c05V {
	var out []c05V
	for _, v := range c05fieldStores(al, f) {
		out = append(out, fr.res(v))
	}
	return out
}

// facts about one lookup call
func (m *c05Model) lookupOK(lk c05Call) c05Fact {
	return c05factBool(true, func(v c05V) bool {
		ex, ok := v.v.(*ssa.Extract)
		return ok && ex.Index == 1 && ex.Tuple == ssa.Value(lk.call) && v.fr == lk.fr
	})
}

// rawIs: the outcome "<handler>.raw == want" for the handler produced by lookup call lk.
func (m *c05Model) rawIs(lk c05Call, want bool) c05Fact {
	return func(t c05Test) bool {
		if t.truth != want || t.v.fr == nil {
			return false
		}
		_, f, ok := fieldRead(stripConv(t.v.v))
		if !ok || f != m.rawField {
			return false
		}
		got, ok := m.handlerLookup(t.v.fr, t.v.v)
		return ok && got == lk
	}
}

// C05-R1: guard before every handler call.
func c05r1(c *Ctx) {
	defer c05timer("c05r1")()
	const rule = "C05-R1"
	c.Doc(rule, "every invocation of a registered handler (dynamic call through registeredHandler.fn; the dispatching function is seen together with the same-package helpers it calls) is dominated by: lookup ok, the h.raw test of the same handler with the polarity of its path (!raw after DC_AUTHENTICATE, raw otherwise), and on the authenticated path a nil-error ServerHandshakeWithMessage and a nil result of sessionSatisfies on the same command value that was looked up and stored in Conn.Command with the negotiation stored in Conn.Negotiation; the lookup/class/session checks lie on every cycle through the call (keep-alive loop)")
	m := c.c05build(rule)
	if m == nil {
		return
	}
	for _, p := range m.problems {
		c.Undecided(rule, "handler-value-flow", p, token.NoPos)
	}
	hs := c.needFn(rule, "security", "(*Authenticator).ServerHandshakeWithMessage")
	cmdF := c.needField(rule, "server", "Conn", "Command")
	negF := c.needField(rule, "server", "Conn", "Negotiation")
	if hs == nil || cmdF == nil || negF == nil {
		return
	}
	c.MinCount(rule, "dynamic calls through registeredHandler.fn", len(m.direct), 1)
	for i, d := range m.unrooted {
		c.Undecided(rule, fmt.Sprintf("%s#handler-call[unclassified]/%d", fnName(d.fn), i+1), "handler invoked in a function that is not reachable from a function with a recognisable DC_AUTHENTICATE dispatch", d.call.Pos())
	}
	nAuth, nRaw := 0, 0
	for _, r := range m.roots {
		ords := map[string]int{}
		for _, s := range r.sites {
			tg := c05Tg{fr: s.fr, in: s.call}
			dom := func(f c05Fact) (bool, []*ssa.BasicBlock) { return c05dominated(tg, c05newCuts(f)) }
			isAuth, _ := dom(m.authFact(r, true))
			isRaw, _ := dom(m.authFact(r, false))
			class := "unclassified"
			switch {
			case isAuth && !isRaw:
				class = "auth"
				nAuth++
			case isRaw && !isAuth:
				class = "raw"
				nRaw++
			}
			lab := c05siteLabel(r, class, ords[class])
			ords[class]++
			if class == "unclassified" {
				c.Violate(rule, lab, "handler invocation is reachable both with and without a leading DC_AUTHENTICATE: neither class check can hold", s.call.Pos())
				continue
			}
			lk, ok := m.handlerLookup(s.fr, s.call.Call.Value)
			if !ok {
				c.Undecided(rule, lab+":lookup", "the invoked handler variable is not the (single) result of (*Server).lookup", s.call.Pos())
				continue
			}
			cmdVal := lk.fr.res(lk.call.Call.Args[1])
			okFact := m.lookupOK(lk)
			polar, polName := m.rawIs(lk, false), "!raw"
			if class == "raw" {
				polar, polName = m.rawIs(lk, true), "raw"
			}
			if ok, p := dom(okFact); ok {
				c.Ok(rule, lab+":lookup-ok", "dominated by the ok edge of lookup", s.call.Pos())
			} else {
				c.Violate(rule, lab+":lookup-ok", "handler invoked without passing the ok edge of the lookup that produced it", s.call.Pos(), c.describePath(p)...)
			}
			if ok, p := dom(polar); ok {
				c.Ok(rule, lab+":class", "dominated by the "+polName+" edge of the same handler variable", s.call.Pos())
			} else {
				c.Violate(rule, lab+":class", "handler invoked without passing the "+polName+" edge of the handler that is invoked (raw handlers must be unreachable on the authenticated path and vice versa)", s.call.Pos(), c.describePath(p)...)
			}
			// Conn.Command carries the command that was looked up
			var conn c05V
			if a := c.c05connArg(s.call); a != nil {
				conn = s.fr.res(a)
			}
			connAl, isAl := conn.v.(*ssa.Alloc)
			if !isAl || conn.fr == nil {
				c.Undecided(rule, lab+":conn", "the *Conn handed to the handler is not a fresh composite literal", s.call.Pos())
				continue
			}
			cmdStores := c05fieldVals(conn.fr, connAl, cmdF)
			c.Check(len(cmdStores) == 1 && cmdStores[0] == cmdVal, rule, lab+":conn-command", "Conn.Command is the command value that was looked up", "Conn.Command is not the command value passed to lookup", s.call.Pos())
			if class == "raw" {
				c.Check(cmdVal == r.first, rule, lab+":command", "the raw lookup uses the command integer that was read first", "the raw-path lookup does not use the command integer compared with DC_AUTHENTICATE", lk.call.Pos())
				c.Check(len(c05fieldStores(connAl, negF)) == 0, rule, lab+":conn-negotiation", "raw handlers get no negotiation", "a raw-path Conn carries a Negotiation", s.call.Pos())
				continue
			}
			// authenticated path: handshake, session check
			negStores := c05fieldVals(conn.fr, connAl, negF)
			if len(negStores) != 1 {
				c.Violate(rule, lab+":conn-negotiation", "Conn.Negotiation is not set exactly once for an authenticated handler", s.call.Pos())
				continue
			}
			negVal := negStores[0]
			hcalls := map[c05Call]bool{}
			fromHS := negVal.fr != nil
			if fromHS {
				os := c05nonNilOrigins(negVal.fr, negVal.v)
				for _, o := range os {
					if hc, ridx := c05resultOf(o.v); hc != nil && ridx == 0 && o.fr != nil && calleeFn(hc) == hs {
						hcalls[c05Call{o.fr, hc}] = true
					} else {
						fromHS = false
					}
				}
				fromHS = fromHS && len(os) > 0
			}
			if fromHS {
				ok, p := dom(c05factErrNil(func(x c05Call) bool { return hcalls[x] }))
				c.Check(ok, rule, lab+":handshake-ok", "Conn.Negotiation is the result of ServerHandshakeWithMessage and its nil-error edge dominates the handler", "handler reachable without a successful ServerHandshakeWithMessage", s.call.Pos(), c.describePath(p)...)
			} else {
				c.Violate(rule, lab+":handshake-ok", "Conn.Negotiation is not the result of ServerHandshakeWithMessage in this function", s.call.Pos())
			}
			matched := map[c05Call]bool{}
			for _, sc := range r.fr.calls(m.satisfies.Object()) {
				a := sc.call.Call.Args
				if len(a) != 4 || sc.fr.res(a[1]) != cmdVal || sc.fr.res(a[3]) != negVal {
					continue
				}
				matched[sc] = true
			}
			if len(matched) == 0 {
				c.Violate(rule, lab+":session-check", "no sessionSatisfies call on the looked-up command value and the negotiation handed to the handler", s.call.Pos())
				continue
			}
			pass := c05factErrNil(func(x c05Call) bool { return matched[x] })
			if ok, p := dom(pass); ok {
				c.Ok(rule, lab+":session-check", "dominated by sessionSatisfies(cmd, …, neg) == nil on the same cmd and neg", s.call.Pos())
			} else {
				c.Violate(rule, lab+":session-check", "handler reachable without passing sessionSatisfies == nil for this command", s.call.Pos(), c.describePath(p)...)
			}
			// every cycle through the handler call passes the checks again (keep-alive loop)
			for _, chk := range []struct {
				name string
				fact c05Fact
			}{{"session-check", pass}, {"lookup-ok", okFact}, {"class", polar}} {
				p := c05path(c05afterPt(s.fr, s.call), tg, c05newCuts(chk.fact))
				c.Check(p == nil, rule, lab+":"+chk.name+"-per-dispatch", "the check lies on every cycle through the handler call", "a follow-on command reaches the handler again without passing the "+chk.name+" edge (check is outside the keep-alive loop)", s.call.Pos(), c.describePath(p)...)
			}
		}
	}
	c.MinCount(rule, "authenticated-path handler invocations", nAuth, 1)
	c.MinCount(rule, "raw-path handler invocations", nRaw, 1)
}

// C05-R2: refusal closes the connection and runs nothing.
func c05r2(c *Ctx) {
	defer c05timer("c05r2")()
	const rule = "C05-R2"
	c.Doc(rule, "in the dispatching function (seen together with its same-package helpers), from every refusal outcome (lookup !ok, wrong handler class, sessionSatisfies != nil, handshake error, no SecurityConfig) every path to a return passes conn.Close() and no path reaches a handler invocation")
	m := c.c05build(rule)
	hs := c.needFn(rule, "security", "(*Authenticator).ServerHandshakeWithMessage")
	cfgF := c.needField(rule, "server", "Server", "SecurityConfig")
	if m == nil || hs == nil || cfgF == nil {
		return
	}
	n := 0
	kinds := map[string]int{}
	for _, r := range m.roots {
		fn := r.fr.fn
		// the connection: the net.Conn parameter
		var connP *ssa.Parameter
		for _, p := range fn.Params {
			if types.TypeString(p.Type(), nil) == "net.Conn" {
				connP = p
			}
		}
		if connP == nil {
			c.Undecided(rule, fnName(fn)+"#conn", "no net.Conn parameter", fn.Pos())
			continue
		}
		frames := r.fr.all()
		closes := c05newCuts()
		for _, f := range frames {
			allInstrs(f.fn, func(_ *ssa.BasicBlock, _ int, in ssa.Instruction) {
				if call, ok := in.(*ssa.Call); ok && call.Call.IsInvoke() && call.Call.Method.Name() == "Close" && f.res(call.Call.Value) == (c05V{connP, r.fr}) {
					closes.addInstr(f, call)
				}
			})
		}
		// which lookup calls lie on the authenticated path
		lkClass := map[c05Call]string{}
		for _, lk := range r.fr.calls(m.lookup.Object()) {
			isAuth, _ := c05dominated(c05Tg{fr: lk.fr, in: lk.call}, c05newCuts(m.authFact(r, true)))
			lkClass[lk] = "raw"
			if isAuth {
				lkClass[lk] = "auth"
			}
		}
		// kind of refusal an outcome is
		kindOf := func(t c05Test) (string, token.Pos) {
			if t.v.fr == nil {
				return "", token.NoPos
			}
			rv := t.v.fr.res(t.v.v)
			if ex, ok := rv.v.(*ssa.Extract); ok && ex.Index == 1 && !t.truth {
				if cl, ok := ex.Tuple.(*ssa.Call); ok && calleeFn(cl) == m.lookup {
					return "unknown-command[" + lkClass[c05Call{rv.fr, cl}] + "]", cl.Pos()
				}
			}
			if _, f, ok := fieldRead(stripConv(t.v.v)); ok && f == m.rawField {
				if lk, ok := m.handlerLookup(t.v.fr, t.v.v); ok {
					if cls := lkClass[lk]; (cls == "auth") == t.truth {
						return "wrong-class[" + cls + "]", lk.call.Pos()
					}
				}
			}
			if t.hasNil && !t.isNil {
				for _, x := range t.xs {
					for _, cc := range c05carriedCalls(x) {
						switch calleeFn(cc.call) {
						case m.satisfies:
							return "session-refused", cc.call.Pos()
						case hs:
							return "handshake-failed", cc.call.Pos()
						}
					}
				}
			}
			if t.hasNil && t.isNil {
				for _, x := range t.xs {
					if _, f, ok := fieldRead(stripConv(x.v)); ok && f == cfgF {
						return "no-security-config", fn.Pos()
					}
				}
			}
			return "", token.NoPos
		}
		hasConfig := func(t c05Test) bool {
			if !t.hasNil || t.isNil {
				return false
			}
			_, f, ok := fieldRead(stripConv(t.x.v))
			return ok && f == cfgF
		}
		type ref struct {
			name string
			pt   c05Pt
			pos  token.Pos
		}
		var refusals []ref
		cnt := map[string]int{}
		for _, f := range frames {
			for _, b := range f.fn.Blocks {
				done := map[string]bool{}
				for _, o := range c05staticTests(f, b) {
					kind, pos := kindOf(o.t)
					if kind == "" || done[fmt.Sprint(kind, o.succ)] {
						continue
					}
					done[fmt.Sprint(kind, o.succ)] = true
					if kind == "no-security-config" {
						// a second nil test on a value every path already found non-nil is not a refusal
						nb := b.Succs[o.succ]
						if len(nb.Instrs) > 0 {
							if inf, _ := c05dominated(c05Tg{fr: f, in: nb.Instrs[0], pred: b}, c05newCuts(hasConfig)); inf {
								continue
							}
						}
					}
					cnt[kind]++
					kinds[kind]++
					name := kind
					if cnt[kind] > 1 {
						name = fmt.Sprintf("%s/%d", kind, cnt[kind])
					}
					refusals = append(refusals, ref{name, c05edgePt(f, b, o.succ), pos})
				}
			}
		}
		for _, rf := range refusals {
			n++
			key := fnName(fn) + "#" + rf.name
			var wit []*ssa.BasicBlock
			for _, ret := range c05returns(fn) {
				cuts := &c05Cuts{edges: closes.edges, instrs: closes.instrs}
				if p := c05path(rf.pt, c05Tg{fr: r.fr, in: ret}, cuts); p != nil {
					wit = p
					break
				}
			}
			c.Check(wit == nil, rule, key+":closes", "every path from this refusal to a return passes conn.Close()", "a refusal returns without closing the connection", rf.pos, c.describePath(wit)...)
			wit = nil
			for _, s := range r.sites {
				if p := c05path(rf.pt, c05Tg{fr: s.fr, in: s.call}, nil); p != nil {
					wit = p
				}
			}
			c.Check(wit == nil, rule, key+":no-handler", "no handler is reachable after this refusal", "a handler invocation is reachable after a refusal", rf.pos, c.describePath(wit)...)
		}
	}
	// every kind of refusal the property names must have been found at least once (not today's total)
	for _, k := range []string{"unknown-command[auth]", "unknown-command[raw]", "wrong-class[auth]", "wrong-class[raw]", "session-refused", "handshake-failed", "no-security-config"} {
		c.MinCount(rule, "refusal outcomes of kind "+k, kinds[k], 1)
	}
	c.MinCount(rule, "refusal edges", n, 1)
}

func sortedFns(m map[*ssa.Function]bool) []*ssa.Function {
	var out []*ssa.Function
	for f := range m {
		out = append(out, f)
	}
	sort.Slice(out, func(i, j int) bool { return fnName(out[i]) < fnName(out[j]) })
	return out
}

// c05errTg: the target "this (possibly) successful return of the root, with its error result nil".
func c05errTg(root *c05Frame, t RetPoint) c05Tg {
	tg := c05Tg{fr: root, in: t.Ret, pred: t.Pred}
	for i := len(t.Ret.Results) - 1; i >= 0; i-- {
		if isErrorType(t.Ret.Results[i].Type()) {
			tg.ifNil = t.Ret.Results[i]
			break
		}
	}
	return tg
}

// c05fieldOf: v, seen from fr, is a read of field f of a struct that resolves to base.
func c05fieldOf(fr *c05Frame, v ssa.Value, base c05V, f *types.Var) bool {
	if fr == nil || f == nil {
		return false
	}
	b, g, ok := fieldRead(stripConv(c05resolve(v)))
	if !ok || g != f {
		r := fr.res(v)
		if r.fr == nil {
			return false
		}
		fr = r.fr
		b, g, ok = fieldRead(stripConv(r.v))
		if !ok || g != f {
			return false
		}
	}
	if h := fr.home(b); h != nil {
		fr = h
	}
	return fr.res(b) == base
}

// c05dependsOn: does v (seen from fr) depend on a value satisfying pred? Like mustDepend (phis need
// every incoming operand to depend) but a helper's parameter is followed to the caller's argument.
func c05dependsOn(fr *c05Frame, v ssa.Value, pred func(c05V) bool) bool {
	memo := map[c05V]int{}
	var walk func(f *c05Frame, v ssa.Value, d int) bool
	walk = func(f *c05Frame, v ssa.Value, d int) bool {
		if v == nil || d > 60 {
			return false
		}
		x := f.res(v)
		if x.fr == nil {
			return pred(x)
		}
		switch memo[x] {
		case 1, 3:
			return false
		case 2:
			return true
		}
		memo[x] = 1
		res := false
		if pred(x) {
			res = true
		} else if phi, ok := x.v.(*ssa.Phi); ok {
			res = true
			for _, e := range phi.Edges {
				if !walk(x.fr, e, d+1) {
					res = false
					break
				}
			}
		} else if call, idx := c05resultOf(x.v); call != nil && x.fr.kid(call) != nil {
			// result of a followed helper: every non-nil value it returns must depend
			k := x.fr.kid(call)
			n := 0
			res = true
			for _, rv := range k.retVals(idx) {
				if isNilConst(rv.val) {
					continue
				}
				n++
				if !walk(k, rv.val, d+1) {
					res = false
					break
				}
			}
			res = res && n > 0
		} else if in, ok := x.v.(ssa.Instruction); ok {
			skip := false
			if cl, isCall := x.v.(*ssa.Call); isCall {
				if b, isB := cl.Call.Value.(*ssa.Builtin); isB && (b.Name() == "len" || b.Name() == "cap") {
					skip = true
				}
			}
			if !skip {
				for _, op := range in.Operands(nil) {
					if *op != nil && walk(x.fr, *op, d+1) {
						res = true
						break
					}
				}
			}
		}
		if res {
			memo[x] = 2
		} else {
			memo[x] = 3
		}
		return res
	}
	return walk(fr, v, 0)
}

// c05fieldCallee: call (in frame fr) is a dynamic call through function-typed field f of base.
func c05fieldCallee(fr *c05Frame, call *ssa.Call, base c05V, f *types.Var) bool {
	if call.Call.IsInvoke() || call.Call.StaticCallee() != nil {
		return false
	}
	return c05fieldOf(fr, call.Call.Value, base, f)
}

// c05dynCalls lists the dynamic (non-static, non-invoke) calls in the frames below fr.
func c05dynCalls(fr *c05Frame) []c05Call {
	var out []c05Call
	for _, f := range fr.all() {
		allInstrs(f.fn, func(_ *ssa.BasicBlock, _ int, in ssa.Instruction) {
			if call, ok := in.(*ssa.Call); ok && !call.Call.IsInvoke() && call.Call.StaticCallee() == nil {
				if _, isB := call.Call.Value.(*ssa.Builtin); !isB {
					out = append(out, c05Call{f, call})
				}
			}
		})
	}
	return out
}

// c05callTrue: the outcome "result of one of the calls in set is true".
func c05callTrue(set map[c05Call]bool) c05Fact {
	return c05factBool(true, func(v c05V) bool {
		call, idx := c05resultOf(v.v)
		return call != nil && idx == 0 && set[c05Call{v.fr, call}]
	})
}

// C05-R3: composition of the per-dispatch check.
func c05r3(c *Ctx) {
	defer c05timer("c05r3")()
	const rule = "C05-R3"
	c.Doc(rule, "sessionSatisfies (seen together with its same-package helpers, e.g. authorized) succeeds only after commandLevelSatisfied(realCmd, neg.Authentication, neg.Encryption) is true and, when Authorizer != nil, after a true answer of Authorizer(level, peerAddr, neg.User) on a level from CommandPerms(realCmd); when the helper authorized exists it returns true only after such an answer; commandLevelSatisfied equals the table the property implies on all 256 rows per configuration shape (constant propagation over its SSA)")
	sat := c.needFn(rule, "server", "(*Server).sessionSatisfies")
	cls := c.needFn(rule, "server", "(*Server).commandLevelSatisfied")
	perms := c.needFn(rule, "server", "(*Server).CommandPerms")
	fAuthz := c.needField(rule, "server", "Server", "Authorizer")
	nAuth := c.needField(rule, "security", "SecurityNegotiation", "Authentication")
	nEnc := c.needField(rule, "security", "SecurityNegotiation", "Encryption")
	nUser := c.needField(rule, "security", "SecurityNegotiation", "User")
	if sat == nil || cls == nil || perms == nil || fAuthz == nil || nAuth == nil || nEnc == nil || nUser == nil {
		return
	}
	if len(sat.Params) != 4 {
		c.Undecided(rule, fnName(sat)+"#signature", "unexpected parameter list", sat.Pos())
		return
	}
	root := c.c05rootFrame(sat, cls, perms)
	rv := func(p *ssa.Parameter) c05V { return c05V{p, root} }
	recv, cmdP, peerP, negP := rv(sat.Params[0]), rv(sat.Params[1]), rv(sat.Params[2]), rv(sat.Params[3])
	// (1) level check
	goodLevel := map[c05Call]bool{}
	nl := 0
	for _, cs := range root.calls(cls.Object()) {
		a := cs.call.Call.Args
		good := len(a) == 4 && cs.fr.res(a[0]) == recv && cs.fr.res(a[1]) == cmdP && c05fieldOf(cs.fr, a[2], negP, nAuth) && c05fieldOf(cs.fr, a[3], negP, nEnc)
		nl++
		c.Check(good, rule, fnName(sat)+"#commandLevelSatisfied-args", "called with (realCmd, neg.Authentication, neg.Encryption) of the session being checked", "commandLevelSatisfied is not called with realCmd and the negotiation's own Authentication/Encryption flags (a constant or another value is passed)", cs.call.Pos())
		if good {
			goodLevel[cs] = true
		}
	}
	c.MinCount(rule, "commandLevelSatisfied calls in sessionSatisfies", nl, 1)
	for _, t := range c.successTargets(sat) {
		p := c05path(c05entryPt(root), c05errTg(root, t), c05newCuts(c05callTrue(goodLevel)))
		key := fmt.Sprintf("%s#return%d", fnName(sat), retOrdinal(sat, t.Ret))
		c.Check(p == nil, rule, key, "every path to this return passes the true edge of commandLevelSatisfied(realCmd, neg.Authentication, neg.Encryption)", "a path reaches this return without passing the true edge of commandLevelSatisfied(realCmd, neg.Authentication, neg.Encryption)", t.Ret.Pos(), c.describePath(p)...)
	}
	// (2) authorisation: Authorizer == nil, or a true Authorizer answer for (a level of the command, peer, user)
	authzNil := func(t c05Test) bool {
		if !t.hasNil || !t.isNil {
			return false
		}
		return c05fieldOf(t.x.fr, t.x.v, recv, fAuthz)
	}
	isPermsOf := func(cmd c05V) func(c05V) bool {
		return func(v c05V) bool {
			cl, ok := v.v.(*ssa.Call)
			return ok && v.fr != nil && calleeFn(cl) == perms && len(cl.Call.Args) == 2 && v.fr.res(cl.Call.Args[1]) == cmd
		}
	}
	yes := map[c05Call]bool{}
	na := 0
	for _, dc := range c05dynCalls(root) {
		if !c05fieldCallee(dc.fr, dc.call, recv, fAuthz) {
			continue
		}
		na++
		a := dc.call.Call.Args
		good := len(a) == 3 && c05dependsOn(dc.fr, a[0], isPermsOf(cmdP)) && dc.fr.res(a[1]) == peerP && c05fieldOf(dc.fr, a[2], negP, nUser)
		c.Check(good, rule, fnName(sat)+"#Authorizer-args", "Authorizer is asked about a level of CommandPerms(realCmd), the peer address and the session's identity", "the Authorizer is not asked about (a level registered for the dispatched command, the peer address, the session's identity neg.User)", dc.call.Pos())
		if good {
			yes[dc] = true
		}
	}
	c.MinCount(rule, "Authorizer calls reachable from sessionSatisfies", na, 1)
	for _, t := range c.successTargets(sat) {
		p := c05path(c05entryPt(root), c05errTg(root, t), c05newCuts(authzNil, c05callTrue(yes)))
		c.Check(p == nil, rule, fmt.Sprintf("%s#return%d:authorizer", fnName(sat), retOrdinal(sat, t.Ret)), "every path to this success return passes Authorizer == nil or a true Authorizer answer", "sessionSatisfies can succeed with an Authorizer configured and without a true Authorizer answer for this command and identity", t.Ret.Pos(), c.describePath(p)...)
	}
	// (3) the helper authorized, when there is one: true only after a true Authorizer call on one of the command's levels
	if auz := c.LookupFn("server", "(*Server).authorized"); auz != nil && auz.Blocks != nil {
		if len(auz.Params) == 4 {
			ar := c.c05rootFrame(auz, cls, perms)
			av := func(p *ssa.Parameter) c05V { return c05V{p, ar} }
			ayes := map[c05Call]bool{}
			ncall := 0
			for _, dc := range c05dynCalls(ar) {
				if !c05fieldCallee(dc.fr, dc.call, av(auz.Params[0]), fAuthz) {
					continue
				}
				ncall++
				a := dc.call.Call.Args
				good := len(a) == 3 && c05dependsOn(dc.fr, a[0], isPermsOf(av(auz.Params[1]))) && dc.fr.res(a[1]) == av(auz.Params[2]) && dc.fr.res(a[2]) == av(auz.Params[3])
				c.Check(good, rule, fnName(auz)+"#Authorizer-args", "Authorizer is asked about a level of CommandPerms(realCmd), the peer address and the user", "Authorizer is not called with (a level registered for realCmd, peerAddr, user)", dc.call.Pos())
				if good {
					ayes[dc] = true
				}
			}
			c.MinCount(rule, "Authorizer calls in authorized", ncall, 1)
			for _, r := range ar.retVals(0) {
				if b, isC := constBool(r.val); isC && !b {
					continue
				}
				p := c05path(c05entryPt(ar), c05Tg{fr: ar, in: r.ret, pred: r.pred, ifTrue: r.val}, c05newCuts(c05callTrue(ayes)))
				c.Check(p == nil, rule, fmt.Sprintf("%s#return%d", fnName(auz), retOrdinal(auz, r.ret)), "true is returned only after a true Authorizer answer", "authorized can return true without a true Authorizer answer", r.ret.Pos(), c.describePath(p)...)
			}
		} else {
			c.Undecided(rule, fnName(auz)+"#signature", "unexpected parameter list", auz.Pos())
		}
	}
	// (4) the table of commandLevelSatisfied
	c.c05table(rule, cls)
}

// c05table evaluates commandLevelSatisfied on every row of (authenticated, encrypted) x
// (Authentication, Encryption, Integrity levels) for three configuration shapes and compares with
// the oracle written from the property statement: refuse iff Authentication=REQUIRED and not
// authenticated, or (Encryption=REQUIRED or Integrity=REQUIRED) and not encrypted.
func (c *Ctx) c05table(rule string, cls *ssa.Function) {
	fCfg := c.needField(rule, "server", "Server", "SecurityConfig")
	fSel := c.needField(rule, "server", "Server", "SecurityConfigForCommand")
	fA := c.needField(rule, "security", "SecurityConfig", "Authentication")
	fE := c.needField(rule, "security", "SecurityConfig", "Encryption")
	fI := c.needField(rule, "security", "SecurityConfig", "Integrity")
	req := c.needObj(rule, "security", "SecurityRequired")
	if fCfg == nil || fSel == nil || fA == nil || fE == nil || fI == nil || req == nil {
		return
	}
	// the level domain: every package-level constant of type security.SecurityLevel
	var levels []string
	required := ""
	sp := c.PkgTypes("security")
	for _, n := range sp.Scope().Names() {
		k, ok := sp.Scope().Lookup(n).(*types.Const)
		if !ok || !types.Identical(k.Type(), req.Type()) {
			continue
		}
		s, _ := constString(ssa.NewConst(k.Val(), k.Type()))
		levels = append(levels, s)
		if k == req {
			required = s
		}
	}
	sort.Strings(levels)
	if len(levels) != 4 || required == "" {
		c.Undecided(rule, fnName(cls)+"#table:levels", fmt.Sprintf("expected 4 SecurityLevel constants, found %d", len(levels)), cls.Pos())
		return
	}
	if len(cls.Params) != 4 {
		c.Undecided(rule, fnName(cls)+"#table:signature", "unexpected parameter list", cls.Pos())
		return
	}
	oracle := func(a, e, i string, authd, encd bool) bool {
		if a == required && !authd {
			return false
		}
		if (e == required || i == required) && !encd {
			return false
		}
		return true
	}
	mkCfg := func(name, a, e, i string) *c05Obj {
		o := c05newObj(name)
		o.fields[fA], o.fields[fE], o.fields[fI] = c05str(a), c05str(e), c05str(i)
		return o
	}
	never := ""
	for _, l := range levels {
		if l != required && strings.HasPrefix(l, "N") {
			never = l
		}
	}
	if never == "" {
		never = levels[0]
		if never == required {
			never = levels[1]
		}
	}
	for _, shape := range []string{"default-config", "per-command-config", "selector-returns-nil"} {
		rows, bad, undec := 0, 0, ""
		var firstBad []string
		for _, a := range levels {
			for _, e := range levels {
				for _, i := range levels {
					for _, authd := range []bool{false, true} {
						for _, encd := range []bool{false, true} {
							want := oracle(a, e, i, authd, encd)
							srv := c05newObj("server")
							row := mkCfg("row", a, e, i)
							// a decoy with the opposite verdict wherever one exists
							decoy := mkCfg("decoy", never, never, never)
							if want {
								decoy = mkCfg("decoy", required, required, required)
							}
							switch shape {
							case "default-config":
								srv.fields[fCfg] = c05ptr(row)
								srv.fields[fSel] = c05nil
							case "per-command-config":
								srv.fields[fCfg] = c05ptr(decoy)
								srv.fields[fSel] = c05fnRet(c05ptr(row))
							case "selector-returns-nil":
								srv.fields[fCfg] = c05ptr(row)
								srv.fields[fSel] = c05fnRet(c05nil)
							}
							ip := &c05interp{}
							got, err := ip.eval(cls, []c05Val{c05ptr(srv), {}, c05bool(authd), c05bool(encd)}, 0)
							rows++
							if err != "" || got.kind != c05kBool {
								if err == "" {
									err = "result not decided by the inputs"
								}
								undec = err
								continue
							}
							if got.b != want {
								bad++
								if len(firstBad) < 4 {
									firstBad = append(firstBad, fmt.Sprintf("Authentication=%s Encryption=%s Integrity=%s authenticated=%t encrypted=%t: got %t, property implies %t", a, e, i, authd, encd, got.b, want))
								}
							}
						}
					}
				}
			}
		}
		key := fnName(cls) + "#table:" + shape
		switch {
		case undec != "":
			c.Undecided(rule, key, "table extraction failed: "+undec, cls.Pos())
		case bad > 0:
			c.Violate(rule, key, fmt.Sprintf("%d of %d rows differ from the table the property implies", bad, rows), cls.Pos(), firstBad...)
		default:
			c.Ok(rule, key, fmt.Sprintf("all %d rows equal the table the property implies", rows), cls.Pos())
		}
		c.MinCount(rule, "table rows ("+shape+")", rows, 256)
	}
	c.Note("%s: a server without any SecurityConfig (req == nil) is outside the table: ServeConn refuses DC_AUTHENTICATE before dispatch in that configuration (C05-R2 handshake path)", rule)
}

// C05-R4: the advertisement uses the same checks.
func c05r4(c *Ctx) {
	defer c05timer("c05r4")()
	const rule = "C05-R4"
	c.Doc(rule, "postAuthPolicy (seen together with its same-package helpers) appends a command to the advertised set only on paths that passed !h.raw, a true commandLevelSatisfied(cmd, authenticated, encrypted) on that same command with the function's own flags, and a true Authorizer answer for the peer address (same callees as the dispatch check)")
	pap := c.needFn(rule, "server", "(*Server).postAuthPolicy")
	cls := c.needFn(rule, "server", "(*Server).commandLevelSatisfied")
	fAuthz := c.needField(rule, "server", "Server", "Authorizer")
	rawF := c.needField(rule, "server", "registeredHandler", "raw")
	if pap == nil || cls == nil || fAuthz == nil || rawF == nil {
		return
	}
	if len(pap.Params) != 5 {
		c.Undecided(rule, fnName(pap)+"#signature", "unexpected parameter list", pap.Pos())
		return
	}
	root := c.c05rootFrame(pap, cls)
	pv := func(i int) c05V { return c05V{pap.Params[i], root} }
	n := 0
	for _, fr := range root.all() {
		allInstrs(fr.fn, func(_ *ssa.BasicBlock, _ int, in ssa.Instruction) {
			call, ok := in.(*ssa.Call)
			if !ok {
				return
			}
			bi, ok := call.Call.Value.(*ssa.Builtin)
			if !ok || bi.Name() != "append" || len(call.Call.Args) != 2 {
				return
			}
			sl, ok := call.Type().Underlying().(*types.Slice)
			if !ok || !types.Identical(sl.Elem(), types.Typ[types.Int]) {
				return
			}
			n++
			key := fmt.Sprintf("%s#advertise", fnName(pap))
			if n > 1 {
				key = fmt.Sprintf("%s/%d", key, n)
			}
			// the appended element(s)
			var elems []ssa.Value
			if al, ok := memRoot(call.Call.Args[1]).(*ssa.Alloc); ok {
				for _, r := range *al.Referrers() {
					if ia, ok := r.(*ssa.IndexAddr); ok {
						for _, u := range *ia.Referrers() {
							if st, ok := u.(*ssa.Store); ok && st.Addr == ia {
								elems = append(elems, st.Val)
							}
						}
					}
				}
			}
			if len(elems) != 1 {
				c.Undecided(rule, key, "cannot identify the advertised command value", call.Pos())
				return
			}
			cmd := fr.res(elems[0])
			levelOK, authzOK := map[c05Call]bool{}, map[c05Call]bool{}
			for _, cs := range root.calls(cls.Object()) {
				a := cs.call.Call.Args
				if len(a) == 4 && cs.fr.res(a[1]) == cmd && cs.fr.res(a[2]) == pv(3) && cs.fr.res(a[3]) == pv(4) {
					levelOK[cs] = true
				}
			}
			for _, dc := range c05dynCalls(root) {
				if _, f, isRead := fieldRead(stripConv(c05resolve(dc.call.Call.Value))); isRead && f == fAuthz && len(dc.call.Call.Args) == 3 && dc.fr.res(dc.call.Call.Args[1]) == pv(2) {
					authzOK[dc] = true
				}
			}
			notRaw := func(t c05Test) bool {
				_, f, ok := fieldRead(stripConv(t.v.v))
				return ok && f == rawF && !t.truth
			}
			tg := c05Tg{fr: fr, in: call}
			ok1, p1 := c05dominated(tg, c05newCuts(c05callTrue(levelOK)))
			c.Check(ok1, rule, key+":level", "advertised only after commandLevelSatisfied(cmd, authenticated, encrypted) is true for that command", "a command is advertised without a true commandLevelSatisfied on it with the session's own flags", call.Pos(), c.describePath(p1)...)
			ok2, p2 := c05dominated(tg, c05newCuts(c05callTrue(authzOK)))
			c.Check(ok2, rule, key+":authorizer", "advertised only after a true Authorizer answer", "a command is advertised without a true Authorizer answer", call.Pos(), c.describePath(p2)...)
			ok3, p3 := c05dominated(tg, c05newCuts(notRaw))
			c.Check(ok3, rule, key+":not-raw", "raw handlers are skipped", "a raw handler's command can be advertised as a session command", call.Pos(), c.describePath(p3)...)
		})
	}
	c.MinCount(rule, "append sites building the advertised set", n, 1)
}

// c05ownedCopy: v (seen from fr) is, on every alternative, the address of a struct variable local to
// the function that is running (fr's function or a helper it calls, so a fresh variable per call) —
// initialised by copying a struct value (c := *shared) or by a composite literal.
func c05ownedCopy(fr *c05Frame, v ssa.Value) (bool, string) {
	os := c05nonNilOrigins(fr, v) // nil is nobody's shared object
	if len(os) == 0 {
		return false, "unknown value"
	}
	for _, o := range os {
		al, ok := o.v.(*ssa.Alloc)
		if !ok {
			if _, isLoad := o.v.(*ssa.UnOp); isLoad {
				return false, "a pointer loaded from shared state is passed on (no copy)"
			}
			if _, isPar := o.v.(*ssa.Parameter); isPar {
				return false, "the caller's pointer is passed on (no copy)"
			}
			if _, isFV := o.v.(*ssa.FreeVar); isFV {
				return false, "variable of an enclosing function"
			}
			return false, fmt.Sprintf("not the address of a local variable (%T)", o.v)
		}
		if o.fr == nil || al.Parent() != o.fr.fn {
			return false, "variable of an enclosing function"
		}
		inTree := false
		for f := o.fr; f != nil; f = f.parent {
			if f == fr {
				inTree = true
			}
		}
		if !inTree {
			return false, "variable of an enclosing function"
		}
		if _, isStruct := al.Type().Underlying().(*types.Pointer).Elem().Underlying().(*types.Struct); !isStruct {
			return false, "not a struct variable"
		}
	}
	return true, ""
}

// C05-R5: per-connection configuration.
func c05r5(c *Ctx) {
	defer c05timer("c05r5")()
	const rule = "C05-R5"
	c.Doc(rule, "the SecurityConfig handed to NewAuthenticator by the server is the address of a copy local to the function serving the connection or to a helper it calls (a handshake never mutates the server's shared policy object)")
	na := c.needFn(rule, "security", "NewAuthenticator")
	sc := c.needFn(rule, "server", "(*Server).ServeConn")
	if na == nil || sc == nil {
		return
	}
	n := 0
	for _, fn := range c.FnsOfPkg("server") {
		for _, cs := range callsIn(fn, na.Object()) {
			n++
			ok, why := c.c05ownedAtCall(fn, cs.Common().Args[0], 0)
			c.Check(ok, rule, fnName(topFn(fn))+"#NewAuthenticator-config", "address of a per-connection copy", "server passes a shared SecurityConfig to NewAuthenticator: "+why, cs.Pos())
		}
	}
	c.MinCount(rule, "NewAuthenticator call sites in package server", n, 1)
}

// c05ownedAtCall: the value v used in fn is an owned copy (c05ownedCopy); when it is a parameter of an
// unexported function, every caller must pass an owned copy (the call was extracted into a helper).
func (c *Ctx) c05ownedAtCall(fn *ssa.Function, v ssa.Value, depth int) (bool, string) {
	fr := c.c05rootFrame(fn)
	ok, why := c05ownedCopy(fr, v)
	if ok {
		return true, ""
	}
	par, isPar := fr.res(v).v.(*ssa.Parameter)
	if !isPar || par.Parent() != fn || depth >= c05MaxDepth || fn.Object() == nil || token.IsExported(fn.Name()) || len(c.c05funcValueUses(fn)) > 0 {
		return false, why
	}
	idx := c05paramIndex(fn, par)
	sites := c.callSites(fn.Object())
	if len(sites) == 0 || idx < 0 {
		return false, why
	}
	for _, cs := range sites {
		args := cs.Call.Common().Args
		if idx >= len(args) {
			return false, "call shape"
		}
		if ok, w := c.c05ownedAtCall(cs.Fn, args[idx], depth+1); !ok {
			return false, w + " (in " + fnName(cs.Fn) + ", which calls " + fnName(fn) + ")"
		}
	}
	return true, ""
}

// C05-R6: imported obligations (not decided here).
func c05r6(c *Ctx) {
	defer c05timer("c05r6")()
	c.Note("C05-R6: whether neg.Authentication / neg.Encryption (the flags sessionSatisfies reads) equal what the handshake really established is decided under C03 (R3, R5) and C06 (R4), not here; C05 decides the dispatch skeleton only")
}
