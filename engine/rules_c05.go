package main

// C05 — the server runs a command only on a session that meets that command's policy.
// Decided clause (DESIGN.md section 5): the dispatch skeleton of server.ServeConn. Helpers shared
// with C17/C20 live in help_c05.go.

import (
	"fmt"
	"go/token"
	"go/types"
	"sort"
	"strings"

	"golang.org/x/tools/go/ssa"
)

func init() { register("C05", c05r1, c05r2, c05r3, c05r4, c05r5, c05r6) }

// c05Site is one place where a registered handler function is (or will be) invoked: a dynamic call
// through registeredHandler.fn, or a call of a wrapper that invokes the fn of its handler parameter.
type c05Site struct {
	fn      *ssa.Function
	call    ssa.CallInstruction
	cell    ssa.Value // the handler variable (struct cell) whose fn is invoked
	connArg ssa.Value // the *Conn handed to the handler
	via     string    // "" or the wrapper's name
}

type c05Model struct {
	fnField, rawField *types.Var
	lookup, satisfies *ssa.Function
	direct            []c05Site // dynamic calls through .fn
	sites             []c05Site // sites in dispatching functions (wrappers expanded to their callers)
	wrappers          []*ssa.Function
	problems          []string
}

var c05models = map[*Prog]*c05Model{}

// c05build enumerates handler invocations in the module (memoised per loaded program).
func (c *Ctx) c05build(rule string) *c05Model {
	if m, ok := c05models[c.Prog]; ok {
		return m
	}
	m := c.c05build1(rule)
	if m != nil {
		c05models[c.Prog] = m
	}
	return m
}

func (c *Ctx) c05build1(rule string) *c05Model {
	m := &c05Model{}
	m.fnField = c.needField(rule, "server", "registeredHandler", "fn")
	m.rawField = c.needField(rule, "server", "registeredHandler", "raw")
	m.lookup = c.needFn(rule, "server", "(*Server).lookup")
	m.satisfies = c.needFn(rule, "server", "(*Server).sessionSatisfies")
	if m.fnField == nil || m.rawField == nil || m.lookup == nil || m.satisfies == nil {
		return nil
	}
	connT := c.LookupObj("server", "Conn")
	isConnPtr := func(t types.Type) bool {
		p, ok := t.Underlying().(*types.Pointer)
		if !ok || connT == nil {
			return false
		}
		return types.Identical(p.Elem(), connT.Type())
	}
	pickConn := func(call ssa.CallInstruction) ssa.Value {
		for _, a := range call.Common().Args {
			if isConnPtr(a.Type()) {
				return a
			}
		}
		return nil
	}
	// every read of the fn field must be used only as the callee of a call
	for _, fn := range c.ModFns {
		allInstrs(fn, func(_ *ssa.BasicBlock, _ int, in ssa.Instruction) {
			v, ok := in.(ssa.Value)
			if !ok {
				return
			}
			_, f, isRead := fieldRead(v)
			if !isRead || f != m.fnField {
				return
			}
			for _, r := range *v.Referrers() {
				if _, dbg := r.(*ssa.DebugRef); dbg {
					continue
				}
				call, isCall := r.(ssa.CallInstruction)
				if isCall && call.Common().Value == v && !call.Common().IsInvoke() {
					m.direct = append(m.direct, c05Site{fn: fn, call: call, cell: c05cellRoot(v), connArg: pickConn(call)})
					continue
				}
				m.problems = append(m.problems, fmt.Sprintf("%s: the handler function value is used other than as a callee (%s)", fnName(fn), c.Pos(r.Pos())))
			}
		})
	}
	// expand wrappers: a function that invokes the fn of its own handler parameter
	var expand func(s c05Site, depth int)
	expand = func(s c05Site, depth int) {
		var param *ssa.Parameter
		if cell, ok := s.cell.(*ssa.Alloc); ok {
			if st := c05cellStores(cell); len(st) == 1 {
				param, _ = st[0].Val.(*ssa.Parameter)
			}
		} else if p, ok := s.cell.(*ssa.Parameter); ok {
			param = p
		}
		if param == nil {
			m.sites = append(m.sites, s)
			return
		}
		if depth > 3 {
			m.problems = append(m.problems, "wrapper chain too deep at "+fnName(s.fn))
			return
		}
		idx, cidx := -1, -1
		for i, p := range s.fn.Params {
			if p == param {
				idx = i
			}
			if s.connArg != nil && p == s.connArg {
				cidx = i
			}
		}
		m.wrappers = append(m.wrappers, s.fn)
		if uses := c.c05funcValueUses(s.fn); len(uses) > 0 {
			m.problems = append(m.problems, fmt.Sprintf("%s invokes a handler and is used as a function value at %s: its callers cannot be enumerated", fnName(s.fn), c.Pos(uses[0].Pos())))
		}
		if s.fn.Object() == nil {
			m.problems = append(m.problems, "anonymous function "+fnName(s.fn)+" invokes the handler of its parameter")
			return
		}
		for _, cs := range c.callSites(s.fn.Object()) {
			args := cs.Call.Common().Args
			if idx >= len(args) {
				continue
			}
			ns := c05Site{fn: cs.Fn, call: cs.Call, cell: c05cellRoot(args[idx]), via: fnName(s.fn)}
			if cidx >= 0 && cidx < len(args) {
				ns.connArg = args[cidx]
			} else {
				ns.connArg = pickConn(cs.Call)
			}
			expand(ns, depth+1)
		}
	}
	for _, s := range m.direct {
		expand(s, 0)
	}
	return m
}

// c05dispatch gathers, for one dispatching function, the decision points the rules refer to.
type c05Dispatch struct {
	fn               *ssa.Function
	first            ssa.Value // the command value compared with DC_AUTHENTICATE
	authEdge, rawEdg Edge
	ok               bool
	why              string
}

func (c *Ctx) c05dispatchOf(rule string, fn *ssa.Function) c05Dispatch {
	d := c05Dispatch{fn: fn}
	dca := c.needObj(rule, "commands", "DC_AUTHENTICATE")
	cst, _ := dca.(*types.Const)
	if cst == nil {
		d.why = "DC_AUTHENTICATE is not a constant"
		return d
	}
	want, _ := constInt(ssa.NewConst(cst.Val(), cst.Type()))
	n := 0
	for _, b := range fn.Blocks {
		a, eq, ne, ok := c05eqEdges(b)
		if !ok {
			continue
		}
		var other ssa.Value
		if v, isC := constInt(a.Y); isC && v == want {
			other = a.X
		} else if v, isC := constInt(a.X); isC && v == want {
			other = a.Y
		} else {
			continue
		}
		if _, isConst := other.(*ssa.Const); isConst {
			continue
		}
		n++
		d.first, d.authEdge, d.rawEdg = other, eq, ne
	}
	if n != 1 {
		d.why = fmt.Sprintf("%d tests against DC_AUTHENTICATE found in %s (expected exactly one)", n, fnName(fn))
		return d
	}
	d.ok = true
	return d
}

// rawEdges: edges on which <cell>.raw is true (on) / false (off).
func (m *c05Model) rawEdges(fn *ssa.Function, cell ssa.Value) (on, off []Edge) {
	for _, b := range fn.Blocks {
		ifi := blockIf(b)
		if ifi == nil {
			continue
		}
		a := condAtom(ifi.Cond)
		if a.Op != token.ILLEGAL {
			continue
		}
		_, f, ok := fieldRead(stripConv(a.X))
		if !ok || f != m.rawField || c05cellRoot(a.X) != cell {
			continue
		}
		t, fl := Edge{b, 0}, Edge{b, 1}
		if a.Neg {
			t, fl = fl, t
		}
		on = append(on, t)
		off = append(off, fl)
	}
	return
}

// lookupOf: the (*Server).lookup call whose first result is the only value stored in the handler cell.
func (m *c05Model) lookupOf(cell ssa.Value) *ssa.Call {
	ex, ok := cell.(*ssa.Extract) // handler used as a plain value (never field-addressed)
	if !ok {
		al, isAl := cell.(*ssa.Alloc)
		if !isAl {
			return nil
		}
		st := c05cellStores(al)
		if len(st) != 1 || c05cellEscapes(al) {
			return nil
		}
		ex, ok = st[0].Val.(*ssa.Extract)
	}
	if !ok || ex.Index != 0 {
		return nil
	}
	call, ok := ex.Tuple.(*ssa.Call)
	if !ok || calleeFn(call) != m.lookup {
		return nil
	}
	return call
}

func c05siteLabel(s c05Site, class string, ord int) string {
	l := fnName(s.fn) + "#handler-call[" + class + "]"
	if ord > 0 {
		l += fmt.Sprintf("/%d", ord+1)
	}
	return l
}

// C05-R1: guard before every handler call.
func c05r1(c *Ctx) {
	defer c05timer("c05r1")()
	const rule = "C05-R1"
	c.Doc(rule, "every invocation of a registered handler (dynamic call through registeredHandler.fn, wrappers expanded to their callers) is dominated by: lookup ok, the h.raw test of the same handler variable with the polarity of its path (!raw after DC_AUTHENTICATE, raw otherwise), and on the authenticated path a nil-error ServerHandshakeWithMessage and a nil result of sessionSatisfies on the same command value that was looked up and stored in Conn.Command with the negotiation stored in Conn.Negotiation; the lookup/class/session checks lie on every cycle through the call (keep-alive loop)")
	m := c.c05build(rule)
	if m == nil {
		return
	}
	for _, p := range m.problems {
		c.Undecided(rule, "handler-value-flow", p, token.NoPos)
	}
	hs := c.needFn(rule, "security", "(*Authenticator).ServerHandshakeWithMessage")
	cmdF := c.needField(rule, "server", "Conn", "Command")
	negF := c.needField(rule, "server", "Conn", "Negotiation")
	if hs == nil || cmdF == nil || negF == nil {
		return
	}
	c.MinCount(rule, "dynamic calls through registeredHandler.fn", len(m.direct), 2)
	ords := map[string]int{}
	nAuth, nRaw := 0, 0
	for _, s := range m.sites {
		d := c.c05dispatchOf(rule, s.fn)
		if !d.ok {
			c.Undecided(rule, c05siteLabel(s, "unclassified", ords[fnName(s.fn)]), "handler invoked in a function without a recognisable DC_AUTHENTICATE dispatch: "+d.why, s.call.Pos())
			ords[fnName(s.fn)]++
			continue
		}
		isAuth, _ := c05passesOneOf(s.fn, []Edge{d.authEdge}, s.call)
		isRaw, _ := c05passesOneOf(s.fn, []Edge{d.rawEdg}, s.call)
		class := "unclassified"
		switch {
		case isAuth && !isRaw:
			class = "auth"
			nAuth++
		case isRaw && !isAuth:
			class = "raw"
			nRaw++
		}
		key := fnName(s.fn) + "/" + class
		lab := c05siteLabel(s, class, ords[key])
		ords[key]++
		if class == "unclassified" {
			c.Violate(rule, lab, "handler invocation is reachable both with and without a leading DC_AUTHENTICATE: neither class check can hold", s.call.Pos())
			continue
		}
		lk := m.lookupOf(s.cell)
		if lk == nil {
			c.Undecided(rule, lab+":lookup", "the invoked handler variable is not the (single) result of (*Server).lookup", s.call.Pos())
			continue
		}
		cmdVal := lk.Call.Args[1]
		okV := extractN(lk, 1)
		var okTrue []Edge
		if okV != nil {
			okTrue, _ = boolEdges(s.fn, okV)
		}
		on, off := m.rawEdges(s.fn, s.cell)
		polar, polName := off, "!raw"
		if class == "raw" {
			polar, polName = on, "raw"
		}
		if ok, p := c05passesOneOf(s.fn, okTrue, s.call); ok {
			c.Ok(rule, lab+":lookup-ok", "dominated by the ok edge of lookup", s.call.Pos())
		} else {
			c.Violate(rule, lab+":lookup-ok", "handler invoked without passing the ok edge of the lookup that produced it", s.call.Pos(), c.describePath(p)...)
		}
		if ok, p := c05passesOneOf(s.fn, polar, s.call); ok {
			c.Ok(rule, lab+":class", "dominated by the "+polName+" edge of the same handler variable", s.call.Pos())
		} else {
			c.Violate(rule, lab+":class", "handler invoked without passing the "+polName+" edge of the handler that is invoked (raw handlers must be unreachable on the authenticated path and vice versa)", s.call.Pos(), c.describePath(p)...)
		}
		// Conn.Command carries the command that was looked up
		var connCell ssa.Value
		if s.connArg != nil {
			connCell = c05cellRoot(s.connArg)
		}
		if al, isAl := connCell.(*ssa.Alloc); !isAl || s.connArg != ssa.Value(al) {
			c.Undecided(rule, lab+":conn", "the *Conn handed to the handler is not a fresh composite literal", s.call.Pos())
			continue
		}
		cmdStores := c05fieldStores(connCell, cmdF)
		c.Check(len(cmdStores) == 1 && cmdStores[0] == cmdVal, rule, lab+":conn-command", "Conn.Command is the command value that was looked up", "Conn.Command is not the command value passed to lookup", s.call.Pos())
		if class == "raw" {
			c.Check(cmdVal == d.first, rule, lab+":command", "the raw lookup uses the command integer that was read first", "the raw-path lookup does not use the command integer compared with DC_AUTHENTICATE", lk.Pos())
			c.Check(len(c05fieldStores(connCell, negF)) == 0, rule, lab+":conn-negotiation", "raw handlers get no negotiation", "a raw-path Conn carries a Negotiation", s.call.Pos())
			continue
		}
		// authenticated path: handshake, session check
		negStores := c05fieldStores(connCell, negF)
		if len(negStores) != 1 {
			c.Violate(rule, lab+":conn-negotiation", "Conn.Negotiation is not set exactly once for an authenticated handler", s.call.Pos())
			continue
		}
		negVal := negStores[0]
		hcall, ridx := originCall(negVal)
		if hc, isCall := hcall.(*ssa.Call); isCall && ridx == 0 && calleeFn(hc) == hs {
			succ, _, _ := callErrEdges(s.fn, hc)
			ok, p := c05passesOneOf(s.fn, succ, s.call)
			c.Check(ok, rule, lab+":handshake-ok", "Conn.Negotiation is the result of ServerHandshakeWithMessage and its nil-error edge dominates the handler", "handler reachable without a successful ServerHandshakeWithMessage", s.call.Pos(), c.describePath(p)...)
		} else {
			c.Violate(rule, lab+":handshake-ok", "Conn.Negotiation is not the result of ServerHandshakeWithMessage in this function", s.call.Pos())
		}
		var pass []Edge
		matched := 0
		for _, sc := range callsIn(s.fn, m.satisfies.Object()) {
			a := sc.Common().Args
			if len(a) != 4 || a[1] != cmdVal || a[3] != negVal {
				continue
			}
			matched++
			succ, _, _ := callErrEdges(s.fn, sc.Value())
			pass = append(pass, succ...)
		}
		if matched == 0 {
			c.Violate(rule, lab+":session-check", "no sessionSatisfies call on the looked-up command value and the negotiation handed to the handler", s.call.Pos())
			continue
		}
		if ok, p := c05passesOneOf(s.fn, pass, s.call); ok {
			c.Ok(rule, lab+":session-check", "dominated by sessionSatisfies(cmd, …, neg) == nil on the same cmd and neg", s.call.Pos())
		} else {
			c.Violate(rule, lab+":session-check", "handler reachable without passing sessionSatisfies == nil for this command", s.call.Pos(), c.describePath(p)...)
		}
		// every cycle through the handler call passes the checks again (keep-alive loop)
		for _, chk := range []struct {
			name  string
			edges []Edge
		}{{"session-check", pass}, {"lookup-ok", okTrue}, {"class", polar}} {
			cuts := newCuts().AddEdges(chk.edges...)
			p := findPath(after(s.call), Target{Instr: s.call}, cuts)
			c.Check(p == nil, rule, lab+":"+chk.name+"-per-dispatch", "the check lies on every cycle through the handler call", "a follow-on command reaches the handler again without passing the "+chk.name+" edge (check is outside the keep-alive loop)", s.call.Pos(), c.describePath(p)...)
		}
	}
	c.MinCount(rule, "authenticated-path handler invocations", nAuth, 1)
	c.MinCount(rule, "raw-path handler invocations", nRaw, 1)
}

// C05-R2: refusal closes the connection and runs nothing.
func c05r2(c *Ctx) {
	defer c05timer("c05r2")()
	const rule = "C05-R2"
	c.Doc(rule, "in the dispatching function, from every refusal edge (lookup !ok, wrong handler class, sessionSatisfies != nil, handshake error) every path to a return passes conn.Close() and no path reaches a handler invocation")
	m := c.c05build(rule)
	hs := c.needFn(rule, "security", "(*Authenticator).ServerHandshakeWithMessage")
	if m == nil || hs == nil {
		return
	}
	fns := map[*ssa.Function]bool{}
	for _, s := range m.sites {
		fns[s.fn] = true
	}
	n := 0
	for _, fn := range sortedFns(fns) {
		d := c.c05dispatchOf(rule, fn)
		if !d.ok {
			c.Undecided(rule, fnName(fn)+"#dispatch", d.why, fn.Pos())
			continue
		}
		// the connection: the net.Conn parameter
		var connP *ssa.Parameter
		for _, p := range fn.Params {
			if types.TypeString(p.Type(), nil) == "net.Conn" {
				connP = p
			}
		}
		if connP == nil {
			c.Undecided(rule, fnName(fn)+"#conn", "no net.Conn parameter", fn.Pos())
			continue
		}
		var closes []ssa.Instruction
		allInstrs(fn, func(_ *ssa.BasicBlock, _ int, in ssa.Instruction) {
			if call, ok := in.(*ssa.Call); ok && call.Call.IsInvoke() && call.Call.Method.Name() == "Close" && c05resolve(call.Call.Value) == ssa.Value(connP) {
				closes = append(closes, call)
			}
		})
		type ref struct {
			name string
			e    Edge
			pos  token.Pos
		}
		var refusals []ref
		cnt := map[string]int{}
		add := func(kind string, es []Edge, pos token.Pos) {
			for _, e := range es {
				cnt[kind]++
				name := kind
				if cnt[kind] > 1 {
					name = fmt.Sprintf("%s/%d", kind, cnt[kind])
				}
				refusals = append(refusals, ref{name, e, pos})
			}
		}
		for _, lc := range callsIn(fn, m.lookup.Object()) {
			lk, _ := lc.(*ssa.Call)
			if lk == nil {
				continue
			}
			isAuth, _ := c05passesOneOf(fn, []Edge{d.authEdge}, lk)
			class := "raw"
			if isAuth {
				class = "auth"
			}
			if okV := extractN(lk, 1); okV != nil {
				_, f := boolEdges(fn, okV)
				add("unknown-command["+class+"]", f, lk.Pos())
			}
			// the handler cell this lookup fills
			if ex := extractN(lk, 0); ex != nil {
				for _, r := range *ex.Referrers() {
					if st, ok := r.(*ssa.Store); ok {
						on, off := m.rawEdges(fn, c05cellRoot(st.Addr))
						if class == "auth" {
							add("wrong-class[auth]", on, lk.Pos())
						} else {
							add("wrong-class[raw]", off, lk.Pos())
						}
					}
				}
			}
		}
		for _, sc := range callsIn(fn, m.satisfies.Object()) {
			_, fail, _ := callErrEdges(fn, sc.Value())
			add("session-refused", fail, sc.Pos())
		}
		for _, hc := range callsIn(fn, hs.Object()) {
			_, fail, _ := callErrEdges(fn, hc.Value())
			add("handshake-failed", fail, hc.Pos())
		}
		if cfgF := c.needField(rule, "server", "Server", "SecurityConfig"); cfgF != nil {
			off, _ := fieldCondEdges(fn, cfgF)
			add("no-security-config", off, fn.Pos())
		}
		for _, r := range refusals {
			n++
			start := Point{r.e.To(), 0}
			key := fnName(fn) + "#" + r.name
			var wit []*ssa.BasicBlock
			for _, ret := range c05returns(fn) {
				if p := findPath(start, Target{Instr: ret}, newCuts().AddInstrs(closes...)); p != nil {
					wit = p
					break
				}
			}
			c.Check(wit == nil, rule, key+":closes", "every path from this refusal to a return passes conn.Close()", "a refusal returns without closing the connection", r.pos, c.describePath(wit)...)
			wit = nil
			for _, s := range m.sites {
				if s.fn != fn {
					continue
				}
				if p := findPath(start, Target{Instr: s.call}, nil); p != nil {
					wit = p
				}
			}
			c.Check(wit == nil, rule, key+":no-handler", "no handler is reachable after this refusal", "a handler invocation is reachable after a refusal", r.pos, c.describePath(wit)...)
		}
	}
	c.MinCount(rule, "refusal edges", n, 7)
}

func sortedFns(m map[*ssa.Function]bool) []*ssa.Function {
	var out []*ssa.Function
	for f := range m {
		out = append(out, f)
	}
	sort.Slice(out, func(i, j int) bool { return fnName(out[i]) < fnName(out[j]) })
	return out
}

// c05paramLoad: v is a load of field f of parameter p (p.f).
func c05paramLoad(v ssa.Value, p *ssa.Parameter, f *types.Var) bool {
	base, g, ok := fieldRead(stripConv(v))
	return ok && g == f && f != nil && base == ssa.Value(p)
}

// C05-R3: composition of the per-dispatch check.
func c05r3(c *Ctx) {
	defer c05timer("c05r3")()
	const rule = "C05-R3"
	c.Doc(rule, "sessionSatisfies succeeds only after commandLevelSatisfied(realCmd, neg.Authentication, neg.Encryption) is true and, when Authorizer != nil, authorized(realCmd, peerAddr, neg.User) is true; authorized returns true only after a true Authorizer call on a level from CommandPerms(realCmd); commandLevelSatisfied equals the table the property implies on all 256 rows per configuration shape (constant propagation over its SSA)")
	sat := c.needFn(rule, "server", "(*Server).sessionSatisfies")
	cls := c.needFn(rule, "server", "(*Server).commandLevelSatisfied")
	auz := c.needFn(rule, "server", "(*Server).authorized")
	perms := c.needFn(rule, "server", "(*Server).CommandPerms")
	fAuthz := c.needField(rule, "server", "Server", "Authorizer")
	nAuth := c.needField(rule, "security", "SecurityNegotiation", "Authentication")
	nEnc := c.needField(rule, "security", "SecurityNegotiation", "Encryption")
	nUser := c.needField(rule, "security", "SecurityNegotiation", "User")
	if sat == nil || cls == nil || auz == nil || perms == nil || fAuthz == nil || nAuth == nil || nEnc == nil || nUser == nil {
		return
	}
	if len(sat.Params) != 4 {
		c.Undecided(rule, fnName(sat)+"#signature", "unexpected parameter list", sat.Pos())
		return
	}
	recv, cmdP, peerP, negP := sat.Params[0], sat.Params[1], sat.Params[2], sat.Params[3]
	// (1) level check
	var levelTrue []Edge
	nl := 0
	for _, cs := range callsIn(sat, cls.Object()) {
		a := cs.Common().Args
		good := len(a) == 4 && a[0] == ssa.Value(recv) && a[1] == ssa.Value(cmdP) && c05paramLoad(a[2], negP, nAuth) && c05paramLoad(a[3], negP, nEnc)
		nl++
		c.Check(good, rule, fnName(sat)+"#commandLevelSatisfied-args", "called with (realCmd, neg.Authentication, neg.Encryption) of the session being checked", "commandLevelSatisfied is not called with realCmd and the negotiation's own Authentication/Encryption flags (a constant or another value is passed)", cs.Pos())
		if good {
			t, _ := boolEdges(sat, cs.Value())
			levelTrue = append(levelTrue, t...)
		}
	}
	c.MinCount(rule, "commandLevelSatisfied calls in sessionSatisfies", nl, 1)
	c.mustPassReturns(rule, sat, c.successTargets(sat), newCuts().AddEdges(levelTrue...), "the true edge of commandLevelSatisfied(realCmd, neg.Authentication, neg.Encryption)")
	// (2) authorisation
	var authzOK []Edge
	for _, b := range sat.Blocks {
		a, eq, ne, ok := c05eqEdges(b)
		if !ok {
			continue
		}
		var fv, other ssa.Value = a.X, a.Y
		if isNilConst(fv) {
			fv, other = other, fv
		}
		if !isNilConst(other) {
			continue
		}
		base, f, isRead := fieldRead(stripConv(fv))
		if isRead && f == fAuthz && base == ssa.Value(recv) {
			_ = ne
			authzOK = append(authzOK, eq) // Authorizer == nil: nothing to enforce
		}
	}
	na := 0
	for _, cs := range callsIn(sat, auz.Object()) {
		a := cs.Common().Args
		good := len(a) == 4 && a[0] == ssa.Value(recv) && a[1] == ssa.Value(cmdP) && a[2] == ssa.Value(peerP) && c05paramLoad(a[3], negP, nUser)
		na++
		c.Check(good, rule, fnName(sat)+"#authorized-args", "called with (realCmd, peerAddr, neg.User)", "authorized is not called with the dispatched command, the peer address and the session's identity", cs.Pos())
		if good {
			t, _ := boolEdges(sat, cs.Value())
			authzOK = append(authzOK, t...)
		}
	}
	c.MinCount(rule, "authorized calls in sessionSatisfies", na, 1)
	for _, t := range c.successTargets(sat) {
		p := findPath(entryPoint(sat), t.Target(), newCuts().AddEdges(authzOK...))
		c.Check(p == nil, rule, fmt.Sprintf("%s#return%d:authorizer", fnName(sat), retOrdinal(sat, t.Ret)), "every path to this success return passes Authorizer == nil or authorized(...) == true", "sessionSatisfies can succeed with an Authorizer configured and without authorized(...) being true", t.Ret.Pos(), c.describePath(p)...)
	}
	// (3) authorized: true only after a true Authorizer call on one of the command's levels
	if len(auz.Params) == 4 {
		var yes []Edge
		ncall := 0
		allInstrs(auz, func(_ *ssa.BasicBlock, _ int, in ssa.Instruction) {
			call, ok := in.(*ssa.Call)
			if !ok || call.Call.IsInvoke() || call.Call.StaticCallee() != nil {
				return
			}
			base, f, isRead := fieldRead(stripConv(call.Call.Value))
			if !isRead || f != fAuthz || base != ssa.Value(auz.Params[0]) {
				return
			}
			ncall++
			a := call.Call.Args
			fromPerms := len(a) == 3 && mustDepend(auz, a[0], func(v ssa.Value) bool {
				cl, ok := v.(*ssa.Call)
				return ok && calleeFn(cl) == perms && len(cl.Call.Args) == 2 && cl.Call.Args[1] == ssa.Value(auz.Params[1])
			})
			good := fromPerms && a[1] == ssa.Value(auz.Params[2]) && a[2] == ssa.Value(auz.Params[3])
			c.Check(good, rule, fnName(auz)+"#Authorizer-args", "Authorizer is asked about a level of CommandPerms(realCmd), the peer address and the user", "Authorizer is not called with (a level registered for realCmd, peerAddr, user)", call.Pos())
			if good {
				t, _ := boolEdges(auz, call)
				yes = append(yes, t...)
			}
		})
		c.MinCount(rule, "Authorizer calls in authorized", ncall, 1)
		for _, r := range c05returns(auz) {
			if b, isC := constBool(r.Results[0]); isC && !b {
				continue
			}
			p := findPath(entryPoint(auz), Target{Instr: r}, newCuts().AddEdges(yes...))
			c.Check(p == nil, rule, fmt.Sprintf("%s#return%d", fnName(auz), retOrdinal(auz, r)), "true is returned only after a true Authorizer answer", "authorized can return true without a true Authorizer answer", r.Pos(), c.describePath(p)...)
		}
	} else {
		c.Undecided(rule, fnName(auz)+"#signature", "unexpected parameter list", auz.Pos())
	}
	// (4) the table of commandLevelSatisfied
	c.c05table(rule, cls)
}

// c05table evaluates commandLevelSatisfied on every row of (authenticated, encrypted) x
// (Authentication, Encryption, Integrity levels) for three configuration shapes and compares with
// the oracle written from the property statement: refuse iff Authentication=REQUIRED and not
// authenticated, or (Encryption=REQUIRED or Integrity=REQUIRED) and not encrypted.
func (c *Ctx) c05table(rule string, cls *ssa.Function) {
	fCfg := c.needField(rule, "server", "Server", "SecurityConfig")
	fSel := c.needField(rule, "server", "Server", "SecurityConfigForCommand")
	fA := c.needField(rule, "security", "SecurityConfig", "Authentication")
	fE := c.needField(rule, "security", "SecurityConfig", "Encryption")
	fI := c.needField(rule, "security", "SecurityConfig", "Integrity")
	req := c.needObj(rule, "security", "SecurityRequired")
	if fCfg == nil || fSel == nil || fA == nil || fE == nil || fI == nil || req == nil {
		return
	}
	// the level domain: every package-level constant of type security.SecurityLevel
	var levels []string
	required := ""
	sp := c.PkgTypes("security")
	for _, n := range sp.Scope().Names() {
		k, ok := sp.Scope().Lookup(n).(*types.Const)
		if !ok || !types.Identical(k.Type(), req.Type()) {
			continue
		}
		s, _ := constString(ssa.NewConst(k.Val(), k.Type()))
		levels = append(levels, s)
		if k == req {
			required = s
		}
	}
	sort.Strings(levels)
	if len(levels) != 4 || required == "" {
		c.Undecided(rule, fnName(cls)+"#table:levels", fmt.Sprintf("expected 4 SecurityLevel constants, found %d", len(levels)), cls.Pos())
		return
	}
	if len(cls.Params) != 4 {
		c.Undecided(rule, fnName(cls)+"#table:signature", "unexpected parameter list", cls.Pos())
		return
	}
	oracle := func(a, e, i string, authd, encd bool) bool {
		if a == required && !authd {
			return false
		}
		if (e == required || i == required) && !encd {
			return false
		}
		return true
	}
	mkCfg := func(name, a, e, i string) *c05Obj {
		o := c05newObj(name)
		o.fields[fA], o.fields[fE], o.fields[fI] = c05str(a), c05str(e), c05str(i)
		return o
	}
	never := ""
	for _, l := range levels {
		if l != required && strings.HasPrefix(l, "N") {
			never = l
		}
	}
	if never == "" {
		never = levels[0]
		if never == required {
			never = levels[1]
		}
	}
	for _, shape := range []string{"default-config", "per-command-config", "selector-returns-nil"} {
		rows, bad, undec := 0, 0, ""
		var firstBad []string
		for _, a := range levels {
			for _, e := range levels {
				for _, i := range levels {
					for _, authd := range []bool{false, true} {
						for _, encd := range []bool{false, true} {
							want := oracle(a, e, i, authd, encd)
							srv := c05newObj("server")
							row := mkCfg("row", a, e, i)
							// a decoy with the opposite verdict wherever one exists
							decoy := mkCfg("decoy", never, never, never)
							if want {
								decoy = mkCfg("decoy", required, required, required)
							}
							switch shape {
							case "default-config":
								srv.fields[fCfg] = c05ptr(row)
								srv.fields[fSel] = c05nil
							case "per-command-config":
								srv.fields[fCfg] = c05ptr(decoy)
								srv.fields[fSel] = c05fnRet(c05ptr(row))
							case "selector-returns-nil":
								srv.fields[fCfg] = c05ptr(row)
								srv.fields[fSel] = c05fnRet(c05nil)
							}
							ip := &c05interp{}
							got, err := ip.eval(cls, []c05Val{c05ptr(srv), {}, c05bool(authd), c05bool(encd)}, 0)
							rows++
							if err != "" || got.kind != c05kBool {
								if err == "" {
									err = "result not decided by the inputs"
								}
								undec = err
								continue
							}
							if got.b != want {
								bad++
								if len(firstBad) < 4 {
									firstBad = append(firstBad, fmt.Sprintf("Authentication=%s Encryption=%s Integrity=%s authenticated=%t encrypted=%t: got %t, property implies %t", a, e, i, authd, encd, got.b, want))
								}
							}
						}
					}
				}
			}
		}
		key := fnName(cls) + "#table:" + shape
		switch {
		case undec != "":
			c.Undecided(rule, key, "table extraction failed: "+undec, cls.Pos())
		case bad > 0:
			c.Violate(rule, key, fmt.Sprintf("%d of %d rows differ from the table the property implies", bad, rows), cls.Pos(), firstBad...)
		default:
			c.Ok(rule, key, fmt.Sprintf("all %d rows equal the table the property implies", rows), cls.Pos())
		}
		c.MinCount(rule, "table rows ("+shape+")", rows, 256)
	}
	c.Note("%s: a server without any SecurityConfig (req == nil) is outside the table: ServeConn refuses DC_AUTHENTICATE before dispatch in that configuration (C05-R2 handshake path)", rule)
}

// C05-R4: the advertisement uses the same checks.
func c05r4(c *Ctx) {
	defer c05timer("c05r4")()
	const rule = "C05-R4"
	c.Doc(rule, "postAuthPolicy appends a command to the advertised set only on paths that passed !h.raw, a true commandLevelSatisfied(cmd, authenticated, encrypted) on that same command with the function's own flags, and a true Authorizer answer for the advertised identity (same callees as the dispatch check)")
	pap := c.needFn(rule, "server", "(*Server).postAuthPolicy")
	cls := c.needFn(rule, "server", "(*Server).commandLevelSatisfied")
	fAuthz := c.needField(rule, "server", "Server", "Authorizer")
	rawF := c.needField(rule, "server", "registeredHandler", "raw")
	if pap == nil || cls == nil || fAuthz == nil || rawF == nil {
		return
	}
	if len(pap.Params) != 5 {
		c.Undecided(rule, fnName(pap)+"#signature", "unexpected parameter list", pap.Pos())
		return
	}
	n := 0
	allInstrs(pap, func(_ *ssa.BasicBlock, _ int, in ssa.Instruction) {
		call, ok := in.(*ssa.Call)
		if !ok {
			return
		}
		bi, ok := call.Call.Value.(*ssa.Builtin)
		if !ok || bi.Name() != "append" || len(call.Call.Args) != 2 {
			return
		}
		sl, ok := call.Type().Underlying().(*types.Slice)
		if !ok || !types.Identical(sl.Elem(), types.Typ[types.Int]) {
			return
		}
		n++
		key := fmt.Sprintf("%s#advertise", fnName(pap))
		if n > 1 {
			key = fmt.Sprintf("%s/%d", key, n)
		}
		// the appended element(s)
		var elems []ssa.Value
		root := memRoot(call.Call.Args[1])
		if al, ok := root.(*ssa.Alloc); ok {
			for _, r := range *al.Referrers() {
				if ia, ok := r.(*ssa.IndexAddr); ok {
					for _, u := range *ia.Referrers() {
						if st, ok := u.(*ssa.Store); ok && st.Addr == ia {
							elems = append(elems, st.Val)
						}
					}
				}
			}
		}
		if len(elems) != 1 {
			c.Undecided(rule, key, "cannot identify the advertised command value", call.Pos())
			return
		}
		cmd := elems[0]
		var levelOK, authzOK, notRaw []Edge
		for _, cs := range callsIn(pap, cls.Object()) {
			a := cs.Common().Args
			if len(a) == 4 && a[1] == cmd && a[2] == ssa.Value(pap.Params[3]) && a[3] == ssa.Value(pap.Params[4]) {
				t, _ := boolEdges(pap, cs.Value())
				levelOK = append(levelOK, t...)
			}
		}
		allInstrs(pap, func(_ *ssa.BasicBlock, _ int, in2 ssa.Instruction) {
			dc, ok := in2.(*ssa.Call)
			if !ok || dc.Call.IsInvoke() || dc.Call.StaticCallee() != nil {
				return
			}
			_, f, isRead := fieldRead(stripConv(dc.Call.Value))
			if isRead && f == fAuthz && len(dc.Call.Args) == 3 && dc.Call.Args[1] == ssa.Value(pap.Params[2]) {
				t, _ := boolEdges(pap, dc)
				authzOK = append(authzOK, t...)
			}
		})
		off, _ := fieldCondEdges(pap, rawF)
		notRaw = off
		ok1, p1 := c05passesOneOf(pap, levelOK, call)
		c.Check(ok1, rule, key+":level", "advertised only after commandLevelSatisfied(cmd, authenticated, encrypted) is true for that command", "a command is advertised without a true commandLevelSatisfied on it with the session's own flags", call.Pos(), c.describePath(p1)...)
		ok2, p2 := c05passesOneOf(pap, authzOK, call)
		c.Check(ok2, rule, key+":authorizer", "advertised only after a true Authorizer answer", "a command is advertised without a true Authorizer answer", call.Pos(), c.describePath(p2)...)
		ok3, p3 := c05passesOneOf(pap, notRaw, call)
		c.Check(ok3, rule, key+":not-raw", "raw handlers are skipped", "a raw handler's command can be advertised as a session command", call.Pos(), c.describePath(p3)...)
	})
	c.MinCount(rule, "append sites building the advertised set", n, 1)
}

// c05localCopy: v is the address of a struct variable local to fn that is initialised by copying a
// struct value (c := *shared) or by a composite literal, and is not stored anywhere else.
func c05localCopy(fn *ssa.Function, v ssa.Value) (bool, string) {
	al, ok := v.(*ssa.Alloc)
	if !ok {
		if _, isLoad := v.(*ssa.UnOp); isLoad {
			return false, "a pointer loaded from shared state is passed on (no copy)"
		}
		if _, isPar := v.(*ssa.Parameter); isPar {
			return false, "the caller's pointer is passed on (no copy)"
		}
		return false, fmt.Sprintf("not the address of a local variable (%T)", v)
	}
	if al.Parent() != fn {
		return false, "variable of an enclosing function"
	}
	if _, isStruct := al.Type().Underlying().(*types.Pointer).Elem().Underlying().(*types.Struct); !isStruct {
		return false, "not a struct variable"
	}
	return true, ""
}

// C05-R5: per-connection configuration.
func c05r5(c *Ctx) {
	defer c05timer("c05r5")()
	const rule = "C05-R5"
	c.Doc(rule, "the SecurityConfig handed to NewAuthenticator by the server is the address of a copy local to ServeConn (a handshake never mutates the server's shared policy object)")
	na := c.needFn(rule, "security", "NewAuthenticator")
	sc := c.needFn(rule, "server", "(*Server).ServeConn")
	if na == nil || sc == nil {
		return
	}
	n := 0
	for _, fn := range c.FnsOfPkg("server") {
		for _, cs := range callsIn(fn, na.Object()) {
			n++
			ok, why := c05localCopy(fn, cs.Common().Args[0])
			c.Check(ok, rule, fnName(topFn(fn))+"#NewAuthenticator-config", "address of a per-connection copy", "server passes a shared SecurityConfig to NewAuthenticator: "+why, cs.Pos())
		}
	}
	c.MinCount(rule, "NewAuthenticator call sites in package server", n, 1)
}

// C05-R6: imported obligations (not decided here).
func c05r6(c *Ctx) {
	defer c05timer("c05r6")()
	c.Note("C05-R6: whether neg.Authentication / neg.Encryption (the flags sessionSatisfies reads) equal what the handshake really established is decided under C03 (R3, R5) and C06 (R4), not here; C05 decides the dispatch skeleton only")
}
