package main

import (
	"fmt"
	"go/token"
	"go/types"
	"sort"

	"golang.org/x/tools/go/ssa"
)

func init() { register("C01", c01r1, c01r2, c01r3, c01r4) }

// ---------------------------------------------------------------------------
// limit arithmetic shared by R1 and R2

// c01Limits is what the code itself says about frame sizes.
type c01Limits struct {
	ok        bool
	Overhead  int64   // largest additive overhead of calculateEncryptedSize (tag + first-frame IV)
	Addends   []int64 // all overheads seen (0, 16, 32 today)
	PlainCap  int64   // sender: largest plaintext length accepted by a guard on len(data); -1 = no such guard
	WireCap   int64   // sender: largest wire length accepted by a guard on calculateEncryptedSize(len(data)); -1 = none
	PlainPos  token.Pos
	WirePos   token.Pos
	RecvLimit map[*ssa.Function]int64 // receiver: largest wire length accepted
	RecvPos   map[*ssa.Function]token.Pos
	Problems  []string // why something could not be extracted (reported as undecided by R1)
}

// SenderMaxWire: the largest wire length the sender can emit on an encrypting stream.
func (l *c01Limits) SenderMaxWire() (int64, bool) {
	best, have := int64(0), false
	if l.PlainCap >= 0 {
		best, have = l.PlainCap+l.Overhead, true
	}
	if l.WireCap >= 0 && (!have || l.WireCap < best) {
		best, have = l.WireCap, true
	}
	return best, have
}

// SenderAccepts: the sender accepts a plaintext of n bytes on an encrypting stream in the worst
// case (first frame of the direction).
func (l *c01Limits) SenderAccepts(n int64) bool {
	if l.PlainCap >= 0 && n > l.PlainCap {
		return false
	}
	if l.WireCap >= 0 && n+l.Overhead > l.WireCap {
		return false
	}
	return true
}

func (l *c01Limits) MinRecv() int64 {
	m, first := int64(0), true
	for _, v := range l.RecvLimit {
		if first || v < m {
			m, first = v, false
		}
	}
	return m
}

func (c *Ctx) c01Extract(rule string) *c01Limits {
	l := &c01Limits{PlainCap: -1, WireCap: -1, RecvLimit: map[*ssa.Function]int64{}, RecvPos: map[*ssa.Function]token.Pos{}}
	send := c.needFn(rule, "stream", "(*Stream).sendMessageWithEnd")
	calc := c.needFn(rule, "stream", "(*Stream).calculateEncryptedSize")
	wwc := c.needFn(rule, "stream", "(*Stream).writeWithContext")
	rwc := c.needFn(rule, "stream", "(*Stream).readWithContext")
	rf := c.needFn(rule, "stream", "(*Stream).ReceiveFrame")
	rfe := c.needFn(rule, "stream", "(*Stream).ReceiveFrameWithEnd")
	if send == nil || calc == nil || wwc == nil || rwc == nil || rf == nil || rfe == nil {
		return l
	}
	// O: overhead of calculateEncryptedSize(plainSize) = plainSize + c
	par := c01Param(calc, "plainSize", 1)
	if par == nil {
		l.Problems = append(l.Problems, "calculateEncryptedSize has no size parameter")
		return l
	}
	max, adds, ok := c01MaxAddend(calc, par)
	if !ok {
		l.Problems = append(l.Problems, "calculateEncryptedSize does not return its parameter plus constants on every path")
		return l
	}
	l.Overhead, l.Addends = max, adds
	// sender guards
	data := c01Param(send, "data", 2)
	writes := callsIn(send, wwc.Object())
	if data == nil || len(writes) == 0 {
		l.Problems = append(l.Problems, "sendMessageWithEnd: no data parameter or no writeWithContext call")
		return l
	}
	isLenData := func(v ssa.Value) bool {
		call, ok := c01IsBuiltin(c01Strip(v), "len")
		return ok && call.Call.Args[0] == ssa.Value(data)
	}
	for _, b := range send.Blocks {
		g, ok := c01BoundOf(b)
		if !ok {
			continue
		}
		kind := ""
		x := c01Strip(g.X)
		if isLenData(x) {
			kind = "plain"
		} else if call, ok := x.(*ssa.Call); ok && calleeFn(call) == calc && len(call.Call.Args) == 2 && isLenData(call.Call.Args[1]) {
			kind = "wire"
		} else {
			continue
		}
		if !c.c01ErrorEdge(send, g.Reject) {
			continue // not a rejection (e.g. "if len(data) > 0 { hash it }")
		}
		dominatesAll := true
		for _, w := range writes {
			if !instrDominatedByEdge(send, g.Accept, w) {
				dominatesAll = false
			}
		}
		if !dominatesAll {
			l.Problems = append(l.Problems, "sendMessageWithEnd: a size guard at "+c.Pos(blockIf(b).Cond.Pos())+" does not dominate the connection write")
			continue
		}
		switch kind {
		case "plain":
			if l.PlainCap < 0 || g.Max < l.PlainCap {
				l.PlainCap, l.PlainPos = g.Max, blockIf(b).Cond.Pos()
			}
		case "wire":
			if l.WireCap < 0 || g.Max < l.WireCap {
				l.WireCap, l.WirePos = g.Max, blockIf(b).Cond.Pos()
			}
		}
	}
	// receiver guards: comparison of the wire length (encoding/binary Uint32 of the header) that
	// rejects on one edge and whose accepting edge dominates the payload read
	for _, fn := range []*ssa.Function{rf, rfe} {
		reads := callsIn(fn, rwc.Object())
		for _, b := range fn.Blocks {
			g, ok := c01BoundOf(b)
			if !ok || !c01IsWireLength(g.X) || !c.c01ErrorEdge(fn, g.Reject) {
				continue
			}
			// the payload read: a readWithContext whose buffer is sized by the same value
			dom := false
			for _, r := range reads {
				if ms, ok := memRoot(r.Common().Args[2]).(*ssa.MakeSlice); ok && c01Same(ms.Len, g.X) && instrDominatedByEdge(fn, g.Accept, r) {
					dom = true
				}
			}
			if !dom {
				continue
			}
			if old, have := l.RecvLimit[fn]; !have || g.Max < old {
				l.RecvLimit[fn], l.RecvPos[fn] = g.Max, blockIf(b).Cond.Pos()
			}
		}
		if _, have := l.RecvLimit[fn]; !have {
			l.Problems = append(l.Problems, fnName(fn)+": no constant bound on the wire length dominates the payload read")
		}
	}
	l.ok = len(l.RecvLimit) == 2
	return l
}

// c01IsWireLength: v is (a conversion of) the result of an encoding/binary Uint32 call.
func c01IsWireLength(v ssa.Value) bool {
	call, ok := c01Strip(v).(*ssa.Call)
	if !ok {
		return false
	}
	o := calleeObj(call)
	return o != nil && o.Pkg() != nil && o.Pkg().Path() == "encoding/binary" && o.Name() == "Uint32"
}

// C01-R1: whatever the sender accepts fits the receivers' limit.
func c01r1(c *Ctx) {
	const rule = "C01-R1"
	c.Doc(rule, "limit arithmetic extracted from the code: the largest wire length sendMessageWithEnd can emit on an encrypting stream (its size guard on len(data) plus the largest constant overhead of calculateEncryptedSize, or its guard on the encrypted size) is <= the constant of the wire-length guard in ReceiveFrame and in ReceiveFrameWithEnd; both receivers use the same limit")
	l := c.c01Extract(rule)
	for i, p := range l.Problems {
		c.Undecided(rule, fmt.Sprintf("extract#%d", i+1), p, token.NoPos)
	}
	if !l.ok {
		c.MinCount(rule, "receiver wire-length guards", len(l.RecvLimit), 2)
		return
	}
	c.Note("%s: overhead addends of calculateEncryptedSize %v (max %d); sender guard on plaintext: %d, on encrypted size: %d (-1 = none); receiver limits: %v",
		rule, l.Addends, l.Overhead, l.PlainCap, l.WireCap, c01recvString(l))
	sendFn := "(*stream.Stream).sendMessageWithEnd"
	maxWire, have := l.SenderMaxWire()
	if !have {
		c.Violate(rule, sendFn+"#size-guard", "no size guard on len(data) or on calculateEncryptedSize(len(data)) rejects before the connection write: the sender accepts frames of any size", token.NoPos)
	} else {
		c.Ok(rule, sendFn+"#size-guard", fmt.Sprintf("sender emits at most %d wire bytes per frame", maxWire), l.PlainPos)
	}
	c.Check(l.Overhead > 0, rule, "(*stream.Stream).calculateEncryptedSize#overhead", fmt.Sprintf("worst-case encryption overhead %d", l.Overhead), "calculateEncryptedSize adds no overhead on any path", token.NoPos)
	var fns []*ssa.Function
	for fn := range l.RecvLimit {
		fns = append(fns, fn)
	}
	sort.Slice(fns, func(i, j int) bool { return fnName(fns[i]) < fnName(fns[j]) })
	for _, fn := range fns {
		r := l.RecvLimit[fn]
		construct := fnName(fn) + "#wire-limit>=sender-max"
		if !have {
			continue
		}
		if maxWire <= r {
			c.Ok(rule, construct, fmt.Sprintf("sender max wire length %d <= receiver limit %d", maxWire, r), l.RecvPos[fn])
			continue
		}
		lo, hi := r-l.Overhead+1, maxWire-l.Overhead
		c.Violate(rule, construct, fmt.Sprintf("on an encrypting stream a plaintext frame of %d..%d bytes is accepted by sendMessageWithEnd (guard on %s) and then rejected by %s: wire length up to %d > receiver limit %d (overhead up to %d)",
			lo, hi, c01guardKind(l), fnName(fn), maxWire, r, l.Overhead), l.RecvPos[fn],
			"sender guard: "+c.Pos(l.PlainPos)+" / "+c.Pos(l.WirePos), "receiver guard: "+c.Pos(l.RecvPos[fn]))
	}
	if len(fns) == 2 {
		c.Check(l.RecvLimit[fns[0]] == l.RecvLimit[fns[1]], rule, "receivers#same-limit", "ReceiveFrame and ReceiveFrameWithEnd apply the same wire-length limit",
			fmt.Sprintf("the two receivers apply different wire-length limits (%d vs %d): a frame one accepts the other rejects", l.RecvLimit[fns[0]], l.RecvLimit[fns[1]]), l.RecvPos[fns[0]])
	}
	c.MinCount(rule, "receiver wire-length guards", len(l.RecvLimit), 2)
}

func c01guardKind(l *c01Limits) string {
	switch {
	case l.PlainCap >= 0 && l.WireCap >= 0:
		return "plaintext and encrypted length"
	case l.WireCap >= 0:
		return "encrypted length"
	}
	return "plaintext length"
}

func c01recvString(l *c01Limits) string {
	var s []string
	for fn, v := range l.RecvLimit {
		s = append(s, fmt.Sprintf("%s=%d", fnName(fn), v))
	}
	sort.Strings(s)
	return fmt.Sprint(s)
}

// ---------------------------------------------------------------------------
// C01-R2: message layer

// c01BufWrite is one write into Message.buffer on the encode side.
type c01BufWrite struct {
	Fn   *ssa.Function
	Call ssa.CallInstruction
	Ord  int
}

func c01r2(c *Ctx) {
	const rule = "C01-R2"
	c.Doc(rule, "message layer: every write of caller-sized data into the frame buffer (Message.buffer) has a constant upper bound U established by a comparison on a dominating edge or by the split loop's chunk size; U + worst-case encryption overhead <= the receivers' wire limit and U is accepted by the sender's guard; every such write is preceded by a flush decision on the buffer length")
	l := c.c01Extract(rule)
	bufField := c.needField(rule, "message", "Message", "buffer")
	flush := c.needFn(rule, "message", "(*Message).FlushFrame")
	bb := c.PkgTypes("bytes")
	if bufField == nil || flush == nil || bb == nil {
		if bb == nil {
			c.AnchorMissing(rule, "bytes")
		}
		return
	}
	if !l.ok {
		c.Undecided(rule, "limits", "the stream-side limits could not be extracted (see C01-R1)", token.NoPos)
		return
	}
	bufT := bb.Scope().Lookup("Buffer").Type()
	method := func(n string) types.Object {
		o, _, _ := types.LookupFieldOrMethod(types.NewPointer(bufT), true, bb, n)
		return o
	}
	wWrite, wByte, wString, bLen := method("Write"), method("WriteByte"), method("WriteString"), method("Len")
	if wWrite == nil || wByte == nil || wString == nil || bLen == nil {
		c.AnchorMissing(rule, "bytes.Buffer.Write/WriteByte/WriteString/Len")
		return
	}
	msgPkg := c.PkgTypes("message")
	readFrame := c.needObj(rule, "message", "StreamInterface.ReadFrame")
	var sites []c01BufWrite
	for _, fn := range c.FnsOfPkg("message") {
		if fnPkg(fn) != msgPkg {
			continue
		}
		ord := 0
		for _, call := range callsIn(fn, wWrite, wByte, wString) {
			args := call.Common().Args
			if len(args) < 2 || !readsField(args[0], bufField) {
				continue
			}
			// decode side: the buffer is filled with frames read from the stream
			fromWire := false
			for _, o := range origins(fn, args[1]) {
				if rc, idx := originCall(o); rc != nil && idx == 0 && readFrame != nil && types.Object(calleeObj(rc)) == readFrame {
					fromWire = true
				}
			}
			if fromWire {
				continue
			}
			ord++
			sites = append(sites, c01BufWrite{fn, call, ord})
		}
	}
	limit := l.MinRecv()
	var maxU int64
	for _, s := range sites {
		fn, call := s.Fn, s.Call
		construct := fmt.Sprintf("%s#buffer-write%d", fnName(fn), s.Ord)
		var u int64
		var ok bool
		if types.Object(calleeObj(call)) == wByte {
			u, ok = 1, true
		} else {
			u, ok = c01LenUB(fn, call.Common().Args[1], call.Block())
		}
		if !ok {
			c.Undecided(rule, construct, "no constant upper bound on the number of bytes this call appends to the frame buffer (no dominating comparison of the length against a constant): a value larger than the frame limit would be flushed as one frame", call.Pos())
			continue
		}
		if u > maxU {
			maxU = u
		}
		switch {
		case u+l.Overhead > limit:
			c.Violate(rule, construct, fmt.Sprintf("up to %d bytes are appended to the frame buffer and flushed as one frame; on an encrypting stream the wire length is up to %d > receiver limit %d (values of %d..%d bytes cannot be sent encrypted)",
				u, u+l.Overhead, limit, limit-l.Overhead+1, u), call.Pos())
		case !l.SenderAccepts(u):
			c.Violate(rule, construct, fmt.Sprintf("up to %d bytes are appended to the frame buffer and flushed as one frame, which sendMessageWithEnd rejects on an encrypting stream (plaintext cap %d, encrypted-size cap %d, overhead %d): the message layer does not split the value itself",
				u, l.PlainCap, l.WireCap, l.Overhead), call.Pos())
		default:
			c.Ok(rule, construct, fmt.Sprintf("at most %d bytes per write; %d + overhead %d <= %d", u, u, l.Overhead, limit), call.Pos())
		}
		// flush decision before the write
		cuts := newCuts()
		allInstrs(fn, func(_ *ssa.BasicBlock, _ int, in ssa.Instruction) {
			if cl, ok := isCallTo(in, bLen); ok && readsField(cl.Common().Args[0], bufField) {
				cuts.AddInstrs(in)
			}
			if _, ok := isCallTo(in, flush.Object()); ok {
				cuts.AddInstrs(in)
			}
		})
		c.mustPassInstr(rule, construct+"/flush-decision", fn, call, cuts, "a test of the buffer length or a FlushFrame call")
	}
	c.Note("%s: largest single write into the frame buffer: %d bytes", rule, maxU)
	c.MinCount(rule, "encode-side writes into Message.buffer", len(sites), 7)
}

// ---------------------------------------------------------------------------
// C01-R3: header symmetry

func c01r3(c *Ctx) {
	const rule = "C01-R3"
	c.Doc(rule, "header symmetry: the writer stores the end-flag parameter at header[0] and binary.BigEndian.PutUint32 into header[1:5] of a NormalHeaderSize(=5)-byte array on every path to the connection write, and copies it to frame[:5]; both receivers fill a 5-byte buffer from the wire, take binary.BigEndian.Uint32 of [1:5] as the length that sizes the payload read; no other byte order touches a header")
	send := c.needFn(rule, "stream", "(*Stream).sendMessageWithEnd")
	wwc := c.needFn(rule, "stream", "(*Stream).writeWithContext")
	rwc := c.needFn(rule, "stream", "(*Stream).readWithContext")
	put := c.c01BinaryMethod(rule, "BigEndian", "PutUint32")
	get := c.c01BinaryMethod(rule, "BigEndian", "Uint32")
	hs, okH := c.c01ConstOf(rule, "stream", "NormalHeaderSize")
	if send == nil || wwc == nil || rwc == nil || put == nil || get == nil || !okH {
		return
	}
	c.Check(hs == 5, rule, "stream.NormalHeaderSize", "header is 5 bytes (flag + 32-bit length)", fmt.Sprintf("NormalHeaderSize is %d, the CEDAR frame header is 5 bytes", hs), token.NoPos)
	// slice15 reports whether v is X[1:5] and returns the root of X
	slice15 := func(v ssa.Value) (ssa.Value, bool) {
		sl, ok := v.(*ssa.Slice)
		if !ok || sl.Low == nil || sl.High == nil {
			return nil, false
		}
		lo, ok1 := constInt(sl.Low)
		hi, ok2 := constInt(sl.High)
		return memRoot(sl.X), ok1 && ok2 && lo == 1 && hi == hs
	}
	arrayLen := func(root ssa.Value) int64 {
		if al, ok := root.(*ssa.Alloc); ok {
			if arr, ok := al.Type().Underlying().(*types.Pointer).Elem().Underlying().(*types.Array); ok {
				return arr.Len()
			}
		}
		if ms, ok := root.(*ssa.MakeSlice); ok {
			if n, ok := constInt(ms.Len); ok {
				return n
			}
		}
		return -1
	}
	// binaryCalls lists calls into encoding/binary in fn
	binaryCalls := func(fn *ssa.Function) []ssa.CallInstruction {
		var out []ssa.CallInstruction
		allInstrs(fn, func(_ *ssa.BasicBlock, _ int, in ssa.Instruction) {
			if call, ok := in.(ssa.CallInstruction); ok {
				if o := calleeObj(call); o != nil && o.Pkg() != nil && o.Pkg().Path() == "encoding/binary" {
					out = append(out, call)
				}
			}
		})
		return out
	}
	n := 0
	// --- writer
	end := c01Param(send, "end", 3)
	var headers []ssa.Value
	puts := newCuts()
	for _, call := range binaryCalls(send) {
		n++
		construct := fmt.Sprintf("%s#header-length-encoding%d", fnName(send), n)
		if types.Object(calleeObj(call)) != types.Object(put) {
			c.Violate(rule, construct, "the frame header is written with "+calleeObj(call).FullName()+", not binary.BigEndian.PutUint32: the receivers parse a big-endian length", call.Pos())
			continue
		}
		args := callArgs(call)
		root, ok := slice15(args[len(args)-2])
		if !ok || arrayLen(root) != hs {
			c.Violate(rule, construct, "the length is not written to bytes [1:5] of a 5-byte header", call.Pos())
			continue
		}
		c.Ok(rule, construct, "big-endian length at header[1:5]", call.Pos())
		headers = append(headers, root)
		puts.AddInstrs(call)
	}
	flagStores := newCuts()
	for _, h := range headers {
		allInstrs(send, func(_ *ssa.BasicBlock, _ int, in ssa.Instruction) {
			st, ok := in.(*ssa.Store)
			if !ok {
				return
			}
			ia, ok := st.Addr.(*ssa.IndexAddr)
			if !ok || memRoot(ia.X) != h {
				return
			}
			if idx, isC := constInt(ia.Index); isC && idx == 0 {
				if end != nil && st.Val == ssa.Value(end) {
					flagStores.AddInstrs(st)
				} else {
					c.Violate(rule, fnName(send)+"#header-flag", "header[0] is assigned something other than the end-flag parameter", st.Pos())
				}
			}
		})
	}
	for _, w := range callsIn(send, wwc.Object()) {
		c.mustPassInstr(rule, fnName(send)+"#write<-length", send, w, puts, "binary.BigEndian.PutUint32 into header[1:5]")
		c.mustPassInstr(rule, fnName(send)+"#write<-flag", send, w, flagStores, "a store of the end flag to header[0]")
		// the frame starts with the header
		frame := w.Common().Args[2]
		okAll := true
		for _, o := range origins(send, frame) {
			found := false
			allInstrs(send, func(_ *ssa.BasicBlock, _ int, in ssa.Instruction) {
				cp, ok := in.(*ssa.Call)
				if !ok {
					return
				}
				if _, isCopy := c01IsBuiltin(cp, "copy"); !isCopy {
					return
				}
				dst, ok := cp.Call.Args[0].(*ssa.Slice)
				if !ok || memRoot(dst) != o || dst.High == nil {
					return
				}
				hi, isC := constInt(dst.High)
				lo := int64(0)
				if dst.Low != nil {
					lo, _ = constInt(dst.Low)
				}
				if !isC || hi != hs || lo != 0 {
					return
				}
				for _, h := range headers {
					if memRoot(cp.Call.Args[1]) == h {
						found = true
					}
				}
			})
			if !found {
				okAll = false
			}
		}
		c.Check(okAll, rule, fnName(send)+"#frame[:5]<-header", "every frame buffer handed to the connection write starts with a copy of the header", "a frame buffer handed to the connection write does not start with a copy of the 5-byte header", w.Pos())
	}
	// --- receivers
	for _, name := range []string{"(*Stream).ReceiveFrame", "(*Stream).ReceiveFrameWithEnd"} {
		fn := c.needFn(rule, "stream", name)
		if fn == nil {
			continue
		}
		reads := callsIn(fn, rwc.Object())
		var lens []ssa.Value
		for _, call := range binaryCalls(fn) {
			n++
			construct := fnName(fn) + "#header-length-decoding"
			if types.Object(calleeObj(call)) != types.Object(get) {
				c.Violate(rule, construct, "the frame header is parsed with "+calleeObj(call).FullName()+", not binary.BigEndian.Uint32: the sender writes a big-endian length", call.Pos())
				continue
			}
			args := callArgs(call)
			root, ok := slice15(args[len(args)-1])
			filled := false
			for _, r := range reads {
				if memRoot(r.Common().Args[2]) == root {
					filled = true
				}
			}
			if !ok || arrayLen(root) != hs || !filled {
				c.Violate(rule, construct, "the length is not taken from bytes [1:5] of the 5-byte buffer read from the wire", call.Pos())
				continue
			}
			c.Ok(rule, construct, "big-endian length from header[1:5] of the buffer read from the wire", call.Pos())
			lens = append(lens, call.Value())
		}
		// the payload read is sized by that length
		sized := 0
		for _, r := range reads {
			ms, ok := memRoot(r.Common().Args[2]).(*ssa.MakeSlice)
			if !ok {
				continue
			}
			sized++
			good := false
			for _, lv := range lens {
				if c01Same(ms.Len, lv) {
					good = true
				}
			}
			c.Check(good, rule, fnName(fn)+"#payload-size<-header-length", "the payload read is sized by the parsed header length", "the payload read is not sized by the length parsed from the header", r.Pos())
		}
		if sized == 0 {
			c.Undecided(rule, fnName(fn)+"#payload-size<-header-length", "no payload read into a make([]byte, n) buffer found", fn.Pos())
		}
	}
	c.MinCount(rule, "encoding/binary calls on frame headers", n, 4)
}

// ---------------------------------------------------------------------------
// C01-R4: end-flag discipline

func c01r4(c *Ctx) {
	const rule = "C01-R4"
	c.Doc(rule, "end-flag discipline: EndFlagPartial=0/EndFlagComplete=1; EndMessage and SendMessage pass the complete flag, flushPartialFrame and SendPartialMessage the partial flag to sendMessageWithEnd; WriteFrame/FlushFrame/FinishMessage map isEOM accordingly; ReceiveCompleteMessage returns only on the complete flag and readNextFrame/ReceiveCompleteMessage read another frame exactly when the flag is partial; ReadFrame reports flag != 0; ensureData stores it and stops on it")
	send := c.needFn(rule, "stream", "(*Stream).sendMessageWithEnd")
	rfe := c.needFn(rule, "stream", "(*Stream).ReceiveFrameWithEnd")
	partial, ok1 := c.c01ConstOf(rule, "stream", "EndFlagPartial")
	complete, ok2 := c.c01ConstOf(rule, "stream", "EndFlagComplete")
	if send == nil || rfe == nil || !ok1 || !ok2 {
		return
	}
	c.Check(partial == 0 && complete == 1, rule, "stream.EndFlag*", "partial=0, complete=1", fmt.Sprintf("EndFlagPartial=%d EndFlagComplete=%d, the wire format says 0 and 1", partial, complete), token.NoPos)
	// senders of flags
	want := map[string]int64{
		"(*stream.Stream).SendMessage":        complete,
		"(*stream.Stream).EndMessage":         complete,
		"(*stream.Stream).SendPartialMessage": partial,
		"(*stream.Stream).flushPartialFrame":  partial,
	}
	n := 0
	for _, cs := range c.callSites(send.Object()) {
		n++
		name := fnName(topFn(cs.Fn))
		construct := name + "#flag-arg"
		args := cs.Call.Common().Args
		v, isC := constInt(args[len(args)-1])
		w, known := want[name]
		switch {
		case !known:
			c.Undecided(rule, construct, "unknown caller of sendMessageWithEnd: cannot tell which end flag it must pass", cs.Call.Pos())
		case !isC:
			c.Undecided(rule, construct, "the end flag passed to sendMessageWithEnd is not a constant", cs.Call.Pos())
		default:
			c.Check(v == w, rule, construct, fmt.Sprintf("passes end flag %d", v), fmt.Sprintf("passes end flag %d, must pass %d: message boundaries are lost", v, w), cs.Call.Pos())
		}
	}
	c.MinCount(rule, "sendMessageWithEnd call sites", n, 4)
	// WriteFrame: isEOM selects SendMessage / SendPartialMessage
	wf := c.needFn(rule, "stream", "(*Stream).WriteFrame")
	sm := c.needFn(rule, "stream", "(*Stream).SendMessage")
	spm := c.needFn(rule, "stream", "(*Stream).SendPartialMessage")
	if wf != nil && sm != nil && spm != nil {
		eom := c01Param(wf, "isEOM", 3)
		tE, fE := boolEdges(wf, eom)
		m := 0
		for _, call := range callsIn(wf, sm.Object(), spm.Object(), send.Object()) {
			m++
			isComplete := calleeFn(call) == sm
			if calleeFn(call) == send {
				args := call.Common().Args
				v, isC := constInt(args[len(args)-1])
				if !isC {
					c.Undecided(rule, fnName(wf)+"#isEOM->flag", "non-constant flag", call.Pos())
					continue
				}
				isComplete = v == complete
			}
			edges := fE
			if isComplete {
				edges = tE
			}
			dom := false
			for _, e := range edges {
				if instrDominatedByEdge(wf, e, call) {
					dom = true
				}
			}
			c.Check(dom, rule, fmt.Sprintf("%s#isEOM->%s", fnName(wf), calleeFn(call).Name()), "the complete/partial sender is chosen by isEOM", "the sender chosen does not match isEOM (complete flag must be sent iff isEOM)", call.Pos())
		}
		c.MinCount(rule, "WriteFrame sends", m, 2)
	}
	// message layer: FlushFrame forwards its isEOM; FinishMessage flushes with true, everything else with false
	flush := c.needFn(rule, "message", "(*Message).FlushFrame")
	finish := c.needFn(rule, "message", "(*Message).FinishMessage")
	wfI := c.needObj(rule, "message", "StreamInterface.WriteFrame")
	if flush != nil && finish != nil && wfI != nil {
		eom := c01Param(flush, "isEOM", 2)
		k := 0
		for _, call := range callsIn(flush, wfI) {
			k++
			args := call.Common().Args
			c.Check(len(args) == 3 && args[2] == ssa.Value(eom), rule, fnName(flush)+"#isEOM-forwarded", "FlushFrame forwards isEOM to WriteFrame", "FlushFrame does not forward its isEOM argument to WriteFrame", call.Pos())
		}
		c.MinCount(rule, "WriteFrame invokes in FlushFrame", k, 1)
		k = 0
		perCaller := map[*ssa.Function]int{}
		for _, cs := range c.callSites(flush.Object()) {
			if !libPkg(fnPkg(cs.Fn).Path()) {
				continue
			}
			k++
			args := cs.Call.Common().Args
			v, isC := constBool(args[len(args)-1])
			caller := topFn(cs.Fn)
			perCaller[caller]++
			construct := fmt.Sprintf("%s#FlushFrame-eom%d", fnName(caller), perCaller[caller])
			if !isC {
				c.Undecided(rule, construct, "non-constant isEOM passed to FlushFrame", cs.Call.Pos())
				continue
			}
			if caller == finish {
				c.Check(v, rule, construct, "FinishMessage flushes with isEOM=true", "FinishMessage flushes without the end-of-message flag: the peer waits for more frames", cs.Call.Pos())
			} else {
				c.Check(!v, rule, construct, "intermediate flush with isEOM=false", "an intermediate flush sets the end-of-message flag: the message is cut at this point", cs.Call.Pos())
			}
		}
		c.MinCount(rule, "FlushFrame call sites", k, 9)
	}
	// receivers of flags
	flagEdges := func(fn *ssa.Function, flag ssa.Value, val int64) (eq, ne []Edge) {
		for _, b := range fn.Blocks {
			ifi := blockIf(b)
			if ifi == nil {
				continue
			}
			a := condAtom(ifi.Cond)
			if a.Op != token.EQL && a.Op != token.NEQ {
				continue
			}
			var other ssa.Value
			if stripConv(a.X) == flag {
				other = a.Y
			} else if stripConv(a.Y) == flag {
				other = a.X
			} else {
				continue
			}
			cv, isC := constInt(other)
			if !isC || cv != val {
				continue
			}
			isEq := a.Op == token.EQL
			if a.Neg {
				isEq = !isEq
			}
			if isEq {
				eq = append(eq, Edge{b, 0})
				ne = append(ne, Edge{b, 1})
			} else {
				eq = append(eq, Edge{b, 1})
				ne = append(ne, Edge{b, 0})
			}
		}
		return
	}
	rcm := c.needFn(rule, "stream", "(*Stream).ReceiveCompleteMessage")
	rnf := c.needFn(rule, "stream", "(*Stream).readNextFrame")
	for _, fn := range []*ssa.Function{rcm, rnf} {
		if fn == nil {
			continue
		}
		calls := callsIn(fn, rfe.Object())
		if len(calls) != 1 {
			c.Undecided(rule, fnName(fn)+"#frames", fmt.Sprintf("%d ReceiveFrameWithEnd calls, expected one", len(calls)), fn.Pos())
			continue
		}
		flag := extractN(calls[0].Value(), 1)
		if flag == nil {
			c.Violate(rule, fnName(fn)+"#endflag", "the end flag of the received frame is ignored", calls[0].Pos())
			continue
		}
		// cedar senders emit only the two flag values, so "== partial" and "!= complete" are the
		// same decision: continue edges = flag==partial or flag!=complete, stop edges = the others
		pEq, pNe := flagEdges(fn, flag, partial)
		cEq, cNe := flagEdges(fn, flag, complete)
		moreE := append(append([]Edge{}, pEq...), cNe...)
		stopE := append(append([]Edge{}, pNe...), cEq...)
		// "more" = another frame is read: the ReceiveFrameWithEnd call again (loop) or a self call (recursion)
		more := newCuts().AddInstrs(calls[0])
		for _, sc := range callsIn(fn, fn.Object()) {
			more.AddInstrs(sc)
		}
		// (a) on a continue edge no success return is reached without reading another frame first
		okA := len(moreE) > 0
		var wit []*ssa.BasicBlock
		for _, e := range moreE {
			for _, t := range c.successTargets(fn) {
				if p := findPath(Point{e.To(), 0}, t.Target(), more); p != nil {
					okA, wit = false, p
				}
			}
		}
		c.Check(okA, rule, fnName(fn)+"#partial=>read-more", "after a partial frame another frame is always read", "after a frame with the partial flag the function can return success without reading the rest of the message (or never tests the flag)", calls[0].Pos(), c.describePath(wit)...)
		// (b) a success return is only reached over a stop edge
		var tg []RetPoint
		for _, t := range c.successTargets(fn) {
			// "return self(...)" delegates the decision to the next activation
			if call, _ := originCall(t.Ret.Results[len(t.Ret.Results)-1]); call != nil && calleeFn(call) == fn {
				continue
			}
			tg = append(tg, t)
		}
		c.mustPassReturns(rule, fn, tg, newCuts().AddEdges(stopE...), "an edge on which the flag is complete / not partial")
		// (c) no further frame is read after a stop edge
		okC := len(stopE) > 0
		for _, e := range stopE {
			for in := range more.Instrs {
				if findPath(Point{e.To(), 0}, Target{Instr: in}, nil) != nil {
					okC = false
				}
			}
		}
		c.Check(okC, rule, fnName(fn)+"#complete=>stop", "no further frame is read after the complete flag", "a further frame is read although the flag said the message is complete: the next message is swallowed", calls[0].Pos())
	}
	// ReadFrame: result #1 is flag != partial
	if rfr := c.needFn(rule, "stream", "(*Stream).ReadFrame"); rfr != nil {
		calls := callsIn(rfr, rfe.Object())
		k := 0
		for _, t := range c.successTargets(rfr) {
			k++
			good := false
			if bo, ok := t.Ret.Results[1].(*ssa.BinOp); ok && len(calls) == 1 {
				flag := extractN(calls[0].Value(), 1)
				cv, isC := constInt(bo.Y)
				good = flag != nil && stripConv(bo.X) == flag && isC && ((bo.Op == token.NEQ && cv == partial) || (bo.Op == token.EQL && cv == complete))
			}
			c.Check(good, rule, fnName(rfr)+"#isEOM-result", "isEOM is computed from the end flag of the frame just read", "isEOM is not (flag != EndFlagPartial) of the frame just read", t.Ret.Pos())
		}
		c.MinCount(rule, "ReadFrame success returns", k, 1)
	}
	// ensureData: stores the isEOM of the frame read and does not read past it
	ed := c.needFn(rule, "message", "(*Message).ensureData")
	isEOMf := c.needField(rule, "message", "Message", "isEOM")
	rfI := c.needObj(rule, "message", "StreamInterface.ReadFrame")
	if ed != nil && isEOMf != nil && rfI != nil {
		k := 0
		for _, call := range callsIn(ed, rfI) {
			k++
			flag := extractN(call.Value(), 1)
			stored := false
			allInstrs(ed, func(_ *ssa.BasicBlock, _ int, in ssa.Instruction) {
				if st, ok := in.(*ssa.Store); ok {
					if fa, ok := st.Addr.(*ssa.FieldAddr); ok && fieldOfAddr(fa) == isEOMf && flag != nil && st.Val == flag {
						stored = true
					}
				}
			})
			c.Check(stored, rule, fnName(ed)+"#isEOM-stored", "the end-of-message flag of each frame is recorded", "the end-of-message flag returned by ReadFrame is not stored in Message.isEOM", call.Pos())
			off, _ := fieldCondEdges(ed, isEOMf)
			c.mustPassInstr(rule, fnName(ed)+"#no-read-past-EOM", ed, call, newCuts().AddEdges(off...), "the edge on which isEOM is false")
		}
		c.MinCount(rule, "ReadFrame invokes in ensureData", k, 1)
	}
}
