package main

import (
	"fmt"
	"go/token"
	"go/types"
	"sort"

	"golang.org/x/tools/go/ssa"
)

func init() { register("C01", c01r1, c01r2, c01r3, c01r4) }

// The rules of C01 are evaluated on the inlined view (help_c12.go) of the functions they anchor at: a size
// guard, a length computation, a header read, a flag test or a buffer write may sit in the function itself, in
// a same-module helper it calls, or be materialised in a local boolean.

// ---------------------------------------------------------------------------
// limit arithmetic shared by R1 and R2

// c01Limits is what the code itself says about frame sizes.
type c01Limits struct {
	ok        bool
	Overhead  int64   // largest additive overhead of calculateEncryptedSize (tag + first-frame IV)
	Addends   []int64 // all overheads seen (0, 16, 32 today)
	PlainCap  int64   // sender: largest plaintext length accepted by a guard on len(data); -1 = no such guard
	WireCap   int64   // sender: largest wire length accepted by a guard on calculateEncryptedSize(len(data)); -1 = none
	PlainPos  token.Pos
	WirePos   token.Pos
	RecvLimit map[*ssa.Function]int64 // receiver: largest wire length accepted
	RecvPos   map[*ssa.Function]token.Pos
	Problems  []string // why something could not be extracted (reported as undecided by R1)
}

// SenderMaxWire: the largest wire length the sender can emit on an encrypting stream.
func (l *c01Limits) SenderMaxWire() (int64, bool) {
	best, have := int64(0), false
	if l.PlainCap >= 0 {
		best, have = l.PlainCap+l.Overhead, true
	}
	if l.WireCap >= 0 && (!have || l.WireCap < best) {
		best, have = l.WireCap, true
	}
	return best, have
}

// SenderAccepts: the sender accepts a plaintext of n bytes on an encrypting stream in the worst
// case (first frame of the direction).
func (l *c01Limits) SenderAccepts(n int64) bool {
	if l.PlainCap >= 0 && n > l.PlainCap {
		return false
	}
	if l.WireCap >= 0 && n+l.Overhead > l.WireCap {
		return false
	}
	return true
}

func (l *c01Limits) MinRecv() int64 {
	m, first := int64(0), true
	for _, v := range l.RecvLimit {
		if first || v < m {
			m, first = v, false
		}
	}
	return m
}

// c01Guard is a comparison of X with an integer constant found in an inlined view: on the outcome Accept of
// the comparison value V (in frame Fr), X <= Max holds.
type c01Guard struct {
	Fr     *c04Frame
	V      ssa.Value // the comparison
	X      ssa.Value // the compared value (in Fr)
	Max    int64
	Accept bool
	Pos    token.Pos
}

func (g c01Guard) is(at c04XAtom) bool { return at.Fr == g.Fr && at.V == g.V }

// accept / reject as cut and mark predicates
func (g c01Guard) accept(_ *c04XState, at c04XAtom, truth bool) bool {
	return g.is(at) && truth == g.Accept
}
func (g c01Guard) reject(_ *c04XState, at c04XAtom, truth bool) bool {
	return g.is(at) && truth != g.Accept
}

// c01GuardOf recognises "X > C", "X >= C", "X < C", "X <= C", "X == C", "X != C" (constant on either side; the
// constant may be a helper's constant parameter).
func c01GuardOf(x *c04X, fr *c04Frame, bo *ssa.BinOp) (c01Guard, bool) {
	op := bo.Op
	switch op {
	case token.GTR, token.GEQ, token.LSS, token.LEQ, token.EQL, token.NEQ:
	default:
		return c01Guard{}, false
	}
	if !isIntType(bo.X.Type()) {
		return c01Guard{}, false
	}
	xv := bo.X
	k, isC := x.constOf(nil, fr, bo.Y)
	if !isC {
		k, isC = x.constOf(nil, fr, bo.X)
		if !isC {
			return c01Guard{}, false
		}
		xv = bo.Y
		switch op { // mirror
		case token.GTR:
			op = token.LSS
		case token.GEQ:
			op = token.LEQ
		case token.LSS:
			op = token.GTR
		case token.LEQ:
			op = token.GEQ
		}
	}
	if _, isConst := x.constOf(nil, fr, xv); isConst {
		return c01Guard{}, false
	}
	g := c01Guard{Fr: fr, V: bo, X: xv, Pos: bo.Pos()}
	switch op {
	case token.GTR: // false: x <= c
		g.Max, g.Accept = k, false
	case token.GEQ: // false: x < c
		g.Max, g.Accept = k-1, false
	case token.LSS:
		g.Max, g.Accept = k-1, true
	case token.LEQ:
		g.Max, g.Accept = k, true
	case token.EQL:
		g.Max, g.Accept = k, true
	case token.NEQ:
		g.Max, g.Accept = k, false
	}
	return g, true
}

// c01Guards lists the constant comparisons of a view.
func c01Guards(x *c04X, root *c04Frame) []c01Guard {
	var out []c01Guard
	root.Walk(func(fr *c04Frame, in ssa.Instruction) {
		if bo, ok := in.(*ssa.BinOp); ok {
			if g, ok := c01GuardOf(x, fr, bo); ok {
				out = append(out, g)
			}
		}
	})
	return out
}

// c01Rejects: once the guard's rejecting outcome is taken no success return of the root is reachable.
func c01Rejects(c *Ctx, x *c04X, root *c04Frame, g c01Guard) bool {
	ok, _ := x.Blocked(root.Entry(), &c04XQuery{Target: c12SuccessTarget(c, x, root.Fn), NeedMark: true, MarkCond: g.reject})
	if !ok {
		return false
	}
	// the function must be able to report an error at all
	res := root.Fn.Signature.Results()
	for i := 0; i < res.Len(); i++ {
		if isErrorType(res.At(i).Type()) {
			return true
		}
	}
	return false
}

// c01Dominates: every path from the root's entry to the site passes the guard's accepting outcome.
func c01Dominates(x *c04X, root *c04Frame, g c01Guard, site func(*c04XState, ssa.Instruction) bool) bool {
	ok, _ := x.Blocked(root.Entry(), &c04XQuery{Target: site, CutCond: g.accept})
	return ok
}

func (c *Ctx) c01Extract(rule string) *c01Limits {
	l := &c01Limits{PlainCap: -1, WireCap: -1, RecvLimit: map[*ssa.Function]int64{}, RecvPos: map[*ssa.Function]token.Pos{}}
	send := c.needFn(rule, "stream", "(*Stream).sendMessageWithEnd")
	calc := c.needFn(rule, "stream", "(*Stream).calculateEncryptedSize")
	wwc := c.needFn(rule, "stream", "(*Stream).writeWithContext")
	rwc := c.needFn(rule, "stream", "(*Stream).readWithContext")
	rf := c.needFn(rule, "stream", "(*Stream).ReceiveFrame")
	rfe := c.needFn(rule, "stream", "(*Stream).ReceiveFrameWithEnd")
	enc := c.needFn(rule, "stream", "(*Stream).encryptDataWithAAD")
	dec := c.needFn(rule, "stream", "(*Stream).decryptDataWithAAD")
	if send == nil || calc == nil || wwc == nil || rwc == nil || rf == nil || rfe == nil || enc == nil || dec == nil {
		return l
	}
	// O: overhead of calculateEncryptedSize(plainSize) = plainSize + c
	par := c01Param(calc, "plainSize", 1)
	if par == nil {
		l.Problems = append(l.Problems, "calculateEncryptedSize has no size parameter")
		return l
	}
	max, adds, ok := c01MaxAddend(c.Prog, calc, par)
	if !ok {
		l.Problems = append(l.Problems, "calculateEncryptedSize does not return its parameter plus constants on every path")
		return l
	}
	l.Overhead, l.Addends = max, adds
	// sender guards
	{
		x, root := c12View(c, send, calc, wwc, enc, dec)
		data := c01Param(send, "data", 2)
		isWrite := func(_ *c04XState, in ssa.Instruction) bool { _, ok := isCallTo(in, wwc.Object()); return ok }
		writes := 0
		root.Walk(func(_ *c04Frame, in ssa.Instruction) {
			if isWrite(nil, in) {
				writes++
			}
		})
		if data == nil || writes == 0 {
			l.Problems = append(l.Problems, "sendMessageWithEnd: no data parameter or no writeWithContext call")
			return l
		}
		base := c01Base{v: c04XV{root, data}, lenOf: true}
		for _, g := range c01Guards(x, root) {
			kind := ""
			off := int64(0)
			cv := x.CanonInt(nil, g.Fr, g.X)
			if call, ok := cv.V.(*ssa.Call); ok && calleeFn(call) == calc && len(call.Call.Args) == 2 {
				if ts, ok := c01Terms(x, cv.Fr, call.Call.Args[1], base, 0); ok && len(ts) == 1 && ts[0].par && ts[0].c == 0 {
					kind = "wire"
				}
			}
			if kind == "" {
				ts, ok := c01Terms(x, g.Fr, g.X, base, 0)
				if !ok {
					continue
				}
				kind = "plain"
				for i, t := range ts {
					if !t.par {
						kind = ""
						break
					}
					if i == 0 || t.c < off {
						off = t.c
					}
				}
				if kind == "" {
					continue
				}
			}
			if !c01Rejects(c, x, root, g) {
				continue // not a rejection (e.g. "if len(data) > 0 { hash it }")
			}
			if !c01Dominates(x, root, g, isWrite) {
				l.Problems = append(l.Problems, "sendMessageWithEnd: a size guard at "+c.Pos(g.Pos)+" does not dominate the connection write")
				continue
			}
			switch kind {
			case "plain":
				if l.PlainCap < 0 || g.Max-off < l.PlainCap {
					l.PlainCap, l.PlainPos = g.Max-off, g.Pos
				}
			case "wire":
				if l.WireCap < 0 || g.Max < l.WireCap {
					l.WireCap, l.WirePos = g.Max, g.Pos
				}
			}
		}
		if x.Overflow {
			l.Problems = append(l.Problems, "sendMessageWithEnd: the inlined control flow is too large to search exhaustively")
		}
	}
	// receiver guards: comparison of the wire length (encoding/binary Uint32 of the header) that
	// rejects on one outcome and whose accepting outcome dominates the payload read
	for _, fn := range []*ssa.Function{rf, rfe} {
		x, root := c12View(c, fn, rwc, enc, dec)
		for _, g := range c01Guards(x, root) {
			wl := x.CanonInt(nil, g.Fr, g.X)
			if !c01IsWireLength(wl.V) || !c01Rejects(c, x, root, g) {
				continue
			}
			// the payload read: a readWithContext whose buffer is sized by the same value
			payload := func(st *c04XState, in ssa.Instruction) bool {
				r, ok := isCallTo(in, rwc.Object())
				if !ok {
					return false
				}
				buf, _ := x.WholeOf(st, st.Fr, r.Common().Args[2])
				ms, ok := buf.V.(*ssa.MakeSlice)
				return ok && x.CanonInt(st, buf.Fr, ms.Len) == wl
			}
			have := false
			root.Walk(func(fr *c04Frame, in ssa.Instruction) {
				if payload(&c04XState{Fr: fr, B: in.Block()}, in) {
					have = true
				}
			})
			if !have || !c01Dominates(x, root, g, payload) {
				continue
			}
			if old, have := l.RecvLimit[fn]; !have || g.Max < old {
				l.RecvLimit[fn], l.RecvPos[fn] = g.Max, g.Pos
			}
		}
		if x.Overflow {
			l.Problems = append(l.Problems, fnName(fn)+": the inlined control flow is too large to search exhaustively")
		}
		if _, have := l.RecvLimit[fn]; !have {
			l.Problems = append(l.Problems, fnName(fn)+": no constant bound on the wire length dominates the payload read")
		}
	}
	l.ok = len(l.RecvLimit) == 2
	return l
}

// c01IsWireLength: v is (a conversion of) the result of an encoding/binary Uint32 call.
func c01IsWireLength(v ssa.Value) bool {
	call, ok := c01Strip(v).(*ssa.Call)
	if !ok {
		return false
	}
	o := calleeObj(call)
	return o != nil && o.Pkg() != nil && o.Pkg().Path() == "encoding/binary" && o.Name() == "Uint32"
}

// C01-R1: whatever the sender accepts fits the receivers' limit.
func c01r1(c *Ctx) {
	const rule = "C01-R1"
	c.Doc(rule, "limit arithmetic extracted from the code: the largest wire length sendMessageWithEnd can emit on an encrypting stream (its size guard on len(data) plus the largest constant overhead of calculateEncryptedSize, or its guard on the encrypted size) is <= the constant of the wire-length guard in ReceiveFrame and in ReceiveFrameWithEnd; both receivers use the same limit; guards are found in the functions themselves, in same-module helpers they call and behind local booleans")
	l := c.c01Extract(rule)
	for i, p := range l.Problems {
		c.Undecided(rule, fmt.Sprintf("extract#%d", i+1), p, token.NoPos)
	}
	if !l.ok {
		c.MinCount(rule, "receiver wire-length guards", len(l.RecvLimit), 2)
		return
	}
	c.Note("%s: overhead addends of calculateEncryptedSize %v (max %d); sender guard on plaintext: %d, on encrypted size: %d (-1 = none); receiver limits: %v",
		rule, l.Addends, l.Overhead, l.PlainCap, l.WireCap, c01recvString(l))
	sendFn := "(*stream.Stream).sendMessageWithEnd"
	maxWire, have := l.SenderMaxWire()
	if !have {
		c.Violate(rule, sendFn+"#size-guard", "no size guard on len(data) or on calculateEncryptedSize(len(data)) rejects before the connection write: the sender accepts frames of any size", token.NoPos)
	} else {
		c.Ok(rule, sendFn+"#size-guard", fmt.Sprintf("sender emits at most %d wire bytes per frame", maxWire), l.PlainPos)
	}
	c.Check(l.Overhead > 0, rule, "(*stream.Stream).calculateEncryptedSize#overhead", fmt.Sprintf("worst-case encryption overhead %d", l.Overhead), "calculateEncryptedSize adds no overhead on any path", token.NoPos)
	var fns []*ssa.Function
	for fn := range l.RecvLimit {
		fns = append(fns, fn)
	}
	sort.Slice(fns, func(i, j int) bool { return fnName(fns[i]) < fnName(fns[j]) })
	for _, fn := range fns {
		r := l.RecvLimit[fn]
		construct := fnName(fn) + "#wire-limit>=sender-max"
		if !have {
			continue
		}
		if maxWire <= r {
			c.Ok(rule, construct, fmt.Sprintf("sender max wire length %d <= receiver limit %d", maxWire, r), l.RecvPos[fn])
			continue
		}
		lo, hi := r-l.Overhead+1, maxWire-l.Overhead
		c.Violate(rule, construct, fmt.Sprintf("on an encrypting stream a plaintext frame of %d..%d bytes is accepted by sendMessageWithEnd (guard on %s) and then rejected by %s: wire length up to %d > receiver limit %d (overhead up to %d)",
			lo, hi, c01guardKind(l), fnName(fn), maxWire, r, l.Overhead), l.RecvPos[fn],
			"sender guard: "+c.Pos(l.PlainPos)+" / "+c.Pos(l.WirePos), "receiver guard: "+c.Pos(l.RecvPos[fn]))
	}
	if len(fns) == 2 {
		c.Check(l.RecvLimit[fns[0]] == l.RecvLimit[fns[1]], rule, "receivers#same-limit", "ReceiveFrame and ReceiveFrameWithEnd apply the same wire-length limit",
			fmt.Sprintf("the two receivers apply different wire-length limits (%d vs %d): a frame one accepts the other rejects", l.RecvLimit[fns[0]], l.RecvLimit[fns[1]]), l.RecvPos[fns[0]])
	}
	c.MinCount(rule, "receiver wire-length guards", len(l.RecvLimit), 2)
}

func c01guardKind(l *c01Limits) string {
	switch {
	case l.PlainCap >= 0 && l.WireCap >= 0:
		return "plaintext and encrypted length"
	case l.WireCap >= 0:
		return "encrypted length"
	}
	return "plaintext length"
}

func c01recvString(l *c01Limits) string {
	var s []string
	for fn, v := range l.RecvLimit {
		s = append(s, fmt.Sprintf("%s=%d", fnName(fn), v))
	}
	sort.Strings(s)
	return fmt.Sprint(s)
}

// ---------------------------------------------------------------------------
// C01-R2: message layer

func c01r2(c *Ctx) {
	const rule = "C01-R2"
	c.Doc(rule, "message layer: every write of caller-sized data into the frame buffer (Message.buffer) has a constant upper bound U established by a comparison on a dominating edge or by the split loop's chunk size; U + worst-case encryption overhead <= the receivers' wire limit and U is accepted by the sender's guard; every such write is preceded by a flush decision on the buffer length. Each exported function of package message is examined with its unexported helpers inlined (a write, a size computation or the flush decision may sit in a helper)")
	l := c.c01Extract(rule)
	bufField := c.needField(rule, "message", "Message", "buffer")
	flush := c.needFn(rule, "message", "(*Message).FlushFrame")
	bb := c.PkgTypes("bytes")
	if bufField == nil || flush == nil || bb == nil {
		if bb == nil {
			c.AnchorMissing(rule, "bytes")
		}
		return
	}
	if !l.ok {
		c.Undecided(rule, "limits", "the stream-side limits could not be extracted (see C01-R1)", token.NoPos)
		return
	}
	bufT := bb.Scope().Lookup("Buffer").Type()
	method := func(n string) types.Object {
		o, _, _ := types.LookupFieldOrMethod(types.NewPointer(bufT), true, bb, n)
		return o
	}
	wWrite, wByte, wString, bLen := method("Write"), method("WriteByte"), method("WriteString"), method("Len")
	if wWrite == nil || wByte == nil || wString == nil || bLen == nil {
		c.AnchorMissing(rule, "bytes.Buffer.Write/WriteByte/WriteString/Len")
		return
	}
	msgPkg := c.PkgTypes("message")
	readFrame := c.needObj(rule, "message", "StreamInterface.ReadFrame")
	isBufWrite := func(in ssa.Instruction) (ssa.CallInstruction, bool) {
		call, ok := isCallTo(in, wWrite, wByte, wString)
		if !ok {
			return nil, false
		}
		args := call.Common().Args
		if len(args) < 2 || !readsField(args[0], bufField) {
			return nil, false
		}
		return call, true
	}
	// which functions are examined on their own: the API (exported), and anything whose callers are not all
	// known; unexported helpers are examined inside the views of their callers
	var pkgFns []*ssa.Function
	for _, fn := range c.FnsOfPkg("message") {
		if fnPkg(fn) == msgPkg && fn.Parent() == nil {
			pkgFns = append(pkgFns, fn)
		}
	}
	allFns := fnSet(pkgFns...)
	isRoot := func(fn *ssa.Function) bool {
		if o := fn.Object(); o == nil || o.Exported() {
			return true
		}
		allow := map[*ssa.Function]bool{}
		for f := range allFns {
			if f != fn {
				allow[f] = true
			}
		}
		return !c.onlyReachableFrom(fn, allow)
	}
	limit := l.MinRecv()
	var maxU int64
	nSites := 0
	for _, fn := range pkgFns {
		// cheap pre-filter: the function or an unexported helper must write into the buffer at all
		x := c04NewX(c.Prog, flush)
		for _, g := range pkgFns {
			if o := g.Object(); o != nil && o.Exported() && g != fn {
				x.Atomic[g] = true
			}
		}
		// helpers of package message are followed whatever they contain (a size check, the flush decision,
		// the write itself); functions of other packages only if they touch the frame buffer (none does)
		x.Relevant = func(in ssa.Instruction) bool {
			if f := in.Parent(); f != nil && fnPkg(f) == msgPkg {
				return true
			}
			_, ok := isBufWrite(in)
			return ok
		}
		root := x.Root(fn)
		var sites []c12Site
		root.Walk(func(fr *c04Frame, in ssa.Instruction) {
			if call, ok := isBufWrite(in); ok {
				sites = append(sites, c12Site{fr, call})
			}
		})
		if len(sites) == 0 || !isRoot(fn) {
			continue
		}
		var guards []c01Guard
		haveGuards := false
		ord := 0
		for _, s := range sites {
			call := s.call
			// decode side: the buffer is filled with frames read from the stream
			fromWire := false
			for _, o := range x.Origins(nil, s.fr, call.Common().Args[1]) {
				if rc, idx := originCall(o.V); rc != nil && idx == 0 && readFrame != nil && types.Object(calleeObj(rc)) == readFrame {
					fromWire = true
				}
			}
			if fromWire {
				continue
			}
			ord++
			nSites++
			construct := fmt.Sprintf("%s#buffer-write%d", fnName(fn), ord)
			var u int64
			var ok bool
			if types.Object(calleeObj(call)) == wByte {
				u, ok = 1, true
			} else {
				if !haveGuards {
					guards, haveGuards = c01Guards(x, root), true
				}
				u, ok = c01XLenUB(x, root, s, call.Common().Args[1], guards)
			}
			if !ok {
				c.Undecided(rule, construct, "no constant upper bound on the number of bytes this call appends to the frame buffer (no dominating comparison of the length against a constant): a value larger than the frame limit would be flushed as one frame", call.Pos())
				continue
			}
			if u > maxU {
				maxU = u
			}
			switch {
			case u+l.Overhead > limit:
				c.Violate(rule, construct, fmt.Sprintf("up to %d bytes are appended to the frame buffer and flushed as one frame; on an encrypting stream the wire length is up to %d > receiver limit %d (values of %d..%d bytes cannot be sent encrypted)",
					u, u+l.Overhead, limit, limit-l.Overhead+1, u), call.Pos())
			case !l.SenderAccepts(u):
				c.Violate(rule, construct, fmt.Sprintf("up to %d bytes are appended to the frame buffer and flushed as one frame, which sendMessageWithEnd rejects on an encrypting stream (plaintext cap %d, encrypted-size cap %d, overhead %d): the message layer does not split the value itself",
					u, l.PlainCap, l.WireCap, l.Overhead), call.Pos())
			default:
				c.Ok(rule, construct, fmt.Sprintf("at most %d bytes per write; %d + overhead %d <= %d", u, u, l.Overhead, limit), call.Pos())
			}
			// flush decision before the write
			decision := func(_ *c04XState, in ssa.Instruction) bool {
				if cl, ok := isCallTo(in, bLen); ok && readsField(cl.Common().Args[0], bufField) {
					return true
				}
				_, ok := isCallTo(in, flush.Object())
				return ok
			}
			if ok, path := x.Blocked(root.Entry(), &c04XQuery{Target: s.at, CutInstr: decision}); ok {
				c.Ok(rule, construct+"/flush-decision", "every path to it passes a test of the buffer length or a FlushFrame call", call.Pos())
			} else {
				c.Violate(rule, construct+"/flush-decision", "reachable without passing a test of the buffer length or a FlushFrame call", call.Pos(), c.describePath(path)...)
			}
		}
		c12Overflow(c, rule, x, fn)
	}
	c.Note("%s: largest single write into the frame buffer: %d bytes", rule, maxU)
	c.MinCount(rule, "encode-side writes into Message.buffer", nSites, 3)
}

// c01XLenUB bounds the length of the slice/string value arg written at site s of the view: from its shape
// (followed through the frames it is passed along), or from a constant comparison of a value >= its length
// whose accepting outcome every path to the site passes.
func c01XLenUB(x *c04X, root *c04Frame, s c12Site, arg ssa.Value, guards []c01Guard) (int64, bool) {
	best, have := int64(0), false
	take := func(k int64, ok bool) {
		if ok && (!have || k < best) {
			best, have = k, true
		}
	}
	// shape, in the frame of the write and in every caller frame the value is handed down from
	cur := c04XV{s.fr, arg}
	at := s.call.Block()
	for i := 0; i < 6; i++ {
		take(c01LenUB(cur.Fr.Fn, cur.V, at))
		nx, ok := x.resolve1(nil, cur.Fr, cur.V)
		if !ok {
			break
		}
		if nx.Fr == cur.Fr.Parent && cur.Fr.Call != nil {
			at = cur.Fr.Call.Block()
		} else if nx.Fr != cur.Fr {
			break // into a callee (value helper): its shape is judged at its return
		}
		cur = nx
	}
	// guards
	base := c01Base{v: x.Canon(nil, s.fr, arg), lenOf: true}
	for _, g := range guards {
		ts, ok := c01Terms(x, g.Fr, g.X, base, 0)
		if !ok {
			continue
		}
		geq := true
		for _, t := range ts {
			if !t.par || t.c < 0 {
				geq = false
			}
		}
		if !geq || (have && g.Max >= best) {
			continue
		}
		if c01Dominates(x, root, g, s.at) {
			take(g.Max, true)
		}
	}
	return best, have
}

// ---------------------------------------------------------------------------
// C01-R3: header symmetry

func c01r3(c *Ctx) {
	const rule = "C01-R3"
	c.Doc(rule, "header symmetry: the writer stores the end-flag parameter at header[0] and binary.BigEndian.PutUint32 into header[1:5] of a NormalHeaderSize(=5)-byte array on every path to the connection write, and copies it to frame[:5]; both receivers fill a 5-byte buffer from the wire, take binary.BigEndian.Uint32 of [1:5] as the length that sizes the payload read; no other byte order touches a header; same-module helpers of the three functions are followed")
	send := c.needFn(rule, "stream", "(*Stream).sendMessageWithEnd")
	wwc := c.needFn(rule, "stream", "(*Stream).writeWithContext")
	rwc := c.needFn(rule, "stream", "(*Stream).readWithContext")
	enc := c.needFn(rule, "stream", "(*Stream).encryptDataWithAAD")
	dec := c.needFn(rule, "stream", "(*Stream).decryptDataWithAAD")
	put := c.c01BinaryMethod(rule, "BigEndian", "PutUint32")
	get := c.c01BinaryMethod(rule, "BigEndian", "Uint32")
	hs, okH := c.c01ConstOf(rule, "stream", "NormalHeaderSize")
	if send == nil || wwc == nil || rwc == nil || enc == nil || dec == nil || put == nil || get == nil || !okH {
		return
	}
	c.Check(hs == 5, rule, "stream.NormalHeaderSize", "header is 5 bytes (flag + 32-bit length)", fmt.Sprintf("NormalHeaderSize is %d, the CEDAR frame header is 5 bytes", hs), token.NoPos)
	isBinary := func(in ssa.Instruction) (ssa.CallInstruction, bool) {
		if call, ok := in.(ssa.CallInstruction); ok {
			if o := calleeObj(call); o != nil && o.Pkg() != nil && o.Pkg().Path() == "encoding/binary" {
				return call, true
			}
		}
		return nil, false
	}
	view := func(fn *ssa.Function) (*c04X, *c04Frame) {
		x, root := c12View(c, fn, wwc, rwc, enc, dec)
		x.Relevant = func(in ssa.Instruction) bool {
			if _, ok := isBinary(in); ok {
				return true
			}
			if _, ok := isCallTo(in, wwc.Object(), rwc.Object()); ok {
				return true
			}
			switch t := in.(type) {
			case *ssa.Store:
				_, isIA := t.Addr.(*ssa.IndexAddr)
				return isIA
			case *ssa.Call:
				_, isCopy := c01IsBuiltin(t, "copy")
				return isCopy
			}
			return false
		}
		return x, root
	}
	n := 0
	// --- writer
	{
		x, root := view(send)
		// slice15 reports whether v is X[1:5] and returns the root of X
		slice15 := func(fr *c04Frame, v ssa.Value) (c04XV, bool) {
			cv := x.Canon(nil, fr, v)
			sl, ok := cv.V.(*ssa.Slice)
			if !ok || sl.Low == nil || sl.High == nil {
				return c04XV{}, false
			}
			lo, ok1 := x.constOf(nil, cv.Fr, sl.Low)
			hi, ok2 := x.constOf(nil, cv.Fr, sl.High)
			r, _ := x.WholeOf(nil, cv.Fr, sl.X)
			return r, ok1 && ok2 && lo == 1 && hi == hs
		}
		end := c01Param(send, "end", 3)
		headers := map[c04XV]bool{}
		putSites := map[ssa.Instruction]bool{}
		root.Walk(func(fr *c04Frame, in ssa.Instruction) {
			call, ok := isBinary(in)
			if !ok {
				return
			}
			n++
			construct := fmt.Sprintf("%s#header-length-encoding%d", fnName(send), n)
			if types.Object(calleeObj(call)) != types.Object(put) {
				c.Violate(rule, construct, "the frame header is written with "+calleeObj(call).FullName()+", not binary.BigEndian.PutUint32: the receivers parse a big-endian length", call.Pos())
				return
			}
			args := callArgs(call)
			r, ok := slice15(fr, args[len(args)-2])
			if !ok || c04BufLen(r.V) != hs {
				c.Violate(rule, construct, "the length is not written to bytes [1:5] of a 5-byte header", call.Pos())
				return
			}
			c.Ok(rule, construct, "big-endian length at header[1:5]", call.Pos())
			headers[r] = true
			putSites[in] = true
		})
		isPut := func(_ *c04XState, in ssa.Instruction) bool { return putSites[in] }
		// stores to index 0 of a header
		flagStore := func(st *c04XState, in ssa.Instruction) (isStore, good bool) {
			s, ok := in.(*ssa.Store)
			if !ok {
				return false, false
			}
			ia, ok := s.Addr.(*ssa.IndexAddr)
			if !ok {
				return false, false
			}
			r, _ := x.WholeOf(st, st.Fr, ia.X)
			if !headers[r] {
				return false, false
			}
			if idx, isC := x.constOf(st, st.Fr, ia.Index); !isC || idx != 0 {
				return false, false
			}
			return true, end != nil && x.Canon(st, st.Fr, s.Val) == (c04XV{root, end})
		}
		root.Walk(func(fr *c04Frame, in ssa.Instruction) {
			if is, good := flagStore(&c04XState{Fr: fr, B: in.Block()}, in); is && !good {
				c.Violate(rule, fnName(send)+"#header-flag", "header[0] is assigned something other than the end-flag parameter", in.Pos())
			}
		})
		isFlag := func(st *c04XState, in ssa.Instruction) bool { _, good := flagStore(st, in); return good }
		for _, w := range c12Sites(root, func(call ssa.CallInstruction) bool { return calleeFn(call) == wwc }) {
			for _, k := range []struct {
				key, what string
				cut       func(*c04XState, ssa.Instruction) bool
			}{{"#write<-length", "binary.BigEndian.PutUint32 into header[1:5]", isPut}, {"#write<-flag", "a store of the end flag to header[0]", isFlag}} {
				if ok, path := x.Blocked(root.Entry(), &c04XQuery{Target: w.at, CutInstr: k.cut}); ok {
					c.Ok(rule, fnName(send)+k.key, "every path to it passes "+k.what, w.call.Pos())
				} else {
					c.Violate(rule, fnName(send)+k.key, "reachable without passing "+k.what, w.call.Pos(), c.describePath(path)...)
				}
			}
			// the frame starts with the header
			okAll := true
			for _, o := range x.Origins(nil, w.fr, w.call.Common().Args[2]) {
				found := false
				root.Walk(func(fr *c04Frame, in ssa.Instruction) {
					cp, ok := in.(*ssa.Call)
					if !ok {
						return
					}
					if _, isCopy := c01IsBuiltin(cp, "copy"); !isCopy {
						return
					}
					dst, ok := cp.Call.Args[0].(*ssa.Slice)
					if !ok || dst.High == nil {
						return
					}
					same := false
					for _, d := range x.Origins(nil, fr, dst.X) {
						if d == o {
							same = true
						}
					}
					hi, isC := x.constOf(nil, fr, dst.High)
					lo := int64(0)
					if dst.Low != nil {
						lo, _ = x.constOf(nil, fr, dst.Low)
					}
					if !same || !isC || hi != hs || lo != 0 {
						return
					}
					if r, _ := x.WholeOf(nil, fr, cp.Call.Args[1]); headers[r] {
						found = true
					}
				})
				if !found {
					okAll = false
				}
			}
			c.Check(okAll, rule, fnName(send)+"#frame[:5]<-header", "every frame buffer handed to the connection write starts with a copy of the header", "a frame buffer handed to the connection write does not start with a copy of the 5-byte header", w.call.Pos())
		}
		c12Overflow(c, rule, x, send)
	}
	// --- receivers
	for _, name := range []string{"(*Stream).ReceiveFrame", "(*Stream).ReceiveFrameWithEnd"} {
		fn := c.needFn(rule, "stream", name)
		if fn == nil {
			continue
		}
		x, root := view(fn)
		reads := c12Sites(root, func(call ssa.CallInstruction) bool { return calleeFn(call) == rwc })
		filledBuf := map[c04XV]bool{}
		for _, r := range reads {
			buf, _ := x.WholeOf(nil, r.fr, r.call.Common().Args[2])
			filledBuf[buf] = true
		}
		var lens []c04XV
		root.Walk(func(fr *c04Frame, in ssa.Instruction) {
			call, ok := isBinary(in)
			if !ok {
				return
			}
			n++
			construct := fnName(fn) + "#header-length-decoding"
			if types.Object(calleeObj(call)) != types.Object(get) {
				c.Violate(rule, construct, "the frame header is parsed with "+calleeObj(call).FullName()+", not binary.BigEndian.Uint32: the sender writes a big-endian length", call.Pos())
				return
			}
			args := callArgs(call)
			good := false
			var buf c04XV
			cv := x.Canon(nil, fr, args[len(args)-1])
			if sl, isSl := cv.V.(*ssa.Slice); isSl && sl.Low != nil && sl.High != nil {
				lo, ok1 := x.constOf(nil, cv.Fr, sl.Low)
				hi, ok2 := x.constOf(nil, cv.Fr, sl.High)
				buf, _ = x.WholeOf(nil, cv.Fr, sl.X)
				good = ok1 && ok2 && lo == 1 && hi == hs
			}
			if !good || c04BufLen(buf.V) != hs || !filledBuf[buf] {
				c.Violate(rule, construct, "the length is not taken from bytes [1:5] of the 5-byte buffer read from the wire", call.Pos())
				return
			}
			c.Ok(rule, construct, "big-endian length from header[1:5] of the buffer read from the wire", call.Pos())
			lens = append(lens, c04XV{fr, call.Value()})
		})
		// the payload read is sized by that length
		sized := 0
		for _, r := range reads {
			buf, _ := x.WholeOf(nil, r.fr, r.call.Common().Args[2])
			ms, ok := buf.V.(*ssa.MakeSlice)
			if !ok {
				continue
			}
			if _, isC := constInt(ms.Len); isC {
				continue // the fixed-size header buffer
			}
			sized++
			good := false
			sz := x.CanonInt(nil, buf.Fr, ms.Len)
			for _, lv := range lens {
				if x.CanonInt(nil, lv.Fr, lv.V) == sz {
					good = true
				}
			}
			c.Check(good, rule, fnName(fn)+"#payload-size<-header-length", "the payload read is sized by the parsed header length", "the payload read is not sized by the length parsed from the header", r.call.Pos())
		}
		if sized == 0 {
			c.Undecided(rule, fnName(fn)+"#payload-size<-header-length", "no payload read into a make([]byte, n) buffer found", fn.Pos())
		}
	}
	c.MinCount(rule, "encoding/binary calls on frame headers", n, 3)
}

// ---------------------------------------------------------------------------
// C01-R4: end-flag discipline

// c01ConstArgs resolves argument idx of call (in fn) to the constants it can be: the argument itself, or -
// when it is a parameter of an unexported helper - the arguments of all the helper's call sites.
func c01ConstArgs(p *Prog, fn *ssa.Function, call ssa.CallInstruction, idx int, depth int) (vals []int64, ok bool) {
	args := call.Common().Args
	if idx >= len(args) || depth > 3 {
		return nil, false
	}
	v := args[idx]
	if k, isC := constInt(v); isC {
		return []int64{k}, true
	}
	if b, isB := constBool(v); isB {
		if b {
			return []int64{1}, true
		}
		return []int64{0}, true
	}
	par, isPar := v.(*ssa.Parameter)
	if !isPar {
		return nil, false
	}
	top := fn
	if o := top.Object(); o == nil || o.Exported() || top.Parent() != nil {
		return nil, false
	}
	pi := -1
	for i, q := range top.Params {
		if q == par {
			pi = i
		}
	}
	sites := p.callSites(top.Object())
	if pi < 0 || len(sites) == 0 {
		return nil, false
	}
	for _, cs := range sites {
		sub, ok := c01ConstArgs(p, cs.Fn, cs.Call, pi, depth+1)
		if !ok {
			return nil, false
		}
		vals = append(vals, sub...)
	}
	return vals, true
}

func c01r4(c *Ctx) {
	const rule = "C01-R4"
	c.Doc(rule, "end-flag discipline: EndFlagPartial=0/EndFlagComplete=1; EndMessage and SendMessage pass the complete flag, flushPartialFrame and SendPartialMessage the partial flag to sendMessageWithEnd (directly or through helpers only they call); WriteFrame/FlushFrame/FinishMessage map isEOM accordingly; ReceiveCompleteMessage returns only on the complete flag and readNextFrame/ReceiveCompleteMessage read another frame exactly when the flag is partial; ReadFrame reports flag != 0; ensureData stores it and stops on it; same-module helpers of these functions are followed")
	send := c.needFn(rule, "stream", "(*Stream).sendMessageWithEnd")
	rfe := c.needFn(rule, "stream", "(*Stream).ReceiveFrameWithEnd")
	partial, ok1 := c.c01ConstOf(rule, "stream", "EndFlagPartial")
	complete, ok2 := c.c01ConstOf(rule, "stream", "EndFlagComplete")
	if send == nil || rfe == nil || !ok1 || !ok2 {
		return
	}
	c.Check(partial == 0 && complete == 1, rule, "stream.EndFlag*", "partial=0, complete=1", fmt.Sprintf("EndFlagPartial=%d EndFlagComplete=%d, the wire format says 0 and 1", partial, complete), token.NoPos)
	// senders of flags
	want := map[string]int64{
		"(*stream.Stream).SendMessage":        complete,
		"(*stream.Stream).EndMessage":         complete,
		"(*stream.Stream).SendPartialMessage": partial,
		"(*stream.Stream).flushPartialFrame":  partial,
	}
	named := map[*ssa.Function]bool{}
	for _, fn := range c.FnsOfPkg("stream") {
		if _, ok := want[fnName(fn)]; ok {
			named[fn] = true
		}
	}
	n := 0
	covered := map[ssa.Instruction]bool{}
	var namedFns []*ssa.Function
	for fn := range named {
		namedFns = append(namedFns, fn)
	}
	sort.Slice(namedFns, func(i, j int) bool { return fnName(namedFns[i]) < fnName(namedFns[j]) })
	for _, fn := range namedFns {
		x, root := c12View(c, fn, send)
		w := want[fnName(fn)]
		for _, s := range c12Sites(root, func(call ssa.CallInstruction) bool { return calleeFn(call) == send }) {
			n++
			covered[s.call.(ssa.Instruction)] = true
			args := s.call.Common().Args
			v, isC := x.constOf(nil, s.fr, args[len(args)-1])
			construct := fnName(fn) + "#flag-arg"
			if !isC {
				c.Undecided(rule, construct, "the end flag passed to sendMessageWithEnd is not a constant", s.call.Pos())
				continue
			}
			c.Check(v == w, rule, construct, fmt.Sprintf("passes end flag %d", v), fmt.Sprintf("passes end flag %d, must pass %d: message boundaries are lost", v, w), s.call.Pos())
		}
	}
	wf := c.needFn(rule, "stream", "(*Stream).WriteFrame")
	for _, cs := range c.callSites(send.Object()) {
		if covered[cs.Call.(ssa.Instruction)] {
			continue
		}
		n++
		if t := topFn(cs.Fn); wf != nil && (t == wf || c.onlyReachableFrom(t, fnSet(wf))) {
			continue // WriteFrame (with the wrappers inlined): the flag is judged against isEOM below
		}
		c.Undecided(rule, fnName(topFn(cs.Fn))+"#flag-arg", "unknown caller of sendMessageWithEnd: cannot tell which end flag it must pass", cs.Call.Pos())
	}
	c.MinCount(rule, "sendMessageWithEnd call sites", n, 2)
	// WriteFrame: isEOM selects SendMessage / SendPartialMessage
	sm := c.needFn(rule, "stream", "(*Stream).SendMessage")
	spm := c.needFn(rule, "stream", "(*Stream).SendPartialMessage")
	if wf != nil && sm != nil && spm != nil {
		x, root := c12View(c, wf, sm, spm, send)
		eom := c04XV{root, c01Param(wf, "isEOM", 3)}
		m := 0
		for _, s := range c12Sites(root, func(call ssa.CallInstruction) bool {
			g := calleeFn(call)
			return g == sm || g == spm || g == send
		}) {
			call := s.call
			m++
			isComplete := calleeFn(call) == sm
			if calleeFn(call) == send {
				args := call.Common().Args
				v, isC := x.constOf(nil, s.fr, args[len(args)-1])
				if !isC {
					c.Undecided(rule, fnName(wf)+"#isEOM->flag", "non-constant flag", call.Pos())
					continue
				}
				isComplete = v == complete
			}
			dom, _ := x.Blocked(root.Entry(), &c04XQuery{Target: s.at, CutCond: func(st *c04XState, at c04XAtom, truth bool) bool {
				return at.Op == token.ILLEGAL && x.Canon(st, at.Fr, at.X) == eom && truth == isComplete
			}})
			c.Check(dom, rule, fmt.Sprintf("%s#isEOM->%s", fnName(wf), calleeFn(call).Name()), "the complete/partial sender is chosen by isEOM", "the sender chosen does not match isEOM (complete flag must be sent iff isEOM)", call.Pos())
		}
		c12Overflow(c, rule, x, wf)
		c.MinCount(rule, "WriteFrame sends", m, 2)
	}
	// message layer: FlushFrame forwards its isEOM; FinishMessage flushes with true, everything else with false
	flush := c.needFn(rule, "message", "(*Message).FlushFrame")
	finish := c.needFn(rule, "message", "(*Message).FinishMessage")
	wfI := c.needObj(rule, "message", "StreamInterface.WriteFrame")
	if flush != nil && finish != nil && wfI != nil {
		x, root := c12View(c, flush)
		eom := c04XV{root, c01Param(flush, "isEOM", 2)}
		k := 0
		for _, s := range c12Sites(root, func(call ssa.CallInstruction) bool { _, ok := isCallTo(call, wfI); return ok }) {
			k++
			args := s.call.Common().Args
			c.Check(len(args) == 3 && x.Canon(nil, s.fr, args[2]) == eom, rule, fnName(flush)+"#isEOM-forwarded", "FlushFrame forwards isEOM to WriteFrame", "FlushFrame does not forward its isEOM argument to WriteFrame", s.call.Pos())
		}
		c.MinCount(rule, "WriteFrame invokes in FlushFrame", k, 1)
		k = 0
		perCaller := map[*ssa.Function]int{}
		finishOnly := fnSet(finish)
		for _, cs := range c.callSites(flush.Object()) {
			if !libPkg(fnPkg(cs.Fn).Path()) {
				continue
			}
			k++
			args := cs.Call.Common().Args
			caller := topFn(cs.Fn)
			perCaller[caller]++
			construct := fmt.Sprintf("%s#FlushFrame-eom%d", fnName(caller), perCaller[caller])
			vals, isC := c01ConstArgs(c.Prog, cs.Fn, cs.Call, len(args)-1, 0)
			if !isC {
				c.Undecided(rule, construct, "non-constant isEOM passed to FlushFrame", cs.Call.Pos())
				continue
			}
			allTrue, allFalse := true, true
			for _, v := range vals {
				if v == 0 {
					allTrue = false
				} else {
					allFalse = false
				}
			}
			if caller == finish || c.onlyReachableFrom(caller, finishOnly) {
				c.Check(allTrue, rule, construct, "FinishMessage flushes with isEOM=true", "FinishMessage flushes without the end-of-message flag: the peer waits for more frames", cs.Call.Pos())
			} else {
				c.Check(allFalse, rule, construct, "intermediate flush with isEOM=false", "an intermediate flush sets the end-of-message flag: the message is cut at this point", cs.Call.Pos())
			}
		}
		c.MinCount(rule, "FlushFrame call sites", k, 2)
	}
	// receivers of flags: outcome of a comparison of the flag with one of the two constants:
	// +1 = "more frames follow" (flag == partial / flag != complete), -1 = "stop", 0 = not such a test.
	// cedar senders emit only the two flag values, so "== partial" and "!= complete" are the same decision.
	flagTest := func(x *c04X, flag c04XV, st *c04XState, at c04XAtom, truth bool) int {
		if at.Op != token.EQL && at.Op != token.NEQ {
			return 0
		}
		var other ssa.Value
		if x.Canon(st, at.Fr, stripConv(at.X)) == flag {
			other = at.Y
		} else if x.Canon(st, at.Fr, stripConv(at.Y)) == flag {
			other = at.X
		} else {
			return 0
		}
		cv, isC := x.constOf(st, at.Fr, other)
		if !isC || (cv != partial && cv != complete) {
			return 0
		}
		isEq := (at.Op == token.EQL) == truth
		more := (cv == partial) == isEq
		if more {
			return 1
		}
		return -1
	}
	rcm := c.needFn(rule, "stream", "(*Stream).ReceiveCompleteMessage")
	rnf := c.needFn(rule, "stream", "(*Stream).readNextFrame")
	for _, fn := range []*ssa.Function{rcm, rnf} {
		if fn == nil {
			continue
		}
		x, root := c12View(c, fn, rfe)
		calls := c12Sites(root, func(call ssa.CallInstruction) bool { return calleeFn(call) == rfe })
		if len(calls) != 1 {
			c.Undecided(rule, fnName(fn)+"#frames", fmt.Sprintf("%d ReceiveFrameWithEnd calls, expected one", len(calls)), fn.Pos())
			continue
		}
		site := calls[0]
		fv := extractN(site.call.Value(), 1)
		if fv == nil {
			c.Violate(rule, fnName(fn)+"#endflag", "the end flag of the received frame is ignored", site.call.Pos())
			continue
		}
		flag := c04XV{site.fr, fv}
		moreC := func(st *c04XState, at c04XAtom, truth bool) bool { return flagTest(x, flag, st, at, truth) == 1 }
		stopC := func(st *c04XState, at c04XAtom, truth bool) bool { return flagTest(x, flag, st, at, truth) == -1 }
		// "more" = another frame is read: the ReceiveFrameWithEnd call again (loop) or a self call (recursion)
		readsMore := func(st *c04XState, in ssa.Instruction) bool {
			if site.at(st, in) {
				return true
			}
			call, ok := in.(ssa.CallInstruction)
			return ok && calleeFn(call) == fn
		}
		success := c12SuccessTarget(c, x, fn)
		// (a) on a continue edge no success return is reached without reading another frame first
		tested := false
		x.Search(root.Entry(), &c04XQuery{MarkCond: func(st *c04XState, at c04XAtom, truth bool) bool {
			if flagTest(x, flag, st, at, truth) != 0 {
				tested = true
			}
			return false
		}})
		okA, wit := x.Blocked(root.Entry(), &c04XQuery{Target: success, NeedMark: true, MarkCond: moreC, CutInstr: readsMore, CutAfterMark: true})
		c.Check(okA && tested, rule, fnName(fn)+"#partial=>read-more", "after a partial frame another frame is always read", "after a frame with the partial flag the function can return success without reading the rest of the message (or never tests the flag)", site.call.Pos(), c.describePath(wit)...)
		// (b) a success return is only reached over a stop edge
		var tg []RetPoint
		for _, t := range c.successTargets(fn) {
			// "return self(...)" delegates the decision to the next activation
			if call, _ := originCall(t.Ret.Results[len(t.Ret.Results)-1]); call != nil && calleeFn(call) == fn {
				continue
			}
			tg = append(tg, t)
		}
		byOrd := map[int][]RetPoint{}
		var ords []int
		for _, t := range tg {
			o := retOrdinal(fn, t.Ret)
			if _, ok := byOrd[o]; !ok {
				ords = append(ords, o)
			}
			byOrd[o] = append(byOrd[o], t)
		}
		sort.Ints(ords)
		for _, o := range ords {
			ts := byOrd[o]
			construct := fmt.Sprintf("%s#return%d", fnName(fn), o)
			isRet := func(st *c04XState, in ssa.Instruction) bool { _, ok := x.SuccessReturn(st, in, ts); return ok }
			if ok, path := x.Blocked(root.Entry(), &c04XQuery{Target: isRet, CutCond: stopC}); ok {
				c.Ok(rule, construct, "every path to this return passes an edge on which the flag is complete / not partial", ts[0].Ret.Pos())
			} else {
				c.Violate(rule, construct, "a path reaches this return without passing an edge on which the flag is complete / not partial", ts[0].Ret.Pos(), c.describePath(path)...)
			}
		}
		// (c) no further frame is read after a stop edge
		okC := x.Search(root.Entry(), &c04XQuery{Target: readsMore, NeedMark: true, MarkCond: stopC}) == nil
		c.Check(okC && tested, rule, fnName(fn)+"#complete=>stop", "no further frame is read after the complete flag", "a further frame is read although the flag said the message is complete: the next message is swallowed", site.call.Pos())
		c12Overflow(c, rule, x, fn)
	}
	// ReadFrame: result #1 is flag != partial
	if rfr := c.needFn(rule, "stream", "(*Stream).ReadFrame"); rfr != nil {
		x, root := c12View(c, rfr, rfe)
		calls := c12Sites(root, func(call ssa.CallInstruction) bool { return calleeFn(call) == rfe })
		k := 0
		for _, t := range c.successTargets(rfr) {
			k++
			good := false
			if len(calls) == 1 {
				if fv := extractN(calls[0].call.Value(), 1); fv != nil {
					flag := c04XV{calls[0].fr, fv}
					rv := x.Canon(nil, root, t.Ret.Results[1])
					if bo, ok := rv.V.(*ssa.BinOp); ok {
						cv, isC := x.constOf(nil, rv.Fr, bo.Y)
						good = x.Canon(nil, rv.Fr, stripConv(bo.X)) == flag && isC && ((bo.Op == token.NEQ && cv == partial) || (bo.Op == token.EQL && cv == complete))
					}
				}
			}
			c.Check(good, rule, fnName(rfr)+"#isEOM-result", "isEOM is computed from the end flag of the frame just read", "isEOM is not (flag != EndFlagPartial) of the frame just read", t.Ret.Pos())
		}
		c.MinCount(rule, "ReadFrame success returns", k, 1)
	}
	// ensureData: stores the isEOM of the frame read and does not read past it
	ed := c.needFn(rule, "message", "(*Message).ensureData")
	isEOMf := c.needField(rule, "message", "Message", "isEOM")
	rfI := c.needObj(rule, "message", "StreamInterface.ReadFrame")
	if ed != nil && isEOMf != nil && rfI != nil {
		x, root := c12View(c, ed)
		k := 0
		for _, s := range c12Sites(root, func(call ssa.CallInstruction) bool { _, ok := isCallTo(call, rfI); return ok }) {
			k++
			fv := extractN(s.call.Value(), 1)
			stored := false
			root.Walk(func(fr *c04Frame, in ssa.Instruction) {
				if storeHit(isEOMf)(in) && fv != nil && x.Canon(nil, fr, in.(*ssa.Store).Val) == (c04XV{s.fr, fv}) {
					stored = true
				}
			})
			c.Check(stored, rule, fnName(ed)+"#isEOM-stored", "the end-of-message flag of each frame is recorded", "the end-of-message flag returned by ReadFrame is not stored in Message.isEOM", s.call.Pos())
			if ok, path := x.Blocked(root.Entry(), &c04XQuery{Target: s.at, CutCond: func(_ *c04XState, at c04XAtom, truth bool) bool {
				on, isT := c04AtomField(at, isEOMf, truth)
				return isT && !on
			}}); ok {
				c.Ok(rule, fnName(ed)+"#no-read-past-EOM", "every path to it passes the edge on which isEOM is false", s.call.Pos())
			} else {
				c.Violate(rule, fnName(ed)+"#no-read-past-EOM", "reachable without passing the edge on which isEOM is false", s.call.Pos(), c.describePath(path)...)
			}
		}
		c12Overflow(c, rule, x, ed)
		c.MinCount(rule, "ReadFrame invokes in ensureData", k, 1)
	}
}
