package main

import (
	"go/ast"
	"go/constant"
	"go/token"
	"go/types"
	"strconv"

	"golang.org/x/tools/go/ssa"
)

// Helpers of the C14 rules (typed-value byte layout, refill before read). Names are prefixed c14.

// c14env holds the resolved anchors shared by the C14 rules.
type c14env struct {
	ok       bool
	pkg      *types.Package
	msgBuf   *types.Var // Message.buffer
	msgEOM   *types.Var // Message.isEOM
	msgDir   *types.Var // Message.direction
	msgStrm  *types.Var // Message.stream
	ensure   *ssa.Function
	putInt   *ssa.Function
	getInt   *ssa.Function
	putU64   *types.Func // encoding/binary.bigEndian.PutUint64
	getU64   *types.Func // encoding/binary.bigEndian.Uint64
	readFull *types.Func // io.ReadFull
	isEnc    *types.Func // StreamInterface.IsEncrypted (abstract)
	readFrm  *types.Func // StreamInterface.ReadFrame (abstract)
	bufNamed types.Type  // *bytes.Buffer
}

// c14method resolves method name of the type of package-level object obj in pkg (e.g. binary.BigEndian).
func (c *Ctx) c14method(rule, pkg, obj, name string) *types.Func {
	tp := c.PkgTypes(pkg)
	if tp == nil {
		c.AnchorMissing(rule, pkg)
		return nil
	}
	o := tp.Scope().Lookup(obj)
	if o == nil {
		c.AnchorMissing(rule, pkg+"."+obj)
		return nil
	}
	t := o.Type()
	if _, isTN := o.(*types.TypeName); isTN {
		if _, isIface := t.Underlying().(*types.Interface); !isIface {
			t = types.NewPointer(t)
		}
	}
	m, _, _ := types.LookupFieldOrMethod(t, true, tp, name)
	f, _ := m.(*types.Func)
	if f == nil {
		c.AnchorMissing(rule, pkg+"."+obj+"."+name)
	}
	return f
}

func (c *Ctx) c14pkgFunc(rule, pkg, name string) *types.Func {
	tp := c.PkgTypes(pkg)
	if tp == nil {
		c.AnchorMissing(rule, pkg)
		return nil
	}
	f, _ := tp.Scope().Lookup(name).(*types.Func)
	if f == nil {
		c.AnchorMissing(rule, pkg+"."+name)
	}
	return f
}

func (c *Ctx) c14load(rule string) *c14env {
	e := &c14env{}
	e.pkg = c.PkgTypes("message")
	e.msgBuf = c.needField(rule, "message", "Message", "buffer")
	e.msgEOM = c.needField(rule, "message", "Message", "isEOM")
	e.msgDir = c.needField(rule, "message", "Message", "direction")
	e.msgStrm = c.needField(rule, "message", "Message", "stream")
	e.ensure = c.needFn(rule, "message", "(*Message).ensureData")
	e.putInt = c.needFn(rule, "message", "(*Message).PutInt")
	e.getInt = c.needFn(rule, "message", "(*Message).GetInt")
	e.putU64 = c.c14method(rule, "encoding/binary", "BigEndian", "PutUint64")
	e.getU64 = c.c14method(rule, "encoding/binary", "BigEndian", "Uint64")
	e.readFull = c.c14pkgFunc(rule, "io", "ReadFull")
	e.isEnc = c.c14method(rule, "message", "StreamInterface", "IsEncrypted")
	e.readFrm = c.c14method(rule, "message", "StreamInterface", "ReadFrame")
	e.ok = e.pkg != nil && e.msgBuf != nil && e.msgEOM != nil && e.msgDir != nil && e.msgStrm != nil && e.ensure != nil &&
		e.putInt != nil && e.getInt != nil && e.putU64 != nil && e.getU64 != nil && e.readFull != nil && e.isEnc != nil && e.readFrm != nil
	return e
}

// c14loadOf: v (through interface/type conversions) is a load of field f; returns the base pointer.
func c14loadOf(v ssa.Value, f *types.Var) (ssa.Value, bool) {
	base, g, ok := fieldRead(stripConv(v))
	if ok && g == f {
		return base, true
	}
	return nil, false
}

// c14stripNum removes numeric conversions (used to compare "the same SSA value" across int/int32 casts).
func c14stripNum(v ssa.Value) ssa.Value {
	for {
		switch x := v.(type) {
		case *ssa.Convert:
			v = x.X
		case *ssa.ChangeType:
			v = x.X
		default:
			return v
		}
	}
}

// c14sliceLen describes the byte slice v: its backing root and its length, either a constant n
// (isConst) or an SSA value lenV (make([]byte, lenV)). full=false when v is a proper sub-slice or of unknown shape.
func c14sliceLen(v ssa.Value) (root ssa.Value, n int64, lenV ssa.Value, isConst, full bool) {
	v = stripConv(v)
	switch x := v.(type) {
	case *ssa.MakeSlice:
		if k, ok := constInt(x.Len); ok {
			return x, k, nil, true, true
		}
		return x, 0, c14stripNum(x.Len), false, true
	case *ssa.Slice:
		al, ok := x.X.(*ssa.Alloc)
		if !ok {
			return nil, 0, nil, false, false
		}
		pt, ok := al.Type().Underlying().(*types.Pointer)
		if !ok {
			return nil, 0, nil, false, false
		}
		arr, ok := pt.Elem().Underlying().(*types.Array)
		if !ok {
			return nil, 0, nil, false, false
		}
		if x.Low != nil {
			if k, ok := constInt(x.Low); !ok || k != 0 {
				return al, 0, nil, false, false
			}
		}
		if x.High != nil {
			if k, ok := constInt(x.High); !ok || k != arr.Len() {
				return al, 0, nil, false, false
			}
		}
		return al, arr.Len(), nil, true, true
	}
	return nil, 0, nil, false, false
}

// c14bufUse is one use of the *bytes.Buffer loaded from Message.buffer.
type c14bufUse struct {
	Fn     *ssa.Function
	Call   ssa.CallInstruction
	Base   ssa.Value // the *Message the buffer was loaded from
	Method string    // bytes.Buffer method name, or "io.ReadFull"
	Kind   string    // "consume" | "write" | "peek" | "reset"
	Arg    ssa.Value // the byte slice / count argument (nil if none)
}

var c14bufKinds = map[string]string{
	"Read": "consume", "ReadByte": "consume", "ReadBytes": "consume", "ReadRune": "consume", "ReadString": "consume",
	"Next": "consume", "WriteTo": "consume", "UnreadByte": "consume", "UnreadRune": "consume", "Truncate": "consume",
	"Write": "write", "WriteByte": "write", "WriteRune": "write", "WriteString": "write", "ReadFrom": "write", "Grow": "write",
	"Len": "peek", "Cap": "peek", "Bytes": "peek", "String": "peek", "Available": "peek", "AvailableBuffer": "peek",
	"Reset": "reset",
}

// c14bufUses enumerates every use of a value loaded from Message.buffer in fn. Uses that cannot be
// classified (the buffer escapes into an unknown call, is stored, compared, ...) are returned in unknown.
func (e *c14env) c14bufUses(fn *ssa.Function) (uses []c14bufUse, unknown []ssa.Instruction) {
	allInstrs(fn, func(_ *ssa.BasicBlock, _ int, in ssa.Instruction) {
		ld, ok := in.(*ssa.UnOp)
		if !ok || ld.Op != token.MUL {
			return
		}
		base, ok := c14loadOf(ld, e.msgBuf)
		if !ok {
			return
		}
		var visit func(v ssa.Value)
		visit = func(v ssa.Value) {
			for _, r := range *v.Referrers() {
				switch u := r.(type) {
				case *ssa.DebugRef:
				case *ssa.MakeInterface:
					visit(u)
				case *ssa.ChangeInterface:
					visit(u)
				case ssa.CallInstruction:
					cc := u.Common()
					o := calleeObj(u)
					if o != nil && !cc.IsInvoke() && len(cc.Args) > 0 && cc.Args[0] == v {
						if sig, ok := o.Type().(*types.Signature); ok && sig.Recv() != nil && o.Pkg() != nil && o.Pkg().Path() == "bytes" {
							if k, ok := c14bufKinds[o.Name()]; ok {
								var arg ssa.Value
								if len(cc.Args) > 1 {
									arg = cc.Args[1]
								}
								uses = append(uses, c14bufUse{fn, u, base, o.Name(), k, arg})
								continue
							}
						}
					}
					if o != nil && types.Object(o) == types.Object(e.readFull) && len(cc.Args) == 2 && cc.Args[0] == v {
						uses = append(uses, c14bufUse{fn, u, base, "io.ReadFull", "consume", cc.Args[1]})
						continue
					}
					unknown = append(unknown, r)
				default:
					unknown = append(unknown, r)
				}
			}
		}
		visit(ld)
	})
	return
}

// c14consumers computes the functions of package message that (transitively, over static calls inside the
// package) consume bytes from Message.buffer.
func (c *Ctx) c14consumers(e *c14env) map[*ssa.Function]bool {
	fns := c.FnsOfPkg("message")
	cons := map[*ssa.Function]bool{}
	for _, fn := range fns {
		us, _ := e.c14bufUses(fn)
		for _, u := range us {
			if u.Kind == "consume" {
				cons[fn] = true
			}
		}
	}
	for changed := true; changed; {
		changed = false
		for _, fn := range fns {
			if cons[fn] {
				continue
			}
			allInstrs(fn, func(_ *ssa.BasicBlock, _ int, in ssa.Instruction) {
				if call, ok := in.(ssa.CallInstruction); ok {
					if g := calleeFn(call); g != nil && cons[g] && !cons[fn] {
						cons[fn] = true
						changed = true
					}
				}
			})
		}
	}
	return cons
}

// c14astUses counts identifiers in fn's source that resolve to object obj.
func (c *Ctx) c14astUses(fn *ssa.Function, obj types.Object) int {
	syn := fn.Syntax()
	if syn == nil || fnPkg(fn) == nil {
		return 0
	}
	pk := c.All[fnPkg(fn).Path()]
	if pk == nil || pk.TypesInfo == nil {
		return 0
	}
	n := 0
	ast.Inspect(syn, func(x ast.Node) bool {
		if id, ok := x.(*ast.Ident); ok && pk.TypesInfo.Uses[id] == obj {
			n++
		}
		return true
	})
	return n
}

// c14constVal returns the constant value of a package-level constant.
func c14constVal(o types.Object) constant.Value {
	if k, ok := o.(*types.Const); ok {
		return k.Val()
	}
	return nil
}

// c14intInfo: width in bits and signedness of an integer basic type under sizes.
func c14intInfo(t types.Type, sizes types.Sizes) (bits int64, signed, ok bool) {
	b, isB := t.Underlying().(*types.Basic)
	if !isB || b.Info()&types.IsInteger == 0 {
		return 0, false, false
	}
	return sizes.Sizeof(b) * 8, b.Info()&types.IsUnsigned == 0, true
}

// c14convChain walks back from v through numeric conversions to its source and returns the source
// value and the list of types from the source's type to v's type.
func c14convChain(v ssa.Value) (src ssa.Value, chain []types.Type) {
	var rev []types.Type
	for {
		rev = append(rev, v.Type())
		switch x := v.(type) {
		case *ssa.Convert:
			v = x.X
			continue
		case *ssa.ChangeType:
			v = x.X
			continue
		}
		break
	}
	for i := len(rev) - 1; i >= 0; i-- {
		chain = append(chain, rev[i])
	}
	return v, chain
}

// c14widening evaluates an encode-side conversion chain: the final 64-bit pattern must equal the sign
// extension (signed source type) or zero extension (unsigned source type) of the source value.
// Returns "" when value preserving, else a description of the first offending step.
func c14widening(chain []types.Type, sizes types.Sizes) string {
	if len(chain) == 0 {
		return "empty chain"
	}
	w0, s0, ok := c14intInfo(chain[0], sizes)
	if !ok {
		return "source type " + chain[0].String() + " is not an integer"
	}
	for i := 1; i < len(chain); i++ {
		a, sa, ok1 := c14intInfo(chain[i-1], sizes)
		b, _, ok2 := c14intInfo(chain[i], sizes)
		if !ok1 || !ok2 {
			return "non-integer step " + chain[i-1].String() + " -> " + chain[i].String()
		}
		if b < w0 {
			return "narrows " + chain[0].String() + " through " + chain[i].String() + " (" + strconv.FormatInt(b, 10) + " bits)"
		}
		if b > a && !(sa == s0 || (a > w0 && !s0)) {
			ext := "zero"
			if sa {
				ext = "sign"
			}
			return ext + "-extends from " + chain[i-1].String() + " to " + chain[i].String() + " although the source type " + chain[0].String() + " has the other signedness"
		}
	}
	return ""
}

// c14narrowing evaluates a decode-side chain (wire uint64 ... API result type): no intermediate type
// may be narrower than the final result type.
func c14narrowing(chain []types.Type, sizes types.Sizes) string {
	if len(chain) == 0 {
		return "empty chain"
	}
	r, _, ok := c14intInfo(chain[len(chain)-1], sizes)
	if !ok {
		return "result type is not an integer"
	}
	for _, t := range chain {
		b, _, ok := c14intInfo(t, sizes)
		if !ok {
			return "non-integer step " + t.String()
		}
		if b < r {
			return "passes through " + t.String() + " (" + strconv.FormatInt(b, 10) + " bits) before widening to " + chain[len(chain)-1].String()
		}
	}
	return ""
}

// c14isCtx reports whether t is context.Context.
func c14isCtx(t types.Type) bool {
	n, ok := t.(*types.Named)
	return ok && n.Obj().Pkg() != nil && n.Obj().Pkg().Path() == "context" && n.Obj().Name() == "Context"
}

// c14returns lists fn's Return instructions.
func c14returns(fn *ssa.Function) []*ssa.Return {
	var out []*ssa.Return
	for _, b := range fn.Blocks {
		if len(b.Instrs) > 0 {
			if r, ok := b.Instrs[len(b.Instrs)-1].(*ssa.Return); ok {
				out = append(out, r)
			}
		}
	}
	return out
}

// c14successTargets = successTargets minus the returns whose error operand is a load of a package-level
// variable (a sentinel error such as io.EOF, non-nil by convention; the engine classifies it "maybe").
func (c *Ctx) c14successTargets(fn *ssa.Function) []RetPoint {
	var out []RetPoint
	for _, t := range c.successTargets(fn) {
		if t.Class == "maybe" && len(t.Ret.Results) > 0 {
			v := t.Ret.Results[len(t.Ret.Results)-1]
			if ld, ok := v.(*ssa.UnOp); ok && ld.Op == token.MUL {
				if _, isG := ld.X.(*ssa.Global); isG {
					continue
				}
			}
		}
		out = append(out, t)
	}
	return out
}
