package main

import (
	"go/ast"
	"go/constant"
	"go/token"
	"go/types"
	"strconv"

	"golang.org/x/tools/go/ssa"
)

// Helpers of the C14 rules (typed-value byte layout, refill before read). Names are prefixed c14.

// c14env holds the resolved anchors shared by the C14 rules.
type c14env struct {
	ok       bool
	pkg      *types.Package
	msgBuf   *types.Var // Message.buffer
	msgEOM   *types.Var // Message.isEOM
	msgDir   *types.Var // Message.direction
	msgStrm  *types.Var // Message.stream
	ensure   *ssa.Function
	putInt   *ssa.Function
	getInt   *ssa.Function
	putU64   *types.Func // encoding/binary.bigEndian.PutUint64
	getU64   *types.Func // encoding/binary.bigEndian.Uint64
	readFull *types.Func // io.ReadFull
	isEnc    *types.Func // StreamInterface.IsEncrypted (abstract)
	readFrm  *types.Func // StreamInterface.ReadFrame (abstract)
	bufNamed types.Type  // *bytes.Buffer
}

// c14method resolves method name of the type of package-level object obj in pkg (e.g. binary.BigEndian).
func (c *Ctx) c14method(rule, pkg, obj, name string) *types.Func {
	tp := c.PkgTypes(pkg)
	if tp == nil {
		c.AnchorMissing(rule, pkg)
		return nil
	}
	o := tp.Scope().Lookup(obj)
	if o == nil {
		c.AnchorMissing(rule, pkg+"."+obj)
		return nil
	}
	t := o.Type()
	if _, isTN := o.(*types.TypeName); isTN {
		if _, isIface := t.Underlying().(*types.Interface); !isIface {
			t = types.NewPointer(t)
		}
	}
	m, _, _ := types.LookupFieldOrMethod(t, true, tp, name)
	f, _ := m.(*types.Func)
	if f == nil {
		c.AnchorMissing(rule, pkg+"."+obj+"."+name)
	}
	return f
}

func (c *Ctx) c14pkgFunc(rule, pkg, name string) *types.Func {
	tp := c.PkgTypes(pkg)
	if tp == nil {
		c.AnchorMissing(rule, pkg)
		return nil
	}
	f, _ := tp.Scope().Lookup(name).(*types.Func)
	if f == nil {
		c.AnchorMissing(rule, pkg+"."+name)
	}
	return f
}

func (c *Ctx) c14load(rule string) *c14env {
	e := &c14env{}
	e.pkg = c.PkgTypes("message")
	e.msgBuf = c.needField(rule, "message", "Message", "buffer")
	e.msgEOM = c.needField(rule, "message", "Message", "isEOM")
	e.msgDir = c.needField(rule, "message", "Message", "direction")
	e.msgStrm = c.needField(rule, "message", "Message", "stream")
	e.ensure = c.needFn(rule, "message", "(*Message).ensureData")
	e.putInt = c.needFn(rule, "message", "(*Message).PutInt")
	e.getInt = c.needFn(rule, "message", "(*Message).GetInt")
	e.putU64 = c.c14method(rule, "encoding/binary", "BigEndian", "PutUint64")
	e.getU64 = c.c14method(rule, "encoding/binary", "BigEndian", "Uint64")
	e.readFull = c.c14pkgFunc(rule, "io", "ReadFull")
	e.isEnc = c.c14method(rule, "message", "StreamInterface", "IsEncrypted")
	e.readFrm = c.c14method(rule, "message", "StreamInterface", "ReadFrame")
	e.ok = e.pkg != nil && e.msgBuf != nil && e.msgEOM != nil && e.msgDir != nil && e.msgStrm != nil && e.ensure != nil &&
		e.putInt != nil && e.getInt != nil && e.putU64 != nil && e.getU64 != nil && e.readFull != nil && e.isEnc != nil && e.readFrm != nil
	return e
}

// c14loadOf: v (through interface/type conversions) is a load of field f; returns the base pointer.
func c14loadOf(v ssa.Value, f *types.Var) (ssa.Value, bool) {
	base, g, ok := fieldRead(stripConv(v))
	if ok && g == f {
		return base, true
	}
	return nil, false
}

// c14stripNum removes numeric conversions (used to compare "the same SSA value" across int/int32 casts).
func c14stripNum(v ssa.Value) ssa.Value {
	for {
		switch x := v.(type) {
		case *ssa.Convert:
			v = x.X
		case *ssa.ChangeType:
			v = x.X
		default:
			return v
		}
	}
}

// c14sliceLen describes the byte slice v: its backing root and its length, either a constant n
// (isConst) or an SSA value lenV (make([]byte, lenV)). full=false when v is a proper sub-slice or of unknown shape.
func c14sliceLen(v ssa.Value) (root ssa.Value, n int64, lenV ssa.Value, isConst, full bool) {
	v = stripConv(v)
	switch x := v.(type) {
	case *ssa.MakeSlice:
		if k, ok := constInt(x.Len); ok {
			return x, k, nil, true, true
		}
		return x, 0, c14stripNum(x.Len), false, true
	case *ssa.Slice:
		al, ok := x.X.(*ssa.Alloc)
		if !ok {
			return nil, 0, nil, false, false
		}
		pt, ok := al.Type().Underlying().(*types.Pointer)
		if !ok {
			return nil, 0, nil, false, false
		}
		arr, ok := pt.Elem().Underlying().(*types.Array)
		if !ok {
			return nil, 0, nil, false, false
		}
		if x.Low != nil {
			if k, ok := constInt(x.Low); !ok || k != 0 {
				return al, 0, nil, false, false
			}
		}
		if x.High != nil {
			if k, ok := constInt(x.High); !ok || k != arr.Len() {
				return al, 0, nil, false, false
			}
		}
		return al, arr.Len(), nil, true, true
	}
	return nil, 0, nil, false, false
}

// c14bufUse is one use of the *bytes.Buffer loaded from Message.buffer.
type c14bufUse struct {
	Fn     *ssa.Function
	Call   ssa.CallInstruction
	Base   ssa.Value // the *Message the buffer was loaded from
	Method string    // bytes.Buffer method name, or "io.ReadFull"
	Kind   string    // "consume" | "write" | "peek" | "reset"
	Arg    ssa.Value // the byte slice / count argument (nil if none)
}

var c14bufKinds = map[string]string{
	"Read": "consume", "ReadByte": "consume", "ReadBytes": "consume", "ReadRune": "consume", "ReadString": "consume",
	"Next": "consume", "WriteTo": "consume", "UnreadByte": "consume", "UnreadRune": "consume", "Truncate": "consume",
	"Write": "write", "WriteByte": "write", "WriteRune": "write", "WriteString": "write", "ReadFrom": "write", "Grow": "write",
	"Len": "peek", "Cap": "peek", "Bytes": "peek", "String": "peek", "Available": "peek", "AvailableBuffer": "peek",
	"Reset": "reset",
}

// c14bufUses enumerates every use of a value loaded from Message.buffer in fn. Uses that cannot be
// classified (the buffer escapes into an unknown call, is stored, compared, ...) are returned in unknown.
func (e *c14env) c14bufUses(fn *ssa.Function) (uses []c14bufUse, unknown []ssa.Instruction) {
	allInstrs(fn, func(_ *ssa.BasicBlock, _ int, in ssa.Instruction) {
		ld, ok := in.(*ssa.UnOp)
		if !ok || ld.Op != token.MUL {
			return
		}
		base, ok := c14loadOf(ld, e.msgBuf)
		if !ok {
			return
		}
		var visit func(v ssa.Value)
		visit = func(v ssa.Value) {
			for _, r := range *v.Referrers() {
				switch u := r.(type) {
				case *ssa.DebugRef:
				case *ssa.MakeInterface:
					visit(u)
				case *ssa.ChangeInterface:
					visit(u)
				case ssa.CallInstruction:
					cc := u.Common()
					o := calleeObj(u)
					if o != nil && !cc.IsInvoke() && len(cc.Args) > 0 && cc.Args[0] == v {
						if sig, ok := o.Type().(*types.Signature); ok && sig.Recv() != nil && o.Pkg() != nil && o.Pkg().Path() == "bytes" {
							if k, ok := c14bufKinds[o.Name()]; ok {
								var arg ssa.Value
								if len(cc.Args) > 1 {
									arg = cc.Args[1]
								}
								uses = append(uses, c14bufUse{fn, u, base, o.Name(), k, arg})
								continue
							}
						}
					}
					if o != nil && types.Object(o) == types.Object(e.readFull) && len(cc.Args) == 2 && cc.Args[0] == v {
						uses = append(uses, c14bufUse{fn, u, base, "io.ReadFull", "consume", cc.Args[1]})
						continue
					}
					unknown = append(unknown, r)
				default:
					unknown = append(unknown, r)
				}
			}
		}
		visit(ld)
	})
	return
}

// c14consumers computes the functions of package message that (transitively, over static calls inside the
// package) consume bytes from Message.buffer.
func (c *Ctx) c14consumers(e *c14env) map[*ssa.Function]bool {
	fns := c.FnsOfPkg("message")
	cons := map[*ssa.Function]bool{}
	for _, fn := range fns {
		us, _ := e.c14bufUses(fn)
		for _, u := range us {
			if u.Kind == "consume" {
				cons[fn] = true
			}
		}
	}
	for changed := true; changed; {
		changed = false
		for _, fn := range fns {
			if cons[fn] {
				continue
			}
			allInstrs(fn, func(_ *ssa.BasicBlock, _ int, in ssa.Instruction) {
				if call, ok := in.(ssa.CallInstruction); ok {
					if g := calleeFn(call); g != nil && cons[g] && !cons[fn] {
						cons[fn] = true
						changed = true
					}
				}
			})
		}
	}
	return cons
}

// c14astUses counts identifiers in fn's source that resolve to object obj.
func (c *Ctx) c14astUses(fn *ssa.Function, obj types.Object) int {
	syn := fn.Syntax()
	if syn == nil || fnPkg(fn) == nil {
		return 0
	}
	pk := c.All[fnPkg(fn).Path()]
	if pk == nil || pk.TypesInfo == nil {
		return 0
	}
	n := 0
	ast.Inspect(syn, func(x ast.Node) bool {
		if id, ok := x.(*ast.Ident); ok && pk.TypesInfo.Uses[id] == obj {
			n++
		}
		return true
	})
	return n
}

// c14constVal returns the constant value of a package-level constant.
func c14constVal(o types.Object) constant.Value {
	if k, ok := o.(*types.Const); ok {
		return k.Val()
	}
	return nil
}

// c14intInfo: width in bits and signedness of an integer basic type under sizes.
func c14intInfo(t types.Type, sizes types.Sizes) (bits int64, signed, ok bool) {
	b, isB := t.Underlying().(*types.Basic)
	if !isB || b.Info()&types.IsInteger == 0 {
		return 0, false, false
	}
	return sizes.Sizeof(b) * 8, b.Info()&types.IsUnsigned == 0, true
}

// c14convChain walks back from v through numeric conversions to its source and returns the source
// value and the list of types from the source's type to v's type.
func c14convChain(v ssa.Value) (src ssa.Value, chain []types.Type) {
	var rev []types.Type
	for {
		rev = append(rev, v.Type())
		switch x := v.(type) {
		case *ssa.Convert:
			v = x.X
			continue
		case *ssa.ChangeType:
			v = x.X
			continue
		}
		break
	}
	for i := len(rev) - 1; i >= 0; i-- {
		chain = append(chain, rev[i])
	}
	return v, chain
}

// c14widening evaluates an encode-side conversion chain: the final 64-bit pattern must equal the sign
// extension (signed source type) or zero extension (unsigned source type) of the source value.
// Returns "" when value preserving, else a description of the first offending step.
func c14widening(chain []types.Type, sizes types.Sizes) string {
	if len(chain) == 0 {
		return "empty chain"
	}
	w0, s0, ok := c14intInfo(chain[0], sizes)
	if !ok {
		return "source type " + chain[0].String() + " is not an integer"
	}
	for i := 1; i < len(chain); i++ {
		a, sa, ok1 := c14intInfo(chain[i-1], sizes)
		b, _, ok2 := c14intInfo(chain[i], sizes)
		if !ok1 || !ok2 {
			return "non-integer step " + chain[i-1].String() + " -> " + chain[i].String()
		}
		if b < w0 {
			return "narrows " + chain[0].String() + " through " + chain[i].String() + " (" + strconv.FormatInt(b, 10) + " bits)"
		}
		if b > a && !(sa == s0 || (a > w0 && !s0)) {
			ext := "zero"
			if sa {
				ext = "sign"
			}
			return ext + "-extends from " + chain[i-1].String() + " to " + chain[i].String() + " although the source type " + chain[0].String() + " has the other signedness"
		}
	}
	return ""
}

// c14narrowing evaluates a decode-side chain (wire uint64 ... API result type): no intermediate type
// may be narrower than the final result type.
func c14narrowing(chain []types.Type, sizes types.Sizes) string {
	if len(chain) == 0 {
		return "empty chain"
	}
	r, _, ok := c14intInfo(chain[len(chain)-1], sizes)
	if !ok {
		return "result type is not an integer"
	}
	for _, t := range chain {
		b, _, ok := c14intInfo(t, sizes)
		if !ok {
			return "non-integer step " + t.String()
		}
		if b < r {
			return "passes through " + t.String() + " (" + strconv.FormatInt(b, 10) + " bits) before widening to " + chain[len(chain)-1].String()
		}
	}
	return ""
}

// c14isCtx reports whether t is context.Context.
func c14isCtx(t types.Type) bool {
	n, ok := t.(*types.Named)
	return ok && n.Obj().Pkg() != nil && n.Obj().Pkg().Path() == "context" && n.Obj().Name() == "Context"
}

// c14returns lists fn's Return instructions.
func c14returns(fn *ssa.Function) []*ssa.Return {
	var out []*ssa.Return
	for _, b := range fn.Blocks {
		if len(b.Instrs) > 0 {
			if r, ok := b.Instrs[len(b.Instrs)-1].(*ssa.Return); ok {
				out = append(out, r)
			}
		}
	}
	return out
}

// c14successTargets = successTargets minus the returns whose error operand is a load of a package-level
// variable (a sentinel error such as io.EOF, non-nil by convention; the engine classifies it "maybe").
func (c *Ctx) c14successTargets(fn *ssa.Function) []RetPoint {
	var out []RetPoint
	for _, t := range c.successTargets(fn) {
		if t.Class == "maybe" && len(t.Ret.Results) > 0 {
			v := t.Ret.Results[len(t.Ret.Results)-1]
			if ld, ok := v.(*ssa.UnOp); ok && ld.Op == token.MUL {
				if _, isG := ld.X.(*ssa.Global); isG {
					continue
				}
			}
		}
		out = append(out, t)
	}
	return out
}

// ---------------------------------------------------------------------------
// Deep view of one codec function: the function with the unexported same-module helpers it calls spliced in
// (one frame per call, help_c09.go), so that a step a contributor moved into a helper is still found. Calls of
// the codec API itself (integer encoders/decoders, PutBytes, ensureData, FlushFrame) stay units.

type c14deep struct {
	c    *Ctx
	e    *c14env
	top  *cxFrame
	recv ssa.Value // the *Message of the anchored function
	unit map[*ssa.Function]bool
	// unitCall, when set, keeps further calls as units (e.g. a consumer handed the announced length)
	unitCall func(fr *cxFrame, call ssa.CallInstruction) bool
	frames   []*cxFrame // top and every helper frame, in call order
}

func (c *Ctx) c14deepOf(e *c14env, fn *ssa.Function, units ...*ssa.Function) *c14deep {
	d := &c14deep{c: c, e: e, top: cxTop(fn), unit: map[*ssa.Function]bool{}}
	if len(fn.Params) > 0 {
		d.recv = fn.Params[0]
	}
	for _, u := range units {
		if u != nil {
			d.unit[u] = true
		}
	}
	d.unit[e.ensure] = true
	return d
}

// expand: the call is followed into its callee.
func (d *c14deep) expand(fr *cxFrame, call ssa.CallInstruction) bool {
	g := calleeFn(call)
	if g == nil || d.unit[g] {
		return false
	}
	if _, isCall := call.(*ssa.Call); !isCall {
		return false
	}
	if d.unitCall != nil && d.unitCall(fr, call) {
		return false
	}
	return fr.cxHelper(g) && len(callArgs(call)) == len(g.Params)
}

// walk lists the frames (top first) reached through expanded calls.
func (d *c14deep) walk() []*cxFrame {
	if d.frames != nil {
		return d.frames
	}
	var out []*cxFrame
	var rec func(fr *cxFrame)
	rec = func(fr *cxFrame) {
		out = append(out, fr)
		allInstrs(fr.fn, func(_ *ssa.BasicBlock, _ int, in ssa.Instruction) {
			if call, ok := in.(*ssa.Call); ok && d.expand(fr, call) {
				if sub := fr.enter(call); sub != nil {
					rec(sub)
				}
			}
		})
	}
	rec(d.top)
	d.frames = out
	return out
}

func (d *c14deep) isRecv(fr *cxFrame, base ssa.Value) bool {
	r := fr.resolve(base)
	return r.fr == d.top && r.v == d.recv
}

// num resolves v through numeric/string conversions and helper parameters to the value the anchored function
// (or the helper that computes it) defines.
func (d *c14deep) num(fr *cxFrame, v ssa.Value) cxVal {
	cur := cxVal{fr, v}
	for i := 0; i < 16; i++ {
		sv := c14stripNum(stripConv(cur.v))
		r := cur.fr.resolve(sv)
		if r.fr == cur.fr && r.v == cur.v {
			break
		}
		cur = r
	}
	return cur
}

// c14site is an instruction in its frame.
type c14site struct {
	fr *cxFrame
	in ssa.Instruction
}

type c14duse struct {
	c14bufUse
	fr *cxFrame
}

// uses enumerates the uses of Message.buffer (of the anchored function's own message) in every frame.
func (d *c14deep) uses() (uses []c14duse, unknown []ssa.Instruction) {
	for _, fr := range d.walk() {
		us, un := d.e.c14bufUses(fr.fn)
		for _, u := range us {
			if d.isRecv(fr, u.Base) {
				uses = append(uses, c14duse{u, fr})
			}
		}
		unknown = append(unknown, un...)
	}
	return
}

// calls enumerates, in every frame, the calls match accepts.
func (d *c14deep) calls(match func(fr *cxFrame, call ssa.CallInstruction) bool) []c14site {
	var out []c14site
	for _, fr := range d.walk() {
		allInstrs(fr.fn, func(_ *ssa.BasicBlock, _ int, in ssa.Instruction) {
			if call, ok := in.(ssa.CallInstruction); ok && match(fr, call) {
				out = append(out, c14site{fr, in})
			}
		})
	}
	return out
}

func (d *c14deep) callsTo(objs ...types.Object) []c14site {
	return d.calls(func(_ *cxFrame, call ssa.CallInstruction) bool {
		_, ok := isCallTo(call, objs...)
		return ok
	})
}

// search prepares a path search over the spliced control flow; error returns of helpers are recognised with the
// engine's classification (refined for result cells, help_c08.go).
func (d *c14deep) search() *cxSearch {
	cls := map[*ssa.Function][]RetPoint{}
	return &cxSearch{
		expand: d.expand,
		errRet: func(fn *ssa.Function, ret *ssa.Return, via *ssa.BasicBlock) bool {
			rs, ok := cls[fn]
			if !ok {
				rs = d.c.returnsOf(fn)
				cls[fn] = rs
			}
			for _, r := range rs {
				if r.Ret == ret && (r.Pred == nil || r.Pred == via) {
					return c08RetClass(d.c, fn, r) == "error"
				}
			}
			return false
		},
	}
}

func c14siteSet(sites []c14site) map[c14site]bool {
	m := map[c14site]bool{}
	for _, s := range sites {
		m[s] = true
	}
	return m
}

// reach: is there a path from start to one of the targets that passes no cut edge (cutEdge) and no cut site?
func (d *c14deep) reach(start cxPoint, targets map[c14site]bool, cutSites map[c14site]bool, cutEdge func(*cxFrame, Edge) bool) []*ssa.BasicBlock {
	s := d.search()
	s.cutEdge = cutEdge
	s.cutInstr = func(fr *cxFrame, in ssa.Instruction) bool { return cutSites[c14site{fr, in}] }
	s.target = func(fr *cxFrame, in ssa.Instruction, _ *ssa.BasicBlock) bool { return targets[c14site{fr, in}] }
	return s.find(start)
}

// reachRet: a path from start to a (possibly) successful return of the anchored function.
func (d *c14deep) reachRet(start cxPoint, rets []RetPoint, cutSites map[c14site]bool, cutEdge func(*cxFrame, Edge) bool) []*ssa.BasicBlock {
	s := d.search()
	s.cutEdge = cutEdge
	s.cutInstr = func(fr *cxFrame, in ssa.Instruction) bool { return cutSites[c14site{fr, in}] }
	s.target = func(fr *cxFrame, in ssa.Instruction, via *ssa.BasicBlock) bool {
		if fr != d.top {
			return false
		}
		for _, r := range rets {
			if ssa.Instruction(r.Ret) == in && (r.Pred == nil || r.Pred == via) {
				return true
			}
		}
		return false
	}
	return s.find(start)
}

// boolEdgesOf: cutEdge predicates for "the boolean value (vfr, v) is true" / "is false": branches on the value
// itself, in its own frame or on a helper parameter it was handed to.
func (d *c14deep) boolEdgesOf(vfr *cxFrame, v ssa.Value) (isTrue, isFalse func(*cxFrame, Edge) bool) {
	side := func(fr *cxFrame, e Edge) (onTrue, ok bool) {
		ifi := blockIf(e.From)
		if ifi == nil || len(e.From.Succs) != 2 {
			return false, false
		}
		a := condAtom(ifi.Cond)
		if a.Op != token.ILLEGAL {
			return false, false
		}
		r := fr.resolve(a.X)
		if r.fr != vfr || r.v != v {
			return false, false
		}
		t := e.Succ == 0
		if a.Neg {
			t = !t
		}
		return t, true
	}
	isTrue = func(fr *cxFrame, e Edge) bool { t, ok := side(fr, e); return ok && t }
	isFalse = func(fr *cxFrame, e Edge) bool { t, ok := side(fr, e); return ok && !t }
	return
}

// succEdgesOf: for calls whose error result is tested in their own frame the nil-error edges; the calls whose
// error is only handed on to the frame's own return are returned as sites (passing them is passing the call:
// the helper succeeds only if they did, and its caller tests that).
func (d *c14deep) succOf(sites []c14site) (edges map[*cxFrame]map[Edge]bool, whole map[c14site]bool) {
	edges = map[*cxFrame]map[Edge]bool{}
	whole = map[c14site]bool{}
	for _, s := range sites {
		v, ok := s.in.(ssa.Value)
		if !ok {
			continue
		}
		if succ, _, checked := callErrEdges(s.fr.fn, v); checked {
			if edges[s.fr] == nil {
				edges[s.fr] = map[Edge]bool{}
			}
			for _, e := range succ {
				edges[s.fr][e] = true
			}
			continue
		}
		only := len(errResults(v)) > 0
		for _, ev := range errResults(v) {
			if !c09OnlyReturned(ev) {
				only = false
			}
		}
		if only {
			whole[s] = true
		}
	}
	return
}

// c14mentionsDeep: does v (in fr) mention a value pred accepts, looking through the results of expanded helpers
// and through helper parameters?
func (d *c14deep) mentionsDeep(fr *cxFrame, v ssa.Value, pred func(*cxFrame, ssa.Value) bool) bool {
	type key struct {
		fr *cxFrame
		v  ssa.Value
	}
	seen := map[key]bool{}
	var walk func(fr *cxFrame, v ssa.Value, depth int) bool
	walk = func(fr *cxFrame, v ssa.Value, depth int) bool {
		if v == nil || depth > 60 || seen[key{fr, v}] {
			return false
		}
		seen[key{fr, v}] = true
		if pred(fr, v) {
			return true
		}
		switch x := v.(type) {
		case *ssa.Parameter, *ssa.FreeVar:
			if r := fr.resolve(v); r.fr != fr {
				return walk(r.fr, r.v, depth+1)
			}
			return false
		case *ssa.Call:
			if d.expand(fr, x) {
				if sub := fr.enter(x); sub != nil {
					for _, ret := range cxReturns(sub.fn) {
						for _, r := range ret.Results {
							if walk(sub, r, depth+1) {
								return true
							}
						}
					}
				}
			}
		}
		if in, ok := v.(ssa.Instruction); ok {
			for _, op := range in.Operands(nil) {
				if *op != nil && walk(fr, *op, depth+1) {
					return true
				}
			}
		}
		return false
	}
	return walk(fr, v, 0)
}

// leaves traces v back through numeric conversions, helper parameters (to the caller's argument), phis and the
// results of expanded value helpers (every return) to the values that compute it.
func (d *c14deep) leaves(fr *cxFrame, v ssa.Value) []cxVal {
	var out []cxVal
	seen := map[cxVal]bool{}
	var walk func(fr *cxFrame, v ssa.Value, depth int)
	walk = func(fr *cxFrame, v ssa.Value, depth int) {
		v = c14stripNum(stripConv(v))
		k := cxVal{fr, v}
		if v == nil || seen[k] {
			return
		}
		seen[k] = true
		if depth > 24 {
			out = append(out, k)
			return
		}
		switch x := v.(type) {
		case *ssa.Parameter, *ssa.FreeVar:
			if r := fr.resolve(v); r.fr != fr {
				walk(r.fr, r.v, depth+1)
				return
			}
		case *ssa.Phi:
			for _, e := range x.Edges {
				walk(fr, e, depth+1)
			}
			return
		case *ssa.Call, *ssa.Extract:
			call, idx := originCall(v)
			if cc, ok := call.(*ssa.Call); ok && d.expand(fr, cc) {
				if sub := fr.enter(cc); sub != nil {
					n := 0
					for _, ret := range cxReturns(sub.fn) {
						if idx < len(ret.Results) {
							n++
							walk(sub, ret.Results[idx], depth+1)
						}
					}
					if n > 0 {
						return
					}
				}
			}
		}
		out = append(out, k)
	}
	walk(fr, v, 0)
	return out
}

// c14chain is one way a value is computed from a source by numeric conversions only: the types from the
// source's type to the value's type.
type c14chain struct {
	src   cxVal
	types []types.Type
}

// convChains walks back from v through numeric conversions, helper parameters (to the caller's argument),
// phis and the results of expanded value helpers and returns every (source, type chain) it finds.
func (d *c14deep) convChains(fr *cxFrame, v ssa.Value) []c14chain {
	var out []c14chain
	var walk func(fr *cxFrame, v ssa.Value, rev []types.Type, depth int)
	walk = func(fr *cxFrame, v ssa.Value, rev []types.Type, depth int) {
		for i := 0; i < 32; i++ {
			rev = append(rev, v.Type())
			switch x := v.(type) {
			case *ssa.Convert:
				v = x.X
				continue
			case *ssa.ChangeType:
				v = x.X
				continue
			}
			break
		}
		finish := func() {
			ch := make([]types.Type, 0, len(rev))
			for i := len(rev) - 1; i >= 0; i-- {
				if len(ch) == 0 || !types.Identical(ch[len(ch)-1], rev[i]) {
					ch = append(ch, rev[i])
				}
			}
			out = append(out, c14chain{cxVal{fr, v}, ch})
		}
		if depth > 12 {
			finish()
			return
		}
		switch x := v.(type) {
		case *ssa.Parameter, *ssa.FreeVar:
			if r := fr.resolve(v); r.fr != fr {
				walk(r.fr, r.v, append([]types.Type{}, rev...), depth+1)
				return
			}
		case *ssa.Phi:
			for _, e := range x.Edges {
				walk(fr, e, append([]types.Type{}, rev...), depth+1)
			}
			return
		case *ssa.Call, *ssa.Extract:
			call, idx := originCall(v)
			if cc, ok := call.(*ssa.Call); ok && d.expand(fr, cc) {
				if sub := fr.enter(cc); sub != nil {
					n := 0
					errRet := map[*ssa.Return]bool{}
					for _, r := range d.c.returnsOf(sub.fn) {
						if r.Class == "error" && r.Pred == nil {
							errRet[r.Ret] = true
						}
					}
					for _, ret := range cxReturns(sub.fn) {
						if idx < len(ret.Results) && !errRet[ret] {
							n++
							walk(sub, ret.Results[idx], append([]types.Type{}, rev...), depth+1)
						}
					}
					if n > 0 {
						return
					}
				}
			}
		}
		finish()
	}
	walk(fr, v, nil, 0)
	return out
}
