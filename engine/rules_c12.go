package main

import (
	"fmt"
	"go/token"
	"go/types"

	"golang.org/x/tools/go/ssa"
)

func init() { register("C12", c12r1, c12r2, c12r3, c12r4, c12r5, c12r6) }

// The format table below is written from the property statement, not from the code:
// AES-256-GCM, 16-byte nonce, 16-byte tag, nonce = base IV with its leading big-endian 32-bit word
// advanced by the per-direction frame counter, base IV sent with the first frame only, header as
// AAD, two 32-byte digests prepended on the first frame.
const (
	c12KeyLen   = 32
	c12NonceLen = 16
	c12TagLen   = 16
	c12CtrBytes = 4
	c12WrapAt   = 0xffffffff
)

type c12Dir struct {
	fn      *ssa.Function
	aead    *types.Func
	iv, ctr *types.Var
	flag    *types.Var
	name    string
}

func c12Dirs(c *Ctx, rule string, a *c04Stream) []c12Dir {
	seal, open := c.aeadMethod04(rule, "Seal"), c.aeadMethod04(rule, "Open")
	eiv := c.needField(rule, "stream", "Stream", "encryptIV")
	div := c.needField(rule, "stream", "Stream", "decryptIV")
	ectr := c.needField(rule, "stream", "Stream", "encryptCounter")
	dctr := c.needField(rule, "stream", "Stream", "decryptCounter")
	if !a.ok || seal == nil || open == nil || eiv == nil || div == nil || ectr == nil || dctr == nil {
		return nil
	}
	return []c12Dir{{a.enc, seal, eiv, ectr, a.finishedSend, "encrypt"}, {a.dec, open, div, dctr, a.finishedRecv, "decrypt"}}
}

func c12PkgFunc(call ssa.CallInstruction, pkg, name string) bool {
	o := calleeObj(call)
	return o != nil && o.Pkg() != nil && o.Pkg().Path() == pkg && o.Name() == name && o.Type().(*types.Signature).Recv() == nil
}

// c12IsFieldSlice: v is a slice [lo:hi] of the array field f (hi = -1: open / full length).
func c12IsFieldSlice(v ssa.Value, f *types.Var, lo, hi int64) bool {
	sl, ok := v.(*ssa.Slice)
	if !ok {
		return false
	}
	fa, ok := sl.X.(*ssa.FieldAddr)
	if !ok || fieldOfAddr(fa) != f {
		return false
	}
	return c12Bounds(sl, lo, hi)
}

func c12Bounds(sl *ssa.Slice, lo, hi int64) bool {
	gotLo, gotHi := int64(0), int64(-1)
	if sl.Low != nil {
		v, isC := constInt(sl.Low)
		if !isC {
			return false
		}
		gotLo = v
	}
	if sl.High != nil {
		v, isC := constInt(sl.High)
		if !isC {
			return false
		}
		gotHi = v
	}
	return gotLo == lo && gotHi == hi
}

// C12-R1: primitives.
func c12r1(c *Ctx) {
	const rule = "C12-R1"
	c.Doc(rule, "primitives: SetSymmetricKey rejects any key length but 32 before aes.NewCipher; SetSymmetricKey and NewStreamWithCryptoState build Stream.gcm with crypto/aes.NewCipher + crypto/cipher.NewGCMWithNonceSize(block, 16) and store exactly that AEAD; the importer's key buffer is 32 bytes; calculateEncryptedSize adds exactly 0 (not encrypting), 16 (tag) or 16+16 (tag + first-frame IV)")
	a := c04Anchors(c, rule)
	calc := c.needFn(rule, "stream", "(*Stream).calculateEncryptedSize")
	if !a.ok || calc == nil {
		return
	}
	n := 0
	for _, fn := range []*ssa.Function{a.ssk, a.imp} {
		var newCipher, newGCM []ssa.CallInstruction
		allInstrs(fn, func(_ *ssa.BasicBlock, _ int, in ssa.Instruction) {
			if call, ok := in.(ssa.CallInstruction); ok {
				if c12PkgFunc(call, "crypto/aes", "NewCipher") {
					newCipher = append(newCipher, call)
				}
				if c12PkgFunc(call, "crypto/cipher", "NewGCMWithNonceSize") {
					newGCM = append(newGCM, call)
				}
			}
		})
		if len(newCipher) != 1 || len(newGCM) != 1 {
			c.Violate(rule, fnName(fn)+"#constructor", fmt.Sprintf("expected one aes.NewCipher and one cipher.NewGCMWithNonceSize call, found %d and %d (cipher.NewGCM would give 12-byte nonces)", len(newCipher), len(newGCM)), fn.Pos())
			continue
		}
		n++
		g := newGCM[0]
		ns, isC := constInt(g.Common().Args[1])
		c.Check(isC && ns == c12NonceLen, rule, fnName(fn)+"#nonce-size", "GCM with 16-byte nonces", fmt.Sprintf("GCM nonce size is %d (constant=%v), the format uses 16-byte nonces", ns, isC), g.Pos())
		blk, _ := originCall(c12FirstOrigin(fn, g.Common().Args[0]))
		c.Check(blk == newCipher[0], rule, fnName(fn)+"#gcm<-aes", "the GCM wraps the AES block cipher just created", "the block cipher handed to NewGCMWithNonceSize is not the result of aes.NewCipher", g.Pos())
		// the AEAD stored into Stream.gcm is that one
		stores := 0
		allInstrs(fn, func(_ *ssa.BasicBlock, _ int, in ssa.Instruction) {
			st, ok := in.(*ssa.Store)
			if !ok {
				return
			}
			fa, ok := st.Addr.(*ssa.FieldAddr)
			if !ok || fieldOfAddr(fa) != a.gcm {
				return
			}
			stores++
			oc, idx := originCall(c12FirstOrigin(fn, st.Val))
			c.Check(oc == g && idx == 0, rule, fnName(fn)+"#Stream.gcm<-NewGCMWithNonceSize", "Stream.gcm is the AEAD just built", "Stream.gcm is assigned something other than the result of NewGCMWithNonceSize", st.Pos())
		})
		if stores == 0 {
			c.Violate(rule, fnName(fn)+"#Stream.gcm<-NewGCMWithNonceSize", "the AEAD is never stored into Stream.gcm", fn.Pos())
		}
		// key length
		keyArg := newCipher[0].Common().Args[0]
		if fn == a.ssk {
			okLen := false
			for _, b := range fn.Blocks {
				ifi := blockIf(b)
				if ifi == nil {
					continue
				}
				at := condAtom(ifi.Cond)
				if at.Op != token.EQL && at.Op != token.NEQ {
					continue
				}
				call, isLen := c01IsBuiltin(c01Strip(at.X), "len")
				k, isC := constInt(at.Y)
				if !isLen || call.Call.Args[0] != keyArg || !isC || k != c12KeyLen {
					continue
				}
				eq := at.Op == token.EQL
				if at.Neg {
					eq = !eq
				}
				eqE, neE := Edge{b, 0}, Edge{b, 1}
				if !eq {
					eqE, neE = neE, eqE
				}
				if c.c01ErrorEdge(fn, neE) && instrDominatedByEdge(fn, eqE, newCipher[0]) {
					okLen = true
				}
			}
			c.Check(okLen, rule, fnName(fn)+"#key-length", "keys of any length but 32 are rejected before aes.NewCipher", "no len(key) == 32 test dominates aes.NewCipher: a 16- or 24-byte key would silently select AES-128/192", newCipher[0].Pos())
		} else {
			ln := int64(-1)
			if al, ok := memRoot(keyArg).(*ssa.Alloc); ok {
				if arr, ok := al.Type().Underlying().(*types.Pointer).Elem().Underlying().(*types.Array); ok {
					ln = arr.Len()
				}
			}
			c.Check(ln == c12KeyLen, rule, fnName(fn)+"#key-length", "the imported key buffer is 32 bytes", fmt.Sprintf("the imported key buffer is %d bytes, AES-256 needs 32", ln), newCipher[0].Pos())
		}
	}
	c.MinCount(rule, "AEAD constructors", n, 2)
	// size arithmetic
	if par := c01Param(calc, "plainSize", 1); par != nil {
		_, adds, ok := c01MaxAddend(calc, par)
		if !ok {
			c.Undecided(rule, fnName(calc)+"#addends", "calculateEncryptedSize does not return its parameter plus constants on every path", calc.Pos())
		} else {
			set := map[int64]bool{}
			for _, x := range adds {
				set[x] = true
			}
			good := len(set) == 3 && set[0] && set[c12TagLen] && set[c12TagLen+c12NonceLen]
			c.Check(good, rule, fnName(calc)+"#addends", "overheads are {0, 16, 32}", fmt.Sprintf("calculateEncryptedSize adds %v; the format adds 16 (tag) and 16 more on the first frame (IV)", adds), calc.Pos())
		}
	}
}

func c12FirstOrigin(fn *ssa.Function, v ssa.Value) ssa.Value {
	os := origins(fn, v)
	if len(os) == 1 {
		return os[0]
	}
	return v
}

// C12-R2: nonce construction.
func c12r2(c *Ctx) {
	const rule = "C12-R2"
	c.Doc(rule, "nonce: the nonce argument of Seal (Open) is the whole of a local 16-byte array that is filled by copy(iv[:], encryptIV[:]) (decryptIV) and then overwritten in [:4] by BigEndian.PutUint32(BigEndian.Uint32(encryptIV[:4]) + encryptCounter) (decrypt*), in that order on every path, with no other writer")
	a := c04Anchors(c, rule)
	put := c.c01BinaryMethod(rule, "BigEndian", "PutUint32")
	get := c.c01BinaryMethod(rule, "BigEndian", "Uint32")
	dirs := c12Dirs(c, rule, a)
	if dirs == nil || put == nil || get == nil {
		return
	}
	n := 0
	for _, d := range dirs {
		fn := d.fn
		for _, call := range callsIn(fn, d.aead) {
			n++
			key := fnName(fn) + "#" + d.aead.Name()
			nonce := call.Common().Args[1]
			root, isAl := memRoot(nonce).(*ssa.Alloc)
			if !isAl || !c04WholeOf(nonce, root) {
				c.Undecided(rule, key+"#nonce", "the nonce is not the whole of a local array", call.Pos())
				continue
			}
			arr, _ := root.Type().Underlying().(*types.Pointer).Elem().Underlying().(*types.Array)
			c.Check(arr != nil && arr.Len() == c12NonceLen, rule, key+"#nonce-length", "16-byte nonce", "the nonce array is not 16 bytes", call.Pos())
			// writers of the nonce array
			var copies, puts []ssa.Instruction
			other := false
			allInstrs(fn, func(_ *ssa.BasicBlock, _ int, in ssa.Instruction) {
				switch x := in.(type) {
				case *ssa.Store:
					if memRoot(x.Addr) == ssa.Value(root) {
						other = true
					}
				case *ssa.Call:
					if _, isCopy := c01IsBuiltin(x, "copy"); isCopy {
						if memRoot(x.Call.Args[0]) != ssa.Value(root) {
							return
						}
						if c04WholeOf(x.Call.Args[0], root) && c12IsFieldSlice(x.Call.Args[1], d.iv, 0, -1) {
							copies = append(copies, x)
						} else {
							other = true
						}
						return
					}
					if x == call {
						return
					}
					args := callArgs(x)
					for i, arg := range args {
						if memRoot(arg) != ssa.Value(root) {
							continue
						}
						if types.Object(calleeObj(x)) == types.Object(put) && i == len(args)-2 {
							sl, isSl := arg.(*ssa.Slice)
							if isSl && c12Bounds(sl, 0, c12CtrBytes) && c12NonceWord(fn, args[len(args)-1], get, d) {
								puts = append(puts, x)
								continue
							}
						}
						other = true
					}
				}
			})
			c.Check(!other, rule, key+"#nonce-writers", "the nonce array is written only by the IV copy and the counter word", "the nonce array has a writer other than copy(iv[:], "+d.iv.Name()+"[:]) and BigEndian.PutUint32(iv[:4], BigEndian.Uint32("+d.iv.Name()+"[:4]) + "+d.ctr.Name()+")", call.Pos())
			c.mustPassInstr(rule, key+"#nonce<-baseIV", fn, call, newCuts().AddInstrs(copies...), "copy(iv[:], "+d.iv.Name()+"[:])")
			c.mustPassInstr(rule, key+"#nonce[:4]<-baseWord+counter", fn, call, newCuts().AddInstrs(puts...), "BigEndian.PutUint32(iv[:4], BigEndian.Uint32("+d.iv.Name()+"[:4]) + "+d.ctr.Name()+")")
			// order: no IV copy after the counter word has been written
			late := false
			for _, p := range puts {
				for _, cp := range copies {
					if findPath(after(p), Target{Instr: cp}, nil) != nil {
						late = true
					}
				}
			}
			c.Check(!late && len(puts) > 0 && len(copies) > 0, rule, key+"#nonce-order", "the counter word is written after the base IV copy", "the base IV can be copied over the counter word (or one of the two is missing): every frame would reuse the base nonce", call.Pos())
		}
	}
	c.MinCount(rule, "AEAD calls", n, 2)
}

// c12NonceWord: v = BigEndian.Uint32(<iv field>[:4]) + <counter field>, either operand order.
func c12NonceWord(fn *ssa.Function, v ssa.Value, get *types.Func, d c12Dir) bool {
	bo, ok := v.(*ssa.BinOp)
	if !ok || bo.Op != token.ADD {
		return false
	}
	isBase := func(x ssa.Value) bool {
		call, ok := x.(*ssa.Call)
		if !ok || types.Object(calleeObj(call)) != types.Object(get) {
			return false
		}
		args := callArgs(call)
		return c12IsFieldSlice(args[len(args)-1], d.iv, 0, c12CtrBytes)
	}
	isCtr := func(x ssa.Value) bool { return readsField(x, d.ctr) }
	return (isBase(bo.X) && isCtr(bo.Y)) || (isBase(bo.Y) && isCtr(bo.X))
}

// C12-R3: base IV fresh and sent once.
func c12r3(c *Ctx) {
	const rule = "C12-R3"
	c.Doc(rule, "base IV: Stream.encryptIV is written only by crypto/rand.Read in SetSymmetricKey (error tested; the counter reset and encrypted=true follow its nil-error edge) and by the state importer; encryptDataWithAAD copies encryptIV into the output exactly on the encryptCounter==0 edge and every first-frame path does so; Stream.decryptIV is written only from data[:16] on the decryptCounter==0 edge and by the importer")
	a := c04Anchors(c, rule)
	dirs := c12Dirs(c, rule, a)
	if dirs == nil {
		return
	}
	enc, dec := dirs[0], dirs[1]
	poss := map[*ssa.Function]token.Pos{}
	writers := func(f *types.Var) []*ssa.Function {
		var wr []*ssa.Function
		for _, acc := range c.fieldAccesses(f) {
			if acc.Write {
				wr = append(wr, acc.Fn)
				poss[acc.Fn] = acc.Instr.Pos()
			}
		}
		return wr
	}
	c.whoMay(rule, "write Stream.encryptIV", writers(enc.iv), poss, fnSet(a.ssk, a.imp))
	c.whoMay(rule, "write Stream.decryptIV", writers(dec.iv), poss, fnSet(a.dec, a.imp))
	n := 0
	// SetSymmetricKey: the only way encryptIV is written is crypto/rand.Read(encryptIV[:])
	var randOK []Edge
	allInstrs(a.ssk, func(_ *ssa.BasicBlock, _ int, in ssa.Instruction) {
		fa, ok := in.(*ssa.FieldAddr)
		if !ok || fieldOfAddr(fa) != enc.iv {
			return
		}
		for _, r := range *fa.Referrers() {
			sl, isSl := r.(*ssa.Slice)
			if !isSl || !c12Bounds(sl, 0, -1) {
				if _, isDbg := r.(*ssa.DebugRef); !isDbg {
					c.Violate(rule, fnName(a.ssk)+"#encryptIV-writer", "encryptIV is accessed other than as the whole-array argument of crypto/rand.Read", r.Pos())
				}
				continue
			}
			for _, u := range *sl.Referrers() {
				call, isCall := u.(ssa.CallInstruction)
				if !isCall || !c12PkgFunc(call, "crypto/rand", "Read") {
					c.Violate(rule, fnName(a.ssk)+"#encryptIV-writer", "encryptIV is filled by something other than crypto/rand.Read (e.g. math/rand or a constant): base IVs could repeat under the same key", u.Pos())
					continue
				}
				n++
				succ, _, checked := callErrEdges(a.ssk, call.Value())
				c.Check(checked, rule, fnName(a.ssk)+"#rand.Read-error", "the error of crypto/rand.Read is tested", "the error of crypto/rand.Read is ignored: a failed read leaves a zero or stale IV", call.Pos())
				randOK = append(randOK, succ...)
			}
		}
	})
	c.MinCount(rule, "crypto/rand.Read(encryptIV[:]) calls in SetSymmetricKey", n, 1)
	// counter reset and encryption switch-on only with a fresh IV
	cuts := newCuts().AddEdges(randOK...)
	allInstrs(a.ssk, func(_ *ssa.BasicBlock, _ int, in ssa.Instruction) {
		st, ok := in.(*ssa.Store)
		if !ok {
			return
		}
		fa, ok := st.Addr.(*ssa.FieldAddr)
		if !ok {
			return
		}
		switch fieldOfAddr(fa) {
		case enc.ctr:
			c.mustPassInstr(rule, fnName(a.ssk)+"#encryptCounter-reset<-fresh-IV", a.ssk, st, cuts, "a nil-error crypto/rand.Read into encryptIV")
		case a.encrypted:
			c.mustPassInstr(rule, fnName(a.ssk)+"#encrypted=true<-fresh-IV", a.ssk, st, cuts, "a nil-error crypto/rand.Read into encryptIV")
		}
	})
	// encrypt: IV goes out exactly on counter == 0
	{
		fn := enc.fn
		var first, notFirst []Edge
		for _, b := range fn.Blocks {
			ifi := blockIf(b)
			if ifi == nil {
				continue
			}
			at := condAtom(ifi.Cond)
			// the condition may be the comparison itself or a bool computed earlier from it
			cmp := at
			if at.Op == token.ILLEGAL {
				if bo, ok := at.X.(*ssa.BinOp); ok {
					cmp = condAtom(bo)
					cmp.Neg = cmp.Neg != at.Neg
				}
			}
			if (cmp.Op != token.EQL && cmp.Op != token.NEQ) || !readsField(cmp.X, enc.ctr) {
				continue
			}
			if k, isC := constInt(cmp.Y); !isC || k != 0 {
				continue
			}
			eq := cmp.Op == token.EQL
			if cmp.Neg {
				eq = !eq
			}
			if eq {
				first, notFirst = append(first, Edge{b, 0}), append(notFirst, Edge{b, 1})
			} else {
				first, notFirst = append(first, Edge{b, 1}), append(notFirst, Edge{b, 0})
			}
		}
		var ivCopies []ssa.Instruction
		allInstrs(fn, func(_ *ssa.BasicBlock, _ int, in ssa.Instruction) {
			cp, ok := in.(*ssa.Call)
			if !ok {
				return
			}
			if _, isCopy := c01IsBuiltin(cp, "copy"); !isCopy || !c12IsFieldSlice(cp.Call.Args[1], enc.iv, 0, -1) {
				return
			}
			// the copy into the nonce array is R2's business; here: copies into the output buffer
			if _, isMS := memRoot(cp.Call.Args[0]).(*ssa.MakeSlice); isMS {
				ivCopies = append(ivCopies, cp)
			}
		})
		c.MinCount(rule, "copies of encryptIV into the output frame", len(ivCopies), 1)
		for _, cp := range ivCopies {
			c.mustPassInstr(rule, fnName(fn)+"#IV-sent=>first-frame", fn, cp, newCuts().AddEdges(first...), "an edge on which encryptCounter == 0")
			// at offset 0 of the output
			dst, _ := cp.(*ssa.Call).Call.Args[0].(*ssa.Slice)
			c.Check(dst == nil || c12Bounds(dst, 0, -1) || c12Bounds(dst, 0, c12NonceLen), rule, fnName(fn)+"#IV-at-offset-0", "the base IV leads the first frame", "the base IV is not written at offset 0 of the first frame", cp.Pos())
		}
		// first frame => IV sent: no success return without the copy once the counter is 0
		// (the counter is constant until the increment at the end, so on a first-frame path every
		// "counter != 0" edge is infeasible: those edges are removed)
		okAll := len(first) > 0
		var wit []*ssa.BasicBlock
		for _, e := range first {
			for _, t := range c.successTargets(fn) {
				if p := findPath(Point{e.To(), 0}, t.Target(), newCuts().AddEdges(notFirst...).AddInstrs(ivCopies...)); p != nil {
					okAll, wit = false, p
				}
			}
		}
		c.Check(okAll, rule, fnName(fn)+"#first-frame=>IV-sent", "every first-frame path prepends the base IV", "a frame can be produced with encryptCounter == 0 without the base IV in front: the peer cannot derive the nonce", fn.Pos(), c.describePath(wit)...)
	}
	// decrypt: IV taken from data[:16] exactly on counter == 0
	{
		fn := dec.fn
		data := c01Param(fn, "data", 1)
		var first []Edge
		for _, b := range fn.Blocks {
			ifi := blockIf(b)
			if ifi == nil {
				continue
			}
			at := condAtom(ifi.Cond)
			cmp := at
			if at.Op == token.ILLEGAL {
				if bo, ok := at.X.(*ssa.BinOp); ok {
					cmp = condAtom(bo)
					cmp.Neg = cmp.Neg != at.Neg
				}
			}
			if (cmp.Op != token.EQL && cmp.Op != token.NEQ) || !readsField(cmp.X, dec.ctr) {
				continue
			}
			if k, isC := constInt(cmp.Y); !isC || k != 0 {
				continue
			}
			eq := cmp.Op == token.EQL
			if cmp.Neg {
				eq = !eq
			}
			if eq {
				first = append(first, Edge{b, 0})
			} else {
				first = append(first, Edge{b, 1})
			}
		}
		k := 0
		allInstrs(fn, func(_ *ssa.BasicBlock, _ int, in ssa.Instruction) {
			fa, ok := in.(*ssa.FieldAddr)
			if !ok || fieldOfAddr(fa) != dec.iv {
				return
			}
			for _, r := range *fa.Referrers() {
				sl, isSl := r.(*ssa.Slice)
				if !isSl {
					if _, isDbg := r.(*ssa.DebugRef); !isDbg {
						c.Undecided(rule, fnName(fn)+"#decryptIV-access", "decryptIV is accessed other than through a slice", r.Pos())
					}
					continue
				}
				for _, u := range *sl.Referrers() {
					cp, isCall := u.(*ssa.Call)
					if !isCall {
						continue
					}
					if _, isCopy := c01IsBuiltin(cp, "copy"); isCopy && cp.Call.Args[0] == ssa.Value(sl) {
						k++
						src, isSl := cp.Call.Args[1].(*ssa.Slice)
						c.Check(isSl && data != nil && src.X == ssa.Value(data) && c12Bounds(src, 0, c12NonceLen) && c12Bounds(sl, 0, -1), rule, fnName(fn)+"#decryptIV<-data[:16]", "the base IV is the first 16 bytes of the frame", "decryptIV is not taken from the first 16 bytes of the received frame", cp.Pos())
						c.mustPassInstr(rule, fnName(fn)+"#IV-read=>first-frame", fn, cp, newCuts().AddEdges(first...), "an edge on which decryptCounter == 0")
					}
				}
			}
		})
		c.MinCount(rule, "writes of decryptIV in decryptDataWithAAD", k, 1)
	}
}

// C12-R4: monotone counter and wrap guard.
func c12r4(c *Ctx) {
	const rule = "C12-R4"
	c.Doc(rule, "counter: Stream.encryptCounter is written only by SetSymmetricKey (constant 0, with a fresh IV, see R3), the importer and encryptDataWithAAD; in encryptDataWithAAD every path to Seal passes the false edge of encryptCounter == 0xffffffff, every path from Seal to a success return passes the store encryptCounter = encryptCounter + 1, that store is reachable only after Seal, and Seal is not in a cycle; the same (without the wrap guard) for decryptCounter/Open")
	a := c04Anchors(c, rule)
	dirs := c12Dirs(c, rule, a)
	if dirs == nil {
		return
	}
	poss := map[*ssa.Function]token.Pos{}
	n := 0
	for _, d := range dirs {
		fn := d.fn
		var wr []*ssa.Function
		for _, acc := range c.fieldAccesses(d.ctr) {
			if acc.Write {
				wr = append(wr, acc.Fn)
				poss[acc.Fn] = acc.Instr.Pos()
			}
		}
		c.whoMay(rule, "write Stream."+d.ctr.Name(), wr, poss, fnSet(fn, a.ssk, a.imp))
		// SetSymmetricKey stores the constant 0
		allInstrs(a.ssk, func(_ *ssa.BasicBlock, _ int, in ssa.Instruction) {
			if st, ok := in.(*ssa.Store); ok {
				if fa, ok := st.Addr.(*ssa.FieldAddr); ok && fieldOfAddr(fa) == d.ctr {
					k, isC := constInt(st.Val)
					c.Check(isC && k == 0, rule, fnName(a.ssk)+"#"+d.ctr.Name()+"=0", "counter restarts at 0 with the new key/IV", "SetSymmetricKey sets "+d.ctr.Name()+" to something other than 0", st.Pos())
				}
			}
		})
		calls := callsIn(fn, d.aead)
		if len(calls) != 1 {
			c.Violate(rule, fnName(fn)+"#"+d.aead.Name()+"-calls", fmt.Sprintf("%d %s calls (expected exactly one per frame: a second call under the same counter reuses the nonce)", len(calls), d.aead.Name()), fn.Pos())
			continue
		}
		n++
		call := calls[0]
		key := fnName(fn) + "#" + d.aead.Name()
		// increments: store of load(ctr)+1
		var incs []ssa.Instruction
		allInstrs(fn, func(_ *ssa.BasicBlock, _ int, in ssa.Instruction) {
			st, ok := in.(*ssa.Store)
			if !ok {
				return
			}
			fa, ok := st.Addr.(*ssa.FieldAddr)
			if !ok || fieldOfAddr(fa) != d.ctr {
				return
			}
			bo, isBO := st.Val.(*ssa.BinOp)
			one := false
			if isBO && bo.Op == token.ADD && readsField(bo.X, d.ctr) {
				if k, isC := constInt(bo.Y); isC && k == 1 {
					one = true
				}
			}
			if one {
				incs = append(incs, st)
			} else {
				c.Violate(rule, key+"#counter-store", d.ctr.Name()+" is assigned something other than "+d.ctr.Name()+"+1 in "+fn.Name()+": the nonce sequence may repeat", st.Pos())
			}
		})
		// a counter write inside a closure / deferred function cannot be ordered against the AEAD call
		inClosure := false
		for _, g := range withClosures(fn)[1:] {
			allInstrs(g, func(_ *ssa.BasicBlock, _ int, in ssa.Instruction) {
				if fa, ok := in.(*ssa.FieldAddr); ok && fieldOfAddr(fa) == d.ctr {
					if w, _ := addrUses(fa); w {
						inClosure = true
					}
				}
			})
		}
		if inClosure {
			c.Undecided(rule, key+"#counter-increment-exists", d.ctr.Name()+" is written inside a closure of "+fn.Name()+": its order relative to "+d.aead.Name()+" cannot be followed", call.Pos())
			continue
		}
		c.Check(len(incs) > 0, rule, key+"#counter-increment-exists", "the counter is incremented", d.ctr.Name()+" is never incremented: every frame uses the same nonce", call.Pos())
		for _, st := range incs {
			c.mustPassInstr(rule, key+"#increment-after-"+d.aead.Name(), fn, st, newCuts().AddInstrs(call), "the "+d.aead.Name()+" call (a counter value is consumed only by a frame)")
		}
		// from the AEAD call to success: increment on every path
		succ, _, checked := callErrEdges(fn, call.Value())
		starts := []Point{after(call)}
		if checked {
			starts = nil
			for _, e := range succ {
				starts = append(starts, Point{e.To(), 0})
			}
		}
		okAll := true
		var wit []*ssa.BasicBlock
		for _, s := range starts {
			for _, t := range c.successTargets(fn) {
				if p := findPath(s, t.Target(), newCuts().AddInstrs(incs...)); p != nil {
					okAll, wit = false, p
				}
			}
		}
		c.Check(okAll, rule, key+"=>increment", "every frame that is produced/accepted advances the counter", "a success return is reachable after "+d.aead.Name()+" without advancing "+d.ctr.Name()+": the next frame reuses the nonce", call.Pos(), c.describePath(wit)...)
		c.Check(findPath(after(call), Target{Instr: call}, nil) == nil, rule, key+"#once", "the AEAD call is not in a cycle", d.aead.Name()+" can be reached again within one invocation (same counter, same nonce)", call.Pos())
		if d.name == "encrypt" {
			// wrap guard
			var pass []Edge
			for _, b := range fn.Blocks {
				ifi := blockIf(b)
				if ifi == nil {
					continue
				}
				at := condAtom(ifi.Cond)
				if at.Op != token.EQL && at.Op != token.NEQ && at.Op != token.GEQ && at.Op != token.LSS {
					continue
				}
				if !readsField(at.X, d.ctr) {
					continue
				}
				k, isC := constInt(at.Y)
				if !isC || uint64(k) != c12WrapAt {
					continue
				}
				atLimitOnTrue := at.Op == token.EQL || at.Op == token.GEQ
				if at.Neg {
					atLimitOnTrue = !atLimitOnTrue
				}
				lim, below := Edge{b, 0}, Edge{b, 1}
				if !atLimitOnTrue {
					lim, below = below, lim
				}
				if c.c01ErrorEdge(fn, lim) {
					pass = append(pass, below)
				}
			}
			c.mustPassInstr(rule, key+"#wrap-guard", fn, call, newCuts().AddEdges(pass...), "the edge on which encryptCounter != 0xffffffff (the other edge being an error return)")
			// the guard reads the counter value that Seal will use: no increment between guard and Seal
			for _, e := range pass {
				for _, st := range incs {
					if findPath(Point{e.To(), 0}, Target{Instr: st}, newCuts().AddInstrs(call)) != nil {
						c.Violate(rule, key+"#wrap-guard-then-increment", "the counter is incremented between the wrap guard and Seal: the guard tests a stale value", st.Pos())
					}
				}
			}
		}
	}
	c.MinCount(rule, "AEAD call sites", n, 2)
}

// C12-R5: associated data on later frames.
func c12r5(c *Ctx) {
	const rule = "C12-R5"
	c.Doc(rule, "associated data: besides the first-frame layout (C04-R4) the only other AAD buffer of Seal/Open is exactly the frame header ([0:]<-header, length len(header)), built on the edge where the first-frame flag is already true")
	a := c04Anchors(c, rule)
	dirs := c12Dirs(c, rule, a)
	if dirs == nil {
		return
	}
	n := 0
	for _, d := range dirs {
		fn := d.fn
		hdrPar := c01Param(fn, "frameHeader", 2)
		for _, call := range callsIn(fn, d.aead) {
			lay, ok := c04AADLayout(fn, call, d.flag)
			if !ok || hdrPar == nil {
				c.Undecided(rule, fnName(fn)+"#aad", "the associated data of "+d.aead.Name()+" is not a locally made buffer filled by copy() at constant offsets", call.Pos())
				continue
			}
			later := 0
			for _, br := range lay {
				if br.First {
					continue
				}
				later++
				n++
				want := []c04AADPart{{Lo: 0, Hi: -1, Src: "param:" + hdrPar.Name()}}
				c.Check(c04LayoutIs(br, want) && br.LenConst == 0 && br.LenOfHdr, rule, fnName(fn)+"#later-frame-aad", "later frames authenticate exactly the header",
					fmt.Sprintf("later-frame AAD is {%s} with length %d+len(header)=%v; the format authenticates exactly the 5-byte header", br.String(), br.LenConst, br.LenOfHdr), call.Pos())
				_, on := fieldCondEdges(fn, d.flag)
				dom := false
				for _, e := range on {
					if instrDominatedByEdge(fn, e, br.Buf) {
						dom = true
					}
				}
				c.Check(dom, rule, fnName(fn)+"#later-frame-branch", "header-only AAD is used only once the first frame is past", "the header-only AAD can be used although "+d.flag.Name()+" is still false (the digests would never be bound)", call.Pos())
			}
			c.Check(later == 1, rule, fnName(fn)+"#aad-branches", "one later-frame AAD shape", fmt.Sprintf("%d later-frame AAD buffers (expected 1)", later), call.Pos())
		}
	}
	c.MinCount(rule, "later-frame AAD buffers", n, 2)
}

// C12-R6: the header that is authenticated is the header that is sent.
func c12r6(c *Ctx) {
	const rule = "C12-R6"
	c.Doc(rule, "header binding on send: the header slice handed to encryptDataWithAAD is the whole 5-byte header that is copied to the frame, its length word was written from calculateEncryptedSize(len(data)) before the call, the plaintext argument is the data parameter, and the frame is sized header + that same encrypted size")
	a := c04Anchors(c, rule)
	put := c.c01BinaryMethod(rule, "BigEndian", "PutUint32")
	calc := c.needFn(rule, "stream", "(*Stream).calculateEncryptedSize")
	if !a.ok || put == nil || calc == nil {
		return
	}
	fn := a.send
	data := c01Param(fn, "data", 2)
	n := 0
	for _, call := range callsIn(fn, a.enc.Object()) {
		n++
		args := call.Common().Args // s, data, header
		key := fnName(fn) + "#encryptDataWithAAD"
		c.Check(data != nil && args[1] == ssa.Value(data), rule, key+"#plaintext", "the data parameter is encrypted", "the plaintext handed to encryptDataWithAAD is not the data parameter", call.Pos())
		root := memRoot(args[2])
		c.Check(c04WholeOf(args[2], root), rule, key+"#header-whole", "the whole header is authenticated", "only part of the header is handed to encryptDataWithAAD", call.Pos())
		// a PutUint32 of the encrypted size into root[1:5] on every path to the call
		cuts := newCuts()
		for _, p := range callsIn(fn, put) {
			pa := callArgs(p)
			if memRoot(pa[len(pa)-2]) != root {
				continue
			}
			v := c01Strip(pa[len(pa)-1])
			if sz, ok := v.(*ssa.Call); ok && calleeFn(sz) == calc {
				if ln, isLen := c01IsBuiltin(c01Strip(sz.Call.Args[1]), "len"); isLen && data != nil && ln.Call.Args[0] == ssa.Value(data) {
					cuts.AddInstrs(p)
				}
			}
		}
		c.mustPassInstr(rule, key+"#header-length=encrypted-size", fn, call, cuts, "BigEndian.PutUint32(header[1:5], calculateEncryptedSize(len(data)))")
	}
	c.MinCount(rule, "encryptDataWithAAD call sites in sendMessageWithEnd", n, 1)
}
