package main

import (
	"fmt"
	"go/token"
	"go/types"

	"golang.org/x/tools/go/ssa"
)

func init() { register("C12", c12r1, c12r2, c12r3, c12r4, c12r5, c12r6) }

// The format table below is written from the property statement, not from the code:
// AES-256-GCM, 16-byte nonce, 16-byte tag, nonce = base IV with its leading big-endian 32-bit word
// advanced by the per-direction frame counter, base IV sent with the first frame only, header as
// AAD, two 32-byte digests prepended on the first frame.
const (
	c12KeyLen   = 32
	c12NonceLen = 16
	c12TagLen   = 16
	c12CtrBytes = 4
	c12WrapAt   = 0xffffffff
)

type c12Dir struct {
	fn      *ssa.Function
	aead    *types.Func
	iv, ctr *types.Var
	flag    *types.Var
	name    string
}

func c12Dirs(c *Ctx, rule string, a *c04Stream) []c12Dir {
	seal, open := c.aeadMethod04(rule, "Seal"), c.aeadMethod04(rule, "Open")
	eiv := c.needField(rule, "stream", "Stream", "encryptIV")
	div := c.needField(rule, "stream", "Stream", "decryptIV")
	ectr := c.needField(rule, "stream", "Stream", "encryptCounter")
	dctr := c.needField(rule, "stream", "Stream", "decryptCounter")
	if !a.ok || seal == nil || open == nil || eiv == nil || div == nil || ectr == nil || dctr == nil {
		return nil
	}
	return []c12Dir{{a.enc, seal, eiv, ectr, a.finishedSend, "encrypt"}, {a.dec, open, div, dctr, a.finishedRecv, "decrypt"}}
}

func c12PkgFunc(call ssa.CallInstruction, pkg, name string) bool {
	o := calleeObj(call)
	return o != nil && o.Pkg() != nil && o.Pkg().Path() == pkg && o.Name() == name && o.Type().(*types.Signature).Recv() == nil
}

// c12IsFieldSlice: v is (after following helpers' parameters and results) a slice [lo:hi] of the array
// field f (hi = -1: open / full length).
func c12IsFieldSlice(x *c04X, fr *c04Frame, v ssa.Value, f *types.Var, lo, hi int64) bool {
	cv := x.Canon(nil, fr, v)
	sl, ok := cv.V.(*ssa.Slice)
	if !ok || !c12Bounds(x, cv.Fr, sl, lo, hi) {
		return false
	}
	base := x.Canon(nil, cv.Fr, sl.X)
	fa, ok := base.V.(*ssa.FieldAddr)
	return ok && fieldOfAddr(fa) == f
}

func c12Bounds(x *c04X, fr *c04Frame, sl *ssa.Slice, lo, hi int64) bool {
	gotLo, gotHi := int64(0), int64(-1)
	if sl.Low != nil {
		v, isC := x.constOf(nil, fr, sl.Low)
		if !isC {
			return false
		}
		gotLo = v
	}
	if sl.High != nil {
		v, isC := x.constOf(nil, fr, sl.High)
		if !isC {
			return false
		}
		gotHi = v
	}
	return gotLo == lo && gotHi == hi
}

// c12View is the inlined view of one of the stream functions the C12 rules look at.
func c12View(c *Ctx, fn *ssa.Function, atomic ...*ssa.Function) (*c04X, *c04Frame) {
	x := c04NewX(c.Prog, atomic...)
	return x, x.Root(fn)
}

type c12Site struct {
	fr   *c04Frame
	call ssa.CallInstruction
}

func (s c12Site) at(st *c04XState, in ssa.Instruction) bool {
	return in == s.call.(ssa.Instruction) && st.Fr == s.fr
}

// c12Sites lists the calls satisfying pred in the view.
func c12Sites(root *c04Frame, pred func(ssa.CallInstruction) bool) []c12Site {
	var out []c12Site
	root.Walk(func(fr *c04Frame, in ssa.Instruction) {
		if call, ok := in.(ssa.CallInstruction); ok && pred(call) {
			out = append(out, c12Site{fr, call})
		}
	})
	return out
}

func c12Overflow(c *Ctx, rule string, x *c04X, fn *ssa.Function) {
	if x.Overflow {
		c.Undecided(rule, fnName(fn)+"#search", "the inlined control flow of this function is too large to search exhaustively", fn.Pos())
	}
}

// c12SuccessTarget: the state is at one of the success returns of the root function.
func c12SuccessTarget(c *Ctx, x *c04X, fn *ssa.Function) func(*c04XState, ssa.Instruction) bool {
	tg := c.successTargets(fn)
	return func(st *c04XState, in ssa.Instruction) bool {
		_, ok := x.SuccessReturn(st, in, tg)
		return ok
	}
}

// C12-R1: primitives.
func c12r1(c *Ctx) {
	const rule = "C12-R1"
	c.Doc(rule, "primitives: SetSymmetricKey rejects any key length but 32 before aes.NewCipher; SetSymmetricKey and NewStreamWithCryptoState (with their same-module helpers inlined) build Stream.gcm with crypto/aes.NewCipher + crypto/cipher.NewGCMWithNonceSize(block, 16) and store exactly that AEAD; the importer's key buffer is 32 bytes; calculateEncryptedSize adds exactly 0 (not encrypting), 16 (tag) or 16+16 (tag + first-frame IV)")
	a := c04Anchors(c, rule)
	calc := c.needFn(rule, "stream", "(*Stream).calculateEncryptedSize")
	if !a.ok || calc == nil {
		return
	}
	n := 0
	for _, fn := range []*ssa.Function{a.ssk, a.imp} {
		x, root := c12View(c, fn)
		newCipher := c12Sites(root, func(call ssa.CallInstruction) bool { return c12PkgFunc(call, "crypto/aes", "NewCipher") })
		newGCM := c12Sites(root, func(call ssa.CallInstruction) bool { return c12PkgFunc(call, "crypto/cipher", "NewGCMWithNonceSize") })
		if len(newCipher) != 1 || len(newGCM) != 1 {
			c.Violate(rule, fnName(fn)+"#constructor", fmt.Sprintf("expected one aes.NewCipher and one cipher.NewGCMWithNonceSize call, found %d and %d (cipher.NewGCM would give 12-byte nonces)", len(newCipher), len(newGCM)), fn.Pos())
			continue
		}
		n++
		g, nc := newGCM[0], newCipher[0]
		ns, isC := x.constOf(nil, g.fr, g.call.Common().Args[1])
		c.Check(isC && ns == c12NonceLen, rule, fnName(fn)+"#nonce-size", "GCM with 16-byte nonces", fmt.Sprintf("GCM nonce size is %d (constant=%v), the format uses 16-byte nonces", ns, isC), g.call.Pos())
		blkOK := false
		if o, ok := x.One(nil, g.fr, g.call.Common().Args[0]); ok {
			blk, _ := originCall(o.V)
			blkOK = blk == nc.call && o.Fr == nc.fr
		}
		c.Check(blkOK, rule, fnName(fn)+"#gcm<-aes", "the GCM wraps the AES block cipher just created", "the block cipher handed to NewGCMWithNonceSize is not the result of aes.NewCipher", g.call.Pos())
		// the AEAD stored into Stream.gcm is that one
		stores := 0
		root.Walk(func(fr *c04Frame, in ssa.Instruction) {
			if !storeHit(a.gcm)(in) {
				return
			}
			st := in.(*ssa.Store)
			stores++
			good := false
			if o, ok := x.One(nil, fr, st.Val); ok {
				oc, idx := originCall(o.V)
				good = oc == g.call && o.Fr == g.fr && idx == 0
			}
			c.Check(good, rule, fnName(fn)+"#Stream.gcm<-NewGCMWithNonceSize", "Stream.gcm is the AEAD just built", "Stream.gcm is assigned something other than the result of NewGCMWithNonceSize", st.Pos())
		})
		if stores == 0 {
			c.Violate(rule, fnName(fn)+"#Stream.gcm<-NewGCMWithNonceSize", "the AEAD is never stored into Stream.gcm", fn.Pos())
		}
		// key length
		keyArg := x.Canon(nil, nc.fr, nc.call.Common().Args[0])
		if fn == a.ssk {
			// outcome of a test len(key) ==/!= 32: +1 equal, -1 different, 0 not such a test
			lenTest := func(st *c04XState, at c04XAtom, truth bool) int {
				if at.Op != token.EQL && at.Op != token.NEQ {
					return 0
				}
				lx, k := at.X, at.Y
				if _, isC := x.constOf(st, at.Fr, k); !isC {
					lx, k = at.Y, at.X
				}
				kv, isC := x.constOf(st, at.Fr, k)
				if !isC || kv != c12KeyLen {
					return 0
				}
				lv := x.CanonInt(st, at.Fr, lx)
				call, isLen := c01IsBuiltin(lv.V, "len")
				if !isLen || x.Canon(st, lv.Fr, call.Call.Args[0]) != keyArg {
					return 0
				}
				if (at.Op == token.EQL) == truth {
					return 1
				}
				return -1
			}
			dom, _ := x.Blocked(root.Entry(), &c04XQuery{Target: nc.at, CutCond: func(st *c04XState, at c04XAtom, truth bool) bool { return lenTest(st, at, truth) == 1 }})
			rej, _ := x.Blocked(root.Entry(), &c04XQuery{Target: c12SuccessTarget(c, x, fn), NeedMark: true, MarkCond: func(st *c04XState, at c04XAtom, truth bool) bool { return lenTest(st, at, truth) == -1 }})
			c.Check(dom && rej, rule, fnName(fn)+"#key-length", "keys of any length but 32 are rejected before aes.NewCipher", "no len(key) == 32 test dominates aes.NewCipher: a 16- or 24-byte key would silently select AES-128/192", nc.call.Pos())
		} else {
			r, _ := x.WholeOf(nil, nc.fr, nc.call.Common().Args[0])
			ln := c04BufLen(r.V)
			c.Check(ln == c12KeyLen, rule, fnName(fn)+"#key-length", "the imported key buffer is 32 bytes", fmt.Sprintf("the imported key buffer is %d bytes, AES-256 needs 32", ln), nc.call.Pos())
		}
		c12Overflow(c, rule, x, fn)
	}
	c.MinCount(rule, "AEAD constructors", n, 2)
	// size arithmetic
	if par := c01Param(calc, "plainSize", 1); par != nil {
		_, adds, ok := c01MaxAddend(c.Prog, calc, par)
		if !ok {
			c.Undecided(rule, fnName(calc)+"#addends", "calculateEncryptedSize does not return its parameter plus constants on every path", calc.Pos())
		} else {
			set := map[int64]bool{}
			for _, x := range adds {
				set[x] = true
			}
			good := len(set) == 3 && set[0] && set[c12TagLen] && set[c12TagLen+c12NonceLen]
			c.Check(good, rule, fnName(calc)+"#addends", "overheads are {0, 16, 32}", fmt.Sprintf("calculateEncryptedSize adds %v; the format adds 16 (tag) and 16 more on the first frame (IV)", adds), calc.Pos())
		}
	}
}

// ---------------------------------------------------------------------------
// C12-R2: nonce construction.

// c12NonceW lists the writers of one nonce array inside one frame.
type c12NonceW struct {
	copies, puts, fulls []ssa.Instruction // base-IV copy, counter word, "both" (a helper that derives the whole nonce)
	other               bool
}

// c12Nonce carries what the nonce rule needs to recognise the two writes.
type c12Nonce struct {
	c        *Ctx
	x        *c04X
	d        c12Dir
	get, put *types.Func
	aead     ssa.CallInstruction
}

// writers classifies every instruction of frame fr that may write the array rooted at root (a local array
// cell, or a pointer/slice parameter of a helper).
func (n *c12Nonce) writers(fr *c04Frame, root ssa.Value, depth int) c12NonceW {
	var w c12NonceW
	x := n.x
	allInstrs(fr.Fn, func(_ *ssa.BasicBlock, _ int, in ssa.Instruction) {
		switch t := in.(type) {
		case *ssa.Store:
			if memRoot(t.Addr) != root {
				return
			}
			if t.Addr != root {
				w.other = true // element store
				return
			}
			// whole-array store: the value must be a nonce derived by a value helper
			os := x.Origins(nil, fr, t.Val)
			good := len(os) > 0
			for _, o := range os {
				ld, ok := o.V.(*ssa.UnOp)
				if !ok || ld.Op != token.MUL {
					good = false
					break
				}
				al, ok := ld.X.(*ssa.Alloc)
				if !ok || o.Fr == fr || depth > 3 || !n.full(o.Fr, al, depth+1) {
					good = false
					break
				}
			}
			if good {
				w.fulls = append(w.fulls, t)
			} else {
				w.other = true
			}
		case *ssa.Call:
			if _, isCopy := c01IsBuiltin(t, "copy"); isCopy {
				if memRoot(t.Call.Args[0]) != root {
					return
				}
				rootW, _ := x.WholeOf(nil, fr, root)
				if r, whole := x.WholeOf(nil, fr, t.Call.Args[0]); whole && r == rootW && c12IsFieldSlice(x, fr, t.Call.Args[1], n.d.iv, 0, -1) {
					w.copies = append(w.copies, t)
				} else {
					w.other = true
				}
				return
			}
			if ssa.CallInstruction(t) == n.aead {
				return
			}
			args := callArgs(t)
			for i, arg := range args {
				if memRoot(arg) != root {
					continue
				}
				if types.Object(calleeObj(t)) == types.Object(n.put) && i == len(args)-2 {
					sl, isSl := arg.(*ssa.Slice)
					if isSl && c12Bounds(x, fr, sl, 0, c12CtrBytes) && n.word(fr, args[len(args)-1]) {
						w.puts = append(w.puts, t)
						continue
					}
				}
				// a helper that is handed the array: it must derive the whole nonce into it, or not write it
				if k := fr.EnterV(t); k != nil && depth <= 3 && i < len(k.Fn.Params) {
					sub := n.writers(k, k.Fn.Params[i], depth+1)
					switch {
					case !sub.other && len(sub.copies)+len(sub.puts)+len(sub.fulls) == 0:
						// only reads it
					case n.fullW(k, sub):
						w.fulls = append(w.fulls, t)
					default:
						w.other = true
					}
					continue
				}
				w.other = true
			}
		}
	})
	return w
}

// full: on every path to every return of the frame's function the array holds base IV + counter word:
// copied first, counter word afterwards, no other writer.
func (n *c12Nonce) full(fr *c04Frame, root ssa.Value, depth int) bool {
	return n.fullW(fr, n.writers(fr, root, depth))
}

func (n *c12Nonce) fullW(fr *c04Frame, w c12NonceW) bool {
	if w.other || len(w.copies)+len(w.fulls) == 0 || len(w.puts)+len(w.fulls) == 0 {
		return false
	}
	for _, r := range c04Returns(fr.Fn) {
		if findPath(entryPoint(fr.Fn), Target{Instr: r}, newCuts().AddInstrs(w.copies...).AddInstrs(w.fulls...)) != nil {
			return false
		}
		if findPath(entryPoint(fr.Fn), Target{Instr: r}, newCuts().AddInstrs(w.puts...).AddInstrs(w.fulls...)) != nil {
			return false
		}
	}
	return !c12Late(w)
}

// c12Late: a base-IV copy (or a whole derivation) can follow the counter word.
func c12Late(w c12NonceW) bool {
	for _, p := range w.puts {
		for _, cp := range append(append([]ssa.Instruction{}, w.copies...), w.fulls...) {
			if findPath(after(p), Target{Instr: cp}, nil) != nil {
				return true
			}
		}
	}
	return false
}

// word: v = BigEndian.Uint32(<iv field>[:4]) + <counter field>, either operand order; the operands may be
// parameters of a helper or results of value helpers.
func (n *c12Nonce) word(fr *c04Frame, v ssa.Value) bool {
	x := n.x
	cv := x.CanonInt(nil, fr, v)
	bo, ok := cv.V.(*ssa.BinOp)
	if !ok || bo.Op != token.ADD {
		return false
	}
	isBase := func(v ssa.Value) bool {
		b := x.CanonInt(nil, cv.Fr, v)
		call, ok := b.V.(*ssa.Call)
		if !ok || types.Object(calleeObj(call)) != types.Object(n.get) {
			return false
		}
		args := callArgs(call)
		return c12IsFieldSlice(x, b.Fr, args[len(args)-1], n.d.iv, 0, c12CtrBytes)
	}
	isCtr := func(v ssa.Value) bool { return readsField(x.CanonInt(nil, cv.Fr, v).V, n.d.ctr) }
	return (isBase(bo.X) && isCtr(bo.Y)) || (isBase(bo.Y) && isCtr(bo.X))
}

func c12r2(c *Ctx) {
	const rule = "C12-R2"
	c.Doc(rule, "nonce: the nonce argument of Seal (Open) is the whole of a local 16-byte array that is filled by copy(iv[:], encryptIV[:]) (decryptIV) and then overwritten in [:4] by BigEndian.PutUint32(BigEndian.Uint32(encryptIV[:4]) + encryptCounter) (decrypt*), in that order on every path, with no other writer; the derivation may sit in a same-module helper that returns the array or fills it through a pointer, provided the helper does exactly that on all its paths with the direction's base IV and counter as arguments")
	a := c04Anchors(c, rule)
	put := c.c01BinaryMethod(rule, "BigEndian", "PutUint32")
	get := c.c01BinaryMethod(rule, "BigEndian", "Uint32")
	dirs := c12Dirs(c, rule, a)
	if dirs == nil || put == nil || get == nil {
		return
	}
	n := 0
	for _, d := range dirs {
		fn := d.fn
		x, root := c12View(c, fn)
		for _, s := range c12Sites(root, func(call ssa.CallInstruction) bool { _, ok := isCallTo(call, d.aead); return ok }) {
			call := s.call
			n++
			key := fnName(fn) + "#" + d.aead.Name()
			nr, whole := x.WholeOf(nil, s.fr, call.Common().Args[1])
			arrRoot, isAl := nr.V.(*ssa.Alloc)
			if !isAl || !whole {
				c.Undecided(rule, key+"#nonce", "the nonce is not the whole of a local array", call.Pos())
				continue
			}
			arr, _ := arrRoot.Type().Underlying().(*types.Pointer).Elem().Underlying().(*types.Array)
			c.Check(arr != nil && arr.Len() == c12NonceLen, rule, key+"#nonce-length", "16-byte nonce", "the nonce array is not 16 bytes", call.Pos())
			// the instruction of the array's frame at which the array is consumed
			var use ssa.Instruction = call
			for f := s.fr; f != nr.Fr; f = f.Parent {
				if f == nil || f.Parent == nil {
					use = nil
					break
				}
				use = f.Call
			}
			if use == nil {
				c.Undecided(rule, key+"#nonce", "the nonce array is made in a helper that does not lead to the "+d.aead.Name()+" call", call.Pos())
				continue
			}
			nn := &c12Nonce{c: c, x: x, d: d, get: get, put: put, aead: call}
			w := nn.writers(nr.Fr, arrRoot, 0)
			afn := nr.Fr.Fn
			c.Check(!w.other, rule, key+"#nonce-writers", "the nonce array is written only by the IV copy and the counter word", "the nonce array has a writer other than copy(iv[:], "+d.iv.Name()+"[:]) and BigEndian.PutUint32(iv[:4], BigEndian.Uint32("+d.iv.Name()+"[:4]) + "+d.ctr.Name()+")", call.Pos())
			c.mustPassInstr(rule, key+"#nonce<-baseIV", afn, use, newCuts().AddInstrs(w.copies...).AddInstrs(w.fulls...), "copy(iv[:], "+d.iv.Name()+"[:])")
			c.mustPassInstr(rule, key+"#nonce[:4]<-baseWord+counter", afn, use, newCuts().AddInstrs(w.puts...).AddInstrs(w.fulls...), "BigEndian.PutUint32(iv[:4], BigEndian.Uint32("+d.iv.Name()+"[:4]) + "+d.ctr.Name()+")")
			// order: no IV copy after the counter word has been written
			c.Check(!c12Late(w) && len(w.puts)+len(w.fulls) > 0 && len(w.copies)+len(w.fulls) > 0, rule, key+"#nonce-order", "the counter word is written after the base IV copy", "the base IV can be copied over the counter word (or one of the two is missing): every frame would reuse the base nonce", call.Pos())
		}
		c12Overflow(c, rule, x, fn)
	}
	c.MinCount(rule, "AEAD calls", n, 2)
}

// c12Use is one use of (the address of) an array field found by c12FieldUses.
type c12Use struct {
	fr    *c04Frame
	in    ssa.Instruction
	v     ssa.Value // the address / slice value used
	whole bool      // v covers the whole array
}

// c12FieldUses enumerates how the array field f is used in the inlined view: every instruction that uses the
// field's address or a slice of it, following the value into same-module helpers it is handed to.
func c12FieldUses(x *c04X, root *c04Frame, f *types.Var, visit func(u c12Use)) {
	var follow func(fr *c04Frame, v ssa.Value, whole bool, depth int)
	follow = func(fr *c04Frame, v ssa.Value, whole bool, depth int) {
		if depth > 8 || v.Referrers() == nil {
			return
		}
		for _, r := range *v.Referrers() {
			switch u := r.(type) {
			case *ssa.DebugRef:
			case *ssa.Slice:
				if u.X != v {
					visit(c12Use{fr, u, v, whole})
					continue
				}
				w := whole && (u.Low == nil || isZeroConst(u.Low))
				if u.High != nil {
					if hi, isC := x.constOf(nil, fr, u.High); !isC || hi != c12ArrayLen(f) {
						w = false
					}
				}
				follow(fr, u, w, depth+1)
			case *ssa.Call:
				if k := fr.EnterV(u); k != nil {
					for i, a := range u.Call.Args {
						if a == v && i < len(k.Fn.Params) {
							follow(k, k.Fn.Params[i], whole, depth+1)
						}
					}
					continue
				}
				visit(c12Use{fr, u, v, whole})
			default:
				visit(c12Use{fr, r, v, whole})
			}
		}
	}
	root.Walk(func(fr *c04Frame, in ssa.Instruction) {
		if fa, ok := in.(*ssa.FieldAddr); ok && fieldOfAddr(fa) == f {
			follow(fr, fa, true, 0)
		}
	})
}

func c12ArrayLen(f *types.Var) int64 {
	if arr, ok := f.Type().Underlying().(*types.Array); ok {
		return arr.Len()
	}
	return -1
}

// c12CtrZero: atom a compares the counter field with 0; returns whether the outcome truth means "counter == 0".
func c12CtrZero(a c04XAtom, ctr *types.Var, truth bool) (zero, ok bool) {
	if (a.Op != token.EQL && a.Op != token.NEQ) || !readsField(a.X, ctr) {
		return false, false
	}
	if k, isC := constInt(a.Y); !isC || k != 0 {
		return false, false
	}
	return (a.Op == token.EQL) == truth, true
}

// C12-R3: base IV fresh and sent once.
func c12r3(c *Ctx) {
	const rule = "C12-R3"
	c.Doc(rule, "base IV: Stream.encryptIV is written only by crypto/rand.Read in SetSymmetricKey (error tested; the counter reset and encrypted=true follow its nil-error edge) and by the state importer; encryptDataWithAAD copies encryptIV into the output exactly on the encryptCounter==0 edge and every first-frame path does so; Stream.decryptIV is written only from data[:16] on the decryptCounter==0 edge and by the importer; same-module helpers of these functions are followed")
	a := c04Anchors(c, rule)
	dirs := c12Dirs(c, rule, a)
	if dirs == nil {
		return
	}
	enc, dec := dirs[0], dirs[1]
	poss := map[*ssa.Function]token.Pos{}
	writers := func(f *types.Var) []*ssa.Function {
		var wr []*ssa.Function
		for _, acc := range c.fieldAccesses(f) {
			if acc.Write {
				wr = append(wr, acc.Fn)
				poss[acc.Fn] = acc.Instr.Pos()
			}
		}
		return wr
	}
	c.whoMayDeep(rule, "write Stream.encryptIV", writers(enc.iv), poss, fnSet(a.ssk, a.imp))
	c.whoMayDeep(rule, "write Stream.decryptIV", writers(dec.iv), poss, fnSet(a.dec, a.imp))
	n := 0
	// SetSymmetricKey: the only way encryptIV is written is crypto/rand.Read(encryptIV[:])
	{
		x, root := c12View(c, a.ssk)
		isRand := func(call ssa.CallInstruction) bool { return c12PkgFunc(call, "crypto/rand", "Read") }
		randSites := map[ssa.Instruction]bool{}
		c12FieldUses(x, root, enc.iv, func(u c12Use) {
			call, isCall := u.in.(ssa.CallInstruction)
			if isCall && isRand(call) {
				if !u.whole {
					c.Violate(rule, fnName(a.ssk)+"#encryptIV-writer", "crypto/rand.Read fills only part of encryptIV", u.in.Pos())
					return
				}
				if !randSites[u.in] {
					randSites[u.in] = true
					n++
				}
				return
			}
			if w, _ := c12UseWrites(u); w {
				c.Violate(rule, fnName(a.ssk)+"#encryptIV-writer", "encryptIV is filled by something other than crypto/rand.Read (e.g. math/rand or a constant): base IVs could repeat under the same key", u.in.Pos())
			}
		})
		randNil := func(st *c04XState, at c04XAtom, truth bool) bool {
			isNil, ok := x.AtomCallNil(st, at, truth, func(call ssa.CallInstruction) bool { return randSites[call.(ssa.Instruction)] })
			return ok && isNil
		}
		if n > 0 {
			checked, _ := x.Blocked(root.Entry(), &c04XQuery{Target: c12SuccessTarget(c, x, a.ssk), CutCond: randNil})
			c.Check(checked, rule, fnName(a.ssk)+"#rand.Read-error", "the error of crypto/rand.Read is tested", "the error of crypto/rand.Read is ignored: a failed read leaves a zero or stale IV", a.ssk.Pos())
		}
		c.MinCount(rule, "crypto/rand.Read(encryptIV[:]) calls in SetSymmetricKey", n, 1)
		// counter reset and encryption switch-on only with a fresh IV
		for _, k := range []struct {
			f   *types.Var
			key string
		}{{enc.ctr, "#encryptCounter-reset<-fresh-IV"}, {a.encrypted, "#encrypted=true<-fresh-IV"}} {
			k := k
			have := false
			root.Walk(func(_ *c04Frame, in ssa.Instruction) {
				if storeHit(k.f)(in) {
					have = true
				}
			})
			if !have {
				continue
			}
			isStore := func(_ *c04XState, in ssa.Instruction) bool { return storeHit(k.f)(in) }
			if ok, path := x.Blocked(root.Entry(), &c04XQuery{Target: isStore, CutCond: randNil}); ok {
				c.Ok(rule, fnName(a.ssk)+k.key, "every path to it passes a nil-error crypto/rand.Read into encryptIV", a.ssk.Pos())
			} else {
				c.Violate(rule, fnName(a.ssk)+k.key, "reachable without passing a nil-error crypto/rand.Read into encryptIV", a.ssk.Pos(), c.describePath(path)...)
			}
		}
		c12Overflow(c, rule, x, a.ssk)
	}
	// encrypt: IV goes out exactly on counter == 0
	{
		fn := enc.fn
		x, root := c12View(c, fn)
		first := func(_ *c04XState, at c04XAtom, truth bool) bool {
			z, ok := c12CtrZero(at, enc.ctr, truth)
			return ok && z
		}
		notFirst := func(_ *c04XState, at c04XAtom, truth bool) bool {
			z, ok := c12CtrZero(at, enc.ctr, truth)
			return ok && !z
		}
		// copies of the whole base IV into the output buffer (the copy into the nonce array is R2's business)
		ivCopy := func(st *c04XState, in ssa.Instruction) bool {
			cp, ok := in.(*ssa.Call)
			if !ok {
				return false
			}
			if _, isCopy := c01IsBuiltin(cp, "copy"); !isCopy || !c12IsFieldSlice(x, st.Fr, cp.Call.Args[1], enc.iv, 0, -1) {
				return false
			}
			r, _ := x.WholeOf(st, st.Fr, cp.Call.Args[0])
			_, isMS := r.V.(*ssa.MakeSlice)
			return isMS
		}
		var ivCopies []c12Site
		root.Walk(func(fr *c04Frame, in ssa.Instruction) {
			if ivCopy(&c04XState{Fr: fr, B: in.Block()}, in) {
				ivCopies = append(ivCopies, c12Site{fr, in.(*ssa.Call)})
			}
		})
		c.MinCount(rule, "copies of encryptIV into the output frame", len(ivCopies), 1)
		for _, cp := range ivCopies {
			if ok, path := x.Blocked(root.Entry(), &c04XQuery{Target: cp.at, CutCond: first}); ok {
				c.Ok(rule, fnName(fn)+"#IV-sent=>first-frame", "every path to it passes an edge on which encryptCounter == 0", cp.call.Pos())
			} else {
				c.Violate(rule, fnName(fn)+"#IV-sent=>first-frame", "reachable without passing an edge on which encryptCounter == 0", cp.call.Pos(), c.describePath(path)...)
			}
			// at offset 0 of the output
			dst, _ := cp.call.Common().Args[0].(*ssa.Slice)
			c.Check(dst == nil || c12Bounds(x, cp.fr, dst, 0, -1) || c12Bounds(x, cp.fr, dst, 0, c12NonceLen), rule, fnName(fn)+"#IV-at-offset-0", "the base IV leads the first frame", "the base IV is not written at offset 0 of the first frame", cp.call.Pos())
		}
		// first frame => IV sent: no success return without the copy once the counter is 0
		// (the counter is constant until the increment at the end, so on a first-frame path every
		// "counter != 0" edge is infeasible: those outcomes are removed)
		okAll, wit := x.Blocked(root.Entry(), &c04XQuery{Target: c12SuccessTarget(c, x, fn), NeedMark: true, MarkCond: first, CutCond: notFirst, CutInstr: ivCopy})
		tests := 0
		root.Walk(func(_ *c04Frame, in ssa.Instruction) {
			if bo, ok := in.(*ssa.BinOp); ok {
				if _, isT := c12CtrZero(c04XAtom{Op: bo.Op, X: bo.X, Y: bo.Y}, enc.ctr, true); isT {
					tests++
				}
			}
		})
		c.Check(okAll && tests > 0, rule, fnName(fn)+"#first-frame=>IV-sent", "every first-frame path prepends the base IV", "a frame can be produced with encryptCounter == 0 without the base IV in front: the peer cannot derive the nonce", fn.Pos(), c.describePath(wit)...)
		c12Overflow(c, rule, x, fn)
	}
	// decrypt: IV taken from data[:16] exactly on counter == 0
	{
		fn := dec.fn
		x, root := c12View(c, fn)
		data := c01Param(fn, "data", 1)
		first := func(_ *c04XState, at c04XAtom, truth bool) bool {
			z, ok := c12CtrZero(at, dec.ctr, truth)
			return ok && z
		}
		k := 0
		c12FieldUses(x, root, dec.iv, func(u c12Use) {
			cp, isCall := u.in.(*ssa.Call)
			if isCall {
				if _, isCopy := c01IsBuiltin(cp, "copy"); isCopy && cp.Call.Args[0] == u.v {
					k++
					srcOK := false
					if sv := x.Canon(nil, u.fr, cp.Call.Args[1]); data != nil {
						if src, isSl := sv.V.(*ssa.Slice); isSl && x.Canon(nil, sv.Fr, src.X) == (c04XV{root, data}) && c12Bounds(x, sv.Fr, src, 0, c12NonceLen) {
							srcOK = true
						}
					}
					c.Check(srcOK && u.whole, rule, fnName(fn)+"#decryptIV<-data[:16]", "the base IV is the first 16 bytes of the frame", "decryptIV is not taken from the first 16 bytes of the received frame", cp.Pos())
					site := c12Site{u.fr, cp}
					if ok, path := x.Blocked(root.Entry(), &c04XQuery{Target: site.at, CutCond: first}); ok {
						c.Ok(rule, fnName(fn)+"#IV-read=>first-frame", "every path to it passes an edge on which decryptCounter == 0", cp.Pos())
					} else {
						c.Violate(rule, fnName(fn)+"#IV-read=>first-frame", "reachable without passing an edge on which decryptCounter == 0", cp.Pos(), c.describePath(path)...)
					}
					return
				}
			}
			if w, known := c12UseWrites(u); w || !known {
				c.Undecided(rule, fnName(fn)+"#decryptIV-access", "decryptIV may be written other than by copy(decryptIV[:], data[:16])", u.in.Pos())
			}
		})
		c.MinCount(rule, "writes of decryptIV in decryptDataWithAAD", k, 1)
		c12Overflow(c, rule, x, fn)
	}
}

// c12UseWrites: does the use write through the address/slice? known=false when it cannot be told.
func c12UseWrites(u c12Use) (write, known bool) {
	switch t := u.in.(type) {
	case *ssa.Store:
		return t.Addr == u.v || t.Val == u.v, true
	case *ssa.UnOp:
		return false, true
	case *ssa.IndexAddr:
		w, _ := addrUses(t)
		return w, true
	case *ssa.Call:
		cc := t.Common()
		if b, ok := cc.Value.(*ssa.Builtin); ok {
			switch b.Name() {
			case "copy":
				return len(cc.Args) == 2 && cc.Args[0] == u.v, true
			case "len", "cap":
				return false, true
			case "append":
				return len(cc.Args) > 0 && cc.Args[0] == u.v, true
			}
		}
		if calleeOnlyReadsSlices(t) {
			return false, true
		}
		if w, _, ok := calleeParamUses(t, u.v, 0); ok {
			return w, true
		}
		return true, false
	case *ssa.Phi, *ssa.MakeInterface, *ssa.Return, *ssa.MakeClosure:
		return true, false
	}
	return false, true
}

// C12-R4: monotone counter and wrap guard.
func c12r4(c *Ctx) {
	const rule = "C12-R4"
	c.Doc(rule, "counter: Stream.encryptCounter is written only by SetSymmetricKey (constant 0, with a fresh IV, see R3), the importer and encryptDataWithAAD (or helpers only they call); in encryptDataWithAAD (helpers inlined) every path to Seal passes the false edge of encryptCounter == 0xffffffff, every path from Seal to a success return passes the store encryptCounter = encryptCounter + 1, that store is reachable only after Seal, and Seal is not in a cycle; the same (without the wrap guard) for decryptCounter/Open")
	a := c04Anchors(c, rule)
	dirs := c12Dirs(c, rule, a)
	if dirs == nil {
		return
	}
	poss := map[*ssa.Function]token.Pos{}
	n := 0
	for _, d := range dirs {
		d := d
		fn := d.fn
		var wr []*ssa.Function
		for _, acc := range c.fieldAccesses(d.ctr) {
			if acc.Write {
				wr = append(wr, acc.Fn)
				poss[acc.Fn] = acc.Instr.Pos()
			}
		}
		c.whoMayDeep(rule, "write Stream."+d.ctr.Name(), wr, poss, fnSet(fn, a.ssk, a.imp))
		// SetSymmetricKey stores the constant 0
		{
			x, root := c12View(c, a.ssk)
			root.Walk(func(fr *c04Frame, in ssa.Instruction) {
				if storeHit(d.ctr)(in) {
					k, isC := x.constOf(nil, fr, in.(*ssa.Store).Val)
					c.Check(isC && k == 0, rule, fnName(a.ssk)+"#"+d.ctr.Name()+"=0", "counter restarts at 0 with the new key/IV", "SetSymmetricKey sets "+d.ctr.Name()+" to something other than 0", in.Pos())
				}
			})
		}
		x, root := c12View(c, fn)
		isAEAD := func(call ssa.CallInstruction) bool { _, ok := isCallTo(call, d.aead); return ok }
		calls := c12Sites(root, isAEAD)
		if len(calls) != 1 {
			c.Violate(rule, fnName(fn)+"#"+d.aead.Name()+"-calls", fmt.Sprintf("%d %s calls (expected exactly one per frame: a second call under the same counter reuses the nonce)", len(calls), d.aead.Name()), fn.Pos())
			continue
		}
		n++
		site := calls[0]
		call := site.call
		key := fnName(fn) + "#" + d.aead.Name()
		// increments: store of load(ctr)+1
		isInc := func(_ *c04XState, in ssa.Instruction) bool {
			if !storeHit(d.ctr)(in) {
				return false
			}
			bo, isBO := in.(*ssa.Store).Val.(*ssa.BinOp)
			if isBO && bo.Op == token.ADD && readsField(bo.X, d.ctr) {
				if k, isC := constInt(bo.Y); isC && k == 1 {
					return true
				}
			}
			return false
		}
		incs := 0
		root.Walk(func(_ *c04Frame, in ssa.Instruction) {
			if !storeHit(d.ctr)(in) {
				return
			}
			if isInc(nil, in) {
				incs++
			} else {
				c.Violate(rule, key+"#counter-store", d.ctr.Name()+" is assigned something other than "+d.ctr.Name()+"+1 in "+fn.Name()+": the nonce sequence may repeat", in.Pos())
			}
		})
		// a counter write inside a closure / deferred function that is not called in line cannot be ordered
		// against the AEAD call
		inClosure := false
		entered := map[*ssa.Function]bool{}
		for _, f := range root.Frames() {
			entered[f.Fn] = true
		}
		for _, f := range root.Frames() {
			for _, g := range withClosures(f.Fn)[1:] {
				if entered[g] {
					continue
				}
				allInstrs(g, func(_ *ssa.BasicBlock, _ int, in ssa.Instruction) {
					if fa, ok := in.(*ssa.FieldAddr); ok && fieldOfAddr(fa) == d.ctr {
						if w, _ := addrUses(fa); w {
							inClosure = true
						}
					}
				})
			}
		}
		if inClosure {
			c.Undecided(rule, key+"#counter-increment-exists", d.ctr.Name()+" is written inside a closure of "+fn.Name()+": its order relative to "+d.aead.Name()+" cannot be followed", call.Pos())
			continue
		}
		c.Check(incs > 0, rule, key+"#counter-increment-exists", "the counter is incremented", d.ctr.Name()+" is never incremented: every frame uses the same nonce", call.Pos())
		if incs > 0 {
			if ok, path := x.Blocked(root.Entry(), &c04XQuery{Target: isInc, CutInstr: site.at}); ok {
				c.Ok(rule, key+"#increment-after-"+d.aead.Name(), "every path to it passes the "+d.aead.Name()+" call (a counter value is consumed only by a frame)", call.Pos())
			} else {
				c.Violate(rule, key+"#increment-after-"+d.aead.Name(), "reachable without passing the "+d.aead.Name()+" call (a counter value is consumed only by a frame)", call.Pos(), c.describePath(path)...)
			}
		}
		// from the AEAD call to success: increment on every path
		q := &c04XQuery{Target: c12SuccessTarget(c, x, fn), NeedMark: true, CutInstr: isInc, CutAfterMark: true}
		if len(errResults(call.Value())) > 0 {
			// the frame counts once the AEAD call returned no error
			tested := false
			q.MarkCond = func(st *c04XState, at c04XAtom, truth bool) bool {
				isNil, ok := x.AtomCallNil(st, at, truth, func(cl ssa.CallInstruction) bool { return cl == call })
				if ok {
					tested = true
				}
				return ok && isNil
			}
			x.Search(root.Entry(), &c04XQuery{MarkCond: q.MarkCond})
			if !tested {
				q.MarkCond = nil
			}
		}
		if q.MarkCond == nil {
			q.MarkInstr = site.at
		}
		okAll, wit := x.Blocked(root.Entry(), q)
		c.Check(okAll, rule, key+"=>increment", "every frame that is produced/accepted advances the counter", "a success return is reachable after "+d.aead.Name()+" without advancing "+d.ctr.Name()+": the next frame reuses the nonce", call.Pos(), c.describePath(wit)...)
		once := true
		for _, s := range x.Reach(root.Entry(), &c04XQuery{}, site.at) {
			if x.Search(s.After(), &c04XQuery{Target: site.at}) != nil {
				once = false
			}
		}
		c.Check(once, rule, key+"#once", "the AEAD call is not in a cycle", d.aead.Name()+" can be reached again within one invocation (same counter, same nonce)", call.Pos())
		if d.name == "encrypt" {
			// wrap guard: outcome of a comparison of the counter with 0xffffffff: +1 below the limit, -1 at the limit
			guard := func(at c04XAtom, truth bool) int {
				if at.Op != token.EQL && at.Op != token.NEQ && at.Op != token.GEQ && at.Op != token.LSS {
					return 0
				}
				if !readsField(at.X, d.ctr) {
					return 0
				}
				k, isC := constInt(at.Y)
				if !isC || uint64(k) != c12WrapAt {
					return 0
				}
				atLimit := (at.Op == token.EQL || at.Op == token.GEQ) == truth
				if atLimit {
					return -1
				}
				return 1
			}
			below := func(_ *c04XState, at c04XAtom, truth bool) bool { return guard(at, truth) == 1 }
			limit := func(_ *c04XState, at c04XAtom, truth bool) bool { return guard(at, truth) == -1 }
			rejects, _ := x.Blocked(root.Entry(), &c04XQuery{Target: c12SuccessTarget(c, x, fn), NeedMark: true, MarkCond: limit})
			dom, path := x.Blocked(root.Entry(), &c04XQuery{Target: site.at, CutCond: below})
			if dom && rejects {
				c.Ok(rule, key+"#wrap-guard", "every path to it passes the edge on which encryptCounter != 0xffffffff (the other edge being an error return)", call.Pos())
			} else {
				c.Violate(rule, key+"#wrap-guard", "reachable without passing the edge on which encryptCounter != 0xffffffff (the other edge being an error return)", call.Pos(), c.describePath(path)...)
			}
			// the guard reads the counter value that Seal will use: no increment between guard and Seal
			if hit := x.Search(root.Entry(), &c04XQuery{Target: isInc, NeedMark: true, MarkCond: below, CutInstr: site.at}); hit != nil {
				c.Violate(rule, key+"#wrap-guard-then-increment", "the counter is incremented between the wrap guard and Seal: the guard tests a stale value", hit.Instr().Pos())
			}
		}
		c12Overflow(c, rule, x, fn)
	}
	c.MinCount(rule, "AEAD call sites", n, 2)
}

// C12-R5: associated data on later frames.
func c12r5(c *Ctx) {
	const rule = "C12-R5"
	c.Doc(rule, "associated data: besides the first-frame layout (C04-R4) the only other AAD buffer of Seal/Open is exactly the frame header ([0:]<-header, length len(header)), built on the edge where the first-frame flag is already true")
	a := c04Anchors(c, rule)
	dirs := c12Dirs(c, rule, a)
	if dirs == nil {
		return
	}
	n := 0
	for _, d := range dirs {
		fn := d.fn
		hdrPar := c01Param(fn, "frameHeader", 2)
		x, root, aeads := c04AADView(c, a, fn, d.aead, d.flag)
		for _, s := range aeads {
			call := s.call
			if hdrPar == nil {
				c.Undecided(rule, fnName(fn)+"#aad", "no frame header parameter", call.Pos())
				continue
			}
			lay, ok := c04AADLayout(x, root, s.fr, call, d.flag, hdrPar)
			if !ok {
				c.Undecided(rule, fnName(fn)+"#aad", "the associated data of "+d.aead.Name()+" is not a locally made buffer filled by copy() at constant offsets", call.Pos())
				continue
			}
			later := 0
			for _, br := range lay {
				if br.First {
					continue
				}
				later++
				n++
				want := []c04AADPart{{Lo: 0, Hi: -1, Src: "param:" + hdrPar.Name()}}
				c.Check(c04LayoutIs(br, want) && br.LenConst == 0 && br.LenOfHdr, rule, fnName(fn)+"#later-frame-aad", "later frames authenticate exactly the header",
					fmt.Sprintf("later-frame AAD is {%s} with length %d+len(header)=%v; the format authenticates exactly the 5-byte header", br.String(), br.LenConst, br.LenOfHdr), call.Pos())
				c.Check(br.Later, rule, fnName(fn)+"#later-frame-branch", "header-only AAD is used only once the first frame is past", "the header-only AAD can be used although "+d.flag.Name()+" is still false (the digests would never be bound)", call.Pos())
			}
			c.Check(later == 1, rule, fnName(fn)+"#aad-branches", "one later-frame AAD shape", fmt.Sprintf("%d later-frame AAD buffers (expected 1)", later), call.Pos())
		}
		if x.Overflow {
			c.Undecided(rule, fnName(fn)+"#search", "the inlined control flow of this function is too large to search exhaustively", fn.Pos())
		}
	}
	c.MinCount(rule, "later-frame AAD buffers", n, 2)
}

// C12-R6: the header that is authenticated is the header that is sent.
func c12r6(c *Ctx) {
	const rule = "C12-R6"
	c.Doc(rule, "header binding on send: the header slice handed to encryptDataWithAAD is the whole 5-byte header that is copied to the frame, its length word was written from calculateEncryptedSize(len(data)) before the call, the plaintext argument is the data parameter, and the frame is sized header + that same encrypted size; same-module helpers of sendMessageWithEnd are followed")
	a := c04Anchors(c, rule)
	put := c.c01BinaryMethod(rule, "BigEndian", "PutUint32")
	calc := c.needFn(rule, "stream", "(*Stream).calculateEncryptedSize")
	if !a.ok || put == nil || calc == nil {
		return
	}
	fn := a.send
	x, root := c12View(c, fn, a.enc, a.dec, a.wwc, calc)
	data := c01Param(fn, "data", 2)
	dataV := c04XV{root, data}
	n := 0
	for _, s := range c12Sites(root, func(call ssa.CallInstruction) bool { return calleeFn(call) == a.enc }) {
		call := s.call
		n++
		args := call.Common().Args // s, data, header
		key := fnName(fn) + "#encryptDataWithAAD"
		c.Check(data != nil && x.Canon(nil, s.fr, args[1]) == dataV, rule, key+"#plaintext", "the data parameter is encrypted", "the plaintext handed to encryptDataWithAAD is not the data parameter", call.Pos())
		hroot, whole := x.WholeOf(nil, s.fr, args[2])
		c.Check(whole, rule, key+"#header-whole", "the whole header is authenticated", "only part of the header is handed to encryptDataWithAAD", call.Pos())
		// a PutUint32 of the encrypted size into the header on every path to the call
		isPut := func(st *c04XState, in ssa.Instruction) bool {
			p, ok := isCallTo(in, put)
			if !ok {
				return false
			}
			pa := callArgs(p)
			if r, _ := x.WholeOf(st, st.Fr, pa[len(pa)-2]); r != hroot {
				return false
			}
			v := x.CanonInt(st, st.Fr, pa[len(pa)-1])
			sz, ok := v.V.(*ssa.Call)
			if !ok || calleeFn(sz) != calc {
				return false
			}
			lv := x.CanonInt(st, v.Fr, sz.Call.Args[1])
			ln, isLen := c01IsBuiltin(lv.V, "len")
			return isLen && data != nil && x.Canon(st, lv.Fr, ln.Call.Args[0]) == dataV
		}
		if ok, path := x.Blocked(root.Entry(), &c04XQuery{Target: s.at, CutInstr: isPut}); ok {
			c.Ok(rule, key+"#header-length=encrypted-size", "every path to it passes BigEndian.PutUint32(header[1:5], calculateEncryptedSize(len(data)))", call.Pos())
		} else {
			c.Violate(rule, key+"#header-length=encrypted-size", "reachable without passing BigEndian.PutUint32(header[1:5], calculateEncryptedSize(len(data)))", call.Pos(), c.describePath(path)...)
		}
	}
	c12Overflow(c, rule, x, fn)
	c.MinCount(rule, "encryptDataWithAAD call sites in sendMessageWithEnd", n, 1)
}
