package main

import (
	"go/constant"
	"go/token"
	"go/types"
	"sort"

	"golang.org/x/tools/go/ssa"
)

// ---------------------------------------------------------------------------
// values

func isNilConst(v ssa.Value) bool {
	c, ok := v.(*ssa.Const)
	return ok && c.Value == nil && !isBasic(c.Type())
}

func isBasic(t types.Type) bool {
	_, ok := t.Underlying().(*types.Basic)
	return ok
}

func constInt(v ssa.Value) (int64, bool) {
	switch x := v.(type) {
	case *ssa.Const:
		if x.Value != nil && (x.Value.Kind() == constant.Int) {
			if i, ok := constant.Int64Val(x.Value); ok {
				return i, true
			}
			if u, ok := constant.Uint64Val(x.Value); ok {
				return int64(u), true
			}
		}
	case *ssa.Convert:
		return constInt(x.X)
	case *ssa.ChangeType:
		return constInt(x.X)
	}
	return 0, false
}

func constString(v ssa.Value) (string, bool) {
	switch x := v.(type) {
	case *ssa.Const:
		if x.Value != nil && x.Value.Kind() == constant.String {
			return constant.StringVal(x.Value), true
		}
	case *ssa.Convert:
		return constString(x.X)
	case *ssa.ChangeType:
		return constString(x.X)
	case *ssa.MakeInterface:
		return constString(x.X)
	}
	return "", false
}

func constBool(v ssa.Value) (bool, bool) {
	if c, ok := v.(*ssa.Const); ok && c.Value != nil && c.Value.Kind() == constant.Bool {
		return constant.BoolVal(c.Value), true
	}
	return false, false
}

// stripConv removes value-preserving wrappers.
func stripConv(v ssa.Value) ssa.Value {
	for {
		switch x := v.(type) {
		case *ssa.ChangeType:
			v = x.X
		case *ssa.ChangeInterface:
			v = x.X
		case *ssa.MakeInterface:
			v = x.X
		default:
			return v
		}
	}
}

// fieldRead: v is a load of base.f (pointer base via FieldAddr+load, or value base via Field).
func fieldRead(v ssa.Value) (base ssa.Value, f *types.Var, ok bool) {
	switch x := v.(type) {
	case *ssa.UnOp:
		if x.Op == token.MUL {
			if fa, ok := x.X.(*ssa.FieldAddr); ok {
				return fa.X, fieldOfAddr(fa), true
			}
		}
	case *ssa.Field:
		st := x.X.Type().Underlying().(*types.Struct)
		return x.X, st.Field(x.Field), true
	}
	return nil, nil, false
}

func fieldOfAddr(fa *ssa.FieldAddr) *types.Var {
	pt := fa.X.Type().Underlying().(*types.Pointer)
	st := pt.Elem().Underlying().(*types.Struct)
	return st.Field(fa.Field)
}

// readsField reports whether v is (a conversion of) a read of field f.
func readsField(v ssa.Value, f *types.Var) bool {
	_, g, ok := fieldRead(stripConv(v))
	return ok && g == f
}

// mentions walks the operand tree of v (within the function, through phis, bounded)
// and reports whether pred holds for some value in it.
func mentions(v ssa.Value, pred func(ssa.Value) bool) bool {
	seen := map[ssa.Value]bool{}
	var walk func(v ssa.Value, d int) bool
	walk = func(v ssa.Value, d int) bool {
		if v == nil || seen[v] || d > 40 {
			return false
		}
		seen[v] = true
		if pred(v) {
			return true
		}
		if in, ok := v.(ssa.Instruction); ok {
			for _, op := range in.Operands(nil) {
				if *op != nil && walk(*op, d+1) {
					return true
				}
			}
		}
		return false
	}
	return walk(v, 0)
}

// mentionsField: v's operand tree contains a read (or address) of field f.
func mentionsField(v ssa.Value, f *types.Var) bool {
	return mentions(v, func(x ssa.Value) bool {
		if fa, ok := x.(*ssa.FieldAddr); ok {
			return fieldOfAddr(fa) == f
		}
		if fl, ok := x.(*ssa.Field); ok {
			return fl.X.Type().Underlying().(*types.Struct).Field(fl.Field) == f
		}
		return false
	})
}

func mentionsValue(v, target ssa.Value) bool {
	return mentions(v, func(x ssa.Value) bool { return x == target })
}

// ---------------------------------------------------------------------------
// calls

// calleeObj returns the called *types.Func for a static call, a method-value/closure call or an
// interface-method invoke (the abstract method), nil for fully dynamic calls.
func calleeObj(c ssa.CallInstruction) *types.Func {
	cc := c.Common()
	if cc.IsInvoke() {
		return cc.Method
	}
	if f := cc.StaticCallee(); f != nil {
		if o, ok := f.Object().(*types.Func); ok {
			return o
		}
		if f.Origin() != nil {
			if o, ok := f.Origin().Object().(*types.Func); ok {
				return o
			}
		}
	}
	return nil
}

// calleeFn returns the statically known SSA callee (incl. closures bound with MakeClosure).
func calleeFn(c ssa.CallInstruction) *ssa.Function {
	return c.Common().StaticCallee()
}

func isCallTo(in ssa.Instruction, objs ...types.Object) (ssa.CallInstruction, bool) {
	c, ok := in.(ssa.CallInstruction)
	if !ok {
		return nil, false
	}
	o := calleeObj(c)
	if o == nil {
		return nil, false
	}
	for _, t := range objs {
		if t != nil && types.Object(o) == t {
			return c, true
		}
	}
	return nil, false
}

// callsIn lists the call instructions in fn (not descending into closures) that call any of objs.
func callsIn(fn *ssa.Function, objs ...types.Object) []ssa.CallInstruction {
	var out []ssa.CallInstruction
	for _, b := range fn.Blocks {
		for _, in := range b.Instrs {
			if c, ok := isCallTo(in, objs...); ok {
				out = append(out, c)
			}
		}
	}
	return out
}

// callArgs returns the actual arguments including the receiver as element 0 for method calls.
func callArgs(c ssa.CallInstruction) []ssa.Value {
	cc := c.Common()
	if cc.IsInvoke() {
		return append([]ssa.Value{cc.Value}, cc.Args...)
	}
	return cc.Args
}

// allInstrs iterates fn's instructions.
func allInstrs(fn *ssa.Function, f func(b *ssa.BasicBlock, i int, in ssa.Instruction)) {
	for _, b := range fn.Blocks {
		for i, in := range b.Instrs {
			f(b, i, in)
		}
	}
}

// withClosures returns fn and all anonymous functions nested in it.
func withClosures(fn *ssa.Function) []*ssa.Function {
	out := []*ssa.Function{fn}
	for _, a := range fn.AnonFuncs {
		out = append(out, withClosures(a)...)
	}
	return out
}

// ---------------------------------------------------------------------------
// control flow: edges, branch conditions

// Edge is the i-th successor edge of block From.
type Edge struct {
	From *ssa.BasicBlock
	Succ int
}

func (e Edge) To() *ssa.BasicBlock { return e.From.Succs[e.Succ] }

func blockIf(b *ssa.BasicBlock) *ssa.If {
	if len(b.Instrs) == 0 {
		return nil
	}
	i, _ := b.Instrs[len(b.Instrs)-1].(*ssa.If)
	return i
}

// Atom is a branch condition with negations stripped: Neg XOR (X Op Y), or a plain boolean X when Op==ILLEGAL.
type Atom struct {
	Neg  bool
	Op   token.Token
	X, Y ssa.Value
}

func condAtom(v ssa.Value) Atom {
	a := Atom{}
	for {
		if u, ok := v.(*ssa.UnOp); ok && u.Op == token.NOT {
			a.Neg = !a.Neg
			v = u.X
			continue
		}
		break
	}
	if b, ok := v.(*ssa.BinOp); ok {
		switch b.Op {
		case token.EQL, token.NEQ, token.LSS, token.LEQ, token.GTR, token.GEQ:
			a.Op, a.X, a.Y = b.Op, b.X, b.Y
			return a
		}
	}
	a.Op, a.X = token.ILLEGAL, v
	return a
}

// boolEdges returns the edges on which boolean value v is known true, resp. false
// (every If in fn whose condition is v or !v ...).
func boolEdges(fn *ssa.Function, v ssa.Value) (trueE, falseE []Edge) {
	for _, b := range fn.Blocks {
		ifi := blockIf(b)
		if ifi == nil {
			continue
		}
		a := condAtom(ifi.Cond)
		if a.Op != token.ILLEGAL || a.X != v {
			continue
		}
		t, f := Edge{b, 0}, Edge{b, 1}
		if a.Neg {
			t, f = f, t
		}
		trueE = append(trueE, t)
		falseE = append(falseE, f)
	}
	return
}

// nilEdges returns the edges on which v (an interface/pointer/slice value) is known nil, resp. non-nil.
func nilEdges(fn *ssa.Function, v ssa.Value) (nilE, nonNilE []Edge) {
	al := aliases(fn, v)
	for _, b := range fn.Blocks {
		ifi := blockIf(b)
		if ifi == nil {
			continue
		}
		a := condAtom(ifi.Cond)
		if a.Op != token.EQL && a.Op != token.NEQ {
			continue
		}
		var other ssa.Value
		if al[a.X] {
			other = a.Y
		} else if al[a.Y] {
			other = a.X
		} else {
			continue
		}
		if !isNilConst(other) {
			continue
		}
		eqNil := a.Op == token.EQL
		if a.Neg {
			eqNil = !eqNil
		}
		if eqNil {
			nilE = append(nilE, Edge{b, 0})
			nonNilE = append(nonNilE, Edge{b, 1})
		} else {
			nilE = append(nilE, Edge{b, 1})
			nonNilE = append(nonNilE, Edge{b, 0})
		}
	}
	return
}

// aliases: the values that carry v unchanged within fn: v itself, conversions of it, loads from
// local cells that v is stored into, and phis one of whose operands is an alias (may-alias).
func aliases(fn *ssa.Function, v ssa.Value) map[ssa.Value]bool {
	set := map[ssa.Value]bool{v: true}
	changed := true
	for changed {
		changed = false
		add := func(x ssa.Value) {
			if !set[x] {
				set[x] = true
				changed = true
			}
		}
		allInstrs(fn, func(_ *ssa.BasicBlock, _ int, in ssa.Instruction) {
			switch x := in.(type) {
			case *ssa.ChangeType:
				if set[x.X] {
					add(x)
				}
			case *ssa.ChangeInterface:
				if set[x.X] {
					add(x)
				}
			case *ssa.Store:
				if set[x.Val] {
					if al, ok := x.Addr.(*ssa.Alloc); ok {
						// loads of this cell
						for _, r := range *al.Referrers() {
							if u, ok := r.(*ssa.UnOp); ok && u.Op == token.MUL && u.X == al {
								add(u)
							}
						}
					}
				}
			}
		})
	}
	return set
}

// errResult returns the error-typed result value(s) of a call (the call itself, or its Extracts).
func errResults(call ssa.Value) []ssa.Value {
	var out []ssa.Value
	if isErrorType(call.Type()) {
		return []ssa.Value{call}
	}
	if tup, ok := call.Type().(*types.Tuple); ok {
		for _, r := range *call.Referrers() {
			if ex, ok := r.(*ssa.Extract); ok && isErrorType(tup.At(ex.Index).Type()) {
				out = append(out, ex)
			}
		}
	}
	return out
}

// extractN returns the Extract of result i of a tuple call (nil if unused).
func extractN(call ssa.Value, i int) ssa.Value {
	if _, ok := call.Type().(*types.Tuple); !ok {
		if i == 0 {
			return call
		}
		return nil
	}
	for _, r := range *call.Referrers() {
		if ex, ok := r.(*ssa.Extract); ok && ex.Index == i {
			return ex
		}
	}
	return nil
}

var errorType = types.Universe.Lookup("error").Type()

func isErrorType(t types.Type) bool { return types.Identical(t, errorType) }

// callSuccessEdges: edges on which the call's error result is known nil; callErrorEdges: non-nil.
// checked=false when the error result is never tested by a branch.
func callErrEdges(fn *ssa.Function, call ssa.Value) (succ, fail []Edge, checked bool) {
	for _, e := range errResults(call) {
		n, nn := nilEdges(fn, e)
		succ = append(succ, n...)
		fail = append(fail, nn...)
	}
	return succ, fail, len(succ) > 0
}

// ---------------------------------------------------------------------------
// path search with cut edges / cut instructions

// Cuts is the set of edges and instructions a path may not pass.
type Cuts struct {
	Edges  map[Edge]bool
	Instrs map[ssa.Instruction]bool
	// Via: edges that are cut only for paths that entered the branching block through a given predecessor
	// (the branch condition is a phi there, and only that incoming value establishes the fact)
	Via map[viaEdge]bool
}

type viaEdge struct {
	Pred, From *ssa.BasicBlock
	Succ       int
}

func newCuts() *Cuts {
	return &Cuts{Edges: map[Edge]bool{}, Instrs: map[ssa.Instruction]bool{}, Via: map[viaEdge]bool{}}
}

// AddVia cuts successor edge e only for paths entering e.From through pred.
func (c *Cuts) AddVia(pred *ssa.BasicBlock, e Edge) *Cuts {
	c.Via[viaEdge{pred, e.From, e.Succ}] = true
	return c
}

func (c *Cuts) AddEdges(es ...Edge) *Cuts {
	for _, e := range es {
		c.Edges[e] = true
	}
	return c
}
func (c *Cuts) AddInstrs(is ...ssa.Instruction) *Cuts {
	for _, i := range is {
		if i != nil {
			c.Instrs[i] = true
		}
	}
	return c
}

// Point is a position in a function: before instruction Idx of Block.
type Point struct {
	Block *ssa.BasicBlock
	Idx   int
}

func entryPoint(fn *ssa.Function) Point { return Point{fn.Blocks[0], 0} }

func pointOf(in ssa.Instruction) Point {
	b := in.Block()
	for i, x := range b.Instrs {
		if x == in {
			return Point{b, i}
		}
	}
	return Point{b, 0}
}

// after returns the point just after instruction in.
func after(in ssa.Instruction) Point {
	p := pointOf(in)
	p.Idx++
	return p
}

// Target of a path query: an instruction, optionally restricted to arriving at its block via Pred.
type Target struct {
	Instr ssa.Instruction
	Pred  *ssa.BasicBlock // nil = any
}

// findPath searches a path from start to target that passes no cut edge and no cut instruction
// before reaching the target. It returns the sequence of blocks of a shortest such path, or nil.
// When tg.Pred is set the target block must be entered through that predecessor (used for returns
// whose operand is a phi).
func findPath(start Point, tg Target, cuts *Cuts) []*ssa.BasicBlock {
	tb := tg.Instr.Block()
	tp := pointOf(tg.Instr)
	// scan walks the instructions of b from idx: hit = reached the target, blocked = met a cut instruction first
	scan := func(b *ssa.BasicBlock, idx int) (hit, blocked bool) {
		for i := idx; i < len(b.Instrs); i++ {
			if b == tb && i == tp.Idx {
				return true, false
			}
			if cuts != nil && cuts.Instrs[b.Instrs[i]] {
				return false, true
			}
		}
		return false, false
	}
	type node struct{ b, via *ssa.BasicBlock }
	parent := map[node]node{}
	seen := map[node]bool{}
	root := node{start.Block, nil}
	var queue []node
	expand := func(n node) {
		// a branch on a boolean phi of this very block is decided by the edge we came in through when that
		// incoming value is a constant ("ok := a && b; if !ok": the short-circuit edge carries false)
		forced := -1
		if n.via != nil {
			if ifi := blockIf(n.b); ifi != nil {
				a := condAtom(ifi.Cond)
				if phi, ok := a.X.(*ssa.Phi); ok && a.Op == token.ILLEGAL && phi.Block() == n.b {
					for i, p := range n.b.Preds {
						if p != n.via {
							continue
						}
						if bv, isC := constBool(phi.Edges[i]); isC {
							if a.Neg {
								bv = !bv
							}
							if bv {
								forced = 0
							} else {
								forced = 1
							}
						}
					}
				}
			}
		}
		for i, s := range n.b.Succs {
			if forced >= 0 && i != forced && len(n.b.Succs) == 2 {
				continue
			}
			if cuts != nil && cuts.Edges[Edge{n.b, i}] {
				continue
			}
			if cuts != nil && n.via != nil && cuts.Via[viaEdge{n.via, n.b, i}] {
				continue
			}
			m := node{s, n.b}
			if seen[m] {
				continue
			}
			seen[m] = true
			parent[m] = n
			queue = append(queue, m)
		}
	}
	build := func(n node) []*ssa.BasicBlock {
		var path []*ssa.BasicBlock
		for cur := n; ; {
			path = append(path, cur.b)
			if cur == root {
				break
			}
			nx, ok := parent[cur]
			if !ok {
				break
			}
			cur = nx
		}
		for i, j := 0, len(path)-1; i < j; i, j = i+1, j-1 {
			path[i], path[j] = path[j], path[i]
		}
		return path
	}
	hit, blocked := scan(start.Block, start.Idx)
	if hit {
		if tg.Pred == nil {
			return []*ssa.BasicBlock{start.Block}
		}
		// arrived at the target without entering its block through Pred: for a Return the path ends here
		if _, isRet := tg.Instr.(*ssa.Return); isRet {
			return nil
		}
	}
	if !blocked {
		expand(root)
	}
	for len(queue) > 0 {
		n := queue[0]
		queue = queue[1:]
		hit, blocked := scan(n.b, 0)
		if hit && (tg.Pred == nil || tg.Pred == n.via) {
			return build(n)
		}
		if blocked {
			continue
		}
		if hit {
			if _, isRet := tg.Instr.(*ssa.Return); isRet {
				continue
			}
		}
		expand(n)
	}
	return nil
}

// describePath renders a block path as source lines of the branch points taken.
func (p *Prog) describePath(path []*ssa.BasicBlock) []string {
	var out []string
	last := ""
	for _, b := range path {
		pos := token.NoPos
		for _, in := range b.Instrs {
			if in.Pos().IsValid() {
				pos = in.Pos()
				break
			}
		}
		s := p.Pos(pos)
		if b.Comment != "" {
			s += " (" + b.Comment + ")"
		}
		if s != last {
			out = append(out, s)
		}
		last = s
	}
	if len(out) > 14 {
		out = append(append(out[:7:7], "..."), out[len(out)-6:]...)
	}
	return out
}

// ---------------------------------------------------------------------------
// return classification

// RetClass of one way of leaving a function through a Return.
type RetPoint struct {
	Ret   *ssa.Return
	Pred  *ssa.BasicBlock // when the error operand is a phi in the return block: the incoming edge
	Class string          // "success" | "error" | "maybe"
}

func (r RetPoint) Target() Target { return Target{Instr: r.Ret, Pred: r.Pred} }

// returnsOf classifies every return of fn by its error-typed result (the last error result).
// Functions without an error result have all returns classified "success".
func (p *Prog) returnsOf(fn *ssa.Function) []RetPoint {
	var out []RetPoint
	sig := fn.Signature
	ei := -1
	for i := 0; i < sig.Results().Len(); i++ {
		if isErrorType(sig.Results().At(i).Type()) {
			ei = i
		}
	}
	for _, b := range fn.Blocks {
		if len(b.Instrs) == 0 {
			continue
		}
		ret, ok := b.Instrs[len(b.Instrs)-1].(*ssa.Return)
		if !ok {
			continue
		}
		if ei < 0 {
			out = append(out, RetPoint{Ret: ret, Class: "success"})
			continue
		}
		v := ret.Results[ei]
		if phi, ok := v.(*ssa.Phi); ok && phi.Block() == b {
			for i, e := range phi.Edges {
				out = append(out, RetPoint{Ret: ret, Pred: b.Preds[i], Class: p.classifyErr(fn, e, b.Preds[i], 0)})
			}
			continue
		}
		out = append(out, RetPoint{Ret: ret, Class: p.classifyErr(fn, v, b, 0)})
	}
	return out
}

// classifyErr classifies error value v as it is at the end of block at.
func (p *Prog) classifyErr(fn *ssa.Function, v ssa.Value, at *ssa.BasicBlock, depth int) string {
	if isNilConst(v) {
		return "success"
	}
	if depth > 6 {
		return "maybe"
	}
	switch x := v.(type) {
	case *ssa.MakeInterface:
		return "error"
	case *ssa.ChangeInterface:
		return p.classifyErr(fn, x.X, at, depth+1)
	case *ssa.Phi:
		cls := ""
		for i, e := range x.Edges {
			c := p.classifyErr(fn, e, x.Block().Preds[i], depth+1)
			if cls == "" {
				cls = c
			} else if cls != c {
				return "maybe"
			}
		}
		return cls
	case *ssa.Call:
		if o := calleeObj(x); o != nil && o.Pkg() != nil {
			full := o.Pkg().Path() + "." + o.Name()
			switch full {
			case "fmt.Errorf", "errors.New":
				return "error"
			}
		}
		if f := calleeFn(x); f != nil && f.Blocks != nil && fnPkg(f) != nil && inModule(fnPkg(f).Path()) {
			if p.neverNil(f, callArgsNonNil(p, fn, x, at), depth+1) {
				return "error"
			}
		}
	case *ssa.UnOp:
		// load of a local cell: classify by the stores that reach... keep simple: if every store to
		// the cell in fn is an error-class value, it is an error.
		if x.Op == token.MUL {
			if al, ok := x.X.(*ssa.Alloc); ok {
				cls := ""
				n := 0
				for _, r := range *al.Referrers() {
					if st, ok := r.(*ssa.Store); ok && st.Addr == al {
						n++
						c := p.classifyErr(fn, st.Val, st.Block(), depth+1)
						if cls == "" {
							cls = c
						} else if cls != c {
							cls = "maybe"
						}
					}
				}
				if n > 0 && cls != "" && !(cls == "success") {
					if cls == "error" && p.knownNonNilAt(fn, v, at) {
						return "error"
					}
				}
			}
		}
	}
	if p.knownNonNilAt(fn, v, at) {
		return "error"
	}
	return "maybe"
}

// knownNonNilAt: block at is only reachable through an edge on which v != nil.
func (p *Prog) knownNonNilAt(fn *ssa.Function, v ssa.Value, at *ssa.BasicBlock) bool {
	_, nn := nilEdges(fn, v)
	for _, e := range nn {
		if edgeDominates(fn, e, at) {
			return true
		}
	}
	return false
}

// edgeDominates: every path from fn's entry to block b passes edge e.
func edgeDominates(fn *ssa.Function, e Edge, b *ssa.BasicBlock) bool {
	to := e.To()
	if to == b && len(b.Preds) == 1 {
		return true
	}
	if len(b.Instrs) == 0 {
		return false
	}
	cuts := newCuts().AddEdges(e)
	// duplicate edges (both successors the same block) cannot be distinguished
	if len(e.From.Succs) == 2 && e.From.Succs[0] == e.From.Succs[1] {
		return false
	}
	return findPath(entryPoint(fn), Target{Instr: b.Instrs[0]}, cuts) == nil && reachableFromEntry(fn, b)
}

func reachableFromEntry(fn *ssa.Function, b *ssa.BasicBlock) bool {
	if len(b.Instrs) == 0 {
		return false
	}
	if b == fn.Blocks[0] {
		return true
	}
	return findPath(entryPoint(fn), Target{Instr: b.Instrs[0]}, nil) != nil
}

// instrDominatedByEdge: every path from entry to instruction in passes edge e.
func instrDominatedByEdge(fn *ssa.Function, e Edge, in ssa.Instruction) bool {
	if len(e.From.Succs) == 2 && e.From.Succs[0] == e.From.Succs[1] {
		return false
	}
	return findPath(entryPoint(fn), Target{Instr: in}, newCuts().AddEdges(e)) == nil
}

// callArgsNonNil: which parameter indices of the callee receive a value known non-nil at the call.
func callArgsNonNil(p *Prog, fn *ssa.Function, call *ssa.Call, at *ssa.BasicBlock) map[int]bool {
	out := map[int]bool{}
	for i, a := range call.Call.Args {
		if !isErrorType(a.Type()) {
			continue
		}
		if c := p.classifyErr(fn, a, call.Block(), 3); c == "error" {
			out[i] = true
		}
	}
	return out
}

// neverNil: every return of f has a non-nil error operand, given that params in nonNilParams are non-nil.
func (p *Prog) neverNil(f *ssa.Function, nonNilParams map[int]bool, depth int) bool {
	if depth > 6 || f.Blocks == nil {
		return false
	}
	sig := f.Signature
	ei := -1
	for i := 0; i < sig.Results().Len(); i++ {
		if isErrorType(sig.Results().At(i).Type()) {
			ei = i
		}
	}
	if ei < 0 {
		return false
	}
	n := 0
	for _, b := range f.Blocks {
		if len(b.Instrs) == 0 {
			continue
		}
		ret, ok := b.Instrs[len(b.Instrs)-1].(*ssa.Return)
		if !ok {
			continue
		}
		n++
		v := ret.Results[ei]
		if par, ok := v.(*ssa.Parameter); ok {
			idx := -1
			for i, q := range f.Params {
				if q == par {
					idx = i
				}
			}
			if nonNilParams[idx] {
				continue
			}
			return false
		}
		if p.classifyErr(f, v, b, depth+1) != "error" {
			return false
		}
	}
	return n > 0
}

// successTargets returns the Targets of all returns that may be success returns.
func (p *Prog) successTargets(fn *ssa.Function) []RetPoint {
	var out []RetPoint
	for _, r := range p.returnsOf(fn) {
		if r.Class != "error" {
			out = append(out, r)
		}
	}
	return out
}

func (p *Prog) errorTargets(fn *ssa.Function) []RetPoint {
	var out []RetPoint
	for _, r := range p.returnsOf(fn) {
		if r.Class == "error" {
			out = append(out, r)
		}
	}
	return out
}

// retOrdinal gives a stable label for a return statement: its ordinal among fn's returns in source order.
func retOrdinal(fn *ssa.Function, ret *ssa.Return) int {
	var rs []*ssa.Return
	for _, b := range fn.Blocks {
		if len(b.Instrs) > 0 {
			if r, ok := b.Instrs[len(b.Instrs)-1].(*ssa.Return); ok {
				rs = append(rs, r)
			}
		}
	}
	sort.Slice(rs, func(i, j int) bool { return rs[i].Pos() < rs[j].Pos() })
	for i, r := range rs {
		if r == ret {
			return i + 1
		}
	}
	return 0
}

// ---------------------------------------------------------------------------
// infeasible-edge pruning (deliberately tiny, see DESIGN.md section 3)

// zeroRoot strips conversions and the identity len(make(T, n)) = n.
func zeroRoot(v ssa.Value) ssa.Value {
	for {
		switch x := v.(type) {
		case *ssa.Convert:
			v = x.X
		case *ssa.ChangeType:
			v = x.X
		case *ssa.Call:
			if b, ok := x.Call.Value.(*ssa.Builtin); ok && b.Name() == "len" && len(x.Call.Args) == 1 {
				if ms, ok := x.Call.Args[0].(*ssa.MakeSlice); ok {
					v = ms.Len
					continue
				}
				// len(helper(...)) where every non-error return of the same-module helper is make([]T, param):
				// the length is the argument passed for that parameter
				if arg := madeFromArg(x.Call.Args[0]); arg != nil {
					v = arg
					continue
				}
			}
			return v
		default:
			return v
		}
	}
}

// zeroEdges: for an If on "R ==/!=/> 0" (R an unsigned or length value) returns the root R, the
// edge on which R == 0 and the edge on which R != 0. ok=false for any other condition.
func zeroEdges(b *ssa.BasicBlock) (root ssa.Value, zero, nonzero Edge, ok bool) {
	ifi := blockIf(b)
	if ifi == nil {
		return
	}
	a := condAtom(ifi.Cond)
	if a.Op == token.ILLEGAL {
		return
	}
	c, isC := constInt(a.Y)
	x := a.X
	op := a.Op
	if !isC {
		return
	}
	if c != 0 {
		return
	}
	root = zeroRoot(x)
	unsignedOrLen := false
	if bt, k := x.Type().Underlying().(*types.Basic); k && bt.Info()&types.IsUnsigned != 0 {
		unsignedOrLen = true
	}
	if call, k := x.(*ssa.Call); k {
		if bi, k := call.Call.Value.(*ssa.Builtin); k && bi.Name() == "len" {
			unsignedOrLen = true
		}
	}
	var zeroOnTrue bool
	switch op {
	case token.EQL:
		zeroOnTrue = true
	case token.NEQ:
		zeroOnTrue = false
	case token.GTR:
		if !unsignedOrLen {
			return
		}
		zeroOnTrue = false
	case token.LEQ:
		if !unsignedOrLen {
			return
		}
		zeroOnTrue = true
	default:
		return
	}
	if a.Neg {
		zeroOnTrue = !zeroOnTrue
	}
	if zeroOnTrue {
		return root, Edge{b, 0}, Edge{b, 1}, true
	}
	return root, Edge{b, 1}, Edge{b, 0}, true
}

// infeasibleEdges lists the edges of fn that contradict a dominating branch on the same SSA value
// (zero-ness only). Each is returned with a human-readable reason for the evidence.
func infeasibleEdges(fn *ssa.Function) map[Edge]string {
	out := map[Edge]string{}
	type fact struct {
		root          ssa.Value
		zero, nonzero Edge
	}
	var facts []fact
	for _, b := range fn.Blocks {
		if r, z, nz, ok := zeroEdges(b); ok {
			facts = append(facts, fact{r, z, nz})
		}
	}
	for _, f := range facts {
		for _, g := range facts {
			if f.root != g.root || f.zero.From == g.zero.From {
				continue
			}
			// g's branch is dominated by f's nonzero edge => g's zero edge is infeasible (and vice versa)
			if edgeDominates(fn, f.nonzero, g.zero.From) {
				out[g.zero] = "value is non-zero on the dominating edge"
			}
			if edgeDominates(fn, f.zero, g.zero.From) {
				out[g.nonzero] = "value is zero on the dominating edge"
			}
		}
	}
	return out
}

// ---------------------------------------------------------------------------
// dependence (backward slice inside one function, memory-aware for local buffers)

// memRoot returns the local allocation (Alloc / MakeSlice / parameter) an address or slice is rooted at.
func memRoot(v ssa.Value) ssa.Value {
	for i := 0; i < 20; i++ {
		switch x := v.(type) {
		case *ssa.Slice:
			v = x.X
		case *ssa.IndexAddr:
			v = x.X
		case *ssa.FieldAddr:
			return x // field addresses are their own roots (keyed by field via fieldOfAddr)
		case *ssa.ChangeType:
			v = x.X
		case *ssa.Convert:
			v = x.X
		default:
			return v
		}
	}
	return v
}

// mustDepend: does value v depend on a value satisfying pred? Phi nodes require every incoming
// edge to depend (so a branch that drops the dependence is noticed); everything else is existential
// over operands; local buffers depend on whatever is written into them anywhere in the function.
func mustDepend(fn *ssa.Function, v ssa.Value, pred func(ssa.Value) bool) bool {
	memo := map[ssa.Value]int{} // 1 in progress, 2 true, 3 false
	var writers map[ssa.Value][]ssa.Value
	buildWriters := func() {
		writers = map[ssa.Value][]ssa.Value{}
		allInstrs(fn, func(_ *ssa.BasicBlock, _ int, in ssa.Instruction) {
			switch x := in.(type) {
			case *ssa.Store:
				r := memRoot(x.Addr)
				if _, isFA := r.(*ssa.FieldAddr); !isFA {
					writers[r] = append(writers[r], x.Val)
				}
			case ssa.CallInstruction:
				args := callArgs(x)
				for i, a := range args {
					r := memRoot(a)
					switch r.(type) {
					case *ssa.Alloc, *ssa.MakeSlice:
						for j, o := range args {
							if j != i {
								writers[r] = append(writers[r], o)
							}
						}
					}
				}
			}
		})
	}
	var walk func(v ssa.Value, d int) bool
	walk = func(v ssa.Value, d int) bool {
		if v == nil || d > 60 {
			return false
		}
		switch memo[v] {
		case 1, 3:
			return false
		case 2:
			return true
		}
		memo[v] = 1
		res := false
		if pred(v) {
			res = true
		} else if phi, ok := v.(*ssa.Phi); ok {
			res = true
			for _, e := range phi.Edges {
				if !walk(e, d+1) {
					res = false
					break
				}
			}
		} else {
			skipOps := false
			switch x := v.(type) {
			case *ssa.MakeSlice:
				skipOps = true // a buffer's content does not depend on its size operands
			case *ssa.Call:
				if b, ok := x.Call.Value.(*ssa.Builtin); ok && (b.Name() == "len" || b.Name() == "cap") {
					skipOps = true // length is not content
				}
			}
			if in, ok := v.(ssa.Instruction); ok && !skipOps {
				for _, op := range in.Operands(nil) {
					if *op != nil && walk(*op, d+1) {
						res = true
						break
					}
				}
			}
			if !res {
				switch v.(type) {
				case *ssa.Alloc, *ssa.MakeSlice:
					if writers == nil {
						buildWriters()
					}
					for _, w := range writers[v] {
						if walk(w, d+1) {
							res = true
							break
						}
					}
				}
			}
		}
		if res {
			memo[v] = 2
		} else {
			memo[v] = 3
		}
		return res
	}
	return walk(v, 0)
}

func isFieldAccess(f *types.Var) func(ssa.Value) bool {
	return func(x ssa.Value) bool {
		if fa, ok := x.(*ssa.FieldAddr); ok {
			return fieldOfAddr(fa) == f
		}
		if fl, ok := x.(*ssa.Field); ok {
			return fl.X.Type().Underlying().(*types.Struct).Field(fl.Field) == f
		}
		return false
	}
}

// ---------------------------------------------------------------------------
// field access enumeration (who-may-read / who-may-write)

type FieldAccess struct {
	Fn    *ssa.Function
	Instr ssa.Instruction
	Write bool // Store through the field address, or the address escapes into a call/slice (may-write)
	Read  bool
	Base  ssa.Value
}

// fieldAccesses lists every access to field f in the module's functions.
func (p *Prog) fieldAccesses(f *types.Var) []FieldAccess {
	var out []FieldAccess
	for _, fn := range p.ModFns {
		allInstrs(fn, func(_ *ssa.BasicBlock, _ int, in ssa.Instruction) {
			switch x := in.(type) {
			case *ssa.FieldAddr:
				if fieldOfAddr(x) != f {
					return
				}
				acc := FieldAccess{Fn: fn, Instr: x, Base: x.X}
				for _, r := range *x.Referrers() {
					switch u := r.(type) {
					case *ssa.Store:
						if u.Addr == x {
							acc.Write = true
						} else {
							acc.Read = true // address stored somewhere: escapes
							acc.Write = true
						}
					case *ssa.UnOp:
						acc.Read = true
					case *ssa.Slice, *ssa.IndexAddr, *ssa.FieldAddr:
						// sub-object address: classify by its uses
						w, rd := addrUses(u.(ssa.Value))
						acc.Write = acc.Write || w
						acc.Read = acc.Read || rd
					case ssa.CallInstruction:
						if w, rd, ok := calleeParamUses(u, x, 0); ok {
							acc.Write = acc.Write || w
							acc.Read = acc.Read || rd
						} else {
							acc.Read, acc.Write = true, true
						}
					case *ssa.DebugRef:
					default:
						acc.Read = true
					}
				}
				out = append(out, acc)
			case *ssa.Field:
				if x.X.Type().Underlying().(*types.Struct).Field(x.Field) == f {
					out = append(out, FieldAccess{Fn: fn, Instr: x, Read: true, Base: x.X})
				}
			}
		})
	}
	return out
}

// addrUses classifies uses of a derived address/slice value: written through, read through.
func addrUses(v ssa.Value) (write, read bool) {
	for _, r := range *v.Referrers() {
		switch u := r.(type) {
		case *ssa.Store:
			if u.Addr == v {
				write = true
			} else {
				read, write = true, true
			}
		case *ssa.UnOp:
			read = true
		case *ssa.Slice, *ssa.IndexAddr, *ssa.FieldAddr:
			w, rd := addrUses(u.(ssa.Value))
			write = write || w
			read = read || rd
		case ssa.CallInstruction:
			// builtin copy(dst, src): position decides
			cc := u.Common()
			if b, ok := cc.Value.(*ssa.Builtin); ok && b.Name() == "copy" && len(cc.Args) == 2 {
				if cc.Args[0] == v {
					write = true
				}
				if cc.Args[1] == v {
					read = true
				}
				continue
			}
			if b, ok := cc.Value.(*ssa.Builtin); ok && (b.Name() == "len" || b.Name() == "cap") {
				read = true
				continue
			}
			if b, ok := cc.Value.(*ssa.Builtin); ok && b.Name() == "append" {
				read = true
				if len(cc.Args) > 0 && cc.Args[0] == v {
					write = true
				}
				continue
			}
			if calleeOnlyReadsSlices(u) {
				read = true
				continue
			}
			// a same-module callee: classify by what it does with the corresponding parameter
			if w, r, ok := calleeParamUses(u, v, 0); ok {
				write = write || w
				read = read || r
				continue
			}
			read, write = true, true
		case *ssa.DebugRef:
		default:
			read = true
		}
	}
	return
}

func fnSet(fns ...*ssa.Function) map[*ssa.Function]bool {
	m := map[*ssa.Function]bool{}
	for _, f := range fns {
		if f != nil {
			m[f] = true
		}
	}
	return m
}

// topFn returns the outermost enclosing named function of a (possibly anonymous) function.
func topFn(f *ssa.Function) *ssa.Function {
	for f.Parent() != nil {
		f = f.Parent()
	}
	return f
}

func constantToInt(k *types.Const) (int64, bool) {
	if k.Val().Kind() != constant.Int {
		return 0, false
	}
	return constant.Int64Val(k.Val())
}

// calleeOnlyReadsSlices: callees that by contract never modify the byte slices they are handed
// (io.Writer.Write "must not modify the slice data", ByteOrder.UintNN, comparisons, encoders, fmt).
func calleeOnlyReadsSlices(c ssa.CallInstruction) bool {
	o := calleeObj(c)
	if o == nil {
		return false
	}
	name := o.Name()
	pkg := ""
	if o.Pkg() != nil {
		pkg = o.Pkg().Path()
	}
	if sig, ok := o.Type().(*types.Signature); ok && sig.Recv() != nil {
		switch name {
		case "Write", "WriteString", "Uint16", "Uint32", "Uint64", "Sum", "Seal", "Open", "Equal":
			// Seal/Open/Sum write only to their dst (first) argument, which callers here pass as nil
			return true
		}
		return false
	}
	switch pkg {
	case "fmt", "bytes", "strings", "encoding/hex", "encoding/base64", "crypto/hmac", "crypto/subtle", "crypto/aes", "crypto/sha256", "unicode/utf8":
		return true
	}
	return false
}

type ssaTypesFunc = types.Func

func typesLookup(t types.Type, pkg *types.Package, name string) (*types.Func, []int, bool) {
	o, idx, ind := types.LookupFieldOrMethod(t, false, pkg, name)
	f, _ := o.(*types.Func)
	return f, idx, ind
}

// calleeParamUses: the address/slice value v is passed to a statically known module function; classify
// the access by how that function uses the parameter (recursively, bounded). ok=false when unknown.
func calleeParamUses(call ssa.CallInstruction, v ssa.Value, depth int) (write, read, ok bool) {
	if depth > 3 {
		return false, false, false
	}
	if _, isGo := call.(*ssa.Go); isGo {
		return false, false, false
	}
	g := call.Common().StaticCallee()
	if g == nil || g.Blocks == nil || fnPkg(g) == nil || !inModule(fnPkg(g).Path()) {
		return false, false, false
	}
	args := call.Common().Args
	found := false
	for i, a := range args {
		if a != v || i >= len(g.Params) {
			continue
		}
		found = true
		w, r := addrUsesDepth(g.Params[i], depth+1)
		write = write || w
		read = read || r
	}
	return write, read, found
}

func addrUsesDepth(v ssa.Value, depth int) (write, read bool) {
	if v.Referrers() == nil {
		return false, false
	}
	for _, r := range *v.Referrers() {
		switch u := r.(type) {
		case *ssa.Store:
			if u.Addr == v {
				write = true
			} else {
				read, write = true, true
			}
		case *ssa.UnOp:
			read = true
		case *ssa.Slice, *ssa.IndexAddr, *ssa.FieldAddr:
			w, rd := addrUsesDepth(u.(ssa.Value), depth)
			write = write || w
			read = read || rd
		case ssa.CallInstruction:
			cc := u.Common()
			if b, ok := cc.Value.(*ssa.Builtin); ok {
				switch b.Name() {
				case "copy":
					if len(cc.Args) == 2 && cc.Args[0] == v {
						write = true
					}
					if len(cc.Args) == 2 && cc.Args[1] == v {
						read = true
					}
					continue
				case "len", "cap":
					read = true
					continue
				case "append":
					read = true
					if len(cc.Args) > 0 && cc.Args[0] == v {
						write = true
					}
					continue
				}
			}
			if calleeOnlyReadsSlices(u) {
				read = true
				continue
			}
			if w, rd, ok := calleeParamUses(u, v, depth); ok {
				write = write || w
				read = read || rd
				continue
			}
			read, write = true, true
		case *ssa.DebugRef:
		default:
			read = true
		}
	}
	return
}

// madeFromArg: slice value sv is result #k of a call to a same-module helper whose every return with a
// non-nil result #k returns make([]T, p) for one parameter p; returns the call's argument for p, else nil.
func madeFromArg(sv ssa.Value) ssa.Value {
	var call *ssa.Call
	idx := 0
	switch x := sv.(type) {
	case *ssa.Call:
		call = x
	case *ssa.Extract:
		c, ok := x.Tuple.(*ssa.Call)
		if !ok {
			return nil
		}
		call, idx = c, x.Index
	default:
		return nil
	}
	g := call.Call.StaticCallee()
	if g == nil || g.Blocks == nil || fnPkg(g) == nil || !inModule(fnPkg(g).Path()) {
		return nil
	}
	argIdx := -1
	for _, b := range g.Blocks {
		if len(b.Instrs) == 0 {
			continue
		}
		ret, ok := b.Instrs[len(b.Instrs)-1].(*ssa.Return)
		if !ok || idx >= len(ret.Results) {
			continue
		}
		rv := ret.Results[idx]
		if isNilConst(rv) {
			continue
		}
		ms, ok := rv.(*ssa.MakeSlice)
		if !ok {
			return nil
		}
		ln := ms.Len
		for {
			if cv, ok := ln.(*ssa.Convert); ok {
				ln = cv.X
				continue
			}
			break
		}
		par, ok := ln.(*ssa.Parameter)
		if !ok {
			return nil
		}
		k := -1
		for i, q := range g.Params {
			if q == par {
				k = i
			}
		}
		if k < 0 || (argIdx >= 0 && argIdx != k) {
			return nil
		}
		argIdx = k
	}
	if argIdx < 0 || argIdx >= len(call.Call.Args) {
		return nil
	}
	return call.Call.Args[argIdx]
}

func constantToString(k *types.Const) (string, bool) {
	if k.Val().Kind() != constant.String {
		return "", false
	}
	return constant.StringVal(k.Val()), true
}
