package main

// T-TAB: finite table extraction by conditional constant propagation over go/ssa.
//
// c10tEval follows ONE path of a function: every instruction is evaluated over a small abstract
// domain (constants, nil, pointers to abstract objects, constant lists, "unknown"); an `If` whose
// condition folds to a constant is followed along the decided edge only. Nothing of the analysed
// repository is compiled or run: this is the checker's own abstract interpretation of the SSA
// form, with the function's inputs (field values reachable from its parameters) fixed per table row.
//
// What is evaluable: constants; loads/stores of fields of the abstract objects; phis (by the
// predecessor actually taken); ==, != on constants / nil / pointers; !, &&, || (as control flow);
// integer + - < <= > >= & | ^ &^ (loop counters and bit masks); len of a constant list, indexing a
// constant list (range loops over the method lists); conversions between string-like types; string
// concatenation of constants. Calls are not followed (result unknown) except same-package pure
// helpers listed in `inline`. A call inside the module that receives a pointer to an abstract
// object invalidates ("clobbers") that object. An `If` on an unknown value ends the path as "open"
// (or, with fork set, is explored on both edges up to maxPaths). The caller decides whether an open
// end or an unknown value matters and reports c.Undecided with the position if it does.

import (
	"fmt"
	"go/constant"
	"go/token"
	"go/types"
	"sort"
	"strings"

	"golang.org/x/tools/go/ssa"
)

const (
	c10tvUnknown = iota
	c10tvConst   // c
	c10tvNil
	c10tvPtr  // obj, path: address of (a sub-location of) an abstract object
	c10tvList // list: constant slice
	c10tvElem // list, idx: address of list[idx]
)

type c10tVal struct {
	kind int
	c    constant.Value
	obj  int
	path string
	list []c10tVal
	idx  int
}

func c10tStr(s string) c10tVal { return c10tVal{kind: c10tvConst, c: constant.MakeString(s)} }
func c10tBool(b bool) c10tVal  { return c10tVal{kind: c10tvConst, c: constant.MakeBool(b)} }
func c10tInt(i int64) c10tVal  { return c10tVal{kind: c10tvConst, c: constant.MakeInt64(i)} }
func c10tPtr(obj int) c10tVal  { return c10tVal{kind: c10tvPtr, obj: obj} }
func c10tStrList(xs ...string) c10tVal {
	v := c10tVal{kind: c10tvList}
	for _, x := range xs {
		v.list = append(v.list, c10tStr(x))
	}
	return v
}

func (v c10tVal) isBool() (bool, bool) {
	if v.kind == c10tvConst && v.c.Kind() == constant.Bool {
		return constant.BoolVal(v.c), true
	}
	return false, false
}

func (v c10tVal) isStr() (string, bool) {
	if v.kind == c10tvConst && v.c.Kind() == constant.String {
		return constant.StringVal(v.c), true
	}
	return "", false
}

// same: both are the same constant (or both nil).
func (v c10tVal) same(w c10tVal) bool {
	if v.kind == c10tvNil && w.kind == c10tvNil {
		return true
	}
	return v.kind == c10tvConst && w.kind == c10tvConst && v.c.Kind() == w.c.Kind() && constant.Compare(v.c, token.EQL, w.c)
}

func (v c10tVal) String() string {
	switch v.kind {
	case c10tvConst:
		return v.c.ExactString()
	case c10tvNil:
		return "nil"
	case c10tvPtr:
		return fmt.Sprintf("&obj%d%s", v.obj, v.path)
	case c10tvList:
		var s []string
		for _, e := range v.list {
			s = append(s, e.String())
		}
		return "[" + strings.Join(s, ",") + "]"
	case c10tvElem:
		return fmt.Sprintf("&list[%d]", v.idx)
	}
	return "?"
}

type c10tLoc struct {
	obj  int
	path string
}

// c10tEmit is a call met on the path, with its evaluated arguments (receiver first).
type c10tEmit struct {
	callee *types.Func
	args   []c10tVal
	call   ssa.CallInstruction
}

type c10tState struct {
	env       map[ssa.Value]c10tVal
	heap      map[c10tLoc]c10tVal
	clobbered map[int]bool
	emits     []c10tEmit
	nextObj   int
	steps     int
}

func newC10tState() *c10tState {
	return &c10tState{env: map[ssa.Value]c10tVal{}, heap: map[c10tLoc]c10tVal{}, clobbered: map[int]bool{}, nextObj: 1000}
}

func (s *c10tState) clone() *c10tState {
	n := &c10tState{env: make(map[ssa.Value]c10tVal, len(s.env)), heap: make(map[c10tLoc]c10tVal, len(s.heap)),
		clobbered: map[int]bool{}, nextObj: s.nextObj, steps: s.steps}
	for k, v := range s.env {
		n.env[k] = v
	}
	for k, v := range s.heap {
		n.heap[k] = v
	}
	for k, v := range s.clobbered {
		n.clobbered[k] = v
	}
	n.emits = append(n.emits, s.emits...)
	return n
}

// c10tOutcome is the end of one evaluated path.
type c10tOutcome struct {
	kind    string // "success" | "error" | "open" | "undecided"
	st      *c10tState
	ret     *ssa.Return
	results []c10tVal
	at      *ssa.BasicBlock // open: the block whose branch could not be decided
	pos     token.Pos
	why     string
}

type c10tEval struct {
	p        *Prog
	init     func(loc c10tLoc) (c10tVal, bool)                                             // initial content of abstract objects
	onCall   func(st *c10tState, call ssa.CallInstruction, args []c10tVal) (c10tVal, bool) // optional result override
	inline   map[*ssa.Function]bool                                                        // pure helpers evaluated recursively
	tracked  map[int]bool                                                                  // objects whose escape into a module call clobbers them
	retMemo  map[*ssa.Function][]RetPoint
	fork     bool
	maxSteps int
	maxPaths int
	paths    int
}

// returns memoises the return classification per function (it would be recomputed for every row
// otherwise); the memo is owned by whoever creates the evaluators of one table.
func (e *c10tEval) returns(fn *ssa.Function) []RetPoint {
	if e.retMemo == nil {
		return e.p.returnsOf(fn)
	}
	if r, ok := e.retMemo[fn]; ok {
		return r
	}
	r := e.p.returnsOf(fn)
	e.retMemo[fn] = r
	return r
}

func (e *c10tEval) load(st *c10tState, loc c10tLoc) c10tVal {
	if v, ok := st.heap[loc]; ok {
		return v
	}
	if st.clobbered[loc.obj] {
		return c10tVal{}
	}
	if e.init != nil {
		if v, ok := e.init(loc); ok {
			st.heap[loc] = v
			return v
		}
	}
	return c10tVal{}
}

func (e *c10tEval) val(st *c10tState, v ssa.Value) c10tVal {
	switch x := v.(type) {
	case *ssa.Const:
		if x.Value == nil {
			if isBasic(x.Type()) {
				// zero value of a basic type
				switch bt := x.Type().Underlying().(*types.Basic); {
				case bt.Info()&types.IsString != 0:
					return c10tStr("")
				case bt.Info()&types.IsBoolean != 0:
					return c10tBool(false)
				case bt.Info()&types.IsInteger != 0:
					return c10tInt(0)
				}
				return c10tVal{}
			}
			return c10tVal{kind: c10tvNil}
		}
		switch x.Value.Kind() {
		case constant.String, constant.Bool, constant.Int:
			return c10tVal{kind: c10tvConst, c: x.Value}
		}
		return c10tVal{}
	}
	if r, ok := st.env[v]; ok {
		return r
	}
	return c10tVal{}
}

// run evaluates fn from block start (entered from prev, nil for the entry) and returns the path ends.
func (e *c10tEval) run(fn *ssa.Function, start, prev *ssa.BasicBlock, st *c10tState) []c10tOutcome {
	if e.maxSteps == 0 {
		e.maxSteps = 20000
	}
	if e.maxPaths == 0 {
		e.maxPaths = 256
	}
	b := start
	for {
		// phis first, evaluated in parallel against the state on entry
		var phiVals []c10tVal
		var phis []*ssa.Phi
		for _, in := range b.Instrs {
			phi, ok := in.(*ssa.Phi)
			if !ok {
				break
			}
			pv := c10tVal{}
			if prev != nil {
				for i, pb := range b.Preds {
					if pb == prev {
						pv = e.val(st, phi.Edges[i])
						break
					}
				}
			}
			phis = append(phis, phi)
			phiVals = append(phiVals, pv)
		}
		for i, phi := range phis {
			st.env[phi] = phiVals[i]
		}
		for _, in := range b.Instrs[len(phis):] {
			st.steps++
			if st.steps > e.maxSteps {
				return []c10tOutcome{{kind: "undecided", st: st, pos: in.Pos(), why: "evaluation step budget exhausted (loop not decided by the row's inputs?)"}}
			}
			switch x := in.(type) {
			case *ssa.If:
				cv := e.val(st, x.Cond)
				if bv, ok := cv.isBool(); ok {
					prev = b
					if bv {
						b = b.Succs[0]
					} else {
						b = b.Succs[1]
					}
					goto next
				}
				if !e.fork {
					return []c10tOutcome{{kind: "open", st: st, at: b, pos: c10CondPos(x), why: "branch condition not determined by the row's inputs"}}
				}
				e.paths++
				if e.paths > e.maxPaths {
					return []c10tOutcome{{kind: "undecided", st: st, pos: c10CondPos(x), why: "too many undetermined branches"}}
				}
				out := e.run(fn, b.Succs[0], b, st.clone())
				return append(out, e.run(fn, b.Succs[1], b, st)...)
			case *ssa.Jump:
				prev = b
				b = b.Succs[0]
				goto next
			case *ssa.Return:
				o := c10tOutcome{kind: "success", st: st, ret: x, pos: x.Pos()}
				for _, r := range x.Results {
					o.results = append(o.results, e.val(st, r))
				}
				for _, rp := range e.returns(fn) {
					if rp.Ret == x && (rp.Pred == nil || rp.Pred == prev) {
						if rp.Class == "error" {
							o.kind = "error"
						} else if rp.Class == "maybe" {
							o.kind = "undecided"
							o.why = "cannot tell whether this return carries an error"
						}
					}
				}
				return []c10tOutcome{o}
			case *ssa.Panic:
				return []c10tOutcome{{kind: "error", st: st, pos: x.Pos(), why: "panic"}}
			default:
				e.step(st, in)
			}
		}
		return []c10tOutcome{{kind: "undecided", st: st, why: "block without terminator"}}
	next:
	}
}

func c10CondPos(i *ssa.If) token.Pos {
	if i.Cond.Pos().IsValid() {
		return i.Cond.Pos()
	}
	if in, ok := i.Cond.(ssa.Instruction); ok {
		for _, op := range in.Operands(nil) {
			if *op != nil && (*op).Pos().IsValid() {
				return (*op).Pos()
			}
		}
	}
	return i.Pos()
}

func (e *c10tEval) step(st *c10tState, in ssa.Instruction) {
	switch x := in.(type) {
	case *ssa.Alloc:
		st.nextObj++
		st.env[x] = c10tPtr(st.nextObj)
	case *ssa.FieldAddr:
		b := e.val(st, x.X)
		if b.kind == c10tvPtr {
			st.env[x] = c10tVal{kind: c10tvPtr, obj: b.obj, path: b.path + "." + fieldOfAddr(x).Name()}
		} else {
			st.env[x] = c10tVal{}
		}
	case *ssa.IndexAddr:
		b := e.val(st, x.X)
		i := e.val(st, x.Index)
		iv, iok := int64(0), false
		if i.kind == c10tvConst && i.c.Kind() == constant.Int {
			iv, iok = constant.Int64Val(i.c)
		}
		switch {
		case b.kind == c10tvPtr && iok:
			st.env[x] = c10tVal{kind: c10tvPtr, obj: b.obj, path: fmt.Sprintf("%s[%d]", b.path, iv)}
		case b.kind == c10tvList && iok && iv >= 0 && int(iv) < len(b.list):
			st.env[x] = c10tVal{kind: c10tvElem, list: b.list, idx: int(iv)}
		default:
			st.env[x] = c10tVal{}
		}
	case *ssa.UnOp:
		a := e.val(st, x.X)
		switch x.Op {
		case token.MUL:
			switch a.kind {
			case c10tvPtr:
				st.env[x] = e.load(st, c10tLoc{a.obj, a.path})
			case c10tvElem:
				st.env[x] = a.list[a.idx]
			default:
				st.env[x] = c10tVal{}
			}
		case token.NOT:
			if b, ok := a.isBool(); ok {
				st.env[x] = c10tBool(!b)
			} else {
				st.env[x] = c10tVal{}
			}
		case token.XOR:
			if a.kind == c10tvConst && a.c.Kind() == constant.Int {
				st.env[x] = c10tVal{kind: c10tvConst, c: constant.UnaryOp(token.XOR, a.c, 0)}
			} else {
				st.env[x] = c10tVal{}
			}
		case token.SUB:
			if a.kind == c10tvConst && a.c.Kind() == constant.Int {
				st.env[x] = c10tVal{kind: c10tvConst, c: constant.UnaryOp(token.SUB, a.c, 0)}
			} else {
				st.env[x] = c10tVal{}
			}
		default:
			st.env[x] = c10tVal{}
		}
	case *ssa.BinOp:
		st.env[x] = c10tBinOp(x.Op, e.val(st, x.X), e.val(st, x.Y))
	case *ssa.Store:
		a := e.val(st, x.Addr)
		if a.kind == c10tvPtr {
			st.heap[c10tLoc{a.obj, a.path}] = e.val(st, x.Val)
		}
		// a store through an unknown address cannot alias the abstract objects: their addresses are
		// only ever produced from the bound parameters, and every value derived from those is known.
	case *ssa.ChangeType:
		st.env[x] = e.val(st, x.X)
	case *ssa.ChangeInterface:
		st.env[x] = e.val(st, x.X)
	case *ssa.MakeInterface:
		st.env[x] = e.val(st, x.X)
	case *ssa.Convert:
		a := e.val(st, x.X)
		// string-like <-> string-like and integer <-> integer conversions keep the constant
		from, ok1 := x.X.Type().Underlying().(*types.Basic)
		to, ok2 := x.Type().Underlying().(*types.Basic)
		if ok1 && ok2 && a.kind == c10tvConst &&
			((from.Info()&types.IsString != 0 && to.Info()&types.IsString != 0) ||
				(from.Info()&types.IsInteger != 0 && to.Info()&types.IsInteger != 0)) {
			st.env[x] = a
		} else {
			st.env[x] = c10tVal{}
		}
	case *ssa.Extract:
		t := e.val(st, x.Tuple)
		if t.kind == c10tvList && x.Index < len(t.list) { // tuple results of inlined helpers
			st.env[x] = t.list[x.Index]
		} else {
			st.env[x] = c10tVal{}
		}
	case *ssa.Call:
		st.env[x] = e.call(st, x)
	case *ssa.Defer, *ssa.Go:
		e.call(st, x.(ssa.CallInstruction))
	case *ssa.DebugRef, *ssa.RunDefers:
	default:
		if v, ok := in.(ssa.Value); ok {
			st.env[v] = c10tVal{}
		}
	}
}

func (e *c10tEval) call(st *c10tState, call ssa.CallInstruction) c10tVal {
	cc := call.Common()
	var args []c10tVal
	for _, a := range callArgs(call) {
		args = append(args, e.val(st, a))
	}
	if b, ok := cc.Value.(*ssa.Builtin); ok {
		if b.Name() == "len" && len(args) == 1 {
			if args[0].kind == c10tvList {
				return c10tInt(int64(len(args[0].list)))
			}
			if s, ok := args[0].isStr(); ok {
				return c10tInt(int64(len(s)))
			}
		}
		return c10tVal{}
	}
	if e.onCall != nil {
		if v, ok := e.onCall(st, call, args); ok {
			return v
		}
	}
	g := calleeFn(call)
	if g != nil && e.inline[g] && g.Blocks != nil {
		sub := &c10tEval{p: e.p, inline: e.inline, maxSteps: 5000, retMemo: e.retMemo}
		ss := newC10tState()
		okArgs := true
		for i, p := range g.Params {
			if i < len(args) {
				ss.env[p] = args[i]
				if args[i].kind == c10tvUnknown {
					okArgs = false
				}
			}
		}
		if okArgs {
			outs := sub.run(g, g.Blocks[0], nil, ss)
			if len(outs) == 1 && (outs[0].kind == "success" || outs[0].kind == "error") && outs[0].ret != nil {
				if len(outs[0].results) == 1 {
					return outs[0].results[0]
				}
				return c10tVal{kind: c10tvList, list: outs[0].results}
			}
		}
		return c10tVal{}
	}
	if o := calleeObj(call); o != nil {
		st.emits = append(st.emits, c10tEmit{callee: o, args: args, call: call})
	}
	// a module function that receives a pointer into a tracked abstract object may change it
	inMod := false
	if g != nil && fnPkg(g) != nil && inModule(fnPkg(g).Path()) {
		inMod = true
	} else if g == nil {
		if o := calleeObj(call); o != nil && o.Pkg() != nil && inModule(o.Pkg().Path()) {
			inMod = true
		} else if o == nil {
			inMod = true // fully dynamic call: assume the worst
		}
	}
	if inMod {
		for _, a := range args {
			if a.kind == c10tvPtr && e.tracked[a.obj] {
				st.clobbered[a.obj] = true
				for k := range st.heap {
					if k.obj == a.obj {
						delete(st.heap, k)
					}
				}
			}
		}
	}
	return c10tVal{}
}

func c10tBinOp(op token.Token, a, b c10tVal) c10tVal {
	switch op {
	case token.EQL, token.NEQ:
		eq, ok := false, false
		switch {
		case a.kind == c10tvConst && b.kind == c10tvConst && a.c.Kind() == b.c.Kind():
			eq, ok = constant.Compare(a.c, token.EQL, b.c), true
		case a.kind == c10tvNil && b.kind == c10tvNil:
			eq, ok = true, true
		case (a.kind == c10tvNil && b.kind == c10tvPtr) || (a.kind == c10tvPtr && b.kind == c10tvNil):
			eq, ok = false, true
		case a.kind == c10tvPtr && b.kind == c10tvPtr:
			eq, ok = a.obj == b.obj && a.path == b.path, true
		case (a.kind == c10tvNil && b.kind == c10tvList) || (a.kind == c10tvList && b.kind == c10tvNil):
			l := a.list
			if a.kind == c10tvNil {
				l = b.list
			}
			eq, ok = len(l) == 0, len(l) != 0 // an empty list may or may not be nil
		}
		if !ok {
			return c10tVal{}
		}
		if op == token.NEQ {
			eq = !eq
		}
		return c10tBool(eq)
	}
	if a.kind != c10tvConst || b.kind != c10tvConst {
		return c10tVal{}
	}
	switch op {
	case token.LSS, token.LEQ, token.GTR, token.GEQ:
		if a.c.Kind() == b.c.Kind() && (a.c.Kind() == constant.Int || a.c.Kind() == constant.String) {
			return c10tBool(constant.Compare(a.c, op, b.c))
		}
	case token.ADD:
		if a.c.Kind() == b.c.Kind() && (a.c.Kind() == constant.Int || a.c.Kind() == constant.String) {
			return c10tVal{kind: c10tvConst, c: constant.BinaryOp(a.c, token.ADD, b.c)}
		}
	case token.SUB, token.MUL, token.AND, token.OR, token.XOR, token.AND_NOT:
		if a.c.Kind() == constant.Int && b.c.Kind() == constant.Int {
			return c10tVal{kind: c10tvConst, c: constant.BinaryOp(a.c, op, b.c)}
		}
	}
	return c10tVal{}
}

// emitted returns the evaluated arguments of every call to a function named name (of package path
// suffix pkg) met on the path, in order.
func (s *c10tState) emitted(pkgSuffix, name string) [][]c10tVal {
	var out [][]c10tVal
	for _, em := range s.emits {
		if em.callee.Name() == name && em.callee.Pkg() != nil && strings.HasSuffix(em.callee.Pkg().Path(), pkgSuffix) {
			out = append(out, em.args)
		}
	}
	return out
}

// heapDump renders the tracked part of a state (diagnostics in messages).
func (s *c10tState) heapDump(obj int) string {
	var ks []string
	for k, v := range s.heap {
		if k.obj == obj {
			ks = append(ks, k.path+"="+v.String())
		}
	}
	sort.Strings(ks)
	return strings.Join(ks, " ")
}
