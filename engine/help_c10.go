package main

// T-TAB: finite table extraction by conditional constant propagation over go/ssa.
//
// c10tEval follows ONE path of a function: every instruction is evaluated over a small abstract
// domain (constants, nil, pointers to abstract objects, constant lists, "unknown"); an `If` whose
// condition folds to a constant is followed along the decided edge only. Nothing of the analysed
// repository is compiled or run: this is the checker's own abstract interpretation of the SSA
// form, with the function's inputs (field values reachable from its parameters) fixed per table row.
//
// What is evaluable: constants; loads/stores of fields of the abstract objects; phis (by the
// predecessor actually taken); ==, != on constants / nil / pointers; !, &&, || (as control flow);
// integer + - < <= > >= & | ^ &^ (loop counters and bit masks); len of a constant list, indexing a
// constant list (range loops over the method lists); conversions between string-like types; string
// concatenation of constants. Calls to functions of the analysed module with a body (static callees,
// methods, closures) are FOLLOWED when they receive a pointer to an abstract object or only known
// arguments: the callee is evaluated on the same abstract heap with its parameters (and captured
// variables) bound to the evaluated arguments, depth <= c10tFollowDepth, no recursion, under a step
// budget. Branches the inputs do not decide inside a callee are explored on both edges; the states at
// its returns are joined (a location / result on which the paths differ becomes unknown) - or, when
// the caller itself runs in fork mode, each returning path continues the caller separately. A callee
// that cannot be evaluated within the budget (I/O loops, recursion, too many open branches) is
// treated as before: result unknown, and a call inside the module that receives a pointer to an
// abstract object invalidates ("clobbers") that object. Helpers listed in `inline` are evaluated
// exactly (single decided path required). An `If` on an unknown value ends the path as "open"
// (or, with fork set, is explored on both edges up to maxPaths). The caller decides whether an open
// end or an unknown value matters and reports c.Undecided with the position if it does.

import (
	"fmt"
	"go/constant"
	"go/token"
	"go/types"
	"sort"
	"strings"

	"golang.org/x/tools/go/ssa"
)

const (
	c10tvUnknown = iota
	c10tvConst   // c
	c10tvNil
	c10tvPtr    // obj, path: address of (a sub-location of) an abstract object
	c10tvList   // list: constant slice
	c10tvElem   // list, idx: address of list[idx]
	c10tvNonNil // some non-nil value (the error of a followed callee's error return)
)

// c10tFollowDepth bounds the nesting of followed callees; c10tFollowSteps is the step budget of one
// followed call (all of its paths and nested callees together).
const (
	c10tFollowDepth = 4
	c10tFollowSteps = 6000
	c10tFollowPaths = 32
)

type c10tVal struct {
	kind int
	c    constant.Value
	obj  int
	path string
	list []c10tVal
	idx  int
}

func c10tStr(s string) c10tVal { return c10tVal{kind: c10tvConst, c: constant.MakeString(s)} }
func c10tBool(b bool) c10tVal  { return c10tVal{kind: c10tvConst, c: constant.MakeBool(b)} }
func c10tInt(i int64) c10tVal  { return c10tVal{kind: c10tvConst, c: constant.MakeInt64(i)} }
func c10tPtr(obj int) c10tVal  { return c10tVal{kind: c10tvPtr, obj: obj} }
func c10tStrList(xs ...string) c10tVal {
	v := c10tVal{kind: c10tvList}
	for _, x := range xs {
		v.list = append(v.list, c10tStr(x))
	}
	return v
}

func (v c10tVal) isBool() (bool, bool) {
	if v.kind == c10tvConst && v.c.Kind() == constant.Bool {
		return constant.BoolVal(v.c), true
	}
	return false, false
}

func (v c10tVal) isStr() (string, bool) {
	if v.kind == c10tvConst && v.c.Kind() == constant.String {
		return constant.StringVal(v.c), true
	}
	return "", false
}

// same: both are the same constant (or both nil).
func (v c10tVal) same(w c10tVal) bool {
	if v.kind == c10tvNil && w.kind == c10tvNil {
		return true
	}
	return v.kind == c10tvConst && w.kind == c10tvConst && v.c.Kind() == w.c.Kind() && constant.Compare(v.c, token.EQL, w.c)
}

func (v c10tVal) String() string {
	switch v.kind {
	case c10tvConst:
		return v.c.ExactString()
	case c10tvNil:
		return "nil"
	case c10tvPtr:
		return fmt.Sprintf("&obj%d%s", v.obj, v.path)
	case c10tvList:
		var s []string
		for _, e := range v.list {
			s = append(s, e.String())
		}
		return "[" + strings.Join(s, ",") + "]"
	case c10tvElem:
		return fmt.Sprintf("&list[%d]", v.idx)
	case c10tvNonNil:
		return "non-nil"
	}
	return "?"
}

// equal: structurally the same abstract value (used when the paths of a followed callee are joined).
func (v c10tVal) equal(w c10tVal) bool {
	if v.kind != w.kind {
		return false
	}
	switch v.kind {
	case c10tvConst:
		return v.c.Kind() == w.c.Kind() && constant.Compare(v.c, token.EQL, w.c)
	case c10tvPtr:
		return v.obj == w.obj && v.path == w.path
	case c10tvList, c10tvElem:
		if len(v.list) != len(w.list) || v.idx != w.idx {
			return false
		}
		for i := range v.list {
			if !v.list[i].equal(w.list[i]) {
				return false
			}
		}
		return true
	case c10tvUnknown:
		return false
	}
	return true // nil, non-nil
}

type c10tLoc struct {
	obj  int
	path string
}

// c10tEmit is a call met on the path, with its evaluated arguments (receiver first).
type c10tEmit struct {
	callee *types.Func
	args   []c10tVal
	call   ssa.CallInstruction
}

type c10tState struct {
	env       map[ssa.Value]c10tVal
	heap      map[c10tLoc]c10tVal
	clobbered map[int]bool
	emits     []c10tEmit
	nextObj   int
	steps     int
}

func newC10tState() *c10tState {
	return &c10tState{env: map[ssa.Value]c10tVal{}, heap: map[c10tLoc]c10tVal{}, clobbered: map[int]bool{}, nextObj: 1000}
}

func (s *c10tState) clone() *c10tState {
	n := &c10tState{env: make(map[ssa.Value]c10tVal, len(s.env)), heap: make(map[c10tLoc]c10tVal, len(s.heap)),
		clobbered: map[int]bool{}, nextObj: s.nextObj, steps: s.steps}
	for k, v := range s.env {
		n.env[k] = v
	}
	for k, v := range s.heap {
		n.heap[k] = v
	}
	for k, v := range s.clobbered {
		n.clobbered[k] = v
	}
	n.emits = append(n.emits, s.emits...)
	return n
}

// cloneHeap copies the heap side of s; the environment starts empty (a callee's own SSA values).
func (s *c10tState) cloneHeap() *c10tState {
	n := &c10tState{env: map[ssa.Value]c10tVal{}, heap: make(map[c10tLoc]c10tVal, len(s.heap)), clobbered: map[int]bool{}, nextObj: s.nextObj}
	for k, v := range s.heap {
		n.heap[k] = v
	}
	for k, v := range s.clobbered {
		n.clobbered[k] = v
	}
	n.emits = append(n.emits, s.emits...)
	return n
}

// c10tOutcome is the end of one evaluated path.
type c10tOutcome struct {
	kind    string // "success" | "error" | "open" | "undecided"
	st      *c10tState
	ret     *ssa.Return
	results []c10tVal
	at      *ssa.BasicBlock // open: the block whose branch could not be decided
	pos     token.Pos
	why     string
}

type c10tEval struct {
	p        *Prog
	init     func(loc c10tLoc) (c10tVal, bool)                                             // initial content of abstract objects
	onCall   func(st *c10tState, call ssa.CallInstruction, args []c10tVal) (c10tVal, bool) // optional result override
	inline   map[*ssa.Function]bool                                                        // pure helpers evaluated recursively
	tracked  map[int]bool                                                                  // objects whose escape into a module call clobbers them
	retMemo  map[*ssa.Function][]RetPoint
	fork     bool
	maxSteps int
	maxPaths int
	paths    int
	// following of module callees
	noFollow   bool                   // never follow (calls are opaque as in the first version of the evaluator)
	depth      int                    // nesting depth of this evaluator (0 = the function the rule evaluates)
	active     map[*ssa.Function]bool // functions being evaluated up the stack (no recursion)
	nested     bool                   // evaluating a followed callee: a return of unknown error class is not fatal
	total      *int                   // steps used by the followed call this evaluator belongs to (all paths)
	gaveUp     map[string]bool        // callee+arguments that could not be evaluated within the budget
	rootPkg    *types.Package         // package of the function the rule evaluates (set by runAt at depth 0)
	followOnly map[*ssa.Function]bool // when set: exactly these callees are followed
}

// returns memoises the return classification per function (it would be recomputed for every row
// otherwise); the memo is owned by whoever creates the evaluators of one table.
func (e *c10tEval) returns(fn *ssa.Function) []RetPoint {
	if e.retMemo == nil {
		return e.p.returnsOf(fn)
	}
	if r, ok := e.retMemo[fn]; ok {
		return r
	}
	r := e.p.returnsOf(fn)
	e.retMemo[fn] = r
	return r
}

func (e *c10tEval) load(st *c10tState, loc c10tLoc) c10tVal {
	if v, ok := st.heap[loc]; ok {
		return v
	}
	if st.clobbered[loc.obj] {
		return c10tVal{}
	}
	if e.init != nil {
		if v, ok := e.init(loc); ok {
			st.heap[loc] = v
			return v
		}
	}
	return c10tVal{}
}

func (e *c10tEval) val(st *c10tState, v ssa.Value) c10tVal {
	switch x := v.(type) {
	case *ssa.Const:
		if x.Value == nil {
			if isBasic(x.Type()) {
				// zero value of a basic type
				switch bt := x.Type().Underlying().(*types.Basic); {
				case bt.Info()&types.IsString != 0:
					return c10tStr("")
				case bt.Info()&types.IsBoolean != 0:
					return c10tBool(false)
				case bt.Info()&types.IsInteger != 0:
					return c10tInt(0)
				}
				return c10tVal{}
			}
			return c10tVal{kind: c10tvNil}
		}
		switch x.Value.Kind() {
		case constant.String, constant.Bool, constant.Int:
			return c10tVal{kind: c10tvConst, c: x.Value}
		}
		return c10tVal{}
	}
	if r, ok := st.env[v]; ok {
		return r
	}
	return c10tVal{}
}

// run evaluates fn from block start (entered from prev, nil for the entry) and returns the path ends.
func (e *c10tEval) run(fn *ssa.Function, start, prev *ssa.BasicBlock, st *c10tState) []c10tOutcome {
	return e.runAt(fn, start, 0, prev, st)
}

// runAt evaluates fn from instruction idx of block start. idx > 0 resumes in the middle of a block
// (after a followed call that returned on several paths): the block's phis are already evaluated.
func (e *c10tEval) runAt(fn *ssa.Function, start *ssa.BasicBlock, idx int, prev *ssa.BasicBlock, st *c10tState) []c10tOutcome {
	if e.maxSteps == 0 {
		e.maxSteps = 20000
	}
	if e.maxPaths == 0 {
		e.maxPaths = 256
	}
	if e.rootPkg == nil && e.depth == 0 {
		e.rootPkg = fnPkg(fn)
	}
	b := start
	for {
		nphi := 0
		for _, in := range b.Instrs {
			if _, ok := in.(*ssa.Phi); !ok {
				break
			}
			nphi++
		}
		if idx == 0 {
			// phis first, evaluated in parallel against the state on entry
			phiVals := make([]c10tVal, nphi)
			for k := 0; k < nphi; k++ {
				phi := b.Instrs[k].(*ssa.Phi)
				if prev != nil {
					for i, pb := range b.Preds {
						if pb == prev {
							phiVals[k] = e.val(st, phi.Edges[i])
							break
						}
					}
				}
			}
			for k := 0; k < nphi; k++ {
				st.env[b.Instrs[k].(*ssa.Phi)] = phiVals[k]
			}
		}
		if idx < nphi {
			idx = nphi
		}
		for i := idx; i < len(b.Instrs); i++ {
			in := b.Instrs[i]
			st.steps++
			if st.steps > e.maxSteps {
				return []c10tOutcome{{kind: "undecided", st: st, pos: in.Pos(), why: "evaluation step budget exhausted (loop not decided by the row's inputs?)"}}
			}
			if e.total != nil {
				*e.total++
				if *e.total > c10tFollowSteps {
					return []c10tOutcome{{kind: "undecided", st: st, pos: in.Pos(), why: "step budget of a followed call exhausted"}}
				}
			}
			switch x := in.(type) {
			case *ssa.If:
				cv := e.val(st, x.Cond)
				if bv, ok := cv.isBool(); ok {
					prev = b
					if bv {
						b = b.Succs[0]
					} else {
						b = b.Succs[1]
					}
					goto next
				}
				if !e.fork {
					return []c10tOutcome{{kind: "open", st: st, at: b, pos: c10CondPos(x), why: "branch condition not determined by the row's inputs"}}
				}
				e.paths++
				if e.paths > e.maxPaths {
					return []c10tOutcome{{kind: "undecided", st: st, pos: c10CondPos(x), why: "too many undetermined branches"}}
				}
				out := e.run(fn, b.Succs[0], b, st.clone())
				return append(out, e.run(fn, b.Succs[1], b, st)...)
			case *ssa.Jump:
				prev = b
				b = b.Succs[0]
				goto next
			case *ssa.Return:
				o := c10tOutcome{kind: "success", st: st, ret: x, pos: x.Pos()}
				for _, r := range x.Results {
					o.results = append(o.results, e.val(st, r))
				}
				for _, rp := range e.returns(fn) {
					if rp.Ret == x && (rp.Pred == nil || rp.Pred == prev) {
						if rp.Class == "error" {
							o.kind = "error"
						} else if rp.Class == "maybe" {
							// `return helper(...)`: the evaluated error value of a followed helper decides
							ev := c10tVal{}
							for k := len(x.Results) - 1; k >= 0; k-- {
								if isErrorType(x.Results[k].Type()) {
									ev = o.results[k]
									break
								}
							}
							switch {
							case ev.kind == c10tvNil:
							case ev.kind == c10tvNonNil:
								o.kind = "error"
							case !e.nested:
								o.kind = "undecided"
								o.why = "cannot tell whether this return carries an error"
							}
						}
					}
				}
				return []c10tOutcome{o}
			case *ssa.Panic:
				return []c10tOutcome{{kind: "error", st: st, pos: x.Pos(), why: "panic"}}
			case *ssa.Call:
				conts, followed := e.follow(st, x)
				if !followed {
					e.step(st, in)
					break
				}
				if len(conts) == 1 {
					st.adopt(conts[0].st)
					st.env[x] = conts[0].val
					break
				}
				// the callee returns on several paths and this evaluator explores paths separately
				e.paths += len(conts) - 1
				if e.paths > e.maxPaths {
					return []c10tOutcome{{kind: "undecided", st: st, pos: x.Pos(), why: "too many undetermined branches"}}
				}
				var outs []c10tOutcome
				for _, ct := range conts {
					ns := st.clone()
					ns.adopt(ct.st)
					ns.env[x] = ct.val
					outs = append(outs, e.runAt(fn, b, i+1, prev, ns)...)
				}
				return outs
			default:
				e.step(st, in)
			}
		}
		return []c10tOutcome{{kind: "undecided", st: st, why: "block without terminator"}}
	next:
		idx = 0
	}
}

// adopt takes over the heap side of o (the state a followed callee returned in); the environment
// (the caller's SSA values) stays.
func (s *c10tState) adopt(o *c10tState) {
	s.heap, s.clobbered, s.emits, s.nextObj = o.heap, o.clobbered, o.emits, o.nextObj
	if o.steps > s.steps {
		s.steps = o.steps
	}
}

// c10tCont is one way a followed callee returns: the state it leaves and its result.
type c10tCont struct {
	st  *c10tState
	val c10tVal
}

// follow evaluates the callee of call on the current abstract heap (see the file comment). It
// returns ok=false when the call is not followed (then the caller treats it as an opaque call).
func (e *c10tEval) follow(st *c10tState, call *ssa.Call) ([]c10tCont, bool) {
	if e.noFollow || e.depth >= c10tFollowDepth {
		return nil, false
	}
	g := calleeFn(call)
	if g == nil || g.Blocks == nil || e.inline[g] || e.active[g] || fnPkg(g) == nil || !inModule(fnPkg(g).Path()) {
		return nil, false
	}
	var args []c10tVal
	for _, a := range call.Call.Args {
		args = append(args, e.val(st, a))
	}
	var binds []c10tVal
	if mc, ok := call.Call.Value.(*ssa.MakeClosure); ok {
		for _, bv := range mc.Bindings {
			binds = append(binds, e.val(st, bv))
		}
	}
	if len(args) != len(g.Params) || len(binds) != len(g.FreeVars) {
		return nil, false
	}
	if e.followOnly != nil {
		if !e.followOnly[g] {
			return nil, false
		}
	} else {
		// worth following: a helper of the evaluated function's own package, or a callee that can see an
		// abstract object or computes from known values only (I/O layers of other packages are not)
		hasPtr, allKnown := false, len(args) > 0
		for _, a := range append(append([]c10tVal{}, args...), binds...) {
			if a.kind == c10tvPtr {
				hasPtr = true
			}
			if a.kind == c10tvUnknown {
				allKnown = false
			}
		}
		if !hasPtr && !allKnown && (e.rootPkg == nil || fnPkg(g) != e.rootPkg) {
			return nil, false
		}
	}
	if e.onCall != nil {
		if _, ok := e.onCall(st, call, args); ok {
			return nil, false
		}
	}
	key := g.String()
	for _, a := range args {
		key += "|" + a.String()
	}
	for _, a := range binds {
		key += "|" + a.String()
	}
	if e.gaveUp == nil {
		e.gaveUp = map[string]bool{}
	}
	if e.gaveUp[key] {
		return nil, false
	}
	total := e.total
	if total == nil {
		total = new(int)
	}
	active := map[*ssa.Function]bool{g: true}
	for f := range e.active {
		active[f] = true
	}
	sub := &c10tEval{p: e.p, init: e.init, onCall: e.onCall, inline: e.inline, tracked: e.tracked, retMemo: e.retMemo,
		followOnly: e.followOnly, rootPkg: e.rootPkg, fork: true, maxPaths: c10tFollowPaths, depth: e.depth + 1, active: active, nested: true, total: total, gaveUp: e.gaveUp}
	ss := st.cloneHeap()
	for i, p := range g.Params {
		ss.env[p] = args[i]
	}
	for i, fv := range g.FreeVars {
		ss.env[fv] = binds[i]
	}
	if o := calleeObj(call); o != nil {
		ss.emits = append(ss.emits, c10tEmit{callee: o, args: args, call: call})
	}
	outs := sub.run(g, g.Blocks[0], nil, ss)
	ei := -1
	res := g.Signature.Results()
	for i := 0; i < res.Len(); i++ {
		if isErrorType(res.At(i).Type()) {
			ei = i
		}
	}
	var conts []c10tCont
	for _, o := range outs {
		if o.kind == "error" && o.ret == nil {
			continue // a panicking path does not return
		}
		if o.ret == nil || (o.kind != "success" && o.kind != "error") {
			e.gaveUp[key] = true
			return nil, false
		}
		rs := append([]c10tVal{}, o.results...)
		if ei >= 0 && ei < len(rs) && rs[ei].kind == c10tvUnknown && o.kind == "error" {
			rs[ei] = c10tVal{kind: c10tvNonNil}
		}
		var v c10tVal
		switch len(rs) {
		case 0:
		case 1:
			v = rs[0]
		default:
			v = c10tVal{kind: c10tvList, list: rs}
		}
		o.st.steps += st.steps
		conts = append(conts, c10tCont{o.st, v})
	}
	if len(conts) == 0 {
		e.gaveUp[key] = true
		return nil, false
	}
	if len(conts) == 1 || e.fork {
		return conts, true
	}
	return []c10tCont{e.join(conts)}, true
}

// join merges the returning paths of a followed callee into one state: a heap location, or a result,
// on which the paths differ becomes unknown; an object clobbered on one path is clobbered.
func (e *c10tEval) join(conts []c10tCont) c10tCont {
	first := conts[0]
	out := c10tCont{st: first.st.clone(), val: first.val}
	for _, ct := range conts[1:] {
		for k := range ct.st.clobbered {
			if !out.st.clobbered[k] {
				out.st.clobbered[k] = true
			}
		}
		if ct.st.nextObj > out.st.nextObj {
			out.st.nextObj = ct.st.nextObj
		}
		if ct.st.steps > out.st.steps {
			out.st.steps = ct.st.steps
		}
	}
	locs := map[c10tLoc]bool{}
	for _, ct := range conts {
		for k := range ct.st.heap {
			locs[k] = true
		}
	}
	for k := range locs {
		v := e.load(first.st, k)
		for _, ct := range conts[1:] {
			if w := e.load(ct.st, k); !v.equal(w) {
				v = c10tVal{}
				break
			}
		}
		out.st.heap[k] = v
	}
	for _, ct := range conts[1:] {
		out.val = c10tJoinVal(out.val, ct.val)
	}
	return out
}

func c10tJoinVal(a, b c10tVal) c10tVal {
	if a.equal(b) {
		return a
	}
	if a.kind == c10tvList && b.kind == c10tvList && len(a.list) == len(b.list) {
		r := c10tVal{kind: c10tvList}
		for i := range a.list {
			r.list = append(r.list, c10tJoinVal(a.list[i], b.list[i]))
		}
		return r
	}
	return c10tVal{}
}

func c10CondPos(i *ssa.If) token.Pos {
	if i.Cond.Pos().IsValid() {
		return i.Cond.Pos()
	}
	if in, ok := i.Cond.(ssa.Instruction); ok {
		for _, op := range in.Operands(nil) {
			if *op != nil && (*op).Pos().IsValid() {
				return (*op).Pos()
			}
		}
	}
	return i.Pos()
}

func (e *c10tEval) step(st *c10tState, in ssa.Instruction) {
	switch x := in.(type) {
	case *ssa.Alloc:
		st.nextObj++
		st.env[x] = c10tPtr(st.nextObj)
	case *ssa.FieldAddr:
		b := e.val(st, x.X)
		if b.kind == c10tvPtr {
			st.env[x] = c10tVal{kind: c10tvPtr, obj: b.obj, path: b.path + "." + fieldOfAddr(x).Name()}
		} else {
			st.env[x] = c10tVal{}
		}
	case *ssa.IndexAddr:
		b := e.val(st, x.X)
		i := e.val(st, x.Index)
		iv, iok := int64(0), false
		if i.kind == c10tvConst && i.c.Kind() == constant.Int {
			iv, iok = constant.Int64Val(i.c)
		}
		switch {
		case b.kind == c10tvPtr && iok:
			st.env[x] = c10tVal{kind: c10tvPtr, obj: b.obj, path: fmt.Sprintf("%s[%d]", b.path, iv)}
		case b.kind == c10tvList && iok && iv >= 0 && int(iv) < len(b.list):
			st.env[x] = c10tVal{kind: c10tvElem, list: b.list, idx: int(iv)}
		default:
			st.env[x] = c10tVal{}
		}
	case *ssa.UnOp:
		a := e.val(st, x.X)
		switch x.Op {
		case token.MUL:
			switch a.kind {
			case c10tvPtr:
				st.env[x] = e.load(st, c10tLoc{a.obj, a.path})
			case c10tvElem:
				st.env[x] = a.list[a.idx]
			default:
				st.env[x] = c10tVal{}
			}
		case token.NOT:
			if b, ok := a.isBool(); ok {
				st.env[x] = c10tBool(!b)
			} else {
				st.env[x] = c10tVal{}
			}
		case token.XOR:
			if a.kind == c10tvConst && a.c.Kind() == constant.Int {
				st.env[x] = c10tVal{kind: c10tvConst, c: constant.UnaryOp(token.XOR, a.c, 0)}
			} else {
				st.env[x] = c10tVal{}
			}
		case token.SUB:
			if a.kind == c10tvConst && a.c.Kind() == constant.Int {
				st.env[x] = c10tVal{kind: c10tvConst, c: constant.UnaryOp(token.SUB, a.c, 0)}
			} else {
				st.env[x] = c10tVal{}
			}
		default:
			st.env[x] = c10tVal{}
		}
	case *ssa.BinOp:
		st.env[x] = c10tBinOp(x.Op, e.val(st, x.X), e.val(st, x.Y))
	case *ssa.Store:
		a := e.val(st, x.Addr)
		if a.kind == c10tvPtr {
			st.heap[c10tLoc{a.obj, a.path}] = e.val(st, x.Val)
		} else if v := e.val(st, x.Val); v.kind == c10tvPtr && e.tracked[v.obj] {
			// the address of an abstract object is stored where the evaluator cannot see: it escapes
			e.clobber(st, v.obj)
		}
		// a store through an unknown address cannot alias the abstract objects: their addresses are
		// only ever produced from the bound parameters, and every value derived from those is known.
	case *ssa.ChangeType:
		st.env[x] = e.val(st, x.X)
	case *ssa.ChangeInterface:
		st.env[x] = e.val(st, x.X)
	case *ssa.MakeInterface:
		st.env[x] = e.val(st, x.X)
	case *ssa.Convert:
		a := e.val(st, x.X)
		// string-like <-> string-like and integer <-> integer conversions keep the constant
		from, ok1 := x.X.Type().Underlying().(*types.Basic)
		to, ok2 := x.Type().Underlying().(*types.Basic)
		if ok1 && ok2 && a.kind == c10tvConst &&
			((from.Info()&types.IsString != 0 && to.Info()&types.IsString != 0) ||
				(from.Info()&types.IsInteger != 0 && to.Info()&types.IsInteger != 0)) {
			st.env[x] = a
		} else {
			st.env[x] = c10tVal{}
		}
	case *ssa.Extract:
		t := e.val(st, x.Tuple)
		if t.kind == c10tvList && x.Index < len(t.list) { // tuple results of inlined helpers
			st.env[x] = t.list[x.Index]
		} else {
			st.env[x] = c10tVal{}
		}
	case *ssa.Call:
		st.env[x] = e.call(st, x)
	case *ssa.Defer, *ssa.Go:
		e.call(st, x.(ssa.CallInstruction))
	case *ssa.DebugRef, *ssa.RunDefers:
	default:
		if v, ok := in.(ssa.Value); ok {
			st.env[v] = c10tVal{}
		}
	}
}

func (e *c10tEval) call(st *c10tState, call ssa.CallInstruction) c10tVal {
	cc := call.Common()
	var args []c10tVal
	for _, a := range callArgs(call) {
		args = append(args, e.val(st, a))
	}
	if b, ok := cc.Value.(*ssa.Builtin); ok {
		if b.Name() == "len" && len(args) == 1 {
			if args[0].kind == c10tvList {
				return c10tInt(int64(len(args[0].list)))
			}
			if s, ok := args[0].isStr(); ok {
				return c10tInt(int64(len(s)))
			}
		}
		return c10tVal{}
	}
	if e.onCall != nil {
		if v, ok := e.onCall(st, call, args); ok {
			return v
		}
	}
	g := calleeFn(call)
	if g != nil && e.inline[g] && g.Blocks != nil {
		sub := &c10tEval{p: e.p, inline: e.inline, maxSteps: 5000, retMemo: e.retMemo}
		ss := newC10tState()
		okArgs := true
		for i, p := range g.Params {
			if i < len(args) {
				ss.env[p] = args[i]
				if args[i].kind == c10tvUnknown {
					okArgs = false
				}
			}
		}
		if okArgs {
			outs := sub.run(g, g.Blocks[0], nil, ss)
			if len(outs) == 1 && (outs[0].kind == "success" || outs[0].kind == "error") && outs[0].ret != nil {
				if len(outs[0].results) == 1 {
					return outs[0].results[0]
				}
				return c10tVal{kind: c10tvList, list: outs[0].results}
			}
		}
		return c10tVal{}
	}
	if o := calleeObj(call); o != nil {
		st.emits = append(st.emits, c10tEmit{callee: o, args: args, call: call})
	}
	// a module function that receives a pointer into a tracked abstract object may change it
	inMod := false
	if g != nil && fnPkg(g) != nil && inModule(fnPkg(g).Path()) {
		inMod = true
	} else if g == nil {
		if o := calleeObj(call); o != nil && o.Pkg() != nil && inModule(o.Pkg().Path()) {
			inMod = true
		} else if o == nil {
			inMod = true // fully dynamic call: assume the worst
		}
	}
	if inMod {
		for _, a := range args {
			if a.kind == c10tvPtr && e.tracked[a.obj] {
				e.clobber(st, a.obj)
			}
		}
		if mc, ok := cc.Value.(*ssa.MakeClosure); ok {
			for _, bv := range mc.Bindings {
				if a := e.val(st, bv); a.kind == c10tvPtr && e.tracked[a.obj] {
					e.clobber(st, a.obj)
				}
			}
		}
	}
	return c10tVal{}
}

// clobber forgets everything known about abstract object obj.
func (e *c10tEval) clobber(st *c10tState, obj int) {
	st.clobbered[obj] = true
	for k := range st.heap {
		if k.obj == obj {
			delete(st.heap, k)
		}
	}
}

func c10tBinOp(op token.Token, a, b c10tVal) c10tVal {
	switch op {
	case token.EQL, token.NEQ:
		eq, ok := false, false
		switch {
		case a.kind == c10tvConst && b.kind == c10tvConst && a.c.Kind() == b.c.Kind():
			eq, ok = constant.Compare(a.c, token.EQL, b.c), true
		case a.kind == c10tvNil && b.kind == c10tvNil:
			eq, ok = true, true
		case (a.kind == c10tvNil && b.kind == c10tvPtr) || (a.kind == c10tvPtr && b.kind == c10tvNil):
			eq, ok = false, true
		case (a.kind == c10tvNil && b.kind == c10tvNonNil) || (a.kind == c10tvNonNil && b.kind == c10tvNil):
			eq, ok = false, true
		case a.kind == c10tvPtr && b.kind == c10tvPtr:
			eq, ok = a.obj == b.obj && a.path == b.path, true
		case (a.kind == c10tvNil && b.kind == c10tvList) || (a.kind == c10tvList && b.kind == c10tvNil):
			l := a.list
			if a.kind == c10tvNil {
				l = b.list
			}
			eq, ok = len(l) == 0, len(l) != 0 // an empty list may or may not be nil
		}
		if !ok {
			return c10tVal{}
		}
		if op == token.NEQ {
			eq = !eq
		}
		return c10tBool(eq)
	}
	if a.kind != c10tvConst || b.kind != c10tvConst {
		return c10tVal{}
	}
	switch op {
	case token.LSS, token.LEQ, token.GTR, token.GEQ:
		if a.c.Kind() == b.c.Kind() && (a.c.Kind() == constant.Int || a.c.Kind() == constant.String) {
			return c10tBool(constant.Compare(a.c, op, b.c))
		}
	case token.ADD:
		if a.c.Kind() == b.c.Kind() && (a.c.Kind() == constant.Int || a.c.Kind() == constant.String) {
			return c10tVal{kind: c10tvConst, c: constant.BinaryOp(a.c, token.ADD, b.c)}
		}
	case token.SUB, token.MUL, token.AND, token.OR, token.XOR, token.AND_NOT:
		if a.c.Kind() == constant.Int && b.c.Kind() == constant.Int {
			return c10tVal{kind: c10tvConst, c: constant.BinaryOp(a.c, op, b.c)}
		}
	}
	return c10tVal{}
}

// emitted returns the evaluated arguments of every call to a function named name (of package path
// suffix pkg) met on the path, in order.
func (s *c10tState) emitted(pkgSuffix, name string) [][]c10tVal {
	var out [][]c10tVal
	for _, em := range s.emits {
		if em.callee.Name() == name && em.callee.Pkg() != nil && strings.HasSuffix(em.callee.Pkg().Path(), pkgSuffix) {
			out = append(out, em.args)
		}
	}
	return out
}

// heapDump renders the tracked part of a state (diagnostics in messages).
func (s *c10tState) heapDump(obj int) string {
	var ks []string
	for k, v := range s.heap {
		if k.obj == obj {
			ks = append(ks, k.path+"="+v.String())
		}
	}
	sort.Strings(ks)
	return strings.Join(ks, " ")
}
