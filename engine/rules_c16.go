package main

import (
	"fmt"
	"go/token"
	"go/types"
	"sort"
	"strings"

	"golang.org/x/tools/go/ssa"
)

func init() {
	register("C16", c06Timed("C16-R1", c16r1), c06Timed("C16-R2", c16r2), c06Timed("C16-R3", c16r3), c06Timed("C16-R4", c16r4), c06Timed("C16-R5", c16r5))
}

type c16A struct {
	mint, imp, impFT                  *ssa.Function
	export, importInfo, importAttrs   *ssa.Function
	deriveClaim, deriveKey, deriveAES *ssa.Function
	parse, randomHex                  *ssa.Function
	claimExp, mapCmds, newEntry       *ssa.Function
	setInherited, store               *ssa.Function
	secID, secInfo, secKey, raw       *ssa.Function
	pubParsed, pubMinted, claimIDAcc  *ssa.Function
	quote                             *ssa.Function
}

func c16Resolve(c *Ctx, rule string) *c16A {
	a := &c16A{}
	ok := true
	fn := func(dst **ssa.Function, name string) {
		*dst = c.needFn(rule, "security", name)
		if *dst == nil {
			ok = false
		}
	}
	fn(&a.mint, "MintClaimSession")
	fn(&a.imp, "ImportClaimSession")
	fn(&a.impFT, "ImportFileTransferSession")
	fn(&a.export, "ExportSecSessionInfo")
	fn(&a.importInfo, "ImportSecSessionInfo")
	fn(&a.importAttrs, "ImportSessionInfoAttributes")
	fn(&a.deriveClaim, "deriveClaimKeyInfo")
	fn(&a.deriveKey, "deriveSessionKey")
	fn(&a.deriveAES, "(*Authenticator).deriveAESKey")
	fn(&a.parse, "ParseClaimIDStrict")
	fn(&a.randomHex, "randomHexKey")
	fn(&a.claimExp, "claimExpiration")
	fn(&a.mapCmds, "mapClaimCommands")
	fn(&a.newEntry, "NewSessionEntry")
	fn(&a.setInherited, "(*SessionEntry).SetInherited")
	fn(&a.store, "(*SessionCache).Store")
	fn(&a.secID, "(*ClaimID).SecSessionID")
	fn(&a.secInfo, "(*ClaimID).SecSessionInfo")
	fn(&a.secKey, "(*ClaimID).SecSessionKey")
	fn(&a.raw, "(*ClaimID).Raw")
	fn(&a.pubParsed, "(*ClaimID).PublicClaimID")
	fn(&a.pubMinted, "(*MintedClaim).PublicClaimID")
	fn(&a.claimIDAcc, "(*MintedClaim).ClaimID")
	fn(&a.quote, "quote")
	if !ok {
		return nil
	}
	return a
}

// c16ConstStrings resolves the string constants v may be: a constant, or an element of a
// compiler-built literal array (range over []string{...}).
func c16ConstStrings(fn *ssa.Function, v ssa.Value) ([]string, bool) {
	if s, ok := constString(v); ok {
		return []string{s}, true
	}
	var out []string
	for _, o := range origins(fn, v) {
		if s, ok := constString(o); ok {
			out = append(out, s)
			continue
		}
		ld, ok := o.(*ssa.UnOp)
		if !ok || ld.Op != token.MUL {
			return nil, false
		}
		ia, ok := ld.X.(*ssa.IndexAddr)
		if !ok {
			return nil, false
		}
		root, ok := memRoot(ia).(*ssa.Alloc)
		if !ok {
			return nil, false
		}
		n := 0
		for _, r := range *root.Referrers() {
			ea, ok := r.(*ssa.IndexAddr)
			if !ok {
				continue
			}
			for _, u := range *ea.Referrers() {
				if st, ok := u.(*ssa.Store); ok && st.Addr == ea {
					s, isC := constString(st.Val)
					if !isC {
						return nil, false
					}
					out = append(out, s)
					n++
				}
			}
		}
		if n == 0 {
			return nil, false
		}
	}
	return out, len(out) > 0
}

// c16HKDF extracts (salt, info) constants and the secret argument of the hkdf.New call in fn.
func c16HKDF(fn *ssa.Function) (call *ssa.Call, salt, info string, ok bool) {
	allInstrs(fn, func(_ *ssa.BasicBlock, _ int, in ssa.Instruction) {
		cl, isC := in.(*ssa.Call)
		if !isC {
			return
		}
		o := calleeObj(cl)
		if o == nil || o.Pkg() == nil || o.Pkg().Path() != "golang.org/x/crypto/hkdf" || o.Name() != "New" || len(cl.Call.Args) != 4 {
			return
		}
		s, ok1 := c16BytesConst(fn, cl.Call.Args[2])
		i, ok2 := c16BytesConst(fn, cl.Call.Args[3])
		call, salt, info, ok = cl, s, i, ok1 && ok2
	})
	return
}

func c16BytesConst(fn *ssa.Function, v ssa.Value) (string, bool) {
	for _, o := range origins(fn, v) {
		if s, ok := constString(o); ok {
			return s, true
		}
	}
	return constString(v)
}

// c16Registration abstracts how fn registers the claim session.
type c16Reg struct {
	sets  map[string]string // attribute -> provenance of the value Set on the registered policy
	entry *ssa.Call         // the NewSessionEntry call
}

func (c *Ctx) c16Registration(a *c16A, fn *ssa.Function) *c16Reg {
	r := &c16Reg{sets: map[string]string{}}
	calls := callsIn(fn, a.newEntry.Object())
	if len(calls) != 1 {
		return nil
	}
	r.entry = calls[0].(*ssa.Call)
	policy := r.entry.Call.Args[3]
	for _, s := range c06AdSets(fn) {
		if !c06SameValue(fn, s.Ad, policy) || s.Name == "" {
			continue
		}
		r.sets[s.Name] = c07Prov(fn, s.Val)
	}
	return r
}

// C16-R1: both ends register the same session.
func c16r1(c *Ctx) {
	const rule = "C16-R1"
	c.Doc(rule, "MintClaimSession and ImportClaimSession (ImportFileTransferSession for the common part) register symmetrically: key from deriveClaimKeyInfo -> deriveSessionKey(secret, 32) with HKDF salt/info constants equal to deriveAESKey's; policy from ImportSecSessionInfo of the very session_info embedded in / parsed from the claim id; the same attribute constants Set afterwards with equal constant values; entry id = the Sid attribute; expiry through claimExpiration(policy, …), lease 0, SetInherited(true), cache.Store, mapClaimCommands")
	a := c16Resolve(c, rule)
	if a == nil {
		return
	}
	// key derivation chain
	_, salt, info, ok := c16HKDF(a.deriveKey)
	_, salt2, info2, ok2 := c16HKDF(a.deriveAES)
	c.Check(ok && ok2 && salt == salt2 && info == info2 && salt != "" && info != "", rule, "hkdf-constants:deriveSessionKey=deriveAESKey",
		fmt.Sprintf("both derive with salt %q info %q", salt, info), fmt.Sprintf("HKDF constants differ or are not constant: deriveSessionKey(%q,%q) vs deriveAESKey(%q,%q)", salt, info, salt2, info2), a.deriveKey.Pos())
	nDerive := 0
	for _, cs := range callsIn(a.deriveClaim, a.deriveKey.Object()) {
		nDerive++
		args := callArgs(cs)
		l, isC := constInt(args[1])
		c.Check(len(a.deriveClaim.Params) == 2 && args[0] == ssa.Value(a.deriveClaim.Params[1]) && isC && l == 32, rule, fnName(a.deriveClaim)+"#deriveSessionKey(secret,32)",
			"the claim key is deriveSessionKey(secret, 32)", "deriveClaimKeyInfo does not derive from its secret parameter with length 32", cs.Pos())
	}
	for _, cs := range callsIn(a.impFT, a.deriveKey.Object()) {
		nDerive++
		args := callArgs(cs)
		l, isC := constInt(args[1])
		fromKey := c06AllOrigins(a.impFT, args[0], func(o ssa.Value) bool { return c06CallOf(o, a.secKey.Object()) != nil })
		c.Check(fromKey && isC && l == 32, rule, fnName(a.impFT)+"#deriveSessionKey(secret,32)", "the file-transfer key is deriveSessionKey(claim secret, 32)", "ImportFileTransferSession does not derive from the claim's secret with length 32", cs.Pos())
	}
	c.MinCount(rule, "deriveSessionKey call sites in the claim code", nDerive, 2)
	// other derivation helpers must not appear in the three functions
	for _, fn := range []*ssa.Function{a.mint, a.imp, a.impFT} {
		allInstrs(fn, func(_ *ssa.BasicBlock, _ int, in ssa.Instruction) {
			cl, ok := in.(ssa.CallInstruction)
			if !ok {
				return
			}
			g := calleeFn(cl)
			if g == nil || g == a.deriveClaim || g == a.deriveKey || g.Blocks == nil || fnPkg(g) != fnPkg(fn) {
				return
			}
			if call, _, _, _ := c16HKDF(g); call != nil {
				c.Violate(rule, fnName(fn)+"#foreign-kdf:"+fnName(g), fnName(fn)+" derives key material through "+fnName(g)+" instead of deriveClaimKeyInfo/deriveSessionKey: the two ends may derive different keys", cl.Pos())
			}
		})
	}
	regs := map[*ssa.Function]*c16Reg{}
	for _, fn := range []*ssa.Function{a.mint, a.imp, a.impFT} {
		r := c.c16Registration(a, fn)
		if r == nil {
			c.Undecided(rule, fnName(fn)+"#NewSessionEntry", "expected exactly one NewSessionEntry call", fn.Pos())
			return
		}
		regs[fn] = r
		e := r.entry
		args := e.Call.Args // id, addr, keyInfo, policy, expiration, lease, tag
		// keyInfo
		if fn != a.impFT {
			kc := c06CallOf(args[2], a.deriveClaim.Object())
			good := kc != nil && c06SameValue(fn, kc.Call.Args[0], args[3])
			c.Check(good, rule, fnName(fn)+"#keyInfo<-deriveClaimKeyInfo(policy,secret)", "the entry's key is deriveClaimKeyInfo(policy, secret)", "the entry's key is not deriveClaimKeyInfo of the registered policy", e.Pos())
			// policy = ImportSecSessionInfo(x)
			pc := c06CallOf(args[3], a.importInfo.Object())
			c.Check(pc != nil, rule, fnName(fn)+"#policy<-ImportSecSessionInfo", "the policy is ImportSecSessionInfo(session_info)", "the registered policy is not built by ImportSecSessionInfo", e.Pos())
			if pc != nil {
				src := pc.Call.Args[0]
				if fn == a.mint {
					// the same text that is embedded in the claim id
					emb := false
					for _, sp := range c16Sprintfs(fn) {
						for _, va := range c07VarArgs(fn, sp.Call.Args[1]) {
							if va != nil && c06SameValue(fn, va, src) {
								emb = true
							}
						}
					}
					c.Check(emb && c06CallOf(src, a.export.Object()) != nil, rule, fnName(fn)+"#policy-text=embedded-text", "the policy is re-imported from the exported text that is embedded in the claim id",
						"the minted policy is not built from the same session_info text that is embedded in the claim id: the importer will build a different policy", pc.Pos())
				} else {
					sc := c06CallOf(src, a.secInfo.Object())
					good := sc != nil && c06CallOf(callArgs(sc)[0], a.parse.Object()) != nil
					c.Check(good, rule, fnName(fn)+"#policy-text=parsed-text", "the policy is imported from the claim id's session_info", "the imported policy is not built from ParseClaimIDStrict(claimID).SecSessionInfo()", pc.Pos())
				}
			}
			// expiry
			ec := c06CallOf(args[4], a.claimExp.Object())
			c.Check(ec != nil && c06SameValue(fn, ec.Call.Args[0], args[3]), rule, fnName(fn)+"#expiry<-claimExpiration(policy)", "expiry is claimExpiration(policy, …)", "the entry's expiry is not claimExpiration(policy, …): the two ends expire the session at different times", e.Pos())
		}
		l, isC := constInt(args[5])
		c.Check(isC && l == 0, rule, fnName(fn)+"#lease=0", "claim sessions have no lease", "the claim session is registered with a lease on this side", e.Pos())
		// Sid attribute == entry id
		sid := ""
		for _, s := range c06AdSets(fn) {
			if s.Name == "Sid" && c06SameValue(fn, s.Ad, args[3]) {
				sid = c07Prov(fn, s.Val)
			}
		}
		c.Check(sid != "" && sid == c07Prov(fn, args[0]), rule, fnName(fn)+"#Sid=entry-id", "the Sid attribute is the id the entry is stored under", "the Sid attribute and the id the entry is stored under differ: "+sid+" vs "+c07Prov(fn, args[0]), e.Pos())
		// SetInherited(true), Store, mapClaimCommands
		inh, st, mp := false, false, false
		for _, cs := range callsIn(fn, a.setInherited.Object()) {
			v, isB := constBool(callArgs(cs)[1])
			if callArgs(cs)[0] == ssa.Value(e) && isB && v {
				inh = true
			}
		}
		for _, cs := range callsIn(fn, a.store.Object()) {
			if callArgs(cs)[1] == ssa.Value(e) && len(fn.Params) > 0 && callArgs(cs)[0] == ssa.Value(fn.Params[0]) {
				st = true
			}
		}
		for _, cs := range callsIn(fn, a.mapCmds.Object()) {
			ma := callArgs(cs)
			if len(ma) == 4 && ma[0] == ssa.Value(fn.Params[0]) && c06SameValue(fn, ma[1], args[3]) && c07Prov(fn, ma[2]) == c07Prov(fn, args[0]) {
				mp = true
			}
		}
		c.Check(inh, rule, fnName(fn)+"#SetInherited(true)", "the entry is marked inherited (never persisted)", "the entry is not marked SetInherited(true) on this side", e.Pos())
		c.Check(st, rule, fnName(fn)+"#cache.Store(entry)", "the entry is stored in the caller's cache", "the entry is not stored in the cache passed by the caller", e.Pos())
		c.Check(mp, rule, fnName(fn)+"#mapClaimCommands(cache,policy,id)", "commands are mapped through mapClaimCommands", "commands are not mapped through mapClaimCommands(cache, policy, id, …) on this side", e.Pos())
	}
	// attribute sets
	need := []string{"SecUseSession", "Sid", "Enact", "NegotiatedSession", "AuthMethods", "User", "Authenticated", "CryptoMethods"}
	dyn := map[string]bool{"Sid": true, "User": true, "CryptoMethods": true}
	m, i, f := regs[a.mint].sets, regs[a.imp].sets, regs[a.impFT].sets
	names := func(x map[string]string) string {
		var l []string
		for k := range x {
			l = append(l, k)
		}
		sort.Strings(l)
		return strings.Join(l, ",")
	}
	c.Check(names(m) == names(i), rule, "policy-attributes:Mint=Import", "both ends set {"+names(m)+"}", "MintClaimSession sets {"+names(m)+"} but ImportClaimSession sets {"+names(i)+"}", a.mint.Pos())
	for _, n := range need {
		for k, fn := range []*ssa.Function{a.mint, a.imp, a.impFT} {
			set := []map[string]string{m, i, f}[k]
			_, has := set[n]
			c.Check(has, rule, fnName(fn)+"#sets:"+n, "sets "+n, "does not set "+n+", which the other end sets", fn.Pos())
		}
		if dyn[n] {
			continue
		}
		c.Check(m[n] == i[n] && i[n] == f[n] && strings.HasPrefix(m[n], "{const:"), rule, "policy-attribute-value:"+n, n+" = "+m[n]+" on all three",
			n+" differs between the ends: mint "+m[n]+", import "+i[n]+", file-transfer "+f[n], a.mint.Pos())
	}
}

func c16Sprintfs(fn *ssa.Function) []*ssa.Call {
	var out []*ssa.Call
	allInstrs(fn, func(_ *ssa.BasicBlock, _ int, in ssa.Instruction) {
		if cl, ok := in.(*ssa.Call); ok {
			if o := calleeObj(cl); o != nil && o.Pkg() != nil && o.Pkg().Path() == "fmt" && o.Name() == "Sprintf" {
				out = append(out, cl)
			}
		}
	})
	return out
}

// c16StringsCalls lists calls to strings.<name> in fn with their constant string arguments.
type c16StrCall struct {
	Name   string
	Consts []string
	Call   *ssa.Call
}

func c16StringsCalls(fn *ssa.Function) []c16StrCall {
	var out []c16StrCall
	for _, f := range withClosures(fn) {
		allInstrs(f, func(_ *ssa.BasicBlock, _ int, in ssa.Instruction) {
			cl, ok := in.(*ssa.Call)
			if !ok {
				return
			}
			o := calleeObj(cl)
			if o == nil || o.Pkg() == nil || o.Pkg().Path() != "strings" {
				return
			}
			sc := c16StrCall{Name: o.Name(), Call: cl}
			for _, a := range cl.Call.Args {
				if s, ok := constString(a); ok {
					sc.Consts = append(sc.Consts, s)
				}
			}
			out = append(out, sc)
		})
	}
	return out
}

// C16-R2: export and import tables are inverse.
func c16r2(c *Ctx) {
	const rule = "C16-R2"
	c.Doc(rule, "every attribute name ExportSecSessionInfo emits is consumed by ImportSecSessionInfo; the ','->'.' rewrite of CryptoMethodsList is undone by '.'->','; RemoteVersion->ShortVersion is undone by ShortVersion->RemoteVersion; the delimiters the renderer writes ([ = ; ] and the quote) are the ones ImportSessionInfoAttributes splits on")
	a := c16Resolve(c, rule)
	if a == nil {
		return
	}
	emitted := map[string]bool{}
	undec := false
	allInstrs(a.export, func(_ *ssa.BasicBlock, _ int, in ssa.Instruction) {
		if mu, ok := in.(*ssa.MapUpdate); ok {
			ks, ok := c16ConstStrings(a.export, mu.Key)
			if !ok {
				undec = true
				return
			}
			for _, k := range ks {
				emitted[k] = true
			}
		}
	})
	if undec {
		c.Undecided(rule, fnName(a.export)+"#emitted-names", "an emitted attribute name is not a constant", a.export.Pos())
	}
	consumed := map[string]bool{}
	for _, f := range withClosures(a.importInfo) {
		allInstrs(f, func(_ *ssa.BasicBlock, _ int, in ssa.Instruction) {
			switch x := in.(type) {
			case *ssa.Lookup:
				if s, ok := constString(x.Index); ok {
					consumed[s] = true
				}
			case *ssa.Call:
				if g := calleeFn(x); g != nil && g.Parent() == a.importInfo {
					for _, arg := range x.Call.Args {
						if s, ok := constString(arg); ok {
							consumed[s] = true
						}
					}
				}
			}
		})
	}
	var en []string
	for k := range emitted {
		en = append(en, k)
	}
	sort.Strings(en)
	for _, k := range en {
		c.Check(consumed[k], rule, "export->import:"+k, "exported attribute "+k+" is consumed by ImportSecSessionInfo", "ExportSecSessionInfo emits "+k+", which ImportSecSessionInfo never reads: that part of the policy is lost on import", a.export.Pos())
	}
	c.MinCount(rule, "exported attribute names", len(en), 7)
	// paired rewrites
	hasRepl := func(fn *ssa.Function, from, to string) bool {
		for _, sc := range c16StringsCalls(fn) {
			if sc.Name == "ReplaceAll" && len(sc.Consts) == 2 && sc.Consts[0] == from && sc.Consts[1] == to {
				return true
			}
		}
		return false
	}
	c.Check(hasRepl(a.export, ",", ".") && hasRepl(a.importInfo, ".", ","), rule, "rewrite:CryptoMethodsList", "',' -> '.' on export is undone by '.' -> ',' on import", "the CryptoMethodsList delimiter rewrite is not mirrored between export and import", a.export.Pos())
	readsAttr := func(fn *ssa.Function, name string) bool {
		found := false
		allInstrs(fn, func(_ *ssa.BasicBlock, _ int, in ssa.Instruction) {
			if ex, ok := in.(*ssa.Extract); ok {
				if _, _, n, _, ok := c06AttrLookup(ex); ok && n == name {
					found = true
				}
			}
		})
		return found
	}
	setsAttr := func(fn *ssa.Function, name string) bool {
		for _, s := range c06AdSets(fn) {
			if s.Name == name {
				return true
			}
		}
		return false
	}
	c.Check(readsAttr(a.export, "RemoteVersion") && emitted["ShortVersion"] && consumed["ShortVersion"] && setsAttr(a.importInfo, "RemoteVersion"), rule, "rewrite:RemoteVersion<->ShortVersion",
		"RemoteVersion is exported as ShortVersion and imported back as RemoteVersion", "the RemoteVersion/ShortVersion mapping is not mirrored between export and import", a.export.Pos())
	// delimiters
	written := map[string]bool{}
	allInstrs(a.export, func(_ *ssa.BasicBlock, _ int, in ssa.Instruction) {
		if cl, ok := in.(*ssa.Call); ok {
			if o := calleeObj(cl); o != nil && o.Name() == "WriteByte" && o.Pkg() != nil && o.Pkg().Path() == "strings" {
				if b, ok := constInt(cl.Call.Args[1]); ok {
					written[string(rune(b))] = true
				}
			}
		}
	})
	allInstrs(a.quote, func(_ *ssa.BasicBlock, _ int, in ssa.Instruction) {
		if bo, ok := in.(*ssa.BinOp); ok && bo.Op == token.ADD {
			for _, v := range []ssa.Value{bo.X, bo.Y} {
				if s, ok := constString(v); ok {
					written[s] = true
				}
			}
		}
	})
	split := map[string]bool{}
	for _, sc := range c16StringsCalls(a.importAttrs) {
		for _, s := range sc.Consts {
			split[s] = true
		}
	}
	var wl []string
	for k := range written {
		wl = append(wl, k)
	}
	sort.Strings(wl)
	for _, k := range wl {
		c.Check(split[k], rule, fmt.Sprintf("delimiter:%q", k), fmt.Sprintf("the parser splits on %q", k), fmt.Sprintf("the renderer writes %q but ImportSessionInfoAttributes never splits on / strips it", k), a.export.Pos())
	}
	c.MinCount(rule, "delimiters written by the renderer", len(wl), 5)
}

// C16-R3: grammar invariants.
func c16r3(c *Ctx) {
	const rule = "C16-R3"
	c.Doc(rule, "the claim id is Sprintf(\"%s#%s%s\", sessionID, ExportSecSessionInfo(...), randomHexKey(...)); ExportSecSessionInfo returns its text only past the 'contains no #' guard; randomHexKey returns hex.EncodeToString output; ParseClaimIDStrict splits with strings.LastIndex on '#' and ']' only")
	a := c16Resolve(c, rule)
	if a == nil {
		return
	}
	// assembly
	n := 0
	for _, sp := range c16Sprintfs(a.mint) {
		f, _ := constString(sp.Call.Args[0])
		va := c07VarArgs(a.mint, sp.Call.Args[1])
		if len(va) != 3 {
			continue
		}
		if va[2] == nil || c06CallOf(va[2], a.randomHex.Object()) == nil {
			continue
		}
		n++
		c.Check(f == "%s#%s%s", rule, fnName(a.mint)+"#claim-id-format", "the claim id is id '#' info secret", fmt.Sprintf("the claim id is assembled with format %q, not \"%%s#%%s%%s\": the last-'#'/last-']' split no longer recovers the three parts", f), sp.Pos())
		c.Check(va[1] != nil && c06CallOf(va[1], a.export.Object()) != nil, rule, fnName(a.mint)+"#claim-id-info", "the middle part is ExportSecSessionInfo's text", "the middle part of the claim id is not ExportSecSessionInfo's result", sp.Pos())
		// the id part is what the session is registered under
		if r := c.c16Registration(a, a.mint); r != nil {
			c.Check(va[0] != nil && c07Prov(a.mint, va[0]) == c07Prov(a.mint, r.entry.Call.Args[0]), rule, fnName(a.mint)+"#claim-id-sid", "the leading part is the registered session id", "the leading part of the claim id is not the id the session is registered under", sp.Pos())
		}
	}
	c.MinCount(rule, "claim id assembly sites", n, 1)
	// '#' guard in ExportSecSessionInfo
	cuts := newCuts()
	ng := 0
	for _, sc := range c16StringsCalls(a.export) {
		if sc.Name == "Contains" && len(sc.Consts) == 1 && sc.Consts[0] == "#" {
			ng++
			_, fe := boolEdges(a.export, sc.Call)
			// the guarded text must be what is returned
			for _, t := range c.successTargets(a.export) {
				c.Check(c06SameValue(a.export, sc.Call.Call.Args[0], t.Ret.Results[0]), rule, fnName(a.export)+"#guarded-text=returned-text", "the '#' guard inspects the returned text", "the '#' guard inspects a different value from the one returned", sc.Call.Pos())
			}
			cuts.AddEdges(fe...)
		}
	}
	c.mustPassReturns(rule, a.export, c.successTargets(a.export), cuts, "the false edge of strings.Contains(info, \"#\")")
	c.MinCount(rule, "'#' guards in ExportSecSessionInfo", ng, 1)
	// randomHexKey
	for _, t := range c.successTargets(a.randomHex) {
		good := c06AllOrigins(a.randomHex, t.Ret.Results[0], func(o ssa.Value) bool {
			cl, ok := o.(*ssa.Call)
			if !ok {
				return false
			}
			ob := calleeObj(cl)
			return ob != nil && ob.Pkg() != nil && ob.Pkg().Path() == "encoding/hex" && ob.Name() == "EncodeToString"
		})
		c.Check(good, rule, fnName(a.randomHex)+"#hex", "the secret is hex text (no '#', '[' or ']')", "the secret is not hex.EncodeToString output: it may contain '#' or ']' and break the split", t.Ret.Pos())
	}
	// parser
	var idx []string
	for _, sc := range c16StringsCalls(a.parse) {
		switch sc.Name {
		case "LastIndex":
			idx = append(idx, "LastIndex:"+strings.Join(sc.Consts, ""))
		case "Index", "IndexByte", "SplitN", "Split", "Cut", "IndexAny", "SplitAfter", "SplitAfterN", "Fields":
			c.Violate(rule, fnName(a.parse)+"#split:"+sc.Name, "ParseClaimIDStrict splits with strings."+sc.Name+": a session id containing '#' (every real startd claim) is cut at the wrong place", sc.Call.Pos())
		}
	}
	sort.Strings(idx)
	c.Check(strings.Join(idx, ",") == "LastIndex:#,LastIndex:]", rule, fnName(a.parse)+"#split:last-#-and-last-]", "splits on the last '#' and the last ']'", "ParseClaimIDStrict does not split on exactly the last '#' and the last ']': found "+strings.Join(idx, ","), a.parse.Pos())
}

// C16-R4: the secret never reaches the public form or a log.
func c16r4(c *Ctx) {
	const rule = "C16-R4"
	c.Doc(rule, "must-not-flow: no value derived from the claim secret (randomHexKey result, ClaimID.SecSessionKey()/Raw() results, reads of ClaimID.sessionKey/raw and MintedClaim.claimID, the claimID parameter of the importers) reaches MintedClaim.publicClaimID, the result of a PublicClaimID method, or an argument of slog/log/fmt.Print* in any function the value flows through")
	a := c16Resolve(c, rule)
	fPub := c.needField(rule, "security", "MintedClaim", "publicClaimID")
	fCID := c.needField(rule, "security", "MintedClaim", "claimID")
	fKey := c.needField(rule, "security", "ClaimID", "sessionKey")
	fRaw := c.needField(rule, "security", "ClaimID", "raw")
	if a == nil || fPub == nil || fCID == nil || fKey == nil || fRaw == nil {
		return
	}
	secretField := func(f *types.Var) bool { return f == fCID || f == fKey || f == fRaw }
	// accessors that hand out non-secret parts must not read the secret fields (then their results are clean)
	clean := map[*ssa.Function]bool{}
	for _, g := range []*ssa.Function{a.secID, a.secInfo, a.pubParsed, a.pubMinted} {
		reads := false
		allInstrs(g, func(_ *ssa.BasicBlock, _ int, in ssa.Instruction) {
			if fa, ok := in.(*ssa.FieldAddr); ok && secretField(fieldOfAddr(fa)) {
				reads = true
			}
			if fl, ok := in.(*ssa.Field); ok && secretField(fl.X.Type().Underlying().(*types.Struct).Field(fl.Field)) {
				reads = true
			}
		})
		c.Check(!reads, rule, fnName(g)+"#reads-no-secret-field", "does not touch sessionKey/raw/claimID", "reads a secret field (sessionKey/raw/claimID): its result, which callers log, carries the secret", g.Pos())
		if !reads {
			clean[g] = true
		}
	}
	t := &c16Taint{c: c, visited: map[string]bool{}, Fns: map[*ssa.Function]bool{}, cleanFns: clean}
	t.isSink = func(fn *ssa.Function, in ssa.Instruction, tainted func(ssa.Value) bool) string {
		if s := c16LogSink(in, tainted); s != "" {
			return s
		}
		if st, ok := in.(*ssa.Store); ok {
			if fa, ok := st.Addr.(*ssa.FieldAddr); ok && fieldOfAddr(fa) == fPub && tainted(st.Val) {
				return "MintedClaim.publicClaimID"
			}
		}
		if ret, ok := in.(*ssa.Return); ok && (fn == a.pubParsed || fn == a.pubMinted) {
			for _, r := range ret.Results {
				if tainted(r) {
					return "the result of " + fnName(fn)
				}
			}
		}
		return ""
	}
	// seeds per function
	nSeeds := 0
	secPkg := c.PkgTypes("security")
	for _, fn := range c.ModFns {
		if fnPkg(fn) != secPkg {
			continue
		}
		var seeds []ssa.Value
		allInstrs(fn, func(_ *ssa.BasicBlock, _ int, in ssa.Instruction) {
			switch x := in.(type) {
			case *ssa.Call:
				g := calleeFn(x)
				if g == a.randomHex || g == a.secKey || g == a.raw || g == a.claimIDAcc {
					seeds = append(seeds, x)
				}
			case *ssa.FieldAddr:
				if secretField(fieldOfAddr(x)) {
					// reads only: a FieldAddr that is loaded from
					for _, r := range *x.Referrers() {
						if u, ok := r.(*ssa.UnOp); ok && u.Op == token.MUL {
							seeds = append(seeds, u)
						}
					}
				}
			}
		})
		if fn == a.imp || fn == a.impFT {
			if len(fn.Params) > 1 {
				seeds = append(seeds, fn.Params[1])
			}
		}
		if len(seeds) == 0 {
			continue
		}
		nSeeds += len(seeds)
		t.run(fn, seeds, 3)
	}
	seen := map[string]bool{}
	for _, h := range t.Hits {
		k := fnName(topFn(h.Fn)) + "->" + h.What
		if seen[k] {
			continue
		}
		seen[k] = true
		c.Violate(rule, "secret-flow:"+k, "a value derived from the claim secret reaches "+h.What+" in "+fnName(h.Fn), h.At.Pos())
	}
	c.Ok(rule, "secret-flow#summary", fmt.Sprintf("%d seed values followed through %d functions (%d tainted values); %d sink hits", nSeeds, len(t.Fns), t.Values, len(t.Hits)), token.NoPos)
	c.MinCount(rule, "secret seed values", nSeeds, 8)
	c.MinCount(rule, "functions the secret flows through", len(t.Fns), 6)
}

// C16-R5: the only varying input of the key derivation is the secret.
func c16r5(c *Ctx) {
	const rule = "C16-R5"
	c.Doc(rule, "deriveSessionKey feeds HKDF with its sessionKey parameter as the only non-constant input and returns the buffer HKDF filled; MintClaimSession passes the randomHexKey result, ImportClaimSession passes ClaimID.SecSessionKey(): a different secret yields a different key, which resumption then requires (C06-R1)")
	a := c16Resolve(c, rule)
	if a == nil {
		return
	}
	call, _, _, ok := c16HKDF(a.deriveKey)
	if call == nil || !ok {
		c.Undecided(rule, fnName(a.deriveKey)+"#hkdf", "no hkdf.New call with constant salt/info found", a.deriveKey.Pos())
		return
	}
	dk := a.deriveKey
	c.Check(mustDepend(dk, call.Call.Args[1], func(v ssa.Value) bool { return v == ssa.Value(dk.Params[0]) }), rule, fnName(dk)+"#hkdf-secret<-param", "HKDF's input key material is the sessionKey parameter", "HKDF's input key material does not depend on the sessionKey parameter", call.Pos())
	for _, t := range c.successTargets(dk) {
		good := c06MustDepend(dk, t.Ret.Results[0], func(v ssa.Value) bool { return v == ssa.Value(call) })
		c.Check(good, rule, fmt.Sprintf("%s#return%d<-hkdf", fnName(dk), retOrdinal(dk, t.Ret)), "the returned key is HKDF output", "the returned key does not depend on the HKDF reader", t.Ret.Pos())
	}
	n := 0
	for k, fn := range []*ssa.Function{a.mint, a.imp} {
		src := []*ssa.Function{a.randomHex, a.secKey}[k]
		for _, cs := range callsIn(fn, a.deriveClaim.Object()) {
			n++
			good := c06AllOrigins(fn, callArgs(cs)[1], func(o ssa.Value) bool { return c06CallOf(o, src.Object()) != nil })
			c.Check(good, rule, fnName(fn)+"#deriveClaimKeyInfo:secret<-"+src.Name(), "the derivation input is "+src.Name()+"()", "the secret handed to deriveClaimKeyInfo is not "+src.Name()+"()", cs.Pos())
		}
	}
	c.MinCount(rule, "deriveClaimKeyInfo call sites", n, 2)
	// the secret embedded in the claim id is the one the key is derived from (mint)
	for _, sp := range c16Sprintfs(a.mint) {
		va := c07VarArgs(a.mint, sp.Call.Args[1])
		if len(va) == 3 && va[2] != nil && c06CallOf(va[2], a.randomHex.Object()) != nil {
			for _, cs := range callsIn(a.mint, a.deriveClaim.Object()) {
				c.Check(c06SameValue(a.mint, va[2], callArgs(cs)[1]), rule, fnName(a.mint)+"#embedded-secret=derivation-secret", "the secret embedded in the claim id is the one the key is derived from", "the claim id embeds a different secret from the one the local key is derived from", sp.Pos())
			}
		}
	}
}
