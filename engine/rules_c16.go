package main

import (
	"fmt"
	"go/token"
	"go/types"
	"sort"
	"strings"

	"golang.org/x/tools/go/ssa"
)

func init() {
	register("C16", c06Timed("C16-R1", c16r1), c06Timed("C16-R2", c16r2), c06Timed("C16-R3", c16r3), c06Timed("C16-R4", c16r4), c06Timed("C16-R5", c16r5))
}

type c16A struct {
	mint, imp, impFT                  *ssa.Function
	export, importInfo, importAttrs   *ssa.Function
	deriveClaim, deriveKey, deriveAES *ssa.Function
	parse, randomHex                  *ssa.Function
	claimExp, mapCmds, newEntry       *ssa.Function
	setInherited, store               *ssa.Function
	secID, secInfo, secKey, raw       *ssa.Function
	pubParsed, pubMinted, claimIDAcc  *ssa.Function
	quote                             *ssa.Function
}

func c16Resolve(c *Ctx, rule string) *c16A {
	a := &c16A{}
	ok := true
	fn := func(dst **ssa.Function, name string) {
		*dst = c.needFn(rule, "security", name)
		if *dst == nil {
			ok = false
		}
	}
	fn(&a.mint, "MintClaimSession")
	fn(&a.imp, "ImportClaimSession")
	fn(&a.impFT, "ImportFileTransferSession")
	fn(&a.export, "ExportSecSessionInfo")
	fn(&a.importInfo, "ImportSecSessionInfo")
	fn(&a.importAttrs, "ImportSessionInfoAttributes")
	fn(&a.deriveClaim, "deriveClaimKeyInfo")
	fn(&a.deriveKey, "deriveSessionKey")
	fn(&a.deriveAES, "(*Authenticator).deriveAESKey")
	fn(&a.parse, "ParseClaimIDStrict")
	fn(&a.randomHex, "randomHexKey")
	fn(&a.claimExp, "claimExpiration")
	fn(&a.mapCmds, "mapClaimCommands")
	fn(&a.newEntry, "NewSessionEntry")
	fn(&a.setInherited, "(*SessionEntry).SetInherited")
	fn(&a.store, "(*SessionCache).Store")
	fn(&a.secID, "(*ClaimID).SecSessionID")
	fn(&a.secInfo, "(*ClaimID).SecSessionInfo")
	fn(&a.secKey, "(*ClaimID).SecSessionKey")
	fn(&a.raw, "(*ClaimID).Raw")
	fn(&a.pubParsed, "(*ClaimID).PublicClaimID")
	fn(&a.pubMinted, "(*MintedClaim).PublicClaimID")
	fn(&a.claimIDAcc, "(*MintedClaim).ClaimID")
	a.quote = c.LookupFn("security", "quote") // optional: the renderer may write the quotes itself
	if !ok {
		return nil
	}
	return a
}

// stopFns: the anchors a view of the claim code never looks into (quote is deliberately not one: it is part of the renderer).
func (a *c16A) stopFns() []*ssa.Function {
	return []*ssa.Function{a.export, a.importInfo, a.importAttrs, a.deriveClaim, a.deriveKey, a.deriveAES,
		a.parse, a.randomHex, a.claimExp, a.mapCmds, a.newEntry, a.setInherited, a.store, a.secID, a.secInfo, a.secKey, a.raw,
		a.pubParsed, a.pubMinted, a.claimIDAcc}
}

func (c *Ctx) c16View(a *c16A, root *ssa.Function) *c06View {
	return c.c06NewView(root, a.stopFns()...)
}

// c16ConstStrings resolves the string constants v may be: a constant, or an element of a
// compiler-built literal array (range over []string{...}).
func c16ConstStrings(fn *ssa.Function, v ssa.Value) ([]string, bool) {
	if s, ok := constString(v); ok {
		return []string{s}, true
	}
	var out []string
	for _, o := range origins(fn, v) {
		ss, ok := c16LeafStrings(o)
		if !ok {
			return nil, false
		}
		out = append(out, ss...)
	}
	return out, len(out) > 0
}

// c16LeafStrings: leaf o is a string constant or a load of an element of a literal array of string constants.
func c16LeafStrings(o ssa.Value) ([]string, bool) {
	if s, ok := constString(o); ok {
		return []string{s}, true
	}
	ld, ok := o.(*ssa.UnOp)
	if !ok || ld.Op != token.MUL {
		return nil, false
	}
	ia, ok := ld.X.(*ssa.IndexAddr)
	if !ok {
		return nil, false
	}
	root, ok := memRoot(ia).(*ssa.Alloc)
	if !ok {
		return nil, false
	}
	var out []string
	for _, r := range *root.Referrers() {
		ea, ok := r.(*ssa.IndexAddr)
		if !ok {
			continue
		}
		for _, u := range *ea.Referrers() {
			if st, ok := u.(*ssa.Store); ok && st.Addr == ea {
				s, isC := constString(st.Val)
				if !isC {
					return nil, false
				}
				out = append(out, s)
			}
		}
	}
	return out, len(out) > 0
}

// c16ConstStringsX is c16ConstStrings for a value of a view (a helper's parameter is what its call sites pass).
func c16ConstStringsX(vw *c06View, v c06FV) ([]string, bool) {
	var out []string
	for _, o := range vw.Origins(v) {
		ss, ok := c16LeafStrings(o.V)
		if !ok {
			return nil, false
		}
		out = append(out, ss...)
	}
	return out, len(out) > 0
}

// c16HKDF extracts the (salt, info) constants of the hkdf.New call made by fn or a helper of it.
func (c *Ctx) c16HKDF(a *c16A, fn *ssa.Function) (site c06Site, salt, info string, ok bool) {
	vw := c.c16View(a, fn)
	vw.EachInstr(func(fr *c06Frame, in ssa.Instruction) {
		cl, isC := in.(*ssa.Call)
		if !isC || !c16IsHKDFNew(cl) {
			return
		}
		s, ok1 := c16BytesConstX(vw, c06FV{cl.Call.Args[2], fr})
		i, ok2 := c16BytesConstX(vw, c06FV{cl.Call.Args[3], fr})
		site, salt, info, ok = c06Site{cl, fr}, s, i, ok1 && ok2
	})
	return
}

func c16IsHKDFNew(cl *ssa.Call) bool {
	o := calleeObj(cl)
	return o != nil && o.Pkg() != nil && o.Pkg().Path() == "golang.org/x/crypto/hkdf" && o.Name() == "New" && len(cl.Call.Args) == 4
}

// c16HasHKDF: g itself calls hkdf.New.
func c16HasHKDF(g *ssa.Function) bool {
	found := false
	allInstrs(g, func(_ *ssa.BasicBlock, _ int, in ssa.Instruction) {
		if cl, ok := in.(*ssa.Call); ok && c16IsHKDFNew(cl) {
			found = true
		}
	})
	return found
}

func c16BytesConstX(vw *c06View, v c06FV) (string, bool) {
	for _, o := range vw.Origins(v) {
		if s, ok := constString(o.V); ok {
			return s, true
		}
	}
	return constString(v.V)
}

// c16Registration abstracts how fn (or a helper it hands the parts to) registers the claim session.
type c16Reg struct {
	vw    *c06View
	sets  map[string]string // attribute -> provenance of the value Set on the registered policy
	entry c06Site           // the NewSessionEntry call
}

func (r *c16Reg) arg(i int) c06FV { return r.entry.Arg(i) }

func (c *Ctx) c16Registration(a *c16A, fn *ssa.Function) *c16Reg {
	vw := c.c16View(a, fn)
	r := &c16Reg{vw: vw, sets: map[string]string{}}
	calls := vw.Calls(a.newEntry.Object())
	if len(calls) != 1 || calls[0].NArgs() != 7 {
		return nil
	}
	r.entry = calls[0]
	policy := r.arg(3)
	for _, s := range vw.Sets() {
		if s.Name == "" || !vw.Same(s.Ad, policy) {
			continue
		}
		r.sets[s.Name] = vw.Prov(s.Val)
	}
	return r
}

// c16XSprintf is a fmt.Sprintf call of a view with its boxed arguments.
type c16XSprintf struct {
	Site   c06Site
	Format string
	Args   []c06FV // V == nil when an argument could not be recovered
}

func c16SprintfsX(vw *c06View) []c16XSprintf {
	var out []c16XSprintf
	vw.EachInstr(func(fr *c06Frame, in ssa.Instruction) {
		cl, ok := in.(*ssa.Call)
		if !ok {
			return
		}
		o := calleeObj(cl)
		if o == nil || o.Pkg() == nil || o.Pkg().Path() != "fmt" || o.Name() != "Sprintf" || len(cl.Call.Args) != 2 {
			return
		}
		sp := c16XSprintf{Site: c06Site{cl, fr}}
		sp.Format, _ = vw.ConstString(c06FV{cl.Call.Args[0], fr})
		for _, va := range c07VarArgs(fr.Fn, cl.Call.Args[1]) {
			sp.Args = append(sp.Args, c06FV{va, fr})
		}
		out = append(out, sp)
	})
	return out
}

// C16-R1: both ends register the same session.
func c16r1(c *Ctx) {
	const rule = "C16-R1"
	c.Doc(rule, "MintClaimSession and ImportClaimSession (ImportFileTransferSession for the common part) register symmetrically, directly or through shared helpers: key from deriveClaimKeyInfo -> deriveSessionKey(secret, 32) with HKDF salt/info constants equal to deriveAESKey's; policy from ImportSecSessionInfo of the very session_info embedded in / parsed from the claim id; the same attribute constants Set afterwards with equal constant values; entry id = the Sid attribute; expiry through claimExpiration(policy, …), lease 0, SetInherited(true), cache.Store, mapClaimCommands")
	a := c16Resolve(c, rule)
	if a == nil {
		return
	}
	// key derivation chain
	_, salt, info, ok := c.c16HKDF(a, a.deriveKey)
	_, salt2, info2, ok2 := c.c16HKDF(a, a.deriveAES)
	c.Check(ok && ok2 && salt == salt2 && info == info2 && salt != "" && info != "", rule, "hkdf-constants:deriveSessionKey=deriveAESKey",
		fmt.Sprintf("both derive with salt %q info %q", salt, info), fmt.Sprintf("HKDF constants differ or are not constant: deriveSessionKey(%q,%q) vs deriveAESKey(%q,%q)", salt, info, salt2, info2), a.deriveKey.Pos())
	nDerive := 0
	vdc := c.c16View(a, a.deriveClaim)
	for _, cs := range vdc.Calls(a.deriveKey.Object()) {
		nDerive++
		l, isC := vdc.ConstInt(cs.Arg(1))
		c.Check(len(a.deriveClaim.Params) == 2 && vdc.IsRootParam(cs.Arg(0), 1) && isC && l == 32, rule, fnName(a.deriveClaim)+"#deriveSessionKey(secret,32)",
			"the claim key is deriveSessionKey(secret, 32)", "deriveClaimKeyInfo does not derive from its secret parameter with length 32", cs.Pos())
	}
	vft := c.c16View(a, a.impFT)
	for _, cs := range vft.Calls(a.deriveKey.Object()) {
		nDerive++
		l, isC := vft.ConstInt(cs.Arg(1))
		_, fromKey := vft.CallOf(cs.Arg(0), a.secKey.Object())
		c.Check(fromKey && isC && l == 32, rule, fnName(a.impFT)+"#deriveSessionKey(secret,32)", "the file-transfer key is deriveSessionKey(claim secret, 32)", "ImportFileTransferSession does not derive from the claim's secret with length 32", cs.Pos())
	}
	c.MinCount(rule, "deriveSessionKey call sites in the claim code", nDerive, 1)
	// other derivation helpers must not appear in the three functions (or the helpers they call)
	for _, fn := range []*ssa.Function{a.mint, a.imp, a.impFT} {
		vw := c.c16View(a, fn)
		for _, fr := range vw.Frames() {
			if fr != vw.Root && c16HasHKDF(fr.Fn) {
				c.Violate(rule, fnName(fn)+"#foreign-kdf:"+fnName(fr.Fn), fnName(fn)+" derives key material through "+fnName(fr.Fn)+" instead of deriveClaimKeyInfo/deriveSessionKey: the two ends may derive different keys", fr.Call.Pos())
			}
		}
		vw.EachInstr(func(fr *c06Frame, in ssa.Instruction) {
			cl, ok := in.(ssa.CallInstruction)
			if !ok {
				return
			}
			g := calleeFn(cl)
			if g == nil || g == a.deriveClaim || g == a.deriveKey || g.Blocks == nil || fnPkg(g) != fnPkg(fn) || fr.kids[cl] != nil {
				return
			}
			if site, _, _, _ := c.c16HKDF(a, g); site.Call != nil {
				c.Violate(rule, fnName(fn)+"#foreign-kdf:"+fnName(g), fnName(fn)+" derives key material through "+fnName(g)+" instead of deriveClaimKeyInfo/deriveSessionKey: the two ends may derive different keys", cl.Pos())
			}
		})
	}
	regs := map[*ssa.Function]*c16Reg{}
	for _, fn := range []*ssa.Function{a.mint, a.imp, a.impFT} {
		r := c.c16Registration(a, fn)
		if r == nil {
			c.Undecided(rule, fnName(fn)+"#NewSessionEntry", "expected exactly one NewSessionEntry call", fn.Pos())
			return
		}
		regs[fn] = r
		vw, e := r.vw, r.entry
		// id, addr, keyInfo, policy, expiration, lease, tag
		if fn != a.impFT {
			kc, ok := vw.CallOf(r.arg(2), a.deriveClaim.Object())
			good := ok && vw.Same(kc.Arg(0), r.arg(3))
			c.Check(good, rule, fnName(fn)+"#keyInfo<-deriveClaimKeyInfo(policy,secret)", "the entry's key is deriveClaimKeyInfo(policy, secret)", "the entry's key is not deriveClaimKeyInfo of the registered policy", e.Pos())
			// policy = ImportSecSessionInfo(x)
			pc, ok := vw.CallOf(r.arg(3), a.importInfo.Object())
			c.Check(ok, rule, fnName(fn)+"#policy<-ImportSecSessionInfo", "the policy is ImportSecSessionInfo(session_info)", "the registered policy is not built by ImportSecSessionInfo", e.Pos())
			if ok {
				src := pc.Arg(0)
				if fn == a.mint {
					// the same text that is embedded in the claim id
					emb := false
					for _, sp := range c16SprintfsX(vw) {
						for _, va := range sp.Args {
							if va.V != nil && vw.Same(va, src) {
								emb = true
							}
						}
					}
					_, fromExport := vw.CallOf(src, a.export.Object())
					c.Check(emb && fromExport, rule, fnName(fn)+"#policy-text=embedded-text", "the policy is re-imported from the exported text that is embedded in the claim id",
						"the minted policy is not built from the same session_info text that is embedded in the claim id: the importer will build a different policy", pc.Pos())
				} else {
					sc, ok := vw.CallOf(src, a.secInfo.Object())
					good := false
					if ok {
						_, good = vw.CallOf(sc.Arg(0), a.parse.Object())
					}
					c.Check(good, rule, fnName(fn)+"#policy-text=parsed-text", "the policy is imported from the claim id's session_info", "the imported policy is not built from ParseClaimIDStrict(claimID).SecSessionInfo()", pc.Pos())
				}
			}
			// expiry
			ec, ok := vw.CallOf(r.arg(4), a.claimExp.Object())
			c.Check(ok && vw.Same(ec.Arg(0), r.arg(3)), rule, fnName(fn)+"#expiry<-claimExpiration(policy)", "expiry is claimExpiration(policy, …)", "the entry's expiry is not claimExpiration(policy, …): the two ends expire the session at different times", e.Pos())
		}
		l, isC := vw.ConstInt(r.arg(5))
		c.Check(isC && l == 0, rule, fnName(fn)+"#lease=0", "claim sessions have no lease", "the claim session is registered with a lease on this side", e.Pos())
		// Sid attribute == entry id
		sid := r.sets["Sid"]
		c.Check(sid != "" && sid == vw.Prov(r.arg(0)), rule, fnName(fn)+"#Sid=entry-id", "the Sid attribute is the id the entry is stored under", "the Sid attribute and the id the entry is stored under differ: "+sid+" vs "+vw.Prov(r.arg(0)), e.Pos())
		// SetInherited(true), Store, mapClaimCommands
		entryV := c06FV{e.Call.Value(), e.F}
		inh, st, mp := false, false, false
		for _, cs := range vw.Calls(a.setInherited.Object()) {
			v, isB := vw.ConstBool(cs.Arg(1))
			if vw.Same(cs.Arg(0), entryV) && isB && v {
				inh = true
			}
		}
		for _, cs := range vw.Calls(a.store.Object()) {
			if vw.Same(cs.Arg(1), entryV) && vw.IsRootParam(cs.Arg(0), 0) {
				st = true
			}
		}
		for _, cs := range vw.Calls(a.mapCmds.Object()) {
			if cs.NArgs() == 4 && vw.IsRootParam(cs.Arg(0), 0) && vw.Same(cs.Arg(1), r.arg(3)) && vw.Prov(cs.Arg(2)) == vw.Prov(r.arg(0)) {
				mp = true
			}
		}
		c.Check(inh, rule, fnName(fn)+"#SetInherited(true)", "the entry is marked inherited (never persisted)", "the entry is not marked SetInherited(true) on this side", e.Pos())
		c.Check(st, rule, fnName(fn)+"#cache.Store(entry)", "the entry is stored in the caller's cache", "the entry is not stored in the cache passed by the caller", e.Pos())
		c.Check(mp, rule, fnName(fn)+"#mapClaimCommands(cache,policy,id)", "commands are mapped through mapClaimCommands", "commands are not mapped through mapClaimCommands(cache, policy, id, …) on this side", e.Pos())
	}
	// attribute sets
	need := []string{"SecUseSession", "Sid", "Enact", "NegotiatedSession", "AuthMethods", "User", "Authenticated", "CryptoMethods"}
	dyn := map[string]bool{"Sid": true, "User": true, "CryptoMethods": true}
	m, i, f := regs[a.mint].sets, regs[a.imp].sets, regs[a.impFT].sets
	names := func(x map[string]string) string {
		var l []string
		for k := range x {
			l = append(l, k)
		}
		sort.Strings(l)
		return strings.Join(l, ",")
	}
	c.Check(names(m) == names(i), rule, "policy-attributes:Mint=Import", "both ends set {"+names(m)+"}", "MintClaimSession sets {"+names(m)+"} but ImportClaimSession sets {"+names(i)+"}", a.mint.Pos())
	for _, n := range need {
		for k, fn := range []*ssa.Function{a.mint, a.imp, a.impFT} {
			set := []map[string]string{m, i, f}[k]
			_, has := set[n]
			c.Check(has, rule, fnName(fn)+"#sets:"+n, "sets "+n, "does not set "+n+", which the other end sets", fn.Pos())
		}
		if dyn[n] {
			continue
		}
		c.Check(m[n] == i[n] && i[n] == f[n] && strings.HasPrefix(m[n], "{const:"), rule, "policy-attribute-value:"+n, n+" = "+m[n]+" on all three",
			n+" differs between the ends: mint "+m[n]+", import "+i[n]+", file-transfer "+f[n], a.mint.Pos())
	}
}

// c16StrCall is a call to strings.<name> with its constant string arguments.
type c16StrCall struct {
	Name   string
	Consts []string
	Call   *ssa.Call
	F      *c06Frame
}

// c16StringsCalls lists the strings.* calls of every frame of the view (and of the closures nested in them).
func c16StringsCalls(vw *c06View) []c16StrCall {
	var out []c16StrCall
	seen := map[*ssa.Function]bool{}
	scan := func(f *ssa.Function, fr *c06Frame) {
		allInstrs(f, func(_ *ssa.BasicBlock, _ int, in ssa.Instruction) {
			cl, ok := in.(*ssa.Call)
			if !ok {
				return
			}
			o := calleeObj(cl)
			if o == nil || o.Pkg() == nil || o.Pkg().Path() != "strings" {
				return
			}
			sc := c16StrCall{Name: o.Name(), Call: cl, F: fr}
			for _, a := range cl.Call.Args {
				if fr != nil {
					if s, ok := vw.ConstString(c06FV{a, fr}); ok {
						sc.Consts = append(sc.Consts, s)
					}
				} else if s, ok := constString(a); ok {
					sc.Consts = append(sc.Consts, s)
				}
			}
			out = append(out, sc)
		})
	}
	for _, fr := range vw.Frames() {
		seen[fr.Fn] = true
	}
	for _, fr := range vw.Frames() {
		scan(fr.Fn, fr)
		for _, cf := range withClosures(fr.Fn) {
			if !seen[cf] {
				seen[cf] = true
				scan(cf, nil)
			}
		}
	}
	return out
}

// C16-R2: export and import tables are inverse.
func c16r2(c *Ctx) {
	const rule = "C16-R2"
	c.Doc(rule, "every attribute name ExportSecSessionInfo emits is consumed by ImportSecSessionInfo; the ','->'.' rewrite of CryptoMethodsList is undone by '.'->','; RemoteVersion->ShortVersion is undone by ShortVersion->RemoteVersion; the delimiters the renderer writes ([ = ; ] and the quote) are the ones ImportSessionInfoAttributes splits on (each side looked at together with the helpers it calls)")
	a := c16Resolve(c, rule)
	if a == nil {
		return
	}
	vex, vim, vat := c.c16View(a, a.export), c.c16View(a, a.importInfo), c.c16View(a, a.importAttrs)
	emitted := map[string]bool{}
	undec := false
	vex.EachInstr(func(fr *c06Frame, in ssa.Instruction) {
		if mu, ok := in.(*ssa.MapUpdate); ok {
			ks, ok := c16ConstStringsX(vex, c06FV{mu.Key, fr})
			if !ok {
				undec = true
				return
			}
			for _, k := range ks {
				emitted[k] = true
			}
		}
	})
	if undec {
		c.Undecided(rule, fnName(a.export)+"#emitted-names", "an emitted attribute name is not a constant", a.export.Pos())
	}
	consumed := map[string]bool{}
	vim.EachInstr(func(fr *c06Frame, in ssa.Instruction) {
		if lk, ok := in.(*ssa.Lookup); ok {
			if ks, ok := c16ConstStringsX(vim, c06FV{lk.Index, fr}); ok {
				for _, k := range ks {
					consumed[k] = true
				}
			}
		}
	})
	var en []string
	for k := range emitted {
		en = append(en, k)
	}
	sort.Strings(en)
	for _, k := range en {
		c.Check(consumed[k], rule, "export->import:"+k, "exported attribute "+k+" is consumed by ImportSecSessionInfo", "ExportSecSessionInfo emits "+k+", which ImportSecSessionInfo never reads: that part of the policy is lost on import", a.export.Pos())
	}
	c.MinCount(rule, "exported attribute names", len(en), 5)
	// paired rewrites
	hasRepl := func(vw *c06View, from, to string) bool {
		for _, sc := range c16StringsCalls(vw) {
			if sc.Name == "ReplaceAll" && len(sc.Consts) == 2 && sc.Consts[0] == from && sc.Consts[1] == to {
				return true
			}
			// strings.Replace(s, from, to, -1) is ReplaceAll
			if sc.Name == "Replace" && len(sc.Consts) == 2 && sc.Consts[0] == from && sc.Consts[1] == to && len(sc.Call.Call.Args) == 4 {
				if n, ok := constInt(sc.Call.Call.Args[3]); ok && n < 0 {
					return true
				}
			}
		}
		return false
	}
	c.Check(hasRepl(vex, ",", ".") && hasRepl(vim, ".", ","), rule, "rewrite:CryptoMethodsList", "',' -> '.' on export is undone by '.' -> ',' on import", "the CryptoMethodsList delimiter rewrite is not mirrored between export and import", a.export.Pos())
	readsAttr := func(vw *c06View, name string) bool {
		found := false
		vw.EachInstr(func(fr *c06Frame, in ssa.Instruction) {
			if ex, ok := in.(*ssa.Extract); ok {
				if _, _, n, _, ok := vw.AttrLookup(c06FV{ex, fr}); ok && n == name {
					found = true
				}
			}
		})
		return found
	}
	setsAttr := func(vw *c06View, name string) bool {
		for _, s := range vw.Sets() {
			if s.Name == name {
				return true
			}
		}
		return false
	}
	c.Check(readsAttr(vex, "RemoteVersion") && emitted["ShortVersion"] && consumed["ShortVersion"] && setsAttr(vim, "RemoteVersion"), rule, "rewrite:RemoteVersion<->ShortVersion",
		"RemoteVersion is exported as ShortVersion and imported back as RemoteVersion", "the RemoteVersion/ShortVersion mapping is not mirrored between export and import", a.export.Pos())
	// delimiters: bytes the renderer writes, and the constants it concatenates around values (the quote)
	written := map[string]bool{}
	concat := func(f *ssa.Function) {
		allInstrs(f, func(_ *ssa.BasicBlock, _ int, in ssa.Instruction) {
			if bo, ok := in.(*ssa.BinOp); ok && bo.Op == token.ADD {
				for _, v := range []ssa.Value{bo.X, bo.Y} {
					if s, ok := constString(v); ok {
						written[s] = true
					}
				}
			}
		})
	}
	for _, fr := range vex.Frames() {
		fr := fr
		allInstrs(fr.Fn, func(_ *ssa.BasicBlock, _ int, in ssa.Instruction) {
			if cl, ok := in.(*ssa.Call); ok {
				if o := calleeObj(cl); o != nil && o.Pkg() != nil && o.Pkg().Path() == "strings" && len(cl.Call.Args) == 2 {
					switch o.Name() {
					case "WriteByte", "WriteRune":
						if b, ok := vex.ConstInt(c06FV{cl.Call.Args[1], fr}); ok {
							written[string(rune(b))] = true
						}
					case "WriteString":
						// a constant piece of punctuation (names and values are not constants)
						if str, ok := vex.ConstString(c06FV{cl.Call.Args[1], fr}); ok && len(str) == 1 {
							written[str] = true
						}
					}
				}
			}
		})
		concat(fr.Fn)
	}
	if a.quote != nil {
		concat(a.quote)
	}
	split := map[string]bool{}
	for _, sc := range c16StringsCalls(vat) {
		for _, s := range sc.Consts {
			split[s] = true
		}
	}
	var wl []string
	for k := range written {
		wl = append(wl, k)
	}
	sort.Strings(wl)
	for _, k := range wl {
		c.Check(split[k], rule, fmt.Sprintf("delimiter:%q", k), fmt.Sprintf("the parser splits on %q", k), fmt.Sprintf("the renderer writes %q but ImportSessionInfoAttributes never splits on / strips it", k), a.export.Pos())
	}
	c.MinCount(rule, "delimiters written by the renderer", len(wl), 1)
}

// C16-R3: grammar invariants.
func c16r3(c *Ctx) {
	const rule = "C16-R3"
	c.Doc(rule, "the claim id is Sprintf(\"%s#%s%s\", sessionID, ExportSecSessionInfo(...), randomHexKey(...)) (assembled in MintClaimSession or a helper of it); ExportSecSessionInfo returns its text only past the 'contains no #' guard; randomHexKey returns hex.EncodeToString output; ParseClaimIDStrict (with its helpers) splits with strings.LastIndex on '#' and ']' only")
	a := c16Resolve(c, rule)
	if a == nil {
		return
	}
	// assembly
	n := 0
	vm := c.c16View(a, a.mint)
	reg := c.c16Registration(a, a.mint)
	for _, sp := range c16SprintfsX(vm) {
		va := sp.Args
		if len(va) != 3 || va[2].V == nil {
			continue
		}
		if _, ok := vm.CallOf(va[2], a.randomHex.Object()); !ok {
			continue
		}
		n++
		c.Check(sp.Format == "%s#%s%s", rule, fnName(a.mint)+"#claim-id-format", "the claim id is id '#' info secret", fmt.Sprintf("the claim id is assembled with format %q, not \"%%s#%%s%%s\": the last-'#'/last-']' split no longer recovers the three parts", sp.Format), sp.Site.Pos())
		_, fromExport := vm.CallOf(va[1], a.export.Object())
		c.Check(va[1].V != nil && fromExport, rule, fnName(a.mint)+"#claim-id-info", "the middle part is ExportSecSessionInfo's text", "the middle part of the claim id is not ExportSecSessionInfo's result", sp.Site.Pos())
		// the id part is what the session is registered under
		if reg != nil {
			c.Check(va[0].V != nil && vm.Prov(va[0]) == reg.vw.Prov(reg.arg(0)), rule, fnName(a.mint)+"#claim-id-sid", "the leading part is the registered session id", "the leading part of the claim id is not the id the session is registered under", sp.Site.Pos())
		}
	}
	c.MinCount(rule, "claim id assembly sites", n, 1)
	// '#' guard in ExportSecSessionInfo
	vex := c.c16View(a, a.export)
	isGuard := func(fr *c06Frame, v ssa.Value) (*ssa.Call, bool) {
		cl, ok := v.(*ssa.Call)
		if !ok {
			return nil, false
		}
		o := calleeObj(cl)
		if o == nil || o.Pkg() == nil || o.Pkg().Path() != "strings" || len(cl.Call.Args) != 2 {
			return nil, false
		}
		switch o.Name() {
		case "Contains", "ContainsAny":
			s, isC := vex.ConstString(c06FV{cl.Call.Args[1], fr})
			return cl, isC && s == "#"
		case "ContainsRune":
			b, isC := vex.ConstInt(c06FV{cl.Call.Args[1], fr})
			return cl, isC && b == '#'
		}
		return nil, false
	}
	ng := 0
	vex.EachInstr(func(fr *c06Frame, in ssa.Instruction) {
		v, ok := in.(ssa.Value)
		if !ok {
			return
		}
		cl, ok := isGuard(fr, v)
		if !ok {
			return
		}
		ng++
		// the guarded text must be what is returned
		for _, t := range c.successTargets(a.export) {
			c.Check(vex.Same(c06FV{cl.Call.Args[0], fr}, vex.fv(t.Ret.Results[0])), rule, fnName(a.export)+"#guarded-text=returned-text", "the '#' guard inspects the returned text", "the '#' guard inspects a different value from the one returned", cl.Pos())
		}
	})
	noHash := &c06Fact{Name: "no '#'", Cond: func(fr *c06Frame, at Atom) (bool, bool) {
		if at.Op != token.ILLEGAL || at.X == nil {
			return false, false
		}
		_, ok := isGuard(fr, at.X)
		return false, ok
	}}
	vex.MustPassReturns(rule, c.successTargets(a.export), noHash, 1, "", "the false edge of strings.Contains(info, \"#\")")
	c.MinCount(rule, "'#' guards in ExportSecSessionInfo", ng, 1)
	// randomHexKey
	vrh := c.c16View(a, a.randomHex)
	for _, t := range c.successTargets(a.randomHex) {
		good := vrh.AllOrigins(vrh.fv(t.Ret.Results[0]), func(o c06FV) bool {
			cl, ok := o.V.(*ssa.Call)
			if !ok {
				return false
			}
			ob := calleeObj(cl)
			if ob == nil || ob.Pkg() == nil {
				return false
			}
			if ob.Pkg().Path() == "encoding/hex" && ob.Name() == "EncodeToString" {
				return true
			}
			// fmt.Sprintf("%x", buf) renders the same lowercase hex text
			if ob.Pkg().Path() == "fmt" && ob.Name() == "Sprintf" && len(cl.Call.Args) == 2 {
				f, isC := vrh.ConstString(c06FV{cl.Call.Args[0], o.F})
				return isC && f == "%x"
			}
			return false
		})
		c.Check(good, rule, fnName(a.randomHex)+"#hex", "the secret is hex text (no '#', '[' or ']')", "the secret is not hex.EncodeToString (or %x) output: it may contain '#' or ']' and break the split", t.Ret.Pos())
	}
	// parser
	var idx []string
	for _, sc := range c16StringsCalls(c.c16View(a, a.parse)) {
		switch sc.Name {
		case "LastIndex":
			idx = append(idx, "LastIndex:"+strings.Join(sc.Consts, ""))
		case "LastIndexByte":
			// the same split with a byte separator
			if len(sc.Call.Call.Args) == 2 {
				if b, ok := constInt(sc.Call.Call.Args[1]); ok {
					idx = append(idx, "LastIndex:"+string(rune(b)))
				}
			}
		case "Index", "IndexByte", "SplitN", "Split", "Cut", "IndexAny", "SplitAfter", "SplitAfterN", "Fields":
			c.Violate(rule, fnName(a.parse)+"#split:"+sc.Name, "ParseClaimIDStrict splits with strings."+sc.Name+": a session id containing '#' (every real startd claim) is cut at the wrong place", sc.Call.Pos())
		}
	}
	sort.Strings(idx)
	c.Check(strings.Join(idx, ",") == "LastIndex:#,LastIndex:]", rule, fnName(a.parse)+"#split:last-#-and-last-]", "splits on the last '#' and the last ']'", "ParseClaimIDStrict does not split on exactly the last '#' and the last ']': found "+strings.Join(idx, ","), a.parse.Pos())
}

// C16-R4: the secret never reaches the public form or a log.
func c16r4(c *Ctx) {
	const rule = "C16-R4"
	c.Doc(rule, "must-not-flow: no value derived from the claim secret (randomHexKey result, ClaimID.SecSessionKey()/Raw() results, reads of ClaimID.sessionKey/raw and MintedClaim.claimID, the claimID parameter of the importers) reaches MintedClaim.publicClaimID, the result of a PublicClaimID method, or an argument of slog/log/fmt.Print* in any function the value flows through")
	a := c16Resolve(c, rule)
	fPub := c.needField(rule, "security", "MintedClaim", "publicClaimID")
	fCID := c.needField(rule, "security", "MintedClaim", "claimID")
	fKey := c.needField(rule, "security", "ClaimID", "sessionKey")
	fRaw := c.needField(rule, "security", "ClaimID", "raw")
	if a == nil || fPub == nil || fCID == nil || fKey == nil || fRaw == nil {
		return
	}
	secretField := func(f *types.Var) bool { return f == fCID || f == fKey || f == fRaw }
	// accessors that hand out non-secret parts must not read the secret fields (then their results are clean)
	clean := map[*ssa.Function]bool{}
	for _, g := range []*ssa.Function{a.secID, a.secInfo, a.pubParsed, a.pubMinted} {
		reads := false
		allInstrs(g, func(_ *ssa.BasicBlock, _ int, in ssa.Instruction) {
			if fa, ok := in.(*ssa.FieldAddr); ok && secretField(fieldOfAddr(fa)) {
				reads = true
			}
			if fl, ok := in.(*ssa.Field); ok && secretField(fl.X.Type().Underlying().(*types.Struct).Field(fl.Field)) {
				reads = true
			}
		})
		c.Check(!reads, rule, fnName(g)+"#reads-no-secret-field", "does not touch sessionKey/raw/claimID", "reads a secret field (sessionKey/raw/claimID): its result, which callers log, carries the secret", g.Pos())
		if !reads {
			clean[g] = true
		}
	}
	t := &c16Taint{c: c, visited: map[string]bool{}, Fns: map[*ssa.Function]bool{}, cleanFns: clean}
	t.isSink = func(fn *ssa.Function, in ssa.Instruction, tainted func(ssa.Value) bool) string {
		if s := c16LogSink(in, tainted); s != "" {
			return s
		}
		if st, ok := in.(*ssa.Store); ok {
			if fa, ok := st.Addr.(*ssa.FieldAddr); ok && fieldOfAddr(fa) == fPub && tainted(st.Val) {
				return "MintedClaim.publicClaimID"
			}
		}
		if ret, ok := in.(*ssa.Return); ok && (fn == a.pubParsed || fn == a.pubMinted) {
			for _, r := range ret.Results {
				if tainted(r) {
					return "the result of " + fnName(fn)
				}
			}
		}
		return ""
	}
	// seeds per function
	nSeeds := 0
	secPkg := c.PkgTypes("security")
	for _, fn := range c.ModFns {
		if fnPkg(fn) != secPkg {
			continue
		}
		var seeds []ssa.Value
		allInstrs(fn, func(_ *ssa.BasicBlock, _ int, in ssa.Instruction) {
			switch x := in.(type) {
			case *ssa.Call:
				g := calleeFn(x)
				if g == a.randomHex || g == a.secKey || g == a.raw || g == a.claimIDAcc {
					seeds = append(seeds, x)
				}
			case *ssa.FieldAddr:
				if secretField(fieldOfAddr(x)) {
					// reads only: a FieldAddr that is loaded from
					for _, r := range *x.Referrers() {
						if u, ok := r.(*ssa.UnOp); ok && u.Op == token.MUL {
							seeds = append(seeds, u)
						}
					}
				}
			}
		})
		if fn == a.imp || fn == a.impFT {
			if len(fn.Params) > 1 {
				seeds = append(seeds, fn.Params[1])
			}
		}
		if len(seeds) == 0 {
			continue
		}
		nSeeds += len(seeds)
		t.run(fn, seeds, 3)
	}
	seen := map[string]bool{}
	for _, h := range t.Hits {
		k := fnName(topFn(h.Fn)) + "->" + h.What
		if seen[k] {
			continue
		}
		seen[k] = true
		c.Violate(rule, "secret-flow:"+k, "a value derived from the claim secret reaches "+h.What+" in "+fnName(h.Fn), h.At.Pos())
	}
	c.Ok(rule, "secret-flow#summary", fmt.Sprintf("%d seed values followed through %d functions (%d tainted values); %d sink hits", nSeeds, len(t.Fns), t.Values, len(t.Hits)), token.NoPos)
	c.MinCount(rule, "secret seed values", nSeeds, 2)
	c.MinCount(rule, "functions the secret flows through", len(t.Fns), 1)
}

// C16-R5: the only varying input of the key derivation is the secret.
func c16r5(c *Ctx) {
	const rule = "C16-R5"
	c.Doc(rule, "deriveSessionKey feeds HKDF with its sessionKey parameter as the only non-constant input and returns the buffer HKDF filled; MintClaimSession passes the randomHexKey result, ImportClaimSession passes ClaimID.SecSessionKey() (possibly through helpers): a different secret yields a different key, which resumption then requires (C06-R1)")
	a := c16Resolve(c, rule)
	if a == nil {
		return
	}
	hk, _, _, ok := c.c16HKDF(a, a.deriveKey)
	if hk.Call == nil || !ok {
		c.Undecided(rule, fnName(a.deriveKey)+"#hkdf", "no hkdf.New call with constant salt/info found", a.deriveKey.Pos())
		return
	}
	dk := a.deriveKey
	vdk := hk.F.view
	if len(dk.Params) == 0 {
		c.Undecided(rule, fnName(dk)+"#hkdf-secret<-param", "deriveSessionKey has no parameter", dk.Pos())
		return
	}
	c.Check(vdk.MustDepend(hk.Arg(1), func(v c06FV) bool { return v.F == vdk.Root && v.V == ssa.Value(dk.Params[0]) }), rule, fnName(dk)+"#hkdf-secret<-param", "HKDF's input key material is the sessionKey parameter", "HKDF's input key material does not depend on the sessionKey parameter", hk.Pos())
	for _, t := range c.successTargets(dk) {
		good := vdk.MustDepend(vdk.fv(t.Ret.Results[0]), func(v c06FV) bool {
			if v.V == ssa.Value(hk.Call.Value()) && v.F == hk.F {
				return true
			}
			// the buffer was filled by a helper that was handed the reader
			if cl, ok := v.V.(*ssa.Call); ok && hk.F != v.F {
				return c06Lift(hk.F, hk.Call, v.F) == ssa.Instruction(cl)
			}
			return false
		})
		c.Check(good, rule, fmt.Sprintf("%s#return%d<-hkdf", fnName(dk), retOrdinal(dk, t.Ret)), "the returned key is HKDF output", "the returned key does not depend on the HKDF reader", t.Ret.Pos())
	}
	n := 0
	for k, fn := range []*ssa.Function{a.mint, a.imp} {
		src := []*ssa.Function{a.randomHex, a.secKey}[k]
		vw := c.c16View(a, fn)
		derives := vw.Calls(a.deriveClaim.Object())
		c.MinCount(rule, "deriveClaimKeyInfo call sites in "+fnName(fn), len(derives), 1)
		for _, cs := range derives {
			n++
			_, good := vw.CallOf(cs.Arg(1), src.Object())
			c.Check(good, rule, fnName(fn)+"#deriveClaimKeyInfo:secret<-"+src.Name(), "the derivation input is "+src.Name()+"()", "the secret handed to deriveClaimKeyInfo is not "+src.Name()+"()", cs.Pos())
		}
		if fn != a.mint {
			continue
		}
		// the secret embedded in the claim id is the one the key is derived from (mint)
		for _, sp := range c16SprintfsX(vw) {
			va := sp.Args
			if len(va) != 3 || va[2].V == nil {
				continue
			}
			if _, ok := vw.CallOf(va[2], a.randomHex.Object()); !ok {
				continue
			}
			for _, cs := range derives {
				c.Check(vw.Same(va[2], cs.Arg(1)), rule, fnName(a.mint)+"#embedded-secret=derivation-secret", "the secret embedded in the claim id is the one the key is derived from", "the claim id embeds a different secret from the one the local key is derived from", sp.Site.Pos())
			}
		}
	}
	_ = n
}
