package main

// A small abstract interpreter over go/ssa used for the finite-table rules of C09 (T-TAB):
// the inputs of a function are fixed to one row of a finite domain (two option bits, a peer
// version, a few predicate outcomes), every SSA value that can be folded from them is folded
// (conditional constant propagation along the paths the branch conditions select), branches
// whose condition stays unknown are explored both ways. No code of the repository is executed:
// the interpreter only folds integer/boolean operators, nil tests, phis, field loads of the
// row's abstract objects and calls the rule provides an oracle for (or module callees it can
// fold the same way). Anything else is "unknown" and, if a decision needs it, the rule reports
// undecided.

import (
	"go/constant"
	"go/token"
	"go/types"

	"golang.org/x/tools/go/ssa"
)

type avKind int

const (
	avUnknown avKind = iota
	avInt
	avBool
	avString
	avNil
	avObj   // a non-nil pointer to an abstract object
	avAddr  // address of (object, field) or of a cell
	avTuple // multiple results
)

// aval is an abstract value.
type aval struct {
	K     avKind
	I     int64
	B     bool
	S     string
	Obj   *aobj
	Field *types.Var // for avAddr: nil = the cell itself
	Tup   []aval
}

// aobj is an abstract heap object: a struct with some known fields (others unknown, or zero when Zero is set).
type aobj struct {
	Name   string
	Fields map[*types.Var]aval
	Zero   bool // unlisted fields / the cell hold the zero value (fresh allocation)
}

var avU = aval{}

func avI(i int64) aval   { return aval{K: avInt, I: i} }
func avB(b bool) aval    { return aval{K: avBool, B: b} }
func avO(o *aobj) aval   { return aval{K: avObj, Obj: o} }
func avNilV() aval       { return aval{K: avNil} }
func avT(t ...aval) aval { return aval{K: avTuple, Tup: t} }

func (v aval) known() bool { return v.K != avUnknown }

func (v aval) String() string {
	switch v.K {
	case avInt:
		return c08Itoa(int(v.I))
	case avBool:
		if v.B {
			return "true"
		}
		return "false"
	case avString:
		return "\"" + v.S + "\""
	case avNil:
		return "nil"
	case avObj:
		return "&" + v.Obj.Name
	case avAddr:
		return "&(" + v.Obj.Name + ")"
	case avTuple:
		return "(tuple)"
	}
	return "?"
}

type c09StoreKey struct {
	o *aobj
	f *types.Var
}

// aenv is the state along one explored path.
type aenv struct {
	vals   map[ssa.Value]aval
	stores map[c09StoreKey]aval
	visits map[*ssa.BasicBlock]int
	trace  []*ssa.BasicBlock
}

func (e *aenv) clone() *aenv {
	n := &aenv{vals: make(map[ssa.Value]aval, len(e.vals)), stores: make(map[c09StoreKey]aval, len(e.stores)), visits: make(map[*ssa.BasicBlock]int, len(e.visits))}
	for k, v := range e.vals {
		n.vals[k] = v
	}
	for k, v := range e.stores {
		n.stores[k] = v
	}
	for k, v := range e.visits {
		n.visits[k] = v
	}
	n.trace = append([]*ssa.BasicBlock{}, e.trace...)
	return n
}

// ainterp drives the exploration of one function.
type ainterp struct {
	// oracle supplies values for calls, parameters, map lookups and type assertions; ok=false = not handled.
	oracle func(fn *ssa.Function, v ssa.Value, args []aval) (aval, bool)
	// at is called before each instruction; a non-empty outcome ends the path with that outcome.
	at func(fn *ssa.Function, in ssa.Instruction, env *aenv, it *ainterp) string
	// revisit is called when a path enters a block a second time; its outcome ends the path ("" = prune silently).
	revisit func(fn *ssa.Function, b *ssa.BasicBlock) string
	// atReturn is called at a Return with the folded results; its outcome is recorded ("" = ignore).
	atReturn func(fn *ssa.Function, ret *ssa.Return, res []aval, env *aenv) string
	// foldCallees: module callees without an oracle are folded recursively when all their returns agree.
	foldCallees bool
	steps       int
	depth       int
	Overflow    bool
}

const ainterpMaxSteps = 200000

// run explores fn from its entry with the given parameter values and returns the multiset of outcomes.
func (it *ainterp) run(fn *ssa.Function, params []aval) map[string]int {
	env := &aenv{vals: map[ssa.Value]aval{}, stores: map[c09StoreKey]aval{}, visits: map[*ssa.BasicBlock]int{}}
	for i, p := range fn.Params {
		if i < len(params) {
			env.vals[p] = params[i]
		}
	}
	out := map[string]int{}
	it.explore(fn, fn.Blocks[0], nil, env, out)
	return out
}

func (it *ainterp) explore(fn *ssa.Function, b, prev *ssa.BasicBlock, env *aenv, out map[string]int) {
	for {
		if it.steps > ainterpMaxSteps {
			it.Overflow = true
			return
		}
		env.visits[b]++
		env.trace = append(env.trace, b)
		if env.visits[b] > 1 {
			if it.revisit != nil {
				if o := it.revisit(fn, b); o != "" {
					out[o]++
				}
			}
			return
		}
		// phis first, all evaluated against the incoming edge
		var phiVals []aval
		var phis []*ssa.Phi
		for _, in := range b.Instrs {
			phi, ok := in.(*ssa.Phi)
			if !ok {
				break
			}
			v := avU
			for i, p := range b.Preds {
				if p == prev {
					v = it.eval(fn, phi.Edges[i], env)
				}
			}
			phis = append(phis, phi)
			phiVals = append(phiVals, v)
		}
		for i, phi := range phis {
			env.vals[phi] = phiVals[i]
		}
		var next *ssa.BasicBlock
		for _, in := range b.Instrs[len(phis):] {
			it.steps++
			if it.at != nil {
				if o := it.at(fn, in, env, it); o != "" {
					out[o]++
					return
				}
			}
			switch x := in.(type) {
			case *ssa.Store:
				addr := it.eval(fn, x.Addr, env)
				if addr.K == avAddr {
					env.stores[c09StoreKey{addr.Obj, addr.Field}] = it.eval(fn, x.Val, env)
				}
			case *ssa.Return:
				if it.atReturn != nil {
					var res []aval
					for _, r := range x.Results {
						res = append(res, it.eval(fn, r, env))
					}
					if o := it.atReturn(fn, x, res, env); o != "" {
						out[o]++
					}
				}
				return
			case *ssa.Panic:
				return
			case *ssa.Jump:
				next = b.Succs[0]
			case *ssa.If:
				c := it.eval(fn, x.Cond, env)
				if c.K == avBool {
					if c.B {
						next = b.Succs[0]
					} else {
						next = b.Succs[1]
					}
				} else {
					it.explore(fn, b.Succs[0], b, env.clone(), out)
					next = b.Succs[1]
				}
			case ssa.Value:
				// evaluate eagerly so that calls with side effects on stores are ordered (none folded today)
				it.eval(fn, x, env)
			}
		}
		if next == nil {
			return
		}
		prev, b = b, next
	}
}

func c09ZeroOf(t types.Type) aval {
	switch u := t.Underlying().(type) {
	case *types.Basic:
		switch {
		case u.Info()&types.IsBoolean != 0:
			return avB(false)
		case u.Info()&types.IsInteger != 0:
			return avI(0)
		case u.Info()&types.IsString != 0:
			return aval{K: avString}
		}
	case *types.Pointer, *types.Slice, *types.Map, *types.Interface, *types.Signature, *types.Chan:
		return avNilV()
	}
	return avU
}

// eval folds v in env (memoised per path).
func (it *ainterp) eval(fn *ssa.Function, v ssa.Value, env *aenv) aval {
	if r, ok := env.vals[v]; ok {
		return r
	}
	// Every instruction is evaluated once, at its program point (explore walks the block in order and
	// SSA operands dominate their uses), so memoising loads too gives them the value at that point.
	r := it.eval1(fn, v, env)
	env.vals[v] = r
	return r
}

func (it *ainterp) eval1(fn *ssa.Function, v ssa.Value, env *aenv) aval {
	switch x := v.(type) {
	case *ssa.Const:
		if x.Value == nil {
			if isBasic(x.Type()) {
				return c09ZeroOf(x.Type())
			}
			return avNilV()
		}
		switch x.Value.Kind() {
		case constant.Bool:
			return avB(constant.BoolVal(x.Value))
		case constant.Int:
			if i, ok := constant.Int64Val(x.Value); ok {
				return avI(i)
			}
		case constant.String:
			return aval{K: avString, S: constant.StringVal(x.Value)}
		}
		return avU
	case *ssa.Parameter, *ssa.FreeVar, *ssa.Global:
		if it.oracle != nil {
			if r, ok := it.oracle(fn, v, nil); ok {
				return r
			}
		}
		return avU
	case *ssa.Alloc:
		return aval{K: avAddr, Obj: &aobj{Name: "alloc", Zero: true, Fields: map[*types.Var]aval{}}}
	case *ssa.FieldAddr:
		base := it.eval(fn, x.X, env)
		f := fieldOfAddr(x)
		switch base.K {
		case avObj:
			return aval{K: avAddr, Obj: base.Obj, Field: f}
		case avAddr:
			if base.Field == nil { // address of a fresh struct allocation
				return aval{K: avAddr, Obj: base.Obj, Field: f}
			}
		}
		return avU
	case *ssa.UnOp:
		switch x.Op {
		case token.NOT:
			if o := it.eval(fn, x.X, env); o.K == avBool {
				return avB(!o.B)
			}
		case token.SUB:
			if o := it.eval(fn, x.X, env); o.K == avInt {
				return avI(-o.I)
			}
		case token.MUL:
			addr := it.eval(fn, x.X, env)
			if addr.K != avAddr {
				return avU
			}
			if s, ok := env.stores[c09StoreKey{addr.Obj, addr.Field}]; ok {
				return s
			}
			if addr.Field != nil {
				if fv, ok := addr.Obj.Fields[addr.Field]; ok {
					return fv
				}
			}
			if addr.Obj.Zero {
				return c09ZeroOf(x.Type())
			}
		}
		return avU
	case *ssa.BinOp:
		return c09FoldBin(x.Op, it.eval(fn, x.X, env), it.eval(fn, x.Y, env))
	case *ssa.Phi:
		return avU // evaluated at block entry; a phi reached otherwise is unknown
	case *ssa.Convert:
		return it.eval(fn, x.X, env)
	case *ssa.ChangeType:
		return it.eval(fn, x.X, env)
	case *ssa.ChangeInterface:
		return it.eval(fn, x.X, env)
	case *ssa.MakeInterface:
		return it.eval(fn, x.X, env)
	case *ssa.Extract:
		t := it.eval(fn, x.Tuple, env)
		if t.K == avTuple && x.Index < len(t.Tup) {
			return t.Tup[x.Index]
		}
		return avU
	case *ssa.Call:
		var args []aval
		for _, a := range callArgs(x) {
			args = append(args, it.eval(fn, a, env))
		}
		if it.oracle != nil {
			if r, ok := it.oracle(fn, v, args); ok {
				return r
			}
		}
		if it.foldCallees && it.depth < 4 {
			if g := calleeFn(x); g != nil && g.Blocks != nil && fnPkg(g) != nil && inModule(fnPkg(g).Path()) && len(g.FreeVars) == 0 {
				return it.foldCall(g, args)
			}
		}
		return avU
	case *ssa.Lookup, *ssa.TypeAssert, *ssa.Index, *ssa.Field, *ssa.IndexAddr, *ssa.Slice, *ssa.MakeMap, *ssa.MakeSlice, *ssa.MakeClosure, *ssa.Next, *ssa.Range:
		if it.oracle != nil {
			if r, ok := it.oracle(fn, v, nil); ok {
				return r
			}
		}
		return avU
	}
	return avU
}

// foldCall folds a module callee: the value all its returns agree on (single result), else unknown.
// The callee must not write through its arguments for this to be meaningful; stores it performs are discarded.
func (it *ainterp) foldCall(g *ssa.Function, args []aval) aval {
	sub := &ainterp{oracle: it.oracle, foldCallees: true, depth: it.depth + 1, steps: it.steps}
	var results []aval
	sub.atReturn = func(_ *ssa.Function, _ *ssa.Return, res []aval, _ *aenv) string {
		if len(res) == 1 {
			results = append(results, res[0])
		} else {
			results = append(results, avT(res...))
		}
		return ""
	}
	sub.run(g, args)
	it.steps = sub.steps
	if sub.Overflow || len(results) == 0 {
		return avU
	}
	first := results[0]
	for _, r := range results[1:] {
		if !avEqual(r, first) {
			return avU
		}
	}
	return first
}

func avEqual(a, b aval) bool {
	if a.K != b.K {
		return false
	}
	switch a.K {
	case avInt:
		return a.I == b.I
	case avBool:
		return a.B == b.B
	case avString:
		return a.S == b.S
	case avNil:
		return true
	case avObj:
		return a.Obj == b.Obj
	case avUnknown:
		return false
	}
	return false
}

func c09FoldBin(op token.Token, a, b aval) aval {
	switch {
	case a.K == avInt && b.K == avInt:
		switch op {
		case token.ADD:
			return avI(a.I + b.I)
		case token.SUB:
			return avI(a.I - b.I)
		case token.MUL:
			return avI(a.I * b.I)
		case token.AND:
			return avI(a.I & b.I)
		case token.OR:
			return avI(a.I | b.I)
		case token.XOR:
			return avI(a.I ^ b.I)
		case token.AND_NOT:
			return avI(a.I &^ b.I)
		case token.EQL:
			return avB(a.I == b.I)
		case token.NEQ:
			return avB(a.I != b.I)
		case token.LSS:
			return avB(a.I < b.I)
		case token.LEQ:
			return avB(a.I <= b.I)
		case token.GTR:
			return avB(a.I > b.I)
		case token.GEQ:
			return avB(a.I >= b.I)
		}
	case a.K == avBool && b.K == avBool:
		switch op {
		case token.EQL:
			return avB(a.B == b.B)
		case token.NEQ:
			return avB(a.B != b.B)
		case token.AND:
			return avB(a.B && b.B)
		case token.OR:
			return avB(a.B || b.B)
		}
	case a.K == avString && b.K == avString:
		switch op {
		case token.EQL:
			return avB(a.S == b.S)
		case token.NEQ:
			return avB(a.S != b.S)
		}
	case (a.K == avNil || a.K == avObj) && (b.K == avNil || b.K == avObj):
		eq := a.K == avNil && b.K == avNil || (a.K == avObj && b.K == avObj && a.Obj == b.Obj)
		if a.K == avObj && b.K == avObj && a.Obj != b.Obj {
			return avU
		}
		switch op {
		case token.EQL:
			return avB(eq)
		case token.NEQ:
			return avB(!eq)
		}
	}
	return avU
}
