package main

// A small abstract interpreter over go/ssa used for the finite-table rules of C09 (T-TAB):
// the inputs of a function are fixed to one row of a finite domain (two option bits, a peer
// version, a few predicate outcomes), every SSA value that can be folded from them is folded
// (conditional constant propagation along the paths the branch conditions select), branches
// whose condition stays unknown are explored both ways. No code of the repository is executed:
// the interpreter only folds integer/boolean operators, nil tests, phis, field loads of the
// row's abstract objects and calls the rule provides an oracle for (or module callees it can
// fold the same way). Anything else is "unknown" and, if a decision needs it, the rule reports
// undecided.

import (
	"go/constant"
	"go/token"
	"go/types"

	"golang.org/x/tools/go/ssa"
)

type avKind int

const (
	avUnknown avKind = iota
	avInt
	avBool
	avString
	avNil
	avObj   // a non-nil pointer to an abstract object
	avAddr  // address of (object, field) or of a cell
	avTuple // multiple results
)

// aval is an abstract value.
type aval struct {
	K     avKind
	I     int64
	B     bool
	S     string
	Obj   *aobj
	Field *types.Var // for avAddr: nil = the cell itself
	Tup   []aval
}

// aobj is an abstract heap object: a struct with some known fields (others unknown, or zero when Zero is set).
type aobj struct {
	Name   string
	Fields map[*types.Var]aval
	Zero   bool // unlisted fields / the cell hold the zero value (fresh allocation)
}

var avU = aval{}

func avI(i int64) aval   { return aval{K: avInt, I: i} }
func avB(b bool) aval    { return aval{K: avBool, B: b} }
func avO(o *aobj) aval   { return aval{K: avObj, Obj: o} }
func avNilV() aval       { return aval{K: avNil} }
func avT(t ...aval) aval { return aval{K: avTuple, Tup: t} }

func (v aval) known() bool { return v.K != avUnknown }

func (v aval) String() string {
	switch v.K {
	case avInt:
		return c08Itoa(int(v.I))
	case avBool:
		if v.B {
			return "true"
		}
		return "false"
	case avString:
		return "\"" + v.S + "\""
	case avNil:
		return "nil"
	case avObj:
		return "&" + v.Obj.Name
	case avAddr:
		return "&(" + v.Obj.Name + ")"
	case avTuple:
		return "(tuple)"
	}
	return "?"
}

type c09StoreKey struct {
	o *aobj
	f *types.Var
}

// aenv is the state along one explored path.
type aenv struct {
	vals   map[ssa.Value]aval
	stores map[c09StoreKey]aval
	visits map[*ssa.BasicBlock]int
	trace  []*ssa.BasicBlock
}

func (e *aenv) clone() *aenv {
	n := &aenv{vals: make(map[ssa.Value]aval, len(e.vals)), stores: make(map[c09StoreKey]aval, len(e.stores)), visits: make(map[*ssa.BasicBlock]int, len(e.visits))}
	for k, v := range e.vals {
		n.vals[k] = v
	}
	for k, v := range e.stores {
		n.stores[k] = v
	}
	for k, v := range e.visits {
		n.visits[k] = v
	}
	n.trace = append([]*ssa.BasicBlock{}, e.trace...)
	return n
}

// ainterp drives the exploration of one function.
type ainterp struct {
	// oracle supplies values for calls, parameters, map lookups and type assertions; ok=false = not handled.
	oracle func(fn *ssa.Function, v ssa.Value, args []aval) (aval, bool)
	// at is called before each instruction; a non-empty outcome ends the path with that outcome.
	at func(fn *ssa.Function, in ssa.Instruction, env *aenv, it *ainterp) string
	// revisit is called when a path enters a block a second time; its outcome ends the path ("" = prune silently).
	revisit func(fn *ssa.Function, b *ssa.BasicBlock) string
	// atReturn is called at a Return with the folded results; its outcome is recorded ("" = ignore).
	atReturn func(fn *ssa.Function, ret *ssa.Return, res []aval, env *aenv) string
	// foldCallees: module callees the oracle does not answer for are explored in place (see inlinable).
	foldCallees bool
	steps       int
	stack       []*ssa.Function
	Overflow    bool
}

const ainterpMaxSteps = 200000

// run explores fn from its entry with the given parameter values and returns the multiset of outcomes.
func (it *ainterp) run(fn *ssa.Function, params []aval) map[string]int {
	env := &aenv{vals: map[ssa.Value]aval{}, stores: map[c09StoreKey]aval{}, visits: map[*ssa.BasicBlock]int{}}
	for i, p := range fn.Params {
		if i < len(params) {
			env.vals[p] = params[i]
		}
	}
	out := map[string]int{}
	it.stack = []*ssa.Function{fn}
	it.explore(fn, fn.Blocks[0], 0, nil, env, out, nil)
	return out
}

// acont continues the caller's path after an inlined callee returned with results res.
type acont func(env *aenv, res []aval)

// inlinable: a same-module callee the oracle does not answer for is explored in place (path-sensitively,
// with the stores it performs on the row's abstract objects kept), to depth 4, never recursively.
func (it *ainterp) inlinable(call *ssa.Call) *ssa.Function {
	if !it.foldCallees || len(it.stack) > 4 {
		return nil
	}
	g := calleeFn(call)
	if g == nil || g.Blocks == nil || fnPkg(g) == nil || !inModule(fnPkg(g).Path()) || len(g.FreeVars) != 0 {
		return nil
	}
	for _, f := range it.stack {
		if f == g {
			return nil
		}
	}
	if len(callArgs(call)) != len(g.Params) {
		return nil
	}
	return g
}

// explore walks block b of fn from instruction idx along one path; branches whose condition does not fold
// fork the path. k is the continuation of the enclosing call (nil in the top-level function).
func (it *ainterp) explore(fn *ssa.Function, b *ssa.BasicBlock, idx int, prev *ssa.BasicBlock, env *aenv, out map[string]int, k acont) {
	for {
		if it.steps > ainterpMaxSteps {
			it.Overflow = true
			return
		}
		nphi := 0
		for _, in := range b.Instrs {
			if _, ok := in.(*ssa.Phi); !ok {
				break
			}
			nphi++
		}
		if idx == 0 {
			env.visits[b]++
			env.trace = append(env.trace, b)
			if env.visits[b] > 1 {
				if it.revisit != nil {
					if o := it.revisit(fn, b); o != "" {
						out[o]++
					}
				}
				return
			}
			// phis first, all evaluated against the incoming edge
			phiVals := make([]aval, nphi)
			for j := 0; j < nphi; j++ {
				phi := b.Instrs[j].(*ssa.Phi)
				v := avU
				for i, p := range b.Preds {
					if p == prev {
						v = it.eval(fn, phi.Edges[i], env)
					}
				}
				phiVals[j] = v
			}
			for j := 0; j < nphi; j++ {
				env.vals[b.Instrs[j].(*ssa.Phi)] = phiVals[j]
			}
			idx = nphi
		}
		var next *ssa.BasicBlock
		for i := idx; i < len(b.Instrs); i++ {
			in := b.Instrs[i]
			it.steps++
			if it.at != nil {
				if o := it.at(fn, in, env, it); o != "" {
					out[o]++
					return
				}
			}
			switch x := in.(type) {
			case *ssa.Store:
				addr := it.eval(fn, x.Addr, env)
				if addr.K == avAddr {
					env.stores[c09StoreKey{addr.Obj, addr.Field}] = it.eval(fn, x.Val, env)
				}
			case *ssa.Return:
				var res []aval
				for _, r := range x.Results {
					res = append(res, it.eval(fn, r, env))
				}
				if k != nil {
					k(env, res)
					return
				}
				if it.atReturn != nil {
					if o := it.atReturn(fn, x, res, env); o != "" {
						out[o]++
					}
				}
				return
			case *ssa.Panic:
				return
			case *ssa.Jump:
				next = b.Succs[0]
			case *ssa.If:
				c := it.eval(fn, x.Cond, env)
				if c.K == avBool {
					if c.B {
						next = b.Succs[0]
					} else {
						next = b.Succs[1]
					}
				} else {
					it.explore(fn, b.Succs[0], 0, b, env.clone(), out, k)
					next = b.Succs[1]
				}
			case *ssa.Call:
				var args []aval
				for _, a := range callArgs(x) {
					args = append(args, it.eval(fn, a, env))
				}
				if it.oracle != nil {
					if r, ok := it.oracle(fn, x, args); ok {
						env.vals[x] = r
						break
					}
				}
				g := it.inlinable(x)
				if g == nil {
					env.vals[x] = avU
					break
				}
				// fresh activation of g on this path
				for _, gb := range g.Blocks {
					delete(env.visits, gb)
					for _, gi := range gb.Instrs {
						if gv, ok := gi.(ssa.Value); ok {
							delete(env.vals, gv)
						}
					}
				}
				for j, p := range g.Params {
					env.vals[p] = args[j]
				}
				it.stack = append(append([]*ssa.Function{}, it.stack...), g)
				depth := len(it.stack)
				rest := i + 1
				it.explore(g, g.Blocks[0], 0, nil, env, out, func(env2 *aenv, res []aval) {
					saved := it.stack
					it.stack = it.stack[:depth-1]
					switch len(res) {
					case 0:
						env2.vals[x] = avU
					case 1:
						env2.vals[x] = res[0]
					default:
						env2.vals[x] = avT(res...)
					}
					it.explore(fn, b, rest, prev, env2, out, k)
					it.stack = saved
				})
				it.stack = it.stack[:depth-1]
				return
			case ssa.Value:
				// evaluate eagerly so that every value is folded at its program point
				it.eval(fn, x, env)
			}
		}
		if next == nil {
			return
		}
		prev, b, idx = b, next, 0
	}
}

func c09ZeroOf(t types.Type) aval {
	switch u := t.Underlying().(type) {
	case *types.Basic:
		switch {
		case u.Info()&types.IsBoolean != 0:
			return avB(false)
		case u.Info()&types.IsInteger != 0:
			return avI(0)
		case u.Info()&types.IsString != 0:
			return aval{K: avString}
		}
	case *types.Pointer, *types.Slice, *types.Map, *types.Interface, *types.Signature, *types.Chan:
		return avNilV()
	}
	return avU
}

// eval folds v in env (memoised per path).
func (it *ainterp) eval(fn *ssa.Function, v ssa.Value, env *aenv) aval {
	if r, ok := env.vals[v]; ok {
		return r
	}
	// Every instruction is evaluated once, at its program point (explore walks the block in order and
	// SSA operands dominate their uses), so memoising loads too gives them the value at that point.
	r := it.eval1(fn, v, env)
	env.vals[v] = r
	return r
}

func (it *ainterp) eval1(fn *ssa.Function, v ssa.Value, env *aenv) aval {
	switch x := v.(type) {
	case *ssa.Const:
		if x.Value == nil {
			if isBasic(x.Type()) {
				return c09ZeroOf(x.Type())
			}
			return avNilV()
		}
		switch x.Value.Kind() {
		case constant.Bool:
			return avB(constant.BoolVal(x.Value))
		case constant.Int:
			if i, ok := constant.Int64Val(x.Value); ok {
				return avI(i)
			}
		case constant.String:
			return aval{K: avString, S: constant.StringVal(x.Value)}
		}
		return avU
	case *ssa.Parameter, *ssa.FreeVar, *ssa.Global:
		if it.oracle != nil {
			if r, ok := it.oracle(fn, v, nil); ok {
				return r
			}
		}
		return avU
	case *ssa.Alloc:
		return aval{K: avAddr, Obj: &aobj{Name: "alloc", Zero: true, Fields: map[*types.Var]aval{}}}
	case *ssa.FieldAddr:
		base := it.eval(fn, x.X, env)
		f := fieldOfAddr(x)
		switch base.K {
		case avObj:
			return aval{K: avAddr, Obj: base.Obj, Field: f}
		case avAddr:
			if base.Field == nil { // address of a fresh struct allocation
				return aval{K: avAddr, Obj: base.Obj, Field: f}
			}
		}
		return avU
	case *ssa.UnOp:
		switch x.Op {
		case token.NOT:
			if o := it.eval(fn, x.X, env); o.K == avBool {
				return avB(!o.B)
			}
		case token.SUB:
			if o := it.eval(fn, x.X, env); o.K == avInt {
				return avI(-o.I)
			}
		case token.MUL:
			addr := it.eval(fn, x.X, env)
			if addr.K != avAddr {
				return avU
			}
			if s, ok := env.stores[c09StoreKey{addr.Obj, addr.Field}]; ok {
				return s
			}
			if addr.Field != nil {
				if fv, ok := addr.Obj.Fields[addr.Field]; ok {
					return fv
				}
			}
			if addr.Obj.Zero {
				return c09ZeroOf(x.Type())
			}
		}
		return avU
	case *ssa.BinOp:
		return c09FoldBin(x.Op, it.eval(fn, x.X, env), it.eval(fn, x.Y, env))
	case *ssa.Phi:
		return avU // evaluated at block entry; a phi reached otherwise is unknown
	case *ssa.Convert:
		return it.eval(fn, x.X, env)
	case *ssa.ChangeType:
		return it.eval(fn, x.X, env)
	case *ssa.ChangeInterface:
		return it.eval(fn, x.X, env)
	case *ssa.MakeInterface:
		return it.eval(fn, x.X, env)
	case *ssa.Extract:
		t := it.eval(fn, x.Tuple, env)
		if t.K == avTuple && x.Index < len(t.Tup) {
			return t.Tup[x.Index]
		}
		return avU
	case *ssa.Call:
		var args []aval
		for _, a := range callArgs(x) {
			args = append(args, it.eval(fn, a, env))
		}
		if it.oracle != nil {
			if r, ok := it.oracle(fn, v, args); ok {
				return r
			}
		}
		return avU
	case *ssa.Lookup, *ssa.TypeAssert, *ssa.Index, *ssa.Field, *ssa.IndexAddr, *ssa.Slice, *ssa.MakeMap, *ssa.MakeSlice, *ssa.MakeClosure, *ssa.Next, *ssa.Range:
		if it.oracle != nil {
			if r, ok := it.oracle(fn, v, nil); ok {
				return r
			}
		}
		return avU
	}
	return avU
}

func avEqual(a, b aval) bool {
	if a.K != b.K {
		return false
	}
	switch a.K {
	case avInt:
		return a.I == b.I
	case avBool:
		return a.B == b.B
	case avString:
		return a.S == b.S
	case avNil:
		return true
	case avObj:
		return a.Obj == b.Obj
	case avUnknown:
		return false
	}
	return false
}

func c09FoldBin(op token.Token, a, b aval) aval {
	switch {
	case a.K == avInt && b.K == avInt:
		switch op {
		case token.ADD:
			return avI(a.I + b.I)
		case token.SUB:
			return avI(a.I - b.I)
		case token.MUL:
			return avI(a.I * b.I)
		case token.AND:
			return avI(a.I & b.I)
		case token.OR:
			return avI(a.I | b.I)
		case token.XOR:
			return avI(a.I ^ b.I)
		case token.AND_NOT:
			return avI(a.I &^ b.I)
		case token.EQL:
			return avB(a.I == b.I)
		case token.NEQ:
			return avB(a.I != b.I)
		case token.LSS:
			return avB(a.I < b.I)
		case token.LEQ:
			return avB(a.I <= b.I)
		case token.GTR:
			return avB(a.I > b.I)
		case token.GEQ:
			return avB(a.I >= b.I)
		}
	case a.K == avBool && b.K == avBool:
		switch op {
		case token.EQL:
			return avB(a.B == b.B)
		case token.NEQ:
			return avB(a.B != b.B)
		case token.AND:
			return avB(a.B && b.B)
		case token.OR:
			return avB(a.B || b.B)
		}
	case a.K == avString && b.K == avString:
		switch op {
		case token.EQL:
			return avB(a.S == b.S)
		case token.NEQ:
			return avB(a.S != b.S)
		}
	case (a.K == avNil || a.K == avObj) && (b.K == avNil || b.K == avObj):
		eq := a.K == avNil && b.K == avNil || (a.K == avObj && b.K == avObj && a.Obj == b.Obj)
		if a.K == avObj && b.K == avObj && a.Obj != b.Obj {
			return avU
		}
		switch op {
		case token.EQL:
			return avB(eq)
		case token.NEQ:
			return avB(!eq)
		}
	}
	return avU
}

// ---------------------------------------------------------------------------
// Calling contexts: following same-module helpers (value, boolean and effect helpers)
//
// The rules of C09/C08/C14 look for checks, stores and calls "in function f". A behaviour-preserving
// refactoring may move any of them into an unexported helper (or inline one). The helpers below let a rule
// walk into static same-module callees with the callee's parameters mapped back to the call's arguments.

// cxDepth bounds helper following (DESIGN.md: inlining depth 4).
const cxDepth = 4

// cxFrame is a function in its calling context; up == nil for the anchored (top-level) function.
type cxFrame struct {
	fn   *ssa.Function
	call ssa.CallInstruction // the call in up.fn that entered fn
	up   *cxFrame
	kids map[ssa.CallInstruction]*cxFrame // frames entered from this one (canonical: one per call instruction)
}

func cxTop(fn *ssa.Function) *cxFrame { return &cxFrame{fn: fn} }

func (fr *cxFrame) depth() int {
	d := 0
	for f := fr; f.up != nil; f = f.up {
		d++
	}
	return d
}

func (fr *cxFrame) active(g *ssa.Function) bool {
	for f := fr; f != nil; f = f.up {
		if f.fn == g {
			return true
		}
	}
	return false
}

// cxHelper: g is a same-module function with a body that can be entered from fr (no recursion, bounded depth).
func (fr *cxFrame) cxHelper(g *ssa.Function) bool {
	if g == nil || g.Blocks == nil || fr.active(g) || fr.depth() >= cxDepth {
		return false
	}
	pk := fnPkg(g)
	return pk != nil && inModule(pk.Path())
}

// enter returns the frame of the static callee of call (nil when it cannot be followed).
func (fr *cxFrame) enter(call ssa.CallInstruction) *cxFrame {
	g := calleeFn(call)
	if !fr.cxHelper(g) {
		return nil
	}
	if len(callArgs(call)) != len(g.Params) {
		return nil
	}
	if k := fr.kids[call]; k != nil {
		return k
	}
	k := &cxFrame{fn: g, call: call, up: fr}
	if fr.kids == nil {
		fr.kids = map[ssa.CallInstruction]*cxFrame{}
	}
	fr.kids[call] = k
	return k
}

// cxVal is an SSA value in the frame it belongs to.
type cxVal struct {
	fr *cxFrame
	v  ssa.Value
}

// resolve maps (through conversions) a parameter of a helper to the argument of the call that entered it,
// repeatedly, and a free variable of a closure to its binding; everything else is returned unchanged.
func (fr *cxFrame) resolve(v ssa.Value) cxVal {
	cur := fr
	for i := 0; i < 16; i++ {
		v = stripConv(v)
		switch x := v.(type) {
		case *ssa.Parameter:
			if cur.up == nil || cur.call == nil {
				return cxVal{cur, v}
			}
			idx := -1
			for k, p := range cur.fn.Params {
				if p == x {
					idx = k
				}
			}
			args := callArgs(cur.call)
			if idx < 0 || idx >= len(args) {
				return cxVal{cur, v}
			}
			v, cur = args[idx], cur.up
			continue
		case *ssa.FreeVar:
			if cur.up == nil || cur.call == nil {
				return cxVal{cur, v}
			}
			mc, ok := cur.call.Common().Value.(*ssa.MakeClosure)
			if !ok {
				return cxVal{cur, v}
			}
			idx := -1
			for k, p := range cur.fn.FreeVars {
				if p == x {
					idx = k
				}
			}
			if idx < 0 || idx >= len(mc.Bindings) {
				return cxVal{cur, v}
			}
			v, cur = mc.Bindings[idx], cur.up
			continue
		}
		break
	}
	return cxVal{cur, v}
}

// cxOrigins: leaf origins of v as origins() computes them, continued through parameters (to the caller's
// arguments) and through the results of same-module value helpers (to the returned expressions). A call that
// keep() accepts is kept as a leaf and not entered.
func cxOrigins(fr *cxFrame, v ssa.Value, keep func(*cxFrame, ssa.CallInstruction) bool) []cxVal {
	return (*Prog)(nil).cxOriginsOK(fr, v, keep)
}

// cxOriginsOK is cxOrigins that, with a program at hand, ignores what a value helper returns next to a non-nil
// error (the zero value of an error return is not an origin of the value the caller goes on to use).
func (p *Prog) cxOriginsOK(fr *cxFrame, v ssa.Value, keep func(*cxFrame, ssa.CallInstruction) bool) []cxVal {
	var out []cxVal
	type key struct {
		fn *ssa.Function
		v  ssa.Value
	}
	seen := map[key]bool{}
	var walk func(fr *cxFrame, v ssa.Value, d int)
	walk = func(fr *cxFrame, v ssa.Value, d int) {
		if d > 24 {
			out = append(out, cxVal{fr, v})
			return
		}
		for _, o := range origins(fr.fn, v) {
			switch o.(type) {
			case *ssa.Parameter, *ssa.FreeVar:
				if r := fr.resolve(o); r.fr != fr {
					k := key{r.fr.fn, r.v}
					if !seen[k] {
						seen[k] = true
						walk(r.fr, r.v, d+1)
					}
					continue
				}
			}
			call, idx := originCall(o)
			if call != nil && (keep == nil || !keep(fr, call)) {
				if sub := fr.enter(call); sub != nil {
					rets := cxReturns(sub.fn)
					if p != nil {
						errRet := map[*ssa.Return]int{}
						for _, r := range p.returnsOf(sub.fn) {
							if r.Class == "error" && errRet[r.Ret] == 0 {
								errRet[r.Ret] = 1
							} else if r.Class != "error" {
								errRet[r.Ret] = 2
							}
						}
						var okRets []*ssa.Return
						for _, r := range rets {
							if errRet[r] != 1 {
								okRets = append(okRets, r)
							}
						}
						if len(okRets) > 0 {
							rets = okRets
						}
					}
					if len(rets) > 0 {
						for _, ret := range rets {
							if idx < len(ret.Results) {
								k := key{sub.fn, ret.Results[idx]}
								if !seen[k] {
									seen[k] = true
									walk(sub, ret.Results[idx], d+1)
								}
							}
						}
						continue
					}
				}
			}
			out = append(out, cxVal{fr, o})
		}
	}
	walk(fr, v, 0)
	return out
}

// cxReturns lists the Return instructions of fn.
func cxReturns(fn *ssa.Function) []*ssa.Return {
	var out []*ssa.Return
	for _, b := range fn.Blocks {
		if len(b.Instrs) > 0 {
			if r, ok := b.Instrs[len(b.Instrs)-1].(*ssa.Return); ok {
				out = append(out, r)
			}
		}
	}
	return out
}

// cxAtomFact classifies one branch-condition atom (in its frame): does the condition being true / false
// establish the fact the rule is looking for?
type cxAtomFact func(fr *cxFrame, a Atom) (onTrue, onFalse bool)

// cxValueFact: does boolean v being true (resp. false) establish the fact? It looks through negation,
// constants (vacuous), phis of booleans (every incoming value), parameters of helpers (the caller's argument)
// and calls of same-module boolean helpers (every return that may yield that result lies behind a fact edge
// inside the helper, or returns a value that itself establishes the fact).
func (p *Prog) cxValueFact(fr *cxFrame, v ssa.Value, atom cxAtomFact, depth int) (tImp, fImp bool) {
	return p.cxValueFactMemo(fr, v, atom, depth, map[ssa.Value]bool{})
}

func (p *Prog) cxValueFactMemo(fr *cxFrame, v ssa.Value, atom cxAtomFact, depth int, busy map[ssa.Value]bool) (tImp, fImp bool) {
	if v == nil || depth < 0 || busy[v] {
		return false, false
	}
	if u, ok := v.(*ssa.UnOp); ok && u.Op == token.NOT {
		f, t := p.cxValueFactMemo(fr, u.X, atom, depth, busy)
		return t, f
	}
	if k, ok := constBool(v); ok {
		return !k, k // the impossible outcome implies anything
	}
	if t, f := atom(fr, condAtom(v)); t || f {
		return t, f
	}
	switch x := v.(type) {
	case *ssa.Phi:
		busy[v] = true
		defer delete(busy, v)
		tImp, fImp = true, true
		var base *Cuts
		for i, e := range x.Edges {
			t, f := p.cxValueFactMemo(fr, e, atom, depth, busy)
			if !(t && f) && len(x.Block().Instrs) > 0 && i < len(x.Block().Preds) {
				// the incoming edge itself may lie behind an edge that establishes the fact
				// ("ok := a && b": the value false arrives over the a-false edge)
				if base == nil {
					base = cxBaseCuts(fr, atom)
				}
				if len(base.Edges) > 0 && findPath(entryPoint(fr.fn), Target{Instr: x.Block().Instrs[0], Pred: x.Block().Preds[i]}, base) == nil {
					t, f = true, true
				}
			}
			tImp, fImp = tImp && t, fImp && f
		}
		return tImp, fImp
	case *ssa.Parameter, *ssa.FreeVar:
		r := fr.resolve(v)
		if r.fr != fr || r.v != v {
			return p.cxValueFactMemo(r.fr, r.v, atom, depth, busy)
		}
	case *ssa.Call, *ssa.Extract:
		// the boolean result (result #idx of a tuple) of a same-module helper
		call, idx := originCall(v)
		cc, isCall := call.(*ssa.Call)
		if !isCall {
			return false, false
		}
		sub := fr.enter(cc)
		if sub == nil || depth == 0 || idx >= sub.fn.Signature.Results().Len() {
			return false, false
		}
		cuts := p.cxFactCuts(sub, atom, depth-1)
		tImp, fImp = true, true
		n := 0
		for _, ret := range cxReturns(sub.fn) {
			if idx >= len(ret.Results) {
				return false, false
			}
			type inc struct {
				val  ssa.Value
				pred *ssa.BasicBlock
			}
			incs := []inc{{ret.Results[idx], nil}}
			if phi, ok := ret.Results[idx].(*ssa.Phi); ok && phi.Block() == ret.Block() {
				incs = nil
				for i, e := range phi.Edges {
					incs = append(incs, inc{e, ret.Block().Preds[i]})
				}
			}
			for _, in := range incs {
				n++
				behind := findPath(entryPoint(sub.fn), Target{Instr: ret, Pred: in.pred}, cuts) == nil
				if behind {
					continue
				}
				t, f := p.cxValueFactMemo(sub, in.val, atom, depth-1, busy)
				tImp, fImp = tImp && t, fImp && f
			}
		}
		if n == 0 {
			return false, false
		}
		return tImp, fImp
	}
	return false, false
}

// cxBaseCuts: the edges of fr.fn on which the fact is established by the branch condition itself (no helper,
// no local boolean): used to decide whether a control-flow edge lies behind the fact.
func cxBaseCuts(fr *cxFrame, atom cxAtomFact) *Cuts {
	cuts := newCuts()
	for _, b := range fr.fn.Blocks {
		ifi := blockIf(b)
		if ifi == nil || len(b.Succs) != 2 {
			continue
		}
		neg := false
		v := ifi.Cond
		for {
			u, ok := v.(*ssa.UnOp)
			if !ok || u.Op != token.NOT {
				break
			}
			neg = !neg
			v = u.X
		}
		t, f := atom(fr, condAtom(v))
		if neg {
			t, f = f, t
		}
		if t {
			cuts.AddEdges(Edge{b, 0})
		}
		if f {
			cuts.AddEdges(Edge{b, 1})
		}
	}
	return cuts
}

// cxFactCuts returns the cut set of fr.fn for a fact: every branch edge on which the fact is established,
// directly, through a boolean helper, or through a local boolean (a phi in the branching block: the edge is
// cut only for the predecessors whose incoming value establishes the fact).
func (p *Prog) cxFactCuts(fr *cxFrame, atom cxAtomFact, depth int) *Cuts {
	cuts := newCuts()
	for _, b := range fr.fn.Blocks {
		ifi := blockIf(b)
		if ifi == nil || len(b.Succs) != 2 {
			continue
		}
		t, f := p.cxValueFact(fr, ifi.Cond, atom, depth)
		if t {
			cuts.AddEdges(Edge{b, 0})
		}
		if f {
			cuts.AddEdges(Edge{b, 1})
		}
		if t && f {
			continue
		}
		// per-predecessor facts of a boolean phi evaluated in this very block
		neg := false
		v := ifi.Cond
		for {
			u, ok := v.(*ssa.UnOp)
			if !ok || u.Op != token.NOT {
				break
			}
			neg = !neg
			v = u.X
		}
		phi, ok := v.(*ssa.Phi)
		if !ok || phi.Block() != b {
			continue
		}
		for i, e := range phi.Edges {
			if _, isC := constBool(e); isC {
				continue // findPath already prunes the branch a constant incoming value cannot take
			}
			ti, fi := p.cxValueFact(fr, e, atom, depth)
			if neg {
				ti, fi = fi, ti
			}
			if ti && !t {
				cuts.AddVia(b.Preds[i], Edge{b, 0})
			}
			if fi && !f {
				cuts.AddVia(b.Preds[i], Edge{b, 1})
			}
		}
	}
	return cuts
}

// cxCallsDeep enumerates the call instructions of fr.fn and, transitively, of the same-module helpers it
// calls (each in its own frame). enter decides whether a callee is walked into (after visit saw the call).
func cxCallsDeep(fr *cxFrame, enter func(*cxFrame, ssa.CallInstruction) bool, visit func(*cxFrame, ssa.CallInstruction)) {
	allInstrs(fr.fn, func(_ *ssa.BasicBlock, _ int, in ssa.Instruction) {
		call, ok := in.(ssa.CallInstruction)
		if !ok {
			return
		}
		visit(fr, call)
		if enter != nil && !enter(fr, call) {
			return
		}
		if sub := fr.enter(call); sub != nil {
			cxCallsDeep(sub, enter, visit)
		}
	})
}

// ---------------------------------------------------------------------------
// must-pass summaries (copy of interproc.go's satisfyingCuts with one more idiom)

// c09MustPassOnSuccess / c09SatisfyingCuts are p.mustPassOnSuccess / p.satisfyingCuts extended for
// "return hit(...)": a direct hit whose error result is not tested but only handed to the function's own
// return counts, because the function succeeds only if that call did.
func (p *Prog) c09MustPassOnSuccess(f *ssa.Function, hit func(ssa.Instruction) bool, depth int, active map[*ssa.Function]bool) bool {
	if f == nil || f.Blocks == nil || depth < 0 || active[f] {
		return false
	}
	active[f] = true
	defer delete(active, f)
	cuts := p.c09SatisfyingCuts(f, hit, depth, active)
	for _, t := range p.successTargets(f) {
		if findPath(entryPoint(f), t.Target(), cuts) != nil {
			return false
		}
	}
	return true
}

func c09OnlyReturned(v ssa.Value) bool {
	refs := v.Referrers()
	if refs == nil {
		return false
	}
	n := 0
	for _, r := range *refs {
		switch x := r.(type) {
		case *ssa.DebugRef:
		case *ssa.Return:
			n++
		case *ssa.Phi:
			if !c09OnlyReturned(x) {
				return false
			}
			n++
		default:
			return false
		}
	}
	return n > 0
}

func (p *Prog) c09SatisfyingCuts(f *ssa.Function, hit func(ssa.Instruction) bool, depth int, active map[*ssa.Function]bool) *Cuts {
	cuts := newCuts()
	if active == nil {
		active = map[*ssa.Function]bool{f: true}
	}
	allInstrs(f, func(_ *ssa.BasicBlock, _ int, in ssa.Instruction) {
		call, isCall := in.(ssa.CallInstruction)
		if hit(in) {
			if v, ok := in.(ssa.Value); ok {
				if succ, _, checked := callErrEdges(f, v); checked {
					cuts.AddEdges(succ...)
					return
				} else if es := errResults(v); len(es) > 0 {
					for _, e := range es {
						if !c09OnlyReturned(e) {
							return // error result dropped: the call does not count as "succeeded"
						}
					}
				}
			}
			cuts.AddInstrs(in)
			return
		}
		if !isCall {
			return
		}
		g := calleeFn(call)
		if g == nil || g.Blocks == nil || fnPkg(g) == nil || !inModule(fnPkg(g).Path()) {
			return
		}
		if _, isGo := in.(*ssa.Go); isGo {
			return
		}
		if !p.c09MustPassOnSuccess(g, hit, depth-1, active) {
			return
		}
		if _, isDefer := in.(*ssa.Defer); isDefer {
			cuts.AddInstrs(in)
			return
		}
		v := call.Value()
		if v != nil && len(errResults(v)) > 0 {
			if succ, _, checked := callErrEdges(f, v); checked {
				cuts.AddEdges(succ...)
			} else {
				cuts.AddInstrs(in)
			}
			return
		}
		cuts.AddInstrs(in)
	})
	return cuts
}

// ---------------------------------------------------------------------------
// path search through helpers

// cxPoint is a position in a calling context: before instruction idx of block b of frame fr.
type cxPoint struct {
	fr  *cxFrame
	b   *ssa.BasicBlock
	idx int
}

func cxEntry(fr *cxFrame) cxPoint { return cxPoint{fr, fr.fn.Blocks[0], 0} }

func cxAfter(fr *cxFrame, in ssa.Instruction) cxPoint {
	p := after(in)
	return cxPoint{fr, p.Block, p.Idx}
}

// cxSearch is findPath over the control flow of a function with the same-module helpers it calls spliced in
// (one frame per call instruction, bounded depth, no recursion): a call that expand accepts is followed into
// the callee's entry, and the callee's returns continue after the call. Cuts and the target are predicates over
// (frame, edge / instruction), so that a fact about a helper's parameter can be decided from the caller's argument.
type cxSearch struct {
	expand   func(fr *cxFrame, call ssa.CallInstruction) bool                // nil = every enterable helper
	cutEdge  func(fr *cxFrame, e Edge) bool                                  // may be nil
	cutVia   func(fr *cxFrame, pred *ssa.BasicBlock, e Edge) bool            // may be nil
	cutInstr func(fr *cxFrame, in ssa.Instruction) bool                      // may be nil
	target   func(fr *cxFrame, in ssa.Instruction, via *ssa.BasicBlock) bool // required
	// errRet classifies a helper's return as an error return (optional): the caller is then continued only along
	// the side on which the call failed.
	errRet func(fn *ssa.Function, ret *ssa.Return, via *ssa.BasicBlock) bool
}

// cxErrOperand: the error-typed result operand of ret (the last one), or nil.
func cxErrOperand(fn *ssa.Function, ret *ssa.Return) ssa.Value {
	for i := len(ret.Results) - 1; i >= 0; i-- {
		if isErrorType(ret.Results[i].Type()) {
			return ret.Results[i]
		}
	}
	return nil
}

// cxIsErrOf: v is the error result of call (the call itself, or an Extract of it).
func cxIsErrOf(v ssa.Value, call ssa.CallInstruction) bool {
	if call == nil || call.Value() == nil || v == nil {
		return false
	}
	for _, e := range errResults(call.Value()) {
		if e == v {
			return true
		}
	}
	return false
}

type cxNode struct {
	fr  *cxFrame
	b   *ssa.BasicBlock
	idx int
	via *ssa.BasicBlock
	// failed: the call of this block (in fr) that the path left through an error return: its error result is
	// non-nil, so the nil side of a test of it is not taken and a return handing it on is an error return
	failed ssa.CallInstruction
}

// find returns the blocks of a path from start to an instruction the target accepts that passes no cut, or nil.
func (s *cxSearch) find(start cxPoint) []*ssa.BasicBlock {
	parent := map[cxNode]cxNode{}
	seen := map[cxNode]bool{}
	root := cxNode{fr: start.fr, b: start.b, idx: start.idx}
	seen[root] = true
	queue := []cxNode{root}
	build := func(n cxNode) []*ssa.BasicBlock {
		var path []*ssa.BasicBlock
		for cur := n; ; {
			if len(path) == 0 || path[len(path)-1] != cur.b {
				path = append(path, cur.b)
			}
			if cur == root {
				break
			}
			nx, ok := parent[cur]
			if !ok {
				break
			}
			cur = nx
		}
		for i, j := 0, len(path)-1; i < j; i, j = i+1, j-1 {
			path[i], path[j] = path[j], path[i]
		}
		return path
	}
	push := func(from, to cxNode) {
		if seen[to] {
			return
		}
		seen[to] = true
		parent[to] = from
		queue = append(queue, to)
	}
	steps := 0
	for len(queue) > 0 {
		n := queue[0]
		queue = queue[1:]
		if steps++; steps > 200000 {
			return build(n) // give up: report what was reached (fail closed)
		}
		stopped := false
		for i := n.idx; i < len(n.b.Instrs) && !stopped; i++ {
			in := n.b.Instrs[i]
			if ret, isRet := in.(*ssa.Return); isRet {
				// leaving through an error return: this return hands on the error of a call known to have
				// failed, or the rule classifies it as one
				isErr := n.failed != nil && cxIsErrOf(cxErrOperand(n.fr.fn, ret), n.failed)
				if phi, ok := cxErrOperand(n.fr.fn, ret).(*ssa.Phi); ok && n.failed != nil && n.via != nil && phi.Block() == n.b {
					for k, p := range n.b.Preds {
						if p == n.via && cxIsErrOf(phi.Edges[k], n.failed) {
							isErr = true
						}
					}
				}
				if !isErr && s.errRet != nil && s.errRet(n.fr.fn, ret, n.via) {
					isErr = true
				}
				if isErr {
					stopped = true
					if n.fr.up != nil && n.fr.call != nil {
						p := after(n.fr.call)
						push(n, cxNode{fr: n.fr.up, b: p.Block, idx: p.Idx, failed: n.fr.call})
					}
					break
				}
			}
			if s.target(n.fr, in, n.via) {
				return build(n)
			}
			if s.cutInstr != nil && s.cutInstr(n.fr, in) {
				stopped = true
				break
			}
			switch x := in.(type) {
			case *ssa.Call:
				if s.expand != nil && !s.expand(n.fr, x) {
					continue
				}
				if sub := n.fr.enter(x); sub != nil {
					push(n, cxNode{fr: sub, b: sub.fn.Blocks[0]})
					stopped = true
				}
			case *ssa.Return:
				stopped = true
				if n.fr.up != nil && n.fr.call != nil {
					p := after(n.fr.call)
					push(n, cxNode{fr: n.fr.up, b: p.Block, idx: p.Idx})
				}
			case *ssa.Panic:
				stopped = true
			}
		}
		if stopped {
			continue
		}
		// the side of a test of the failed call's error on which it is nil is not taken
		deadSucc := -1
		if n.failed != nil {
			if ifi := blockIf(n.b); ifi != nil {
				a := condAtom(ifi.Cond)
				if a.Op == token.EQL || a.Op == token.NEQ {
					var ev ssa.Value
					if isNilConst(a.Y) {
						ev = a.X
					} else if isNilConst(a.X) {
						ev = a.Y
					}
					if cxIsErrOf(ev, n.failed) {
						nilOnTrue := a.Op == token.EQL
						if a.Neg {
							nilOnTrue = !nilOnTrue
						}
						if nilOnTrue {
							deadSucc = 0
						} else {
							deadSucc = 1
						}
					}
				}
			}
		}
		// a branch on a boolean phi of this very block is decided by the edge we came in through when that
		// incoming value is a constant
		forced := -1
		if n.via != nil {
			if ifi := blockIf(n.b); ifi != nil {
				a := condAtom(ifi.Cond)
				if phi, ok := a.X.(*ssa.Phi); ok && a.Op == token.ILLEGAL && phi.Block() == n.b {
					for i, p := range n.b.Preds {
						if p != n.via {
							continue
						}
						if bv, isC := constBool(phi.Edges[i]); isC {
							if a.Neg {
								bv = !bv
							}
							if bv {
								forced = 0
							} else {
								forced = 1
							}
						}
					}
				}
			}
		}
		for i, sx := range n.b.Succs {
			if forced >= 0 && i != forced && len(n.b.Succs) == 2 {
				continue
			}
			if i == deadSucc && len(n.b.Succs) == 2 {
				continue
			}
			e := Edge{n.b, i}
			if s.cutEdge != nil && s.cutEdge(n.fr, e) {
				continue
			}
			if s.cutVia != nil && n.via != nil && s.cutVia(n.fr, n.via, e) {
				continue
			}
			push(n, cxNode{fr: n.fr, b: sx, via: n.b})
		}
	}
	return nil
}
