package main

// Helpers for the session rules (C06, C07, C16). Names are prefixed c06.
//
//   - c06FindPath: the engine's cut-edge reachability made sensitive to *flag variables*:
//     a branch on a boolean whose value is decided by the edge the path arrived on (phi of
//     constants, a boolean already tested by a dominating branch, a local boolean merged in an
//     earlier block whose incoming edge the path remembers, a boolean parameter that is a
//     constant at the call site under analysis) only follows the decided successor. This is what
//     lets "if ok && !usable(entry) { ok = false }; if !ok { refuse }" and
//     "resumable := ok && usable(entry); ...; if !resumable { refuse }" be read as a refusal.
//   - views (c06View): virtual inlining of same-package helpers, so that every rule finds a
//     test / store / call where a contributor has moved it (see the section comment below):
//     frame-aware provenance (Origins, Same, Prov), effect enumeration (Calls, Sets,
//     StoresToField), path facts lifted through boolean / error-returning / effect helpers
//     (c06Fact, Cuts, Summary, MustPassTo, EscapesFrom, c06Reach), who-may tables that accept
//     private helpers of the allowed functions (c06WhoMay).
//   - c06MustDepend: copy of ssahelp.go's mustDepend in which a call that is handed a local
//     buffer also makes the buffer depend on the call itself (rand.Read(buf)).
//   - small provenance helpers for ClassAd attribute lookups / Set calls.

import (
	"fmt"
	"go/token"
	"go/types"
	"sort"
	"time"

	"golang.org/x/tools/go/ssa"
)

// c06Timed wraps a rule so that its analysis time is recorded in the evidence notes.
func c06Timed(id string, fn ruleFn) ruleFn {
	return func(c *Ctx) {
		t0 := time.Now()
		defer func() { c.Note("%s: analysis time %.2fs (%s)", id, time.Since(t0).Seconds(), c.Config) }()
		fn(c)
	}
}

const c06ClassAdPkg = "github.com/PelicanPlatform/classad/classad"

// ---------------------------------------------------------------------------
// flag-sensitive path search

type c06Pruner struct {
	fn    *ssa.Function
	ifsOn map[ssa.Value][]c06BoolIf // boolean value -> branches testing it
	dom   map[[3]int]bool           // memo of edgeDominates(edge{from,succ}, block)
	domOk map[[3]int]bool
	// tracked: local booleans (phis) that are branched on outside the block that merges them, or feed such a
	// phi; the path search remembers through which predecessor it last entered their block
	// ("usable := ok && good(x); if verbose {…}; if !usable {…}": at the last test the search still knows
	// which operand usable carries).
	tracked  []*ssa.Phi
	trackIdx map[*ssa.Phi]int
	// phiCuts: per cut set, branch edges that are cut only for paths on which a tracked phi took a given operand
	phiCuts map[*Cuts]map[c06PhiCut]bool
	// paramConst: boolean parameters with a value fixed by the call site this pruner is used for
	paramConst map[ssa.Value]bool
}

// c06PhiCut: successor Succ of block From (a branch on Phi, merged elsewhere) is cut for paths that last
// entered Phi's block through its predecessor #Pred.
type c06PhiCut struct {
	Phi  *ssa.Phi
	Pred int
	From *ssa.BasicBlock
	Succ int
}

type c06BoolIf struct {
	blk *ssa.BasicBlock
	neg bool
}

func c06NewPruner(fn *ssa.Function) *c06Pruner {
	p := &c06Pruner{fn: fn, ifsOn: map[ssa.Value][]c06BoolIf{}, dom: map[[3]int]bool{}, domOk: map[[3]int]bool{},
		trackIdx: map[*ssa.Phi]int{}, phiCuts: map[*Cuts]map[c06PhiCut]bool{}}
	track := func(phi *ssa.Phi) bool {
		if _, ok := p.trackIdx[phi]; ok || len(p.tracked) >= 6 {
			return false
		}
		p.trackIdx[phi] = len(p.tracked)
		p.tracked = append(p.tracked, phi)
		return true
	}
	for _, b := range fn.Blocks {
		ifi := blockIf(b)
		if ifi == nil {
			continue
		}
		a := condAtom(ifi.Cond)
		if a.Op == token.ILLEGAL && a.X != nil {
			p.ifsOn[a.X] = append(p.ifsOn[a.X], c06BoolIf{b, a.Neg})
			if phi, ok := a.X.(*ssa.Phi); ok && phi.Block() != b {
				track(phi)
			}
		}
	}
	for i := 0; i < len(p.tracked); i++ {
		for _, e := range p.tracked[i].Edges {
			for {
				u, ok := e.(*ssa.UnOp)
				if !ok || u.Op != token.NOT {
					break
				}
				e = u.X
			}
			if phi, ok := e.(*ssa.Phi); ok {
				track(phi)
			}
		}
	}
	return p
}

// AddPhiCut registers a conditional cut with the cut set cuts.
func (p *c06Pruner) AddPhiCut(cuts *Cuts, pc c06PhiCut) {
	m := p.phiCuts[cuts]
	if m == nil {
		m = map[c06PhiCut]bool{}
		p.phiCuts[cuts] = m
	}
	m[pc] = true
}

func (p *c06Pruner) edgeDom(e Edge, b *ssa.BasicBlock) bool {
	k := [3]int{e.From.Index, e.Succ, b.Index}
	if p.domOk[k] {
		return p.dom[k]
	}
	r := edgeDominates(p.fn, e, b)
	p.domOk[k], p.dom[k] = true, r
	return r
}

// c06Env: for each tracked phi the index (+1) of the predecessor through which the path last entered its block (0: not yet).
type c06Env [6]int8

// valueAt: the value of boolean v for a path that has just arrived in block b from pred via.
// known=false when the path does not decide it.
func (p *c06Pruner) valueAt(v ssa.Value, b, via *ssa.BasicBlock, env c06Env, depth int) (val, known bool) {
	if depth > 6 {
		return false, false
	}
	if c, ok := constBool(v); ok {
		return c, true
	}
	if c, ok := p.paramConst[v]; ok {
		return c, true
	}
	if u, ok := v.(*ssa.UnOp); ok && u.Op == token.NOT {
		x, k := p.valueAt(u.X, b, via, env, depth+1)
		return !x, k
	}
	if phi, ok := v.(*ssa.Phi); ok && phi.Block() == b && via != nil {
		for i, pr := range b.Preds {
			if pr == via {
				// the operand is evaluated at the end of via, arriving along via->b
				return p.operandAt(phi.Edges[i], via, b, env, depth+1)
			}
		}
		return false, false
	}
	if phi, ok := v.(*ssa.Phi); ok {
		if j, tr := p.trackIdx[phi]; tr && env[j] > 0 {
			k := int(env[j]) - 1
			if k < len(phi.Edges) && k < len(phi.Block().Preds) {
				if val, known := p.operandAt(phi.Edges[k], phi.Block().Preds[k], phi.Block(), env, depth+1); known {
					return val, true
				}
			}
		}
	}
	// a value computed in b itself is computed anew on this arrival (loop headers: "ok := next(it); if ok"):
	// an earlier branch on it says nothing
	if in, ok := v.(ssa.Instruction); ok && in.Block() == b {
		return false, false
	}
	// a value defined elsewhere: decided if a branch on it dominates b, or is the edge just taken
	return p.decidedBy(v, via, b)
}

// operandAt: value of boolean o at the end of block from, for the path continuing to block to.
func (p *c06Pruner) operandAt(o ssa.Value, from, to *ssa.BasicBlock, env c06Env, depth int) (bool, bool) {
	if depth > 6 {
		return false, false
	}
	if c, ok := constBool(o); ok {
		return c, true
	}
	if c, ok := p.paramConst[o]; ok {
		return c, true
	}
	if u, ok := o.(*ssa.UnOp); ok && u.Op == token.NOT {
		x, k := p.operandAt(u.X, from, to, env, depth+1)
		return !x, k
	}
	if phi, ok := o.(*ssa.Phi); ok && phi.Block() != to {
		if j, tr := p.trackIdx[phi]; tr && env[j] > 0 {
			k := int(env[j]) - 1
			if k < len(phi.Edges) && k < len(phi.Block().Preds) {
				if val, known := p.operandAt(phi.Edges[k], phi.Block().Preds[k], phi.Block(), env, depth+1); known {
					return val, true
				}
			}
		}
	}
	return p.decidedBy(o, from, to)
}

// decidedBy: some branch on v has an edge that is the edge from->to itself or dominates from.
func (p *c06Pruner) decidedBy(v ssa.Value, from, to *ssa.BasicBlock) (bool, bool) {
	for _, bi := range p.ifsOn[v] {
		if len(bi.blk.Succs) != 2 || bi.blk.Succs[0] == bi.blk.Succs[1] {
			continue
		}
		for succ := 0; succ < 2; succ++ {
			e := Edge{bi.blk, succ}
			val := succ == 0
			if bi.neg {
				val = !val
			}
			if from != nil && bi.blk == from && e.To() == to {
				return val, true
			}
			if from != nil && p.edgeDom(e, from) {
				return val, true
			}
		}
	}
	return false, false
}

// allowed reports whether a path that arrived in b from via (with phi history env) may continue along successor i.
func (p *c06Pruner) allowed(b, via *ssa.BasicBlock, env c06Env, i int) bool {
	ifi := blockIf(b)
	if ifi == nil || len(b.Succs) != 2 || b.Succs[0] == b.Succs[1] {
		return true
	}
	a := condAtom(ifi.Cond)
	if a.Op != token.ILLEGAL {
		return true
	}
	val, known := p.valueAt(a.X, b, via, env, 0)
	if !known {
		return true
	}
	if a.Neg {
		val = !val
	}
	if val {
		return i == 0
	}
	return i == 1
}

// enter: the phi history after stepping from block from into block to.
func (p *c06Pruner) enter(env c06Env, from, to *ssa.BasicBlock) c06Env {
	for j, phi := range p.tracked {
		if phi.Block() != to {
			continue
		}
		env[j] = 0
		for k, pr := range to.Preds {
			if pr == from {
				env[j] = int8(k + 1)
				break
			}
		}
	}
	return env
}

// c06FindPath is findPath over (block, predecessor, phi history) states with flag-variable pruning.
func c06FindPath(pr *c06Pruner, start Point, tg Target, cuts *Cuts) []*ssa.BasicBlock {
	return c06FindPathVia(pr, start, nil, tg, cuts)
}

// c06FindPathVia: as c06FindPath, for a path that entered start.Block from block via (the search then knows
// which incoming value a boolean phi of that block carries).
func c06FindPathVia(pr *c06Pruner, start Point, via *ssa.BasicBlock, tg Target, cuts *Cuts) []*ssa.BasicBlock {
	tb := tg.Instr.Block()
	tp := pointOf(tg.Instr)
	var phiCuts map[c06PhiCut]bool
	if cuts != nil {
		phiCuts = pr.phiCuts[cuts]
	}
	scan := func(b *ssa.BasicBlock, idx int) (hit, blocked bool) {
		for i := idx; i < len(b.Instrs); i++ {
			if b == tb && i == tp.Idx {
				return true, false
			}
			if cuts != nil && cuts.Instrs[b.Instrs[i]] {
				return false, true
			}
		}
		return false, false
	}
	type node struct {
		b, via *ssa.BasicBlock
		env    c06Env
	}
	parent := map[node]node{}
	seen := map[node]bool{}
	root := node{b: start.Block, via: via}
	if via != nil {
		root.env = pr.enter(root.env, via, start.Block)
	}
	var queue []node
	expand := func(n node) {
		var condPhi *ssa.Phi
		if len(phiCuts) > 0 {
			if ifi := blockIf(n.b); ifi != nil {
				if a := condAtom(ifi.Cond); a.Op == token.ILLEGAL {
					condPhi, _ = a.X.(*ssa.Phi)
				}
			}
		}
		for i, s := range n.b.Succs {
			if cuts != nil && cuts.Edges[Edge{n.b, i}] {
				continue
			}
			if cuts != nil && n.via != nil && cuts.Via[viaEdge{n.via, n.b, i}] {
				continue
			}
			if condPhi != nil {
				if j, tr := pr.trackIdx[condPhi]; tr && n.env[j] > 0 && phiCuts[c06PhiCut{condPhi, int(n.env[j]) - 1, n.b, i}] {
					continue
				}
			}
			if !pr.allowed(n.b, n.via, n.env, i) {
				continue
			}
			m := node{s, n.b, pr.enter(n.env, n.b, s)}
			if seen[m] {
				continue
			}
			seen[m] = true
			parent[m] = n
			queue = append(queue, m)
		}
	}
	build := func(n node) []*ssa.BasicBlock {
		var path []*ssa.BasicBlock
		for cur := n; ; {
			path = append(path, cur.b)
			if cur == root {
				break
			}
			nx, ok := parent[cur]
			if !ok {
				break
			}
			cur = nx
		}
		for i, j := 0, len(path)-1; i < j; i, j = i+1, j-1 {
			path[i], path[j] = path[j], path[i]
		}
		return path
	}
	hit, blocked := scan(start.Block, start.Idx)
	if hit && tg.Pred == nil {
		return []*ssa.BasicBlock{start.Block}
	}
	if hit {
		if _, isRet := tg.Instr.(*ssa.Return); isRet {
			return nil
		}
	}
	if !blocked {
		expand(root)
	}
	for len(queue) > 0 {
		n := queue[0]
		queue = queue[1:]
		hit, blocked := scan(n.b, 0)
		if hit && (tg.Pred == nil || tg.Pred == n.via) {
			return build(n)
		}
		if blocked {
			continue
		}
		if hit {
			if _, isRet := tg.Instr.(*ssa.Return); isRet {
				continue
			}
		}
		expand(n)
	}
	return nil
}

// c06SuccessTargets: successTargets minus "return fail(...)" exits, i.e. returns whose error operand is a
// result of a call to a module function/closure that never returns a nil error.
func (c *Ctx) c06SuccessTargets(fn *ssa.Function) []RetPoint {
	var out []RetPoint
	for _, r := range c.successTargets(fn) {
		if c.c06ErrFromNeverNil(fn, r) != nil {
			continue
		}
		out = append(out, r)
	}
	return out
}

// c06ErrFromNeverNil: if the error operand of r is the error result of a call to a module function that
// never returns nil, returns that callee.
func (c *Ctx) c06ErrFromNeverNil(fn *ssa.Function, r RetPoint) *ssa.Function {
	ev := c06ErrOperand(fn, r.Ret)
	if ev == nil {
		return nil
	}
	call, _ := originCall(ev)
	if call == nil {
		return nil
	}
	g := calleeFn(call)
	if g == nil || g.Blocks == nil || fnPkg(g) == nil || !inModule(fnPkg(g).Path()) {
		return nil
	}
	if c.neverNil(g, map[int]bool{}, 0) {
		return g
	}
	if cl, ok := call.(*ssa.Call); ok {
		if nn := callArgsNonNil(c.Prog, fn, cl, r.Ret.Block()); len(nn) > 0 && c.c06NeverNilGiven(g, nn) {
			return g
		}
	}
	return nil
}

// c06NeverNilGiven: g never returns a nil error when its error parameters listed in nonNil are non-nil: the
// returns behind a "param == nil" edge are not looked at ("if err == nil { return nil }" in a wrapper that
// annotates errors).
func (c *Ctx) c06NeverNilGiven(g *ssa.Function, nonNil map[int]bool) bool {
	cuts := newCuts()
	for i := range nonNil {
		if i < len(g.Params) {
			n, _ := nilEdges(g, g.Params[i])
			cuts.AddEdges(n...)
		}
	}
	n := 0
	for _, r := range c.returnsOf(g) {
		if findPath(entryPoint(g), r.Target(), cuts) == nil {
			continue
		}
		n++
		if r.Class == "error" {
			continue
		}
		ev := c06ErrOperand(g, r.Ret)
		if phi, ok := ev.(*ssa.Phi); ok && r.Pred != nil && phi.Block() == r.Ret.Block() {
			for i, p := range phi.Block().Preds {
				if p == r.Pred {
					ev = phi.Edges[i]
				}
			}
		}
		if par, ok := ev.(*ssa.Parameter); ok && nonNil[c06ParamIndex(g, par)] {
			continue
		}
		return false
	}
	return n > 0
}

func c06ErrOperand(fn *ssa.Function, ret *ssa.Return) ssa.Value {
	sig := fn.Signature
	for i := sig.Results().Len() - 1; i >= 0; i-- {
		if isErrorType(sig.Results().At(i).Type()) {
			return ret.Results[i]
		}
	}
	return nil
}

// c06RetVal returns the value a return statement yields for result i. Functions with defer spill
// their results into cells ("*t0 = v; rundefers; t = *t0; return t"): the value is then the last
// store to the cell in the return's own block.
func c06RetVal(ret *ssa.Return, i int) ssa.Value {
	v := ret.Results[i]
	ld, ok := v.(*ssa.UnOp)
	if !ok || ld.Op != token.MUL {
		return v
	}
	cell, ok := ld.X.(*ssa.Alloc)
	if !ok {
		return v
	}
	b := ret.Block()
	var last ssa.Value
	for _, in := range b.Instrs {
		if in == ssa.Instruction(ld) {
			break
		}
		if st, ok := in.(*ssa.Store); ok && st.Addr == cell {
			last = st.Val
		}
	}
	if last != nil {
		return last
	}
	return v
}

// c06BlockPos: the last valid source position in block b (its branch condition, usually).
func c06BlockPos(b *ssa.BasicBlock) token.Pos {
	for i := len(b.Instrs) - 1; i >= 0; i-- {
		if p := b.Instrs[i].Pos(); p.IsValid() {
			return p
		}
	}
	return token.NoPos
}

// c06LiveReturns lists the returns of fn reachable from its entry (drops the synthetic recover block).
func (c *Ctx) c06LiveReturns(fn *ssa.Function) []RetPoint {
	var out []RetPoint
	for _, r := range c.returnsOf(fn) {
		if reachableFromEntry(fn, r.Ret.Block()) {
			out = append(out, r)
		}
	}
	return out
}

// ---------------------------------------------------------------------------
// dependence with "the call fills the buffer"

func c06MustDepend(fn *ssa.Function, v ssa.Value, pred func(ssa.Value) bool) bool {
	memo := map[ssa.Value]int{}
	var writers map[ssa.Value][]ssa.Value
	buildWriters := func() {
		writers = map[ssa.Value][]ssa.Value{}
		allInstrs(fn, func(_ *ssa.BasicBlock, _ int, in ssa.Instruction) {
			switch x := in.(type) {
			case *ssa.Store:
				r := memRoot(x.Addr)
				if _, isFA := r.(*ssa.FieldAddr); !isFA {
					writers[r] = append(writers[r], x.Val)
				}
			case ssa.CallInstruction:
				args := callArgs(x)
				for i, a := range args {
					r := memRoot(a)
					switch r.(type) {
					case *ssa.Alloc, *ssa.MakeSlice:
						for j, o := range args {
							if j != i {
								writers[r] = append(writers[r], o)
							}
						}
						if cv := x.Value(); cv != nil {
							writers[r] = append(writers[r], cv)
						}
					}
				}
			}
		})
	}
	var walk func(v ssa.Value, d int) bool
	walk = func(v ssa.Value, d int) bool {
		if v == nil || d > 60 {
			return false
		}
		switch memo[v] {
		case 1, 3:
			return false
		case 2:
			return true
		}
		memo[v] = 1
		res := false
		if pred(v) {
			res = true
		} else if phi, ok := v.(*ssa.Phi); ok {
			res = true
			for _, e := range phi.Edges {
				if !walk(e, d+1) {
					res = false
					break
				}
			}
		} else {
			if in, ok := v.(ssa.Instruction); ok {
				if _, isMS := v.(*ssa.MakeSlice); !isMS {
					for _, op := range in.Operands(nil) {
						if *op != nil && walk(*op, d+1) {
							res = true
							break
						}
					}
				}
			}
			if !res {
				switch v.(type) {
				case *ssa.Alloc, *ssa.MakeSlice:
					if writers == nil {
						buildWriters()
					}
					for _, w := range writers[v] {
						if walk(w, d+1) {
							res = true
							break
						}
					}
				}
			}
		}
		if res {
			memo[v] = 2
		} else {
			memo[v] = 3
		}
		return res
	}
	return walk(v, 0)
}

// c06Fresh reports whether v depends on crypto/rand output, looking through module helpers
// (a helper is fresh if each of its non-error results' return operands depends on crypto/rand).
func (c *Ctx) c06Fresh(fn *ssa.Function, v ssa.Value, depth int, active map[*ssa.Function]bool) bool {
	return c06MustDepend(fn, v, func(x ssa.Value) bool {
		switch y := x.(type) {
		case *ssa.Global:
			return y.Pkg != nil && y.Pkg.Pkg.Path() == "crypto/rand"
		case *ssa.Call:
			if o := calleeObj(y); o != nil && o.Pkg() != nil && o.Pkg().Path() == "crypto/rand" {
				return true
			}
			g := calleeFn(y)
			if g == nil || g.Blocks == nil || depth <= 0 || active[g] || fnPkg(g) == nil || !inModule(fnPkg(g).Path()) {
				return false
			}
			active[g] = true
			defer delete(active, g)
			n := 0
			for _, b := range g.Blocks {
				if len(b.Instrs) == 0 {
					continue
				}
				ret, ok := b.Instrs[len(b.Instrs)-1].(*ssa.Return)
				if !ok || len(ret.Results) == 0 {
					continue
				}
				if ev := c06ErrOperand(g, ret); ev != nil && !isNilConst(ev) {
					continue // error exits carry no value
				}
				n++
				if !c.c06Fresh(g, ret.Results[0], depth-1, active) {
					return false
				}
			}
			return n > 0
		}
		return false
	})
}

// c06FreshX is c06Fresh for a value of a view: a parameter of a helper is as fresh as what the call site passes.
func (c *Ctx) c06FreshX(vw *c06View, fv c06FV) bool {
	if fv.V == nil || fv.F == nil {
		return false
	}
	if c.c06Fresh(fv.F.Fn, fv.V, 3, map[*ssa.Function]bool{}) {
		return true
	}
	return vw.MustDepend(fv, func(x c06FV) bool {
		if _, isPar := x.V.(*ssa.Parameter); isPar {
			return false // followed by MustDepend itself
		}
		if x.V == fv.V && x.F == fv.F {
			return false
		}
		switch x.V.(type) {
		case *ssa.Global, *ssa.Call:
			return c.c06Fresh(x.F.Fn, x.V, 3, map[*ssa.Function]bool{})
		}
		return false
	})
}

// ---------------------------------------------------------------------------
// ClassAd helpers

// c06CallOf: v is (an Extract of) a call to one of objs; returns the call.
func c06CallOf(v ssa.Value, objs ...types.Object) *ssa.Call {
	call, _ := originCall(v)
	cl, ok := call.(*ssa.Call)
	if !ok || cl == nil {
		return nil
	}
	o := calleeObj(cl)
	if o == nil {
		return nil
	}
	for _, t := range objs {
		if t != nil && types.Object(o) == t {
			return cl
		}
	}
	return nil
}

// c06FieldLoadOf: v is a load of field f; returns the base pointer.
func c06FieldLoadOf(v ssa.Value, f *types.Var) (ssa.Value, bool) {
	base, g, ok := fieldRead(stripConv(v))
	if ok && g == f {
		return base, true
	}
	return nil, false
}

// c06StoresToField lists the stores to field f in fn.
func c06StoresToField(fn *ssa.Function, f *types.Var) []*ssa.Store {
	var out []*ssa.Store
	allInstrs(fn, func(_ *ssa.BasicBlock, _ int, in ssa.Instruction) {
		if st, ok := in.(*ssa.Store); ok {
			if fa, ok := st.Addr.(*ssa.FieldAddr); ok && fieldOfAddr(fa) == f {
				out = append(out, st)
			}
		}
	})
	return out
}

// ---------------------------------------------------------------------------
// virtual inlining ("views")
//
// A rule that looks for a test / store / call "in function f" must also find it when a contributor has moved
// it into a helper (a boolean predicate, an error-returning step, a value-producing helper, a method that
// performs the store), has inlined an existing helper, or has materialised a condition in a local boolean.
// A c06View is the tree of function instances ("frames") obtained by expanding, from a root function, every
// static call to a function of the root's package (methods and closures included; never recursive; depth
// <= c06MaxDepth; the rule's own anchors are never expanded: a rule that asks for "a call of X" sees the call).
//   - values are (value, frame) pairs (c06FV): Origins follows parameters to the call's arguments, captured
//     variables to the enclosing function's cells and call results into the callee's returned expressions;
//   - effects are enumerated over all frames (Frames / Calls / Sets ...);
//   - path facts are described once (c06Fact: which condition, instruction or call outcome establishes the
//     fact) and lifted through helpers by summaries: the true (false) edge of "if helper(args)" establishes
//     the fact when every path inside the helper to a return that may yield true (false) passes it, the
//     nil-error (error) edge of an error-returning helper likewise, a call to a helper that passes the fact
//     on every path is itself a cut instruction; a branch on a local boolean phi is resolved per incoming edge.

const (
	c06MaxDepth  = 4
	c06MaxFrames = 600
)

// c06Frame is one function instance of the virtual inlining tree.
type c06Frame struct {
	Fn     *ssa.Function
	Call   ssa.CallInstruction // call site in Parent.Fn (nil for the root)
	Parent *c06Frame
	Depth  int
	view   *c06View
	kids   map[ssa.CallInstruction]*c06Frame
}

// c06FV is a value in a frame.
type c06FV struct {
	V ssa.Value
	F *c06Frame
}

// c06Site is a call instruction in a frame.
type c06Site struct {
	Call ssa.CallInstruction
	F    *c06Frame
}

func (s c06Site) Arg(i int) c06FV {
	a := callArgs(s.Call)
	if i < 0 || i >= len(a) {
		return c06FV{}
	}
	return c06FV{a[i], s.F}
}
func (s c06Site) NArgs() int { return len(callArgs(s.Call)) }
func (s c06Site) Pos() token.Pos {
	if s.Call == nil {
		return token.NoPos
	}
	return s.Call.Pos()
}

type c06SumKey struct {
	fr   *c06Frame
	fact *c06Fact
	mode int
	idx  int
}

type c06View struct {
	c       *Ctx
	Root    *c06Frame
	stop    map[*ssa.Function]bool
	n       int
	frames  []*c06Frame
	pruners map[*c06Frame]*c06Pruner
	cuts    map[c06SumKey]*Cuts
	sums    map[c06SumKey]bool
}

// c06NewView builds the view rooted at root; calls to the functions in stop are never expanded.
func (c *Ctx) c06NewView(root *ssa.Function, stop ...*ssa.Function) *c06View {
	vw := &c06View{c: c, stop: map[*ssa.Function]bool{}, pruners: map[*c06Frame]*c06Pruner{}, cuts: map[c06SumKey]*Cuts{}, sums: map[c06SumKey]bool{}}
	for _, s := range stop {
		if s != nil {
			vw.stop[s] = true
		}
	}
	vw.Root = &c06Frame{Fn: root, view: vw, kids: map[ssa.CallInstruction]*c06Frame{}}
	vw.n = 1
	return vw
}

func (vw *c06View) fv(v ssa.Value) c06FV { return c06FV{v, vw.Root} }

// pruner returns the path-search state of frame fr: the function's flag variables plus the boolean parameters
// whose value is a constant at this frame's call site ("lookup(id, false)": the branch on the flag is decided).
func (vw *c06View) pruner(fr *c06Frame) *c06Pruner {
	p := vw.pruners[fr]
	if p != nil {
		return p
	}
	p = c06NewPruner(fr.Fn)
	vw.pruners[fr] = p
	if fr.Parent != nil && fr.Call != nil {
		args := fr.Call.Common().Args
		for i, par := range fr.Fn.Params {
			if i < len(args) && c06IsBoolType(par.Type()) {
				if b, ok := vw.ConstBool(c06FV{args[i], fr.Parent}); ok {
					if p.paramConst == nil {
						p.paramConst = map[ssa.Value]bool{}
					}
					p.paramConst[par] = b
				}
			}
		}
	}
	return p
}

// expandable: a call from fr to g is looked into.
func (fr *c06Frame) expandable(g *ssa.Function) bool {
	if g == nil || g.Blocks == nil || fr.Depth >= c06MaxDepth || fr.view.stop[g] {
		return false
	}
	if pk := fnPkg(g); pk == nil || pk != fnPkg(fr.view.Root.Fn) {
		return false
	}
	for f := fr; f != nil; f = f.Parent {
		if f.Fn == g {
			return false
		}
	}
	return true
}

// child returns the frame of the callee of call (nil when the call is not expanded).
func (fr *c06Frame) child(call ssa.CallInstruction) *c06Frame {
	if call == nil {
		return nil
	}
	if k, ok := fr.kids[call]; ok {
		return k
	}
	if _, isGo := call.(*ssa.Go); isGo {
		return nil
	}
	g := calleeFn(call)
	if !fr.expandable(g) || fr.view.n >= c06MaxFrames {
		return nil
	}
	k := &c06Frame{Fn: g, Call: call, Parent: fr, Depth: fr.Depth + 1, view: fr.view, kids: map[ssa.CallInstruction]*c06Frame{}}
	fr.kids[call] = k
	fr.view.n++
	return k
}

// Frames lists the root and every frame reachable from it (breadth first).
func (vw *c06View) Frames() []*c06Frame {
	if vw.frames != nil {
		return vw.frames
	}
	out := []*c06Frame{vw.Root}
	for i := 0; i < len(out); i++ {
		fr := out[i]
		allInstrs(fr.Fn, func(_ *ssa.BasicBlock, _ int, in ssa.Instruction) {
			if cl, ok := in.(ssa.CallInstruction); ok {
				if k := fr.child(cl); k != nil {
					out = append(out, k)
				}
			}
		})
	}
	vw.frames = out
	return out
}

// EachInstr visits every instruction of every frame.
func (vw *c06View) EachInstr(f func(fr *c06Frame, in ssa.Instruction)) {
	for _, fr := range vw.Frames() {
		fr := fr
		allInstrs(fr.Fn, func(_ *ssa.BasicBlock, _ int, in ssa.Instruction) { f(fr, in) })
	}
}

// Calls lists the calls to any of objs in every frame.
func (vw *c06View) Calls(objs ...types.Object) []c06Site {
	var out []c06Site
	vw.EachInstr(func(fr *c06Frame, in ssa.Instruction) {
		if cl, ok := isCallTo(in, objs...); ok {
			out = append(out, c06Site{cl, fr})
		}
	})
	return out
}

// CallsIn lists the calls to any of objs in frame fr only.
func (fr *c06Frame) CallsIn(objs ...types.Object) []c06Site {
	var out []c06Site
	for _, cl := range callsIn(fr.Fn, objs...) {
		out = append(out, c06Site{cl, fr})
	}
	return out
}

func c06ParamIndex(fn *ssa.Function, p *ssa.Parameter) int {
	for i, q := range fn.Params {
		if q == p {
			return i
		}
	}
	return -1
}

// closureBinding: the value bound to free variable fv of the closure running in frame fr, as a value of
// the frame that called it (the closure must have been created in that frame's function).
func (fr *c06Frame) closureBinding(fv *ssa.FreeVar) (c06FV, bool) {
	if fr.Parent == nil || fr.Call == nil {
		return c06FV{}, false
	}
	mc, ok := fr.Call.Common().Value.(*ssa.MakeClosure)
	if !ok || mc.Fn != ssa.Value(fr.Fn) {
		return c06FV{}, false
	}
	for i, x := range fr.Fn.FreeVars {
		if x == fv && i < len(mc.Bindings) {
			return c06FV{mc.Bindings[i], fr.Parent}, true
		}
	}
	return c06FV{}, false
}

// Origins returns the leaf values fv may carry, across frames: parameters are followed to the arguments of
// the frame's call site, loads of captured variables to the stores into the enclosing function's cell, and
// results of expanded calls to the callee's returned expressions.
func (vw *c06View) Origins(fv c06FV) []c06FV {
	seen := map[c06FV]bool{}
	var out []c06FV
	var walk func(x c06FV, d int)
	loadOf := func(addr c06FV, d int) bool { return false }
	loadOf = func(addr c06FV, d int) bool {
		switch a := addr.V.(type) {
		case *ssa.Alloc:
			n := 0
			for _, r := range *a.Referrers() {
				if st, ok := r.(*ssa.Store); ok && st.Addr == ssa.Value(a) {
					n++
					walk(c06FV{st.Val, addr.F}, d+1)
				}
			}
			return n > 0
		case *ssa.FreeVar:
			if b, ok := addr.F.closureBinding(a); ok {
				return loadOf(b, d+1)
			}
		}
		return false
	}
	walk = func(x c06FV, d int) {
		if x.V == nil || x.F == nil || seen[x] {
			return
		}
		seen[x] = true
		if d > 80 {
			out = append(out, x)
			return
		}
		for _, l := range origins(x.F.Fn, x.V) {
			lf := c06FV{l, x.F}
			if l != x.V && seen[lf] {
				continue
			}
			seen[lf] = true
			switch y := l.(type) {
			case *ssa.Parameter:
				if x.F.Parent != nil {
					if i := c06ParamIndex(x.F.Fn, y); i >= 0 && i < len(x.F.Call.Common().Args) {
						walk(c06FV{x.F.Call.Common().Args[i], x.F.Parent}, d+1)
						continue
					}
				}
			case *ssa.UnOp:
				if y.Op == token.MUL {
					if fvar, ok := y.X.(*ssa.FreeVar); ok {
						if loadOf(c06FV{fvar, x.F}, d) {
							continue
						}
					}
				}
			case *ssa.Call, *ssa.Extract:
				call, idx := originCall(l)
				if call != nil {
					if k := x.F.child(call); k != nil {
						n := 0
						for _, ret := range vw.valueReturns(k.Fn, idx) {
							n++
							walk(c06FV{ret.Results[idx], k}, d+1)
						}
						if n > 0 {
							continue
						}
					}
				}
			}
			out = append(out, lf)
		}
	}
	walk(fv, 0)
	return out
}

// valueReturns: the returns of g whose result #idx is a value the caller uses: all live returns, minus (Go's
// conventions) the error exits of a (T, error) function and the "not found" exits (last result the constant
// false) of a (T, bool) function when idx is one of the other results - those hand back zero values that the
// caller never looks at.
func (vw *c06View) valueReturns(g *ssa.Function, idx int) []*ssa.Return {
	res := g.Signature.Results()
	ei := c06ErrIndex(g.Signature)
	errOnly := map[*ssa.Return]bool{}
	if ei >= 0 && ei != idx {
		cls := map[*ssa.Return][]string{}
		for _, r := range vw.c.returnsOf(g) {
			cls[r.Ret] = append(cls[r.Ret], r.Class)
		}
		for ret, cs := range cls {
			all := true
			for _, c := range cs {
				if c != "error" {
					all = false
				}
			}
			errOnly[ret] = all
		}
	}
	last := res.Len() - 1
	commaOk := last >= 1 && idx != last && c06IsBoolType(res.At(last).Type())
	var out []*ssa.Return
	for _, b := range g.Blocks {
		if len(b.Instrs) == 0 {
			continue
		}
		ret, ok := b.Instrs[len(b.Instrs)-1].(*ssa.Return)
		if !ok || idx >= len(ret.Results) || !reachableFromEntry(g, b) || errOnly[ret] {
			continue
		}
		if commaOk {
			if v, isC := constBool(c06RetVal(ret, last)); isC && !v {
				continue
			}
		}
		out = append(out, ret)
	}
	return out
}

// AllOrigins: every leaf origin of fv satisfies pred (and there is at least one).
func (vw *c06View) AllOrigins(fv c06FV, pred func(c06FV) bool) bool {
	os := vw.Origins(fv)
	if len(os) == 0 {
		return false
	}
	for _, o := range os {
		if !pred(o) {
			return false
		}
	}
	return true
}

// Same: a and b denote the same object (equal sets of leaf origins).
func (vw *c06View) Same(a, b c06FV) bool {
	if a == b {
		return a.V != nil
	}
	oa, ob := vw.Origins(a), vw.Origins(b)
	if len(oa) == 0 || len(ob) == 0 {
		return false
	}
	sa, sb := map[c06FV]bool{}, map[c06FV]bool{}
	for _, x := range oa {
		sa[x] = true
	}
	for _, y := range ob {
		sb[y] = true
		if !sa[y] {
			return false
		}
	}
	return len(sa) == len(sb)
}

// IsRootParam: every origin of fv is parameter #idx of the view's root function.
func (vw *c06View) IsRootParam(fv c06FV, idx int) bool {
	if idx >= len(vw.Root.Fn.Params) {
		return false
	}
	return vw.AllOrigins(fv, func(o c06FV) bool { return o.F == vw.Root && o.V == ssa.Value(vw.Root.Fn.Params[idx]) })
}

func (vw *c06View) ConstString(fv c06FV) (string, bool) {
	if s, ok := constString(fv.V); ok {
		return s, true
	}
	res, n := "", 0
	for _, o := range vw.Origins(fv) {
		s, ok := constString(o.V)
		if !ok || (n > 0 && s != res) {
			return "", false
		}
		res = s
		n++
	}
	return res, n > 0
}

func (vw *c06View) ConstBool(fv c06FV) (bool, bool) {
	if b, ok := constBool(fv.V); ok {
		return b, true
	}
	res, n := false, 0
	for _, o := range vw.Origins(fv) {
		b, ok := constBool(o.V)
		if !ok || (n > 0 && b != res) {
			return false, false
		}
		res = b
		n++
	}
	return res, n > 0
}

func (vw *c06View) ConstInt(fv c06FV) (int64, bool) {
	if i, ok := constInt(fv.V); ok {
		return i, true
	}
	var res int64
	n := 0
	for _, o := range vw.Origins(fv) {
		i, ok := constInt(o.V)
		if !ok || (n > 0 && i != res) {
			return 0, false
		}
		res = i
		n++
	}
	return res, n > 0
}

// CallOf: every origin of fv is (a result of) a call to one of objs; returns the first such call.
func (vw *c06View) CallOf(fv c06FV, objs ...types.Object) (c06Site, bool) {
	var first c06Site
	ok := vw.AllOrigins(fv, func(o c06FV) bool {
		cl := c06CallOf(o.V, objs...)
		if cl == nil {
			return false
		}
		if first.Call == nil {
			first = c06Site{cl, o.F}
		}
		return true
	})
	return first, ok && first.Call != nil
}

// c06SiteOf: leaf o is (a result of) a call to one of objs.
func c06SiteOf(o c06FV, objs ...types.Object) (c06Site, bool) {
	if cl := c06CallOf(o.V, objs...); cl != nil {
		return c06Site{cl, o.F}, true
	}
	return c06Site{}, false
}

// FieldLoad: leaf o is a load of field f; returns the base.
func c06XFieldLoad(o c06FV, f *types.Var) (c06FV, bool) {
	if base, ok := c06FieldLoadOf(o.V, f); ok {
		return c06FV{base, o.F}, true
	}
	return c06FV{}, false
}

// AttrLookup: leaf o is result #idx of ad.EvaluateAttrX(name) with a name that is constant across frames.
func (vw *c06View) AttrLookup(o c06FV) (site c06Site, ad c06FV, name string, idx int, ok bool) {
	ex, isEx := o.V.(*ssa.Extract)
	if !isEx {
		return
	}
	cl, isCall := ex.Tuple.(*ssa.Call)
	if !isCall {
		return
	}
	obj := calleeObj(cl)
	if obj == nil || obj.Pkg() == nil || obj.Pkg().Path() != c06ClassAdPkg {
		return
	}
	switch obj.Name() {
	case "EvaluateAttrString", "EvaluateAttrBool", "EvaluateAttrInt", "EvaluateAttrNumber", "EvaluateAttrReal":
	default:
		return
	}
	args := callArgs(cl)
	if len(args) < 2 {
		return
	}
	n, isC := vw.ConstString(c06FV{args[1], o.F})
	if !isC {
		return
	}
	return c06Site{cl, o.F}, c06FV{args[0], o.F}, n, ex.Index, true
}

// c06XSet is an ad.Set(name, value) call in some frame.
type c06XSet struct {
	Site c06Site
	Ad   c06FV
	Name string // "" when not constant
	Val  c06FV
}

// Sets lists the ClassAd Set calls of every frame.
func (vw *c06View) Sets() []c06XSet {
	var out []c06XSet
	vw.EachInstr(func(fr *c06Frame, in ssa.Instruction) {
		cl, ok := in.(ssa.CallInstruction)
		if !ok {
			return
		}
		o := calleeObj(cl)
		if o == nil || o.Pkg() == nil || o.Pkg().Path() != c06ClassAdPkg || o.Name() != "Set" {
			return
		}
		args := callArgs(cl)
		if len(args) < 3 {
			return
		}
		n, _ := vw.ConstString(c06FV{args[1], fr})
		out = append(out, c06XSet{c06Site{cl, fr}, c06FV{args[0], fr}, n, c06FV{args[2], fr}})
	})
	return out
}

// StoresToField lists the stores to field f in every frame.
type c06XStore struct {
	St *ssa.Store
	F  *c06Frame
}

func (s c06XStore) Val() c06FV { return c06FV{s.St.Val, s.F} }
func (s c06XStore) Base() c06FV {
	return c06FV{s.St.Addr.(*ssa.FieldAddr).X, s.F}
}

func (vw *c06View) StoresToField(f *types.Var) []c06XStore {
	var out []c06XStore
	for _, fr := range vw.Frames() {
		for _, st := range c06StoresToField(fr.Fn, f) {
			out = append(out, c06XStore{st, fr})
		}
	}
	return out
}

// MustDepend is mustDepend across frames: a parameter of a helper depends on what the call site passes.
func (vw *c06View) MustDepend(fv c06FV, pred func(c06FV) bool) bool {
	return vw.mustDepend(fv, pred, 0)
}

func (vw *c06View) mustDepend(fv c06FV, pred func(c06FV) bool, d int) bool {
	if d > 2*c06MaxDepth || fv.V == nil {
		return false
	}
	return c06MustDepend(fv.F.Fn, fv.V, func(x ssa.Value) bool {
		if pred(c06FV{x, fv.F}) {
			return true
		}
		switch y := x.(type) {
		case *ssa.Parameter:
			if fv.F.Parent != nil {
				if i := c06ParamIndex(fv.F.Fn, y); i >= 0 && i < len(fv.F.Call.Common().Args) {
					return vw.mustDepend(c06FV{fv.F.Call.Common().Args[i], fv.F.Parent}, pred, d+1)
				}
			}
		case *ssa.FreeVar:
			if b, ok := fv.F.closureBinding(y); ok {
				return vw.mustDepend(b, pred, d+1)
			}
		}
		return false
	})
}

// ---------------------------------------------------------------------------
// facts

// c06Fact says what establishes a path fact inside one function instance; the view lifts it through helpers.
type c06Fact struct {
	Name string
	// Cond: does the negation-free condition at (at.Op==ILLEGAL: the plain boolean at.X) being true / false establish the fact?
	Cond func(fr *c06Frame, at Atom) (onTrue, onFalse bool)
	// Instr: executing this instruction establishes the fact.
	Instr func(fr *c06Frame, in ssa.Instruction) bool
	// CallOK / CallFail: the nil-error / non-nil-error outcome of this call establishes the fact
	// (for a call without error result CallOK means the call itself).
	CallOK, CallFail func(fr *c06Frame, call ssa.CallInstruction) bool
	// Edges: further edges of fr.Fn that establish the fact.
	Edges func(fr *c06Frame) []Edge
}

// c06AnyOf is the disjunction of facts.
func c06AnyOf(name string, fs ...*c06Fact) *c06Fact {
	return &c06Fact{
		Name: name,
		Cond: func(fr *c06Frame, at Atom) (t, f bool) {
			for _, x := range fs {
				if x.Cond != nil {
					a, b := x.Cond(fr, at)
					t, f = t || a, f || b
				}
			}
			return
		},
		Instr: func(fr *c06Frame, in ssa.Instruction) bool {
			for _, x := range fs {
				if x.Instr != nil && x.Instr(fr, in) {
					return true
				}
			}
			return false
		},
		CallOK: func(fr *c06Frame, cl ssa.CallInstruction) bool {
			for _, x := range fs {
				if x.CallOK != nil && x.CallOK(fr, cl) {
					return true
				}
			}
			return false
		},
		CallFail: func(fr *c06Frame, cl ssa.CallInstruction) bool {
			for _, x := range fs {
				if x.CallFail != nil && x.CallFail(fr, cl) {
					return true
				}
			}
			return false
		},
		Edges: func(fr *c06Frame) []Edge {
			var out []Edge
			for _, x := range fs {
				if x.Edges != nil {
					out = append(out, x.Edges(fr)...)
				}
			}
			return out
		},
	}
}

const (
	c06ModeAny = iota
	c06ModeErrNil
	c06ModeErrNonNil
	c06ModeTrue
	c06ModeFalse
)

func c06IsBoolType(t types.Type) bool {
	b, ok := t.Underlying().(*types.Basic)
	return ok && b.Kind() == types.Bool
}

func c06ErrIndex(sig *types.Signature) int {
	for i := sig.Results().Len() - 1; i >= 0; i-- {
		if isErrorType(sig.Results().At(i).Type()) {
			return i
		}
	}
	return -1
}

// evalValue: does the boolean v being true / false establish the fact (at the place where it is evaluated)?
func (vw *c06View) evalValue(fr *c06Frame, f *c06Fact, v ssa.Value, d int) (onTrue, onFalse bool) {
	if v == nil || d > 8 {
		return false, false
	}
	at := condAtom(v)
	t, fl := vw.evalAtom(fr, f, at, d)
	if at.Neg {
		t, fl = fl, t
	}
	return t, fl
}

func (vw *c06View) evalAtom(fr *c06Frame, f *c06Fact, at Atom, d int) (onTrue, onFalse bool) {
	if f.Cond != nil {
		if t, fl := f.Cond(fr, at); t || fl {
			return t, fl
		}
	}
	if at.Op != token.ILLEGAL || at.X == nil {
		return false, false
	}
	switch x := at.X.(type) {
	case *ssa.Call, *ssa.Extract:
		call, idx := originCall(x)
		if call == nil {
			return false, false
		}
		k := fr.child(call)
		if k == nil {
			return false, false
		}
		res := k.Fn.Signature.Results()
		if idx >= res.Len() || !c06IsBoolType(res.At(idx).Type()) {
			return false, false
		}
		return vw.Summary(k, f, c06ModeTrue, idx), vw.Summary(k, f, c06ModeFalse, idx)
	case *ssa.Phi:
		// value-level: every incoming value that can be true (false) establishes the fact when it is
		t, fl := true, true
		for _, e := range x.Edges {
			if cv, isC := constBool(e); isC {
				if cv {
					t = false
				} else {
					fl = false
				}
				continue
			}
			a, b := vw.evalValue(fr, f, e, d+1)
			t, fl = t && a, fl && b
		}
		return t, fl
	}
	return false, false
}

// Cuts: the edges and instructions of fr.Fn that establish fact f, directly or through helpers.
func (vw *c06View) Cuts(fr *c06Frame, f *c06Fact) *Cuts {
	key := c06SumKey{fr: fr, fact: f}
	if c, ok := vw.cuts[key]; ok {
		return c
	}
	cuts := newCuts()
	vw.cuts[key] = cuts
	fn := fr.Fn
	if f.Edges != nil {
		cuts.AddEdges(f.Edges(fr)...)
	}
	allInstrs(fn, func(_ *ssa.BasicBlock, _ int, in ssa.Instruction) {
		if f.Instr != nil && f.Instr(fr, in) {
			cuts.AddInstrs(in)
			return
		}
		call, ok := in.(ssa.CallInstruction)
		if !ok {
			return
		}
		if _, isGo := in.(*ssa.Go); isGo {
			return
		}
		_, isDefer := in.(*ssa.Defer)
		okHit := f.CallOK != nil && f.CallOK(fr, call)
		failHit := f.CallFail != nil && f.CallFail(fr, call)
		if okHit || failHit {
			v := call.Value()
			if v == nil || len(errResults(v)) == 0 {
				if okHit {
					cuts.AddInstrs(in)
				}
				return
			}
			succ, fail, checked := callErrEdges(fn, v)
			if okHit && failHit && !checked {
				cuts.AddInstrs(in)
				return
			}
			if okHit {
				cuts.AddEdges(succ...)
			}
			if failHit {
				cuts.AddEdges(fail...)
			}
			return
		}
		k := fr.child(call)
		if k == nil {
			return
		}
		if vw.Summary(k, f, c06ModeAny, 0) {
			cuts.AddInstrs(in)
			return
		}
		if isDefer {
			return
		}
		v := call.Value()
		if v == nil {
			return
		}
		if c06ErrIndex(k.Fn.Signature) >= 0 {
			succ, fail, checked := callErrEdges(fn, v)
			if checked {
				if vw.Summary(k, f, c06ModeErrNil, 0) {
					cuts.AddEdges(succ...)
				}
				if vw.Summary(k, f, c06ModeErrNonNil, 0) {
					cuts.AddEdges(fail...)
				}
			}
		}
	})
	for _, b := range fn.Blocks {
		ifi := blockIf(b)
		if ifi == nil || len(b.Succs) != 2 {
			continue
		}
		at := condAtom(ifi.Cond)
		te, fe := Edge{b, 0}, Edge{b, 1}
		if at.Neg {
			te, fe = fe, te
		}
		// a local boolean merged in this very block: per incoming edge
		if phi, ok := at.X.(*ssa.Phi); ok && at.Op == token.ILLEGAL && phi.Block() == b {
			if f.Cond != nil {
				if t, fl := f.Cond(fr, at); t || fl {
					if t {
						cuts.AddEdges(te)
					}
					if fl {
						cuts.AddEdges(fe)
					}
					continue
				}
			}
			for i, e := range phi.Edges {
				if _, isC := constBool(e); isC || i >= len(b.Preds) {
					continue // the path search prunes the infeasible successor itself
				}
				t, fl := vw.evalValue(fr, f, e, 0)
				if t {
					cuts.AddVia(b.Preds[i], te)
				}
				if fl {
					cuts.AddVia(b.Preds[i], fe)
				}
			}
			continue
		}
		t, fl := vw.evalAtom(fr, f, at, 0)
		if t {
			cuts.AddEdges(te)
		}
		if fl {
			cuts.AddEdges(fe)
		}
		// a local boolean merged in another block: per operand, for paths that remember which one was taken
		if phi, ok := at.X.(*ssa.Phi); ok && at.Op == token.ILLEGAL && phi.Block() != b && !(t && fl) {
			pr := vw.pruner(fr)
			if _, tracked := pr.trackIdx[phi]; tracked {
				for i, e := range phi.Edges {
					if _, isC := constBool(e); isC {
						continue
					}
					et, ef := vw.evalValue(fr, f, e, 0)
					if et && !t {
						pr.AddPhiCut(cuts, c06PhiCut{phi, i, b, te.Succ})
					}
					if ef && !fl {
						pr.AddPhiCut(cuts, c06PhiCut{phi, i, b, fe.Succ})
					}
				}
			}
		}
	}
	return cuts
}

// CutCount: the number of edges / instructions of fr.Fn that establish f.
func (vw *c06View) CutCount(fr *c06Frame, f *c06Fact) int {
	cuts := vw.Cuts(fr, f)
	return len(cuts.Edges) + len(cuts.Instrs) + len(cuts.Via) + len(vw.pruner(fr).phiCuts[cuts])
}

// retEstablishes: the return rp hands back, as its error, the error of a call whose nil (non-nil) outcome
// establishes the fact ("return helper(...)"): reaching it with a nil (non-nil) error establishes the fact.
func (vw *c06View) retEstablishes(fr *c06Frame, f *c06Fact, rp RetPoint, nilErr bool) bool {
	ev := c06ErrOperand(fr.Fn, rp.Ret)
	if ev == nil {
		return false
	}
	if phi, ok := ev.(*ssa.Phi); ok && rp.Pred != nil && phi.Block() == rp.Ret.Block() {
		for i, p := range phi.Block().Preds {
			if p == rp.Pred {
				ev = phi.Edges[i]
			}
		}
	}
	call, idx := originCall(ev)
	if call == nil {
		return false
	}
	if tup, ok := call.Value().Type().(*types.Tuple); ok {
		if idx >= tup.Len() || !isErrorType(tup.At(idx).Type()) {
			return false
		}
	} else if !isErrorType(call.Value().Type()) {
		return false
	}
	if nilErr && f.CallOK != nil && f.CallOK(fr, call) {
		return true
	}
	if !nilErr && f.CallFail != nil && f.CallFail(fr, call) {
		return true
	}
	if k := fr.child(call); k != nil {
		if nilErr {
			return vw.Summary(k, f, c06ModeErrNil, 0)
		}
		return vw.Summary(k, f, c06ModeErrNonNil, 0)
	}
	return false
}

// Summary: every path through fr.Fn to a return of the given kind passes the fact.
// Modes: any return; returns whose error may be nil / may be non-nil; returns whose result #idx may be true / false.
func (vw *c06View) Summary(fr *c06Frame, f *c06Fact, mode, idx int) bool {
	key := c06SumKey{fr, f, mode + 1, idx}
	if r, ok := vw.sums[key]; ok {
		return r
	}
	vw.sums[key] = false
	res := vw.summary(fr, f, mode, idx)
	vw.sums[key] = res
	return res
}

func (vw *c06View) summary(fr *c06Frame, f *c06Fact, mode, idx int) bool {
	fn := fr.Fn
	cuts := vw.Cuts(fr, f)
	pr := vw.pruner(fr)
	var targets []Target
	switch mode {
	case c06ModeAny:
		for _, r := range vw.c.c06LiveReturns(fn) {
			targets = append(targets, r.Target())
		}
	case c06ModeErrNil:
		for _, r := range vw.c.c06SuccessTargets(fn) {
			if !reachableFromEntry(fn, r.Ret.Block()) || vw.retEstablishes(fr, f, r, true) {
				continue
			}
			targets = append(targets, r.Target())
		}
	case c06ModeErrNonNil:
		for _, r := range vw.c.c06LiveReturns(fn) {
			if r.Class == "success" || vw.retEstablishes(fr, f, r, false) {
				continue
			}
			targets = append(targets, r.Target())
		}
	case c06ModeTrue, c06ModeFalse:
		want := mode == c06ModeTrue
		for _, b := range fn.Blocks {
			if len(b.Instrs) == 0 || !reachableFromEntry(fn, b) {
				continue
			}
			ret, ok := b.Instrs[len(b.Instrs)-1].(*ssa.Return)
			if !ok || idx >= len(ret.Results) {
				continue
			}
			type inc struct {
				v    ssa.Value
				pred *ssa.BasicBlock
			}
			var incs []inc
			o := c06RetVal(ret, idx)
			if phi, ok := o.(*ssa.Phi); ok && phi.Block() == b {
				for i, e := range phi.Edges {
					incs = append(incs, inc{e, b.Preds[i]})
				}
			} else {
				incs = append(incs, inc{o, nil})
			}
			for _, x := range incs {
				if cv, isC := constBool(x.v); isC {
					if cv == want {
						targets = append(targets, Target{Instr: ret, Pred: x.pred})
					}
					continue
				}
				t, fl := vw.evalValue(fr, f, x.v, 0)
				if (want && t) || (!want && fl) {
					continue
				}
				targets = append(targets, Target{Instr: ret, Pred: x.pred})
			}
		}
	}
	for _, tg := range targets {
		if c06FindPath(pr, entryPoint(fn), tg, cuts) != nil {
			return false
		}
	}
	return true
}

// PathToReturns: a path from fr.Fn's entry to one of the returns that passes nothing establishing f
// (nil if none). nilErr/nonNil select how "return helper(...)" is read (0: not at all, 1: the returns are
// success returns, 2: error returns).
func (vw *c06View) PathToReturns(fr *c06Frame, targets []RetPoint, f *c06Fact, errKind int) []*ssa.BasicBlock {
	cuts := vw.Cuts(fr, f)
	pr := vw.pruner(fr)
	for _, t := range targets {
		if errKind == 1 && vw.retEstablishes(fr, f, t, true) {
			continue
		}
		if errKind == 2 && vw.retEstablishes(fr, f, t, false) {
			continue
		}
		if p := c06FindPath(pr, entryPoint(fr.Fn), t.Target(), cuts); p != nil {
			return p
		}
	}
	return nil
}

// MustPassReturns: one obligation per return statement of the root, keyed <fn>#return<N><suffix>.
func (vw *c06View) MustPassReturns(rule string, targets []RetPoint, f *c06Fact, errKind int, suffix, what string) bool {
	c, fn := vw.c, vw.Root.Fn
	okAll := true
	grouped := map[int][]RetPoint{}
	var ords []int
	for _, t := range targets {
		o := retOrdinal(fn, t.Ret)
		if _, ok := grouped[o]; !ok {
			ords = append(ords, o)
		}
		grouped[o] = append(grouped[o], t)
	}
	sort.Ints(ords)
	for _, o := range ords {
		wit := vw.PathToReturns(vw.Root, grouped[o], f, errKind)
		construct := fmt.Sprintf("%s#return%d%s", fnName(fn), o, suffix)
		pos := grouped[o][0].Ret.Pos()
		if wit == nil {
			c.Ok(rule, construct, "every path to this return passes "+what, pos)
		} else {
			okAll = false
			c.Violate(rule, construct, "a path reaches this return without passing "+what, pos, c.describePath(wit)...)
		}
	}
	return okAll
}

// MustPassTo: every inter-procedural path from the root's entry to instruction in (of frame fr) passes the
// fact: at some level of the frame chain the way to the instruction (resp. to the call that leads to it) is cut.
// Returns a witness path of the outermost level otherwise.
func (vw *c06View) MustPassTo(fr *c06Frame, in ssa.Instruction, f *c06Fact) (bool, []*ssa.BasicBlock) {
	var wit []*ssa.BasicBlock
	for ; fr != nil; in, fr = fr.Call, fr.Parent {
		if in == nil {
			break
		}
		p := c06FindPath(vw.pruner(fr), entryPoint(fr.Fn), Target{Instr: in}, vw.Cuts(fr, f))
		if p == nil {
			return true, nil
		}
		wit = p
	}
	return false, wit
}

// EscapesFrom: some inter-procedural path from point start (in frame fr) leaves the root function without
// passing the fact. When the search leaves a helper, the branches of the caller on the helper's boolean / error
// result are restricted to the outcomes the reachable returns of the helper can produce ("removed(id)" that
// returns true after deleting: only the true edge of "if !removed(id)" is continued).
func (vw *c06View) EscapesFrom(fr *c06Frame, start Point, f *c06Fact) []*ssa.BasicBlock {
	var extra *Cuts
	for fr != nil {
		cuts := vw.Cuts(fr, f)
		if extra != nil {
			for e := range cuts.Edges {
				extra.Edges[e] = true
			}
			for i := range cuts.Instrs {
				extra.Instrs[i] = true
			}
			for v := range cuts.Via {
				extra.Via[v] = true
			}
			pr := vw.pruner(fr)
			for pc := range pr.phiCuts[cuts] {
				pr.AddPhiCut(extra, pc)
			}
			cuts = extra
		}
		var wit []*ssa.BasicBlock
		var reached []RetPoint
		for _, r := range vw.c.c06LiveReturns(fr.Fn) {
			if p := c06FindPath(vw.pruner(fr), start, r.Target(), cuts); p != nil {
				wit = p
				reached = append(reached, r)
			}
		}
		if wit == nil {
			return nil
		}
		if fr.Parent == nil || fr.Call == nil {
			return wit
		}
		if _, isDefer := fr.Call.(*ssa.Defer); isDefer {
			return wit
		}
		// what the reachable returns tell the caller
		extra = c06ReturnCorrelation(fr, reached)
		start, fr = after(fr.Call), fr.Parent
	}
	return nil
}

// c06Reach is an inter-procedural reachability query over a view: can a path from some point reach a target
// instruction (in the frame of the point, in a helper called on the way, or - after returning - in a caller)
// or a designated exit of the root, without passing the fact?
type c06Reach struct {
	vw     *c06View
	Fact   *c06Fact // nil: nothing is cut
	Target func(fr *c06Frame, in ssa.Instruction) bool
	Exit   func(r RetPoint) bool // returns of the root that count as targets (nil: none)
	inside map[*c06Frame]int
}

func (q *c06Reach) cuts(fr *c06Frame) *Cuts {
	if q.Fact == nil {
		return nil
	}
	return q.vw.Cuts(fr, q.Fact)
}

// candidates: the instructions of fr.Fn that are targets, or calls into helpers in which a target is reachable.
func (q *c06Reach) candidates(fr *c06Frame) []ssa.Instruction {
	var out []ssa.Instruction
	allInstrs(fr.Fn, func(_ *ssa.BasicBlock, _ int, in ssa.Instruction) {
		if q.Target != nil && q.Target(fr, in) {
			out = append(out, in)
			return
		}
		if cl, ok := in.(ssa.CallInstruction); ok {
			if k := fr.child(cl); k != nil && q.insideFromEntry(k) {
				out = append(out, in)
			}
		}
	})
	return out
}

func (q *c06Reach) insideFromEntry(fr *c06Frame) bool {
	if q.inside == nil {
		q.inside = map[*c06Frame]int{}
	}
	if r := q.inside[fr]; r != 0 {
		return r == 1
	}
	q.inside[fr] = 2
	for _, cand := range q.candidates(fr) {
		if c06FindPath(q.vw.pruner(fr), entryPoint(fr.Fn), Target{Instr: cand}, q.cuts(fr)) != nil {
			q.inside[fr] = 1
			return true
		}
	}
	return false
}

// From searches from point start of frame fr (entered from block via, if known).
func (q *c06Reach) From(fr *c06Frame, start Point, via *ssa.BasicBlock) []*ssa.BasicBlock {
	vw := q.vw
	var extra *Cuts
	for fr != nil {
		cuts := q.cuts(fr)
		if extra != nil {
			if cuts != nil {
				for e := range cuts.Edges {
					extra.Edges[e] = true
				}
				for i := range cuts.Instrs {
					extra.Instrs[i] = true
				}
				for v := range cuts.Via {
					extra.Via[v] = true
				}
				pr := vw.pruner(fr)
				for pc := range pr.phiCuts[cuts] {
					pr.AddPhiCut(extra, pc)
				}
			}
			cuts = extra
		}
		pr := vw.pruner(fr)
		for _, cand := range q.candidates(fr) {
			if p := c06FindPathVia(pr, start, via, Target{Instr: cand}, cuts); p != nil {
				return p
			}
		}
		var reached []RetPoint
		var wit []*ssa.BasicBlock
		for _, r := range vw.c.c06LiveReturns(fr.Fn) {
			if p := c06FindPathVia(pr, start, via, r.Target(), cuts); p != nil {
				reached = append(reached, r)
				if fr.Parent == nil && q.Exit != nil && q.Exit(r) {
					wit = p
				}
			}
		}
		if fr.Parent == nil || fr.Call == nil {
			return wit
		}
		if len(reached) == 0 {
			return nil
		}
		if _, isDefer := fr.Call.(*ssa.Defer); isDefer {
			return nil
		}
		extra = c06ReturnCorrelation(fr, reached)
		start, via, fr = after(fr.Call), nil, fr.Parent
	}
	return nil
}

// c06ReturnCorrelation: what the returns a helper can be left through tell its caller: edges of the caller's
// branches on the helper's boolean / error results that cannot be taken.
func c06ReturnCorrelation(fr *c06Frame, reached []RetPoint) *Cuts {
	extra := newCuts()
	pfn := fr.Parent.Fn
	cv := fr.Call.Value()
	if cv == nil {
		return extra
	}
	res := fr.Fn.Signature.Results()
	for i := 0; i < res.Len(); i++ {
		if !c06IsBoolType(res.At(i).Type()) {
			continue
		}
		allT, allF := true, true
		for _, r := range reached {
			b, isC := constBool(c06RetVal(r.Ret, i))
			if !isC || !b {
				allT = false
			}
			if !isC || b {
				allF = false
			}
		}
		if bv := extractN(cv, i); bv != nil {
			t, fl := boolEdges(pfn, bv)
			if allT {
				extra.AddEdges(fl...)
			}
			if allF {
				extra.AddEdges(t...)
			}
		}
	}
	if c06ErrIndex(fr.Fn.Signature) >= 0 {
		allOK, allErr := true, true
		for _, r := range reached {
			if r.Class != "success" {
				allOK = false
			}
			if r.Class != "error" {
				allErr = false
			}
		}
		succ, fail, _ := callErrEdges(pfn, cv)
		if allOK {
			extra.AddEdges(fail...)
		}
		if allErr {
			extra.AddEdges(succ...)
		}
	}
	return extra
}

// lift: the instruction of frame to's function that leads to instruction in of frame fr (in itself when fr==to,
// else the call instruction through which fr is reached); nil when fr is not below to.
func c06Lift(fr *c06Frame, in ssa.Instruction, to *c06Frame) ssa.Instruction {
	for ; fr != nil; in, fr = fr.Call, fr.Parent {
		if fr == to {
			return in
		}
	}
	return nil
}

// ---------------------------------------------------------------------------
// who-may tables with private helpers

// c06ValueUses: module functions that are used as values (method values, function values) somewhere.
func (c *Ctx) c06UsedAsValue(f *ssa.Function) bool {
	used := false
	for _, fn := range c.ModFns {
		allInstrs(fn, func(_ *ssa.BasicBlock, _ int, in ssa.Instruction) {
			if used {
				return
			}
			for _, op := range in.Operands(nil) {
				if *op != ssa.Value(f) {
					continue
				}
				if cl, ok := in.(ssa.CallInstruction); ok && cl.Common().Value == ssa.Value(f) && !cl.Common().IsInvoke() {
					// the callee position; an argument position is a value use
					n := 0
					for _, a := range cl.Common().Args {
						if a == ssa.Value(f) {
							n++
						}
					}
					if n == 0 {
						continue
					}
				}
				used = true
			}
		})
		if used {
			break
		}
	}
	return used
}

// c06AllowedTops: the allowed functions on whose behalf f acts: f itself (its outermost function) when it is in
// allow; otherwise, when f is an unexported function that is never used as a value and every one of its call
// sites lies in a function that is (recursively, depth <= c06MaxDepth) allowed, the union of those. ok=false
// when some way of reaching f is not allowed. When in is given (an instruction of f) a call site from which in
// cannot be reached - the helper's boolean flag parameters being what that site passes - does not count
// ("lookup(id, false)" never reaches the delete guarded by the flag).
func (c *Ctx) c06AllowedTops(f *ssa.Function, allow map[*ssa.Function]bool, depth int) (tops []*ssa.Function, ok bool) {
	return c.c06AllowedTopsFor(f, nil, allow, depth)
}

func (c *Ctx) c06AllowedTopsFor(f *ssa.Function, in ssa.Instruction, allow map[*ssa.Function]bool, depth int) (tops []*ssa.Function, ok bool) {
	t := topFn(f)
	if allow[t] {
		return []*ssa.Function{t}, true
	}
	if depth >= c06MaxDepth || t.Object() == nil || t.Object().Exported() || c.c06UsedAsValue(t) {
		return nil, false
	}
	sites := c.callSites(t.Object())
	if len(sites) == 0 {
		return nil, false
	}
	seen := map[*ssa.Function]bool{}
	for _, s := range sites {
		if in != nil && f == t {
			vw := c.c06NewView(s.Fn)
			if k := vw.Root.child(s.Call); k != nil {
				if c06FindPath(vw.pruner(k), entryPoint(t), Target{Instr: in}, nil) == nil {
					continue // this caller never gets there
				}
			}
		}
		ts, ok := c.c06AllowedTopsFor(s.Fn, s.Call, allow, depth+1)
		if !ok {
			return nil, false
		}
		for _, x := range ts {
			if !seen[x] {
				seen[x] = true
				tops = append(tops, x)
			}
		}
	}
	return tops, true
}

// c06WhoMay is whoMay in which a private helper of allowed functions is an allowed site; it returns the
// number of distinct allowed functions that (directly or through such helpers) do the thing.
func (c *Ctx) c06WhoMay(rule, what string, got []*ssa.Function, poss map[*ssa.Function]token.Pos, allow map[*ssa.Function]bool) int {
	seen := map[*ssa.Function]bool{}
	users := map[*ssa.Function]bool{}
	for _, f := range got {
		t := topFn(f)
		if seen[t] {
			continue
		}
		seen[t] = true
		construct := what + "@" + fnName(t)
		if allow[t] {
			users[t] = true
			c.Ok(rule, construct, fnName(t)+" is an allowed site of "+what, poss[f])
			continue
		}
		if tops, ok := c.c06AllowedTops(t, allow, 0); ok {
			for _, x := range tops {
				users[x] = true
			}
			var names []string
			for _, x := range tops {
				names = append(names, fnName(x))
			}
			sort.Strings(names)
			c.Ok(rule, construct, fnName(t)+" is a helper only reachable from allowed sites of "+what+" ("+fmt.Sprint(names)+")", poss[f])
			continue
		}
		c.Violate(rule, construct, fnName(t)+" must not "+what+" (allowed: "+allowNames(allow)+", and unexported helpers called only from them)", poss[f])
	}
	return len(users)
}
