package main

// Helpers for the session rules (C06, C07, C16). Names are prefixed c06.
//
//   - c06FindPath: the engine's cut-edge reachability made sensitive to *flag variables*:
//     a branch on a boolean whose value is decided by the edge the path arrived on (phi of
//     constants, or a boolean already tested by a dominating branch) only follows the decided
//     successor. This is what lets "if ok && !usable(entry) { ok = false }; if !ok { refuse }"
//     be read as a refusal.
//   - c06MustDepend: copy of ssahelp.go's mustDepend in which a call that is handed a local
//     buffer also makes the buffer depend on the call itself (rand.Read(buf)).
//   - small provenance helpers for ClassAd attribute lookups / Set calls.

import (
	"fmt"
	"go/token"
	"go/types"
	"sort"
	"time"

	"golang.org/x/tools/go/ssa"
)

// c06Timed wraps a rule so that its analysis time is recorded in the evidence notes.
func c06Timed(id string, fn ruleFn) ruleFn {
	return func(c *Ctx) {
		t0 := time.Now()
		defer func() { c.Note("%s: analysis time %.2fs (%s)", id, time.Since(t0).Seconds(), c.Config) }()
		fn(c)
	}
}

const c06ClassAdPkg = "github.com/PelicanPlatform/classad/classad"

// ---------------------------------------------------------------------------
// flag-sensitive path search

type c06Pruner struct {
	fn    *ssa.Function
	ifsOn map[ssa.Value][]c06BoolIf // boolean value -> branches testing it
	dom   map[[3]int]bool           // memo of edgeDominates(edge{from,succ}, block)
	domOk map[[3]int]bool
}

type c06BoolIf struct {
	blk *ssa.BasicBlock
	neg bool
}

func c06NewPruner(fn *ssa.Function) *c06Pruner {
	p := &c06Pruner{fn: fn, ifsOn: map[ssa.Value][]c06BoolIf{}, dom: map[[3]int]bool{}, domOk: map[[3]int]bool{}}
	for _, b := range fn.Blocks {
		ifi := blockIf(b)
		if ifi == nil {
			continue
		}
		a := condAtom(ifi.Cond)
		if a.Op == token.ILLEGAL && a.X != nil {
			p.ifsOn[a.X] = append(p.ifsOn[a.X], c06BoolIf{b, a.Neg})
		}
	}
	return p
}

func (p *c06Pruner) edgeDom(e Edge, b *ssa.BasicBlock) bool {
	k := [3]int{e.From.Index, e.Succ, b.Index}
	if p.domOk[k] {
		return p.dom[k]
	}
	r := edgeDominates(p.fn, e, b)
	p.domOk[k], p.dom[k] = true, r
	return r
}

// valueAt: the value of boolean v for a path that has just arrived in block b from pred via.
// known=false when the path does not decide it.
func (p *c06Pruner) valueAt(v ssa.Value, b, via *ssa.BasicBlock, depth int) (val, known bool) {
	if depth > 4 {
		return false, false
	}
	if c, ok := constBool(v); ok {
		return c, true
	}
	if u, ok := v.(*ssa.UnOp); ok && u.Op == token.NOT {
		x, k := p.valueAt(u.X, b, via, depth+1)
		return !x, k
	}
	if phi, ok := v.(*ssa.Phi); ok && phi.Block() == b && via != nil {
		for i, pr := range b.Preds {
			if pr == via {
				// the operand is evaluated at the end of via, arriving along via->b
				return p.operandAt(phi.Edges[i], via, b, depth+1)
			}
		}
		return false, false
	}
	// a value defined elsewhere: decided if a branch on it dominates b, or is the edge just taken
	return p.decidedBy(v, via, b)
}

// operandAt: value of boolean o at the end of block from, for the path continuing to block to.
func (p *c06Pruner) operandAt(o ssa.Value, from, to *ssa.BasicBlock, depth int) (bool, bool) {
	if c, ok := constBool(o); ok {
		return c, true
	}
	if u, ok := o.(*ssa.UnOp); ok && u.Op == token.NOT {
		x, k := p.operandAt(u.X, from, to, depth+1)
		return !x, k
	}
	return p.decidedBy(o, from, to)
}

// decidedBy: some branch on v has an edge that is the edge from->to itself or dominates from.
func (p *c06Pruner) decidedBy(v ssa.Value, from, to *ssa.BasicBlock) (bool, bool) {
	for _, bi := range p.ifsOn[v] {
		if len(bi.blk.Succs) != 2 || bi.blk.Succs[0] == bi.blk.Succs[1] {
			continue
		}
		for succ := 0; succ < 2; succ++ {
			e := Edge{bi.blk, succ}
			val := succ == 0
			if bi.neg {
				val = !val
			}
			if from != nil && bi.blk == from && e.To() == to {
				return val, true
			}
			if from != nil && p.edgeDom(e, from) {
				return val, true
			}
		}
	}
	return false, false
}

// allowed reports whether a path that arrived in b from via may continue along successor i.
func (p *c06Pruner) allowed(b, via *ssa.BasicBlock, i int) bool {
	ifi := blockIf(b)
	if ifi == nil || len(b.Succs) != 2 || b.Succs[0] == b.Succs[1] {
		return true
	}
	a := condAtom(ifi.Cond)
	if a.Op != token.ILLEGAL {
		return true
	}
	val, known := p.valueAt(a.X, b, via, 0)
	if !known {
		return true
	}
	if a.Neg {
		val = !val
	}
	if val {
		return i == 0
	}
	return i == 1
}

// c06FindPath is findPath over (block, predecessor) states with flag-variable pruning.
func c06FindPath(pr *c06Pruner, start Point, tg Target, cuts *Cuts) []*ssa.BasicBlock {
	tb := tg.Instr.Block()
	tp := pointOf(tg.Instr)
	scan := func(b *ssa.BasicBlock, idx int) (hit, blocked bool) {
		for i := idx; i < len(b.Instrs); i++ {
			if b == tb && i == tp.Idx {
				return true, false
			}
			if cuts != nil && cuts.Instrs[b.Instrs[i]] {
				return false, true
			}
		}
		return false, false
	}
	type node struct{ b, via *ssa.BasicBlock }
	parent := map[node]node{}
	seen := map[node]bool{}
	root := node{start.Block, nil}
	var queue []node
	expand := func(n node) {
		for i, s := range n.b.Succs {
			if cuts != nil && cuts.Edges[Edge{n.b, i}] {
				continue
			}
			if !pr.allowed(n.b, n.via, i) {
				continue
			}
			m := node{s, n.b}
			if seen[m] {
				continue
			}
			seen[m] = true
			parent[m] = n
			queue = append(queue, m)
		}
	}
	build := func(n node) []*ssa.BasicBlock {
		var path []*ssa.BasicBlock
		for cur := n; ; {
			path = append(path, cur.b)
			if cur == root {
				break
			}
			nx, ok := parent[cur]
			if !ok {
				break
			}
			cur = nx
		}
		for i, j := 0, len(path)-1; i < j; i, j = i+1, j-1 {
			path[i], path[j] = path[j], path[i]
		}
		return path
	}
	hit, blocked := scan(start.Block, start.Idx)
	if hit && tg.Pred == nil {
		return []*ssa.BasicBlock{start.Block}
	}
	if hit {
		if _, isRet := tg.Instr.(*ssa.Return); isRet {
			return nil
		}
	}
	if !blocked {
		expand(root)
	}
	for len(queue) > 0 {
		n := queue[0]
		queue = queue[1:]
		hit, blocked := scan(n.b, 0)
		if hit && (tg.Pred == nil || tg.Pred == n.via) {
			return build(n)
		}
		if blocked {
			continue
		}
		if hit {
			if _, isRet := tg.Instr.(*ssa.Return); isRet {
				continue
			}
		}
		expand(n)
	}
	return nil
}

// c06PathToReturns: a flag-sensitive path from fn's entry to one of the returns avoiding cuts (nil if none).
func c06PathToReturns(pr *c06Pruner, fn *ssa.Function, targets []RetPoint, cuts *Cuts) []*ssa.BasicBlock {
	for _, t := range targets {
		if p := c06FindPath(pr, entryPoint(fn), t.Target(), cuts); p != nil {
			return p
		}
	}
	return nil
}

// c06MustPassReturns is Ctx.mustPassReturns with the flag-sensitive search; one obligation per return
// statement, keyed <fn>#return<N><suffix>.
func (c *Ctx) c06MustPassReturns(rule string, pr *c06Pruner, fn *ssa.Function, targets []RetPoint, cuts *Cuts, suffix, what string) bool {
	okAll := true
	grouped := map[int][]RetPoint{}
	var ords []int
	for _, t := range targets {
		o := retOrdinal(fn, t.Ret)
		if _, ok := grouped[o]; !ok {
			ords = append(ords, o)
		}
		grouped[o] = append(grouped[o], t)
	}
	sort.Ints(ords)
	for _, o := range ords {
		wit := c06PathToReturns(pr, fn, grouped[o], cuts)
		construct := fmt.Sprintf("%s#return%d%s", fnName(fn), o, suffix)
		pos := grouped[o][0].Ret.Pos()
		if wit == nil {
			c.Ok(rule, construct, "every path to this return passes "+what, pos)
		} else {
			okAll = false
			c.Violate(rule, construct, "a path reaches this return without passing "+what, pos, c.describePath(wit)...)
		}
	}
	return okAll
}

// c06SuccessTargets: successTargets minus "return fail(...)" exits, i.e. returns whose error operand is a
// result of a call to a module function/closure that never returns a nil error.
func (c *Ctx) c06SuccessTargets(fn *ssa.Function) []RetPoint {
	var out []RetPoint
	for _, r := range c.successTargets(fn) {
		if c.c06ErrFromNeverNil(fn, r) != nil {
			continue
		}
		out = append(out, r)
	}
	return out
}

// c06ErrFromNeverNil: if the error operand of r is the error result of a call to a module function that
// never returns nil, returns that callee.
func (c *Ctx) c06ErrFromNeverNil(fn *ssa.Function, r RetPoint) *ssa.Function {
	ev := c06ErrOperand(fn, r.Ret)
	if ev == nil {
		return nil
	}
	call, _ := originCall(ev)
	if call == nil {
		return nil
	}
	g := calleeFn(call)
	if g == nil || g.Blocks == nil || fnPkg(g) == nil || !inModule(fnPkg(g).Path()) {
		return nil
	}
	if c.neverNil(g, map[int]bool{}, 0) {
		return g
	}
	return nil
}

func c06ErrOperand(fn *ssa.Function, ret *ssa.Return) ssa.Value {
	sig := fn.Signature
	for i := sig.Results().Len() - 1; i >= 0; i-- {
		if isErrorType(sig.Results().At(i).Type()) {
			return ret.Results[i]
		}
	}
	return nil
}

// c06RetVal returns the value a return statement yields for result i. Functions with defer spill
// their results into cells ("*t0 = v; rundefers; t = *t0; return t"): the value is then the last
// store to the cell in the return's own block.
func c06RetVal(ret *ssa.Return, i int) ssa.Value {
	v := ret.Results[i]
	ld, ok := v.(*ssa.UnOp)
	if !ok || ld.Op != token.MUL {
		return v
	}
	cell, ok := ld.X.(*ssa.Alloc)
	if !ok {
		return v
	}
	b := ret.Block()
	var last ssa.Value
	for _, in := range b.Instrs {
		if in == ssa.Instruction(ld) {
			break
		}
		if st, ok := in.(*ssa.Store); ok && st.Addr == cell {
			last = st.Val
		}
	}
	if last != nil {
		return last
	}
	return v
}

// c06BlockPos: the last valid source position in block b (its branch condition, usually).
func c06BlockPos(b *ssa.BasicBlock) token.Pos {
	for i := len(b.Instrs) - 1; i >= 0; i-- {
		if p := b.Instrs[i].Pos(); p.IsValid() {
			return p
		}
	}
	return token.NoPos
}

// c06LiveReturns lists the returns of fn reachable from its entry (drops the synthetic recover block).
func (c *Ctx) c06LiveReturns(fn *ssa.Function) []RetPoint {
	var out []RetPoint
	for _, r := range c.returnsOf(fn) {
		if reachableFromEntry(fn, r.Ret.Block()) {
			out = append(out, r)
		}
	}
	return out
}

// ---------------------------------------------------------------------------
// dependence with "the call fills the buffer"

func c06MustDepend(fn *ssa.Function, v ssa.Value, pred func(ssa.Value) bool) bool {
	memo := map[ssa.Value]int{}
	var writers map[ssa.Value][]ssa.Value
	buildWriters := func() {
		writers = map[ssa.Value][]ssa.Value{}
		allInstrs(fn, func(_ *ssa.BasicBlock, _ int, in ssa.Instruction) {
			switch x := in.(type) {
			case *ssa.Store:
				r := memRoot(x.Addr)
				if _, isFA := r.(*ssa.FieldAddr); !isFA {
					writers[r] = append(writers[r], x.Val)
				}
			case ssa.CallInstruction:
				args := callArgs(x)
				for i, a := range args {
					r := memRoot(a)
					switch r.(type) {
					case *ssa.Alloc, *ssa.MakeSlice:
						for j, o := range args {
							if j != i {
								writers[r] = append(writers[r], o)
							}
						}
						if cv := x.Value(); cv != nil {
							writers[r] = append(writers[r], cv)
						}
					}
				}
			}
		})
	}
	var walk func(v ssa.Value, d int) bool
	walk = func(v ssa.Value, d int) bool {
		if v == nil || d > 60 {
			return false
		}
		switch memo[v] {
		case 1, 3:
			return false
		case 2:
			return true
		}
		memo[v] = 1
		res := false
		if pred(v) {
			res = true
		} else if phi, ok := v.(*ssa.Phi); ok {
			res = true
			for _, e := range phi.Edges {
				if !walk(e, d+1) {
					res = false
					break
				}
			}
		} else {
			if in, ok := v.(ssa.Instruction); ok {
				if _, isMS := v.(*ssa.MakeSlice); !isMS {
					for _, op := range in.Operands(nil) {
						if *op != nil && walk(*op, d+1) {
							res = true
							break
						}
					}
				}
			}
			if !res {
				switch v.(type) {
				case *ssa.Alloc, *ssa.MakeSlice:
					if writers == nil {
						buildWriters()
					}
					for _, w := range writers[v] {
						if walk(w, d+1) {
							res = true
							break
						}
					}
				}
			}
		}
		if res {
			memo[v] = 2
		} else {
			memo[v] = 3
		}
		return res
	}
	return walk(v, 0)
}

// c06Fresh reports whether v depends on crypto/rand output, looking through module helpers
// (a helper is fresh if each of its non-error results' return operands depends on crypto/rand).
func (c *Ctx) c06Fresh(fn *ssa.Function, v ssa.Value, depth int, active map[*ssa.Function]bool) bool {
	return c06MustDepend(fn, v, func(x ssa.Value) bool {
		switch y := x.(type) {
		case *ssa.Global:
			return y.Pkg != nil && y.Pkg.Pkg.Path() == "crypto/rand"
		case *ssa.Call:
			if o := calleeObj(y); o != nil && o.Pkg() != nil && o.Pkg().Path() == "crypto/rand" {
				return true
			}
			g := calleeFn(y)
			if g == nil || g.Blocks == nil || depth <= 0 || active[g] || fnPkg(g) == nil || !inModule(fnPkg(g).Path()) {
				return false
			}
			active[g] = true
			defer delete(active, g)
			n := 0
			for _, b := range g.Blocks {
				if len(b.Instrs) == 0 {
					continue
				}
				ret, ok := b.Instrs[len(b.Instrs)-1].(*ssa.Return)
				if !ok || len(ret.Results) == 0 {
					continue
				}
				if ev := c06ErrOperand(g, ret); ev != nil && !isNilConst(ev) {
					continue // error exits carry no value
				}
				n++
				if !c.c06Fresh(g, ret.Results[0], depth-1, active) {
					return false
				}
			}
			return n > 0
		}
		return false
	})
}

// ---------------------------------------------------------------------------
// ClassAd helpers

// c06AttrLookup: v is result #0 (value) or #1 (present) of ad.EvaluateAttr{String,Bool,Int}(name const).
func c06AttrLookup(v ssa.Value) (call *ssa.Call, ad ssa.Value, name string, idx int, ok bool) {
	ex, isEx := v.(*ssa.Extract)
	if !isEx {
		return nil, nil, "", 0, false
	}
	cl, isCall := ex.Tuple.(*ssa.Call)
	if !isCall {
		return nil, nil, "", 0, false
	}
	o := calleeObj(cl)
	if o == nil || o.Pkg() == nil || o.Pkg().Path() != c06ClassAdPkg {
		return nil, nil, "", 0, false
	}
	switch o.Name() {
	case "EvaluateAttrString", "EvaluateAttrBool", "EvaluateAttrInt", "EvaluateAttrNumber", "EvaluateAttrReal":
	default:
		return nil, nil, "", 0, false
	}
	args := callArgs(cl)
	if len(args) < 2 {
		return nil, nil, "", 0, false
	}
	n, isC := constString(args[1])
	if !isC {
		return nil, nil, "", 0, false
	}
	return cl, args[0], n, ex.Index, true
}

type c06SetCall struct {
	Call ssa.CallInstruction
	Ad   ssa.Value
	Name string // "" when not constant
	Val  ssa.Value
}

// c06AdSets lists ad.Set(name, value) calls in fn (any ClassAd).
func c06AdSets(fn *ssa.Function) []c06SetCall {
	var out []c06SetCall
	allInstrs(fn, func(_ *ssa.BasicBlock, _ int, in ssa.Instruction) {
		cl, ok := in.(ssa.CallInstruction)
		if !ok {
			return
		}
		o := calleeObj(cl)
		if o == nil || o.Pkg() == nil || o.Pkg().Path() != c06ClassAdPkg || o.Name() != "Set" {
			return
		}
		args := callArgs(cl)
		if len(args) < 3 {
			return
		}
		n, _ := constString(args[1])
		out = append(out, c06SetCall{cl, args[0], n, args[2]})
	})
	return out
}

// c06SameValue: a and b denote the same object within fn (identity through conversions, cells and phis).
func c06SameValue(fn *ssa.Function, a, b ssa.Value) bool {
	if a == b {
		return true
	}
	oa, ob := origins(fn, a), origins(fn, b)
	if len(oa) == 0 || len(ob) == 0 {
		return false
	}
	set := map[ssa.Value]bool{}
	for _, x := range oa {
		set[x] = true
	}
	for _, y := range ob {
		if !set[y] {
			return false
		}
	}
	return len(oa) == len(ob)
}

// c06IsMethodCall: v is (an Extract of) a call to method obj; returns the call.
func c06CallOf(v ssa.Value, objs ...types.Object) *ssa.Call {
	call, _ := originCall(v)
	cl, ok := call.(*ssa.Call)
	if !ok || cl == nil {
		return nil
	}
	o := calleeObj(cl)
	if o == nil {
		return nil
	}
	for _, t := range objs {
		if t != nil && types.Object(o) == t {
			return cl
		}
	}
	return nil
}

// c06AllOrigins: every leaf origin of v satisfies pred (and there is at least one).
func c06AllOrigins(fn *ssa.Function, v ssa.Value, pred func(ssa.Value) bool) bool {
	os := origins(fn, v)
	if len(os) == 0 {
		return false
	}
	for _, o := range os {
		if !pred(o) {
			return false
		}
	}
	return true
}

// c06FieldLoadOf: v is a load of field f; returns the base pointer.
func c06FieldLoadOf(v ssa.Value, f *types.Var) (ssa.Value, bool) {
	base, g, ok := fieldRead(stripConv(v))
	if ok && g == f {
		return base, true
	}
	return nil, false
}

// c06StoresToField lists the stores to field f in fn.
func c06StoresToField(fn *ssa.Function, f *types.Var) []*ssa.Store {
	var out []*ssa.Store
	allInstrs(fn, func(_ *ssa.BasicBlock, _ int, in ssa.Instruction) {
		if st, ok := in.(*ssa.Store); ok {
			if fa, ok := st.Addr.(*ssa.FieldAddr); ok && fieldOfAddr(fa) == f {
				out = append(out, st)
			}
		}
	})
	return out
}

// c06StringCompares lists branches comparing v (or an alias) with a string constant:
// eqEdge is the edge on which v == constant.
type c06StrCmp struct {
	Const   string
	EqEdge  Edge
	NeqEdge Edge
	Blk     *ssa.BasicBlock
}

func c06StringCompares(fn *ssa.Function, v ssa.Value) []c06StrCmp {
	al := aliases(fn, v)
	var out []c06StrCmp
	for _, b := range fn.Blocks {
		ifi := blockIf(b)
		if ifi == nil {
			continue
		}
		a := condAtom(ifi.Cond)
		if a.Op != token.EQL && a.Op != token.NEQ {
			continue
		}
		var other ssa.Value
		if al[a.X] {
			other = a.Y
		} else if al[a.Y] {
			other = a.X
		} else {
			continue
		}
		s, ok := constString(other)
		if !ok {
			continue
		}
		eqOnTrue := a.Op == token.EQL
		if a.Neg {
			eqOnTrue = !eqOnTrue
		}
		cm := c06StrCmp{Const: s, Blk: b}
		if eqOnTrue {
			cm.EqEdge, cm.NeqEdge = Edge{b, 0}, Edge{b, 1}
		} else {
			cm.EqEdge, cm.NeqEdge = Edge{b, 1}, Edge{b, 0}
		}
		out = append(out, cm)
	}
	return out
}
