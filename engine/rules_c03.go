package main

// C03 — REQUIRED means required; the reported handshake outcome is what happened.
// Needs help_c03.go.

import (
	"fmt"
	"go/token"
	"go/types"
	"sort"

	"golang.org/x/tools/go/ssa"
)

func init() { register("C03", c03r1, c03r2, c03r3, c03r4, c03r5, c03r6, c03r7) }

// ---------------------------------------------------------------------------
// C03-R1: local authentication policy is enforced

func c03r1(c *Ctx) {
	const rule = "C03-R1"
	defer c03Timed(c, rule)()
	c.Doc(rule, "T-MPT: in handleClientAuthentication every path to a success return passes a nil-error performAuthentication or an edge on which the client's OWN Authentication level (a.config / negotiation.ClientConfig) differs from REQUIRED; in handleServerAuthentication: a nil-error performAuthentication or the edge on which negotiation.Authentication (computed from the server's own level, C10-R1) is false Where a check, store or call is looked for, same-module helpers are followed to depth 4 (boolean predicates and value helpers with parameters mapped to arguments, same-package error-returning and effect helpers), and conditions materialised in local booleans are resolved per incoming value.")
	A := c.handshakeAnchors(rule)
	if !A.ok {
		return
	}
	for _, fn := range []*ssa.Function{A.hClient, A.hServer} {
		role := A.roleOf(fn)
		calls := c03ReachCalls(c03Root(fn), A.perfAuth, nil)
		if len(calls) == 0 {
			c.Violate(rule, fnName(fn)+"#call:performAuthentication", "no call of performAuthentication", fn.Pos())
		}
		for _, cs := range calls {
			if _, _, checked := callErrEdges(cs.fr.fn, cs.call.Value()); !checked && !c03ErrReturned(cs.call) {
				c.Violate(rule, fnName(fn)+"#call:performAuthentication", "the error result of performAuthentication is never tested", cs.call.Pos())
			}
		}
		what := "a successful performAuthentication or a test that the local policy does not require authentication"
		if role == c03RoleServer {
			what = "a successful performAuthentication or the edge on which negotiation.Authentication is false"
		}
		mp := &c03MustPass{c: c, pkgOf: A.setup,
			atom: func(fr *c03Frame, a Atom) (bool, bool) {
				if t, f := A.notRequiredAtom(fr, a, A.cfgAuthentication); t || f {
					return t, f
				}
				if role == c03RoleServer && a.Op == token.ILLEGAL && readsField(a.X, A.negAuthentication) {
					return false, true
				}
				return false, false
			},
			calls: func(fr *c03Frame, call ssa.CallInstruction) bool { return calleeFn(call) == A.perfAuth }}
		// (structural minimum: each phase has a way to succeed; not today's number of returns)
		c.MinCount(rule, "success returns of "+fnName(fn), mp.check(rule, fn, "", what), 1)
	}
}

// ---------------------------------------------------------------------------
// C03-R2: the method that runs was offered / is locally listed

func c03r2(c *Ctx) {
	const rule = "C03-R2"
	defer c03Timed(c, rule)()
	c.Doc(rule, "T-DOM + provenance: on the client the method handed to performAuthentication comes from the peer's GetInt through bitmaskToAuthMethod and the call is dominated by a test that the selection lies inside the mask sent with PutInt in that round (or the method is an element of a local list); on the server the method is the no-method constant or an element of the server's own AuthMethods selected under a test of the client's mask Where a check, store or call is looked for, same-module helpers are followed to depth 4 (boolean predicates and value helpers with parameters mapped to arguments, same-package error-returning and effect helpers), and conditions materialised in local booleans are resolved per incoming value.")
	A := c.handshakeAnchors(rule)
	if !A.ok {
		return
	}
	getInt := c03MsgMethod(c, rule, "GetInt")
	putInt := c03MsgMethod(c, rule, "PutInt")
	if getInt == nil || putInt == nil {
		return
	}
	// functions kept as leaves when values are followed: the bit<->method maps and the peer read
	isGetInt := func(call ssa.CallInstruction) bool {
		o := calleeObj(call)
		return o != nil && types.Object(o) == getInt
	}
	stop := func(g *ssa.Function) bool {
		return g == A.bitToMethod || g == A.methodToBit || (g.Object() != nil && g.Object() == getInt)
	}
	// fromPeer: every origin of v (helpers followed) is result #0 of a GetInt; returns that single read
	fromPeer := func(fr *c03Frame, v ssa.Value) (c03Leaf, bool) {
		var first c03Leaf
		os := c03OriginsF(fr, stripConv(v), stop)
		for i, lf := range os {
			if pc, pi := originCall(lf.v); pc == nil || pi != 0 || !isGetInt(pc) {
				return c03Leaf{}, false
			}
			if i == 0 {
				first = lf
			} else if lf != first {
				return c03Leaf{}, false
			}
		}
		return first, len(os) > 0
	}
	// --- client
	fn := A.hClient
	root := c03Root(fn)
	var masks []c03Leaf // the (non-constant) values sent with PutInt, in the frame that sends them
	for _, cs := range c03ReachCallsObj(root, putInt, nil) {
		v := stripConv(callArgs(cs.call)[2])
		if _, isConst := v.(*ssa.Const); !isConst {
			masks = append(masks, c03Leaf{cs.fr, v})
		}
	}
	nClient := 0
	for i, cs := range c03ReachCalls(root, A.perfAuth, nil) {
		nClient++
		construct := fmt.Sprintf("%s#performAuthentication%d(method)", fnName(fn), i+1)
		method := callArgs(cs.call)[2]
		status, msg := StOK, "the method run is bound to the mask this client sent"
		for _, lf := range c03OriginsF(cs.fr, method, stop) {
			o := lf.v
			if call, idx := originCall(o); call != nil && idx == 0 && calleeFn(call) == A.bitToMethod {
				// the selection must be peer data (GetInt) - otherwise nothing to sanitise
				resp, ok := fromPeer(lf.fr, call.Common().Args[0])
				if !ok {
					status, msg = StUndecided, "the value converted by bitmaskToAuthMethod is not the GetInt result: cannot follow the selection"
					break
				}
				if len(masks) == 0 {
					status, msg = StUndecided, "cannot find the mask the client sends (non-constant PutInt argument)"
					break
				}
				mp := &c03MustPass{c: c, pkgOf: A.setup, atom: func(fr *c03Frame, a Atom) (bool, bool) {
					return c03SubsetAtom(fr, a,
						func(fr *c03Frame, v ssa.Value) bool { return c03SameValueStop(fr, v, resp.fr, resp.v, stop) },
						func(fr *c03Frame, v ssa.Value) bool {
							for _, m := range masks {
								if c03SameValueStop(fr, v, m.fr, m.v, stop) {
									return true
								}
							}
							return false
						})
				}}
				if !mp.dominates(cs.fr, cs.call) {
					status, msg = StViolated, "the client runs whatever method bit the server names: no test that the selection lies inside the mask the client sent dominates performAuthentication (a server can select a method that was never offered)"
					break
				}
				continue
			}
			// element of a local list
			if ld, ok := o.(*ssa.UnOp); ok && ld.Op == token.MUL {
				if ia, ok := ld.X.(*ssa.IndexAddr); ok && A.localLevelListF(lf.fr, ia.X, c03RoleClient) {
					continue
				}
			}
			status, msg = StUndecided, "cannot follow where the method handed to performAuthentication comes from"
			break
		}
		switch status {
		case StOK:
			c.Ok(rule, construct, msg, cs.call.Pos())
		case StViolated:
			c.Violate(rule, construct, msg, cs.call.Pos())
		default:
			c.Undecided(rule, construct, msg, cs.call.Pos())
		}
	}
	// --- server
	fn = A.hServer
	root = c03Root(fn)
	nServer := 0
	for i, cs := range c03ReachCalls(root, A.perfAuth, nil) {
		nServer++
		construct := fmt.Sprintf("%s#performAuthentication%d(method)", fnName(fn), i+1)
		method := callArgs(cs.call)[2]
		status, msg := StOK, "the method run is the server's own list entry selected under the client's mask"
		elems := 0
		for _, lf := range c03OriginsF(cs.fr, method, stop) {
			o := lf.v
			if s, ok := constString(o); ok && s == A.authNone {
				continue
			}
			ld, ok := o.(*ssa.UnOp)
			var ia *ssa.IndexAddr
			if ok && ld.Op == token.MUL {
				ia, _ = ld.X.(*ssa.IndexAddr)
			}
			if ia == nil || !A.localLevelListF(lf.fr, ia.X, c03RoleServer) {
				status, msg = StViolated, "the method the server runs is not taken from its own AuthMethods list"
				break
			}
			elems++
			// selected under (clientMask & authMethodToBitmask(elem)) != 0, in the function that reads the element
			f := lf.fr.fn
			guarded := false
			for _, b := range f.Blocks {
				ifi := blockIf(b)
				if ifi == nil {
					continue
				}
				a := condAtom(ifi.Cond)
				if a.Op != token.EQL && a.Op != token.NEQ {
					continue
				}
				bo, ok := stripConv(a.X).(*ssa.BinOp)
				if k, isK := constInt(a.Y); !ok || bo.Op != token.AND || !isK || k != 0 {
					continue
				}
				var bit, mask ssa.Value
				for _, pair := range [][2]ssa.Value{{bo.X, bo.Y}, {bo.Y, bo.X}} {
					if call, ok := stripConv(pair[0]).(*ssa.Call); ok && calleeFn(call) == A.methodToBit && stripConv(call.Call.Args[0]) == ssa.Value(ld) {
						bit, mask = pair[0], pair[1]
					}
				}
				if bit == nil {
					continue
				}
				if _, ok := fromPeer(lf.fr, mask); !ok {
					continue
				}
				member := Edge{b, 0}
				if (a.Op == token.EQL) != a.Neg {
					member = Edge{b, 1}
				}
				// the element leaves the place where it is read - towards a phi, a return of the
				// helper, the call itself - only through the membership edge
				carriedOK, carried := true, 0
				cut := newCuts().AddEdges(member)
				for _, tg := range c03Carriers(ld, cs.call) {
					carried++
					if findPath(entryPoint(f), tg, cut) != nil {
						carriedOK = false
					}
				}
				if carriedOK && carried > 0 {
					guarded = true
				}
			}
			if !guarded {
				status, msg = StViolated, "the server selects a method without testing it against the mask the client offered"
				break
			}
		}
		if status == StOK && elems == 0 {
			status, msg = StUndecided, "no list element reaches performAuthentication on the server"
		}
		switch status {
		case StOK:
			c.Ok(rule, construct, msg, cs.call.Pos())
		case StViolated:
			c.Violate(rule, construct, msg, cs.call.Pos())
		default:
			c.Undecided(rule, construct, msg, cs.call.Pos())
		}
	}
	// (structural minimum: each side runs its method through performAuthentication at least once)
	c.MinCount(rule, "performAuthentication call sites of the client phase", nClient, 1)
	c.MinCount(rule, "performAuthentication call sites of the server phase", nServer, 1)
}

// c03Carriers: the points through which value v is handed on inside its function: the incoming edges
// of phis it feeds, the returns it is a result of, and call `consumer` if v is one of its arguments
// (conversions looked through). Other uses (operands of tests, of the bit conversion) carry nothing on.
func c03Carriers(v ssa.Value, consumer ssa.CallInstruction) []Target {
	var out []Target
	seen := map[ssa.Value]bool{}
	var walk func(v ssa.Value)
	walk = func(v ssa.Value) {
		if seen[v] || v.Referrers() == nil {
			return
		}
		seen[v] = true
		for _, r := range *v.Referrers() {
			switch x := r.(type) {
			case *ssa.Phi:
				for j, e := range x.Edges {
					if e == v && len(x.Block().Instrs) > 0 {
						out = append(out, Target{Instr: x.Block().Instrs[0], Pred: x.Block().Preds[j]})
					}
				}
			case *ssa.Return:
				out = append(out, Target{Instr: x})
			case *ssa.ChangeType:
				walk(x)
			case *ssa.MakeInterface:
				walk(x)
			case *ssa.ChangeInterface:
				walk(x)
			case ssa.CallInstruction:
				if x == consumer {
					out = append(out, Target{Instr: x})
				}
			}
		}
	}
	walk(v)
	return out
}

// localLevelListF: every origin of the slice v (helpers followed) is a load of the local policy's AuthMethods.
func (A *c03Anchors) localLevelListF(fr *c03Frame, v ssa.Value, role int) bool {
	os := c03OriginsF(fr, stripConv(v), nil)
	if len(os) == 0 {
		return false
	}
	for _, lf := range os {
		base, ok := c03LoadOf(lf.v, A.cfgAuthMethods)
		if !ok || !A.localCfgF(lf.fr, base, role) {
			return false
		}
	}
	return true
}

// ---------------------------------------------------------------------------
// C03-R3: the reported encryption flag is the stream's state

// c03Enc computes, per function of package security, whether it may change negotiation.Encryption or
// the stream's key state ("dirty") and whether every success return leaves the flag freshly copied
// from a.stream.IsEncrypted() ("syncs").
type c03Enc struct {
	c    *Ctx
	A    *c03Anchors
	memo map[*ssa.Function]*c03EncSum
}

type c03EncSum struct {
	active       bool
	dirty, syncs bool
}

// analyse returns the sync points of fn as cuts and its dirty instructions.
func (k *c03Enc) analyse(fn *ssa.Function, depth int) (*Cuts, []ssa.Instruction) {
	A := k.A
	cuts := newCuts()
	var dirty []ssa.Instruction
	allInstrs(fn, func(_ *ssa.BasicBlock, _ int, in ssa.Instruction) {
		switch x := in.(type) {
		case *ssa.Store:
			if fa, ok := x.Addr.(*ssa.FieldAddr); ok && fieldOfAddr(fa) == A.negEncryption {
				if A.isSyncValue(fn, x.Val) {
					cuts.AddInstrs(x)
				} else {
					dirty = append(dirty, x)
				}
			}
		case *ssa.Call:
			g := calleeFn(x)
			if g == nil {
				return
			}
			if g == A.setKey || g == A.setEnc {
				dirty = append(dirty, x)
				return
			}
			if g == fn || !c03SamePkg(g, A.setup) {
				return
			}
			s := k.summary(g, depth-1)
			if s.syncs {
				c03AddCallSuccess(fn, x, cuts)
			} else if s.dirty {
				dirty = append(dirty, x)
			}
		}
	})
	return cuts, dirty
}

func (k *c03Enc) summary(g *ssa.Function, depth int) *c03EncSum {
	if s, ok := k.memo[g]; ok {
		if s.active {
			return &c03EncSum{dirty: true}
		}
		return s
	}
	s := &c03EncSum{active: true}
	k.memo[g] = s
	if depth < 0 {
		s.active, s.dirty = false, true
		return s
	}
	cuts, dirty := k.analyse(g, depth)
	s.dirty = len(dirty) > 0
	hasSync := len(cuts.Instrs) > 0 || len(cuts.Edges) > 0
	s.syncs = hasSync
	if hasSync {
		tg := k.c.c03Success(g)
		for _, t := range tg {
			if findPath(entryPoint(g), t.Target(), cuts) != nil {
				s.syncs = false
			}
			for _, d := range dirty {
				if findPath(after(d), t.Target(), cuts) != nil {
					s.syncs = false
				}
			}
		}
		if len(tg) == 0 {
			s.syncs = false
		}
	}
	s.active = false
	return s
}

func c03InstrLabel(in ssa.Instruction) string {
	switch x := in.(type) {
	case *ssa.Store:
		if fa, ok := x.Addr.(*ssa.FieldAddr); ok {
			return "store:" + fieldOfAddr(fa).Name()
		}
		return "store"
	case *ssa.Call:
		if g := calleeFn(x); g != nil {
			return "call:" + g.Name()
		}
	}
	return "instr"
}

func c03r3(c *Ctx) {
	const rule = "C03-R3"
	defer c03Timed(c, rule)()
	c.Doc(rule, "T-MPT: in setupStreamEncryption, the two resumption functions and the two full handshakes, every path to a success return passes a store of a.stream.IsEncrypted() to negotiation.Encryption (directly or through a same-package helper that does so on all of its success returns), and nothing that can change the flag or the stream's key state (another store to the field, SetSymmetricKey/SetEncrypted, a helper doing either) happens between the last such store and the return Where a check, store or call is looked for, same-module helpers are followed to depth 4 (boolean predicates and value helpers with parameters mapped to arguments, same-package error-returning and effect helpers), and conditions materialised in local booleans are resolved per incoming value.")
	A := c.handshakeAnchors(rule)
	if !A.ok {
		return
	}
	k := &c03Enc{c: c, A: A, memo: map[*ssa.Function]*c03EncSum{}}
	for _, fn := range []*ssa.Function{A.setup, A.resumeC, A.resumeS, A.fullClient, A.fullServer} {
		cuts, dirty := k.analyse(fn, InlineDepth)
		tg := c.c03Success(fn)
		c.MinCount(rule, "success returns of "+fnName(fn), len(tg), 1)
		c.mustPassReturns(rule, fn, tg, cuts, "a copy of a.stream.IsEncrypted() into negotiation.Encryption")
		seen := map[string]int{}
		for _, d := range dirty {
			label := c03InstrLabel(d)
			seen[label]++
			construct := fmt.Sprintf("%s#%s%d-then-sync", fnName(fn), label, seen[label])
			var wit []*ssa.BasicBlock
			for _, t := range tg {
				if p := findPath(after(d), t.Target(), cuts); p != nil {
					wit = p
					break
				}
			}
			if wit == nil {
				c.Ok(rule, construct, "after this change of the flag / key state every success return re-reads the stream's state", d.Pos())
			} else {
				c.Violate(rule, construct, "after this point (which may change negotiation.Encryption or the stream's key state) a success return is reachable without copying a.stream.IsEncrypted() into negotiation.Encryption: the reported flag can differ from the stream", d.Pos(), c.describePath(wit)...)
			}
		}
	}
}

// ---------------------------------------------------------------------------
// C03-R4: REQUIRED encryption / integrity is enforced

func c03r4(c *Ctx) {
	const rule = "C03-R4"
	defer c03Timed(c, rule)()
	c.Doc(rule, "T-MPT: in both full handshakes and both resumption functions every path to a success return passes, for the local Encryption level and for the local Integrity level separately, an edge on which that level differs from REQUIRED or an edge on which the stream is known to encrypt (nil-error SetSymmetricKey, a true test of a.stream.IsEncrypted() or of the flag just copied from it); same-package helpers are inlined Where a check, store or call is looked for, same-module helpers are followed to depth 4 (boolean predicates and value helpers with parameters mapped to arguments, same-package error-returning and effect helpers), and conditions materialised in local booleans are resolved per incoming value.")
	A := c.handshakeAnchors(rule)
	if !A.ok {
		return
	}
	A.enc = &c03Enc{c: c, A: A, memo: map[*ssa.Function]*c03EncSum{}}
	for _, lvl := range []*types.Var{A.cfgEncryption, A.cfgIntegrity} {
		lvl := lvl
		mp := &c03MustPass{c: c, pkgOf: A.setup,
			atom: func(fr *c03Frame, a Atom) (bool, bool) {
				if t, f := A.notRequiredAtom(fr, a, lvl); t || f {
					return t, f
				}
				return a.Op == token.ILLEGAL && A.isStreamState(fr.fn, a.X), false
			},
			edges: A.setKeyEdges}
		for _, fn := range []*ssa.Function{A.fullClient, A.fullServer, A.resumeC, A.resumeS} {
			k := mp.check(rule, fn, lvl.Name(), "a test that the local "+lvl.Name()+" level is not REQUIRED or that the stream is encrypting")
			c.MinCount(rule, "success returns of "+fnName(fn)+" ["+lvl.Name()+"]", k, 1)
		}
	}
}

// ---------------------------------------------------------------------------
// C03-R5: reported authentication = what ran (full handshakes)

func c03r5(c *Ctx) {
	const rule = "C03-R5"
	defer c03Timed(c, rule)()
	c.Doc(rule, "store/edge analysis in the two authentication phases: a success return reached without a nil-error performAuthentication passes a fact negotiation.Authentication==false (false edge of its test, or a store of false); after a nil-error performAuthentication every success return passes a store of true (or the call is dominated by the true edge of the flag's test and the flag is not reassigned) and a store of the very method value that ran into negotiation.NegotiatedAuth; the callers do not overwrite either field afterwards Where a check, store or call is looked for, same-module helpers are followed to depth 4 (boolean predicates and value helpers with parameters mapped to arguments, same-package error-returning and effect helpers), and conditions materialised in local booleans are resolved per incoming value.")
	A := c.handshakeAnchors(rule)
	if !A.ok {
		return
	}
	skipPerf := func(g *ssa.Function) bool { return g == A.perfAuth }
	for _, fn := range []*ssa.Function{A.hClient, A.hServer} {
		root := c03Root(fn)
		tg := c.c03Success(fn)
		// the stores may sit in helpers of the phase (effect helper)
		stores := c03ReachStores(root, A.negAuthentication, skipPerf)
		nFalse, nOther := 0, 0
		for _, s := range stores {
			if _, ok := constBool(s.st.Val); !ok {
				nOther++
				c.Undecided(rule, fnName(fn)+"#store:Authentication", "negotiation.Authentication is assigned a non-constant value in an authentication phase: cannot relate it to what ran", s.st.Pos())
			} else if b, _ := constBool(s.st.Val); !b {
				nFalse++
			}
		}
		constStores := func(want bool) func(fr *c03Frame) []ssa.Instruction {
			return func(fr *c03Frame) []ssa.Instruction {
				var out []ssa.Instruction
				for _, s := range c03StoresTo(fr.fn, A.negAuthentication) {
					if b, ok := constBool(s.Val); ok && b == want {
						out = append(out, s)
					}
				}
				return out
			}
		}
		isPerf := func(fr *c03Frame, call ssa.CallInstruction) bool { return calleeFn(call) == A.perfAuth }
		// (a) paths without authentication report false
		mpA := &c03MustPass{c: c, pkgOf: A.setup,
			atom: func(fr *c03Frame, a Atom) (bool, bool) {
				return false, a.Op == token.ILLEGAL && readsField(a.X, A.negAuthentication)
			},
			instrs: constStores(false), calls: isPerf}
		cuts := mpA.cutsF(root)
		var wit []*ssa.BasicBlock
		var pos token.Pos
		for _, t := range tg {
			if p := findPath(entryPoint(fn), t.Target(), cuts); p != nil {
				wit, pos = p, t.Ret.Pos()
				break
			}
		}
		if wit == nil {
			c.Ok(rule, fnName(fn)+"#no-auth=>false", "a success return without authentication is preceded by Authentication==false", fn.Pos())
		} else {
			c.Violate(rule, fnName(fn)+"#no-auth=>false", "a success return is reachable without any authentication while negotiation.Authentication keeps whatever the negotiation computed (it can be true: the endpoint reports an authentication that never ran)", pos, c.describePath(wit)...)
		}
		// (b), (c) after a successful authentication
		nPerf := 0
		for i, cs := range c03ReachCalls(root, A.perfAuth, nil) {
			method := callArgs(cs.call)[2]
			mpTrue := &c03MustPass{c: c, pkgOf: A.setup, instrs: constStores(true)}
			mpMethod := &c03MustPass{c: c, pkgOf: A.setup, instrs: func(fr *c03Frame) []ssa.Instruction {
				var out []ssa.Instruction
				for _, s := range c03StoresTo(fr.fn, A.negNegotiatedAuth) {
					if c03SameValue(fr, s.Val, cs.fr, method) {
						out = append(out, s)
					}
				}
				return out
			}}
			// gated: the call is only reached with the flag known true (and the phase never clears it)
			gated := nFalse == 0 && nOther == 0 && (&c03MustPass{c: c, pkgOf: A.setup, atom: func(fr *c03Frame, a Atom) (bool, bool) {
				return a.Op == token.ILLEGAL && readsField(a.X, A.negAuthentication), false
			}}).dominates(cs.fr, cs.call)
			starts := c03AfterSuccess(cs.fr.fn, cs.call)
			if len(starts) == 0 {
				continue
			}
			nPerf += len(starts)
			var w1, w2 []*ssa.BasicBlock
			if !gated {
				w1 = mpTrue.afterMustPass(cs.fr, starts)
			}
			w2 = mpMethod.afterMustPass(cs.fr, starts)
			k1 := fmt.Sprintf("%s#performAuthentication%d-ok=>Authentication=true", fnName(fn), i+1)
			if w1 == nil {
				c.Ok(rule, k1, "after a successful authentication the flag is true on every success return", cs.call.Pos())
			} else {
				c.Violate(rule, k1, "after a successful performAuthentication a success return is reachable without negotiation.Authentication being true: the endpoint authenticated but reports Authentication=false (its own level was OPTIONAL/NEVER, or PREFERRED without a locally computed method)", cs.call.Pos(), c.describePath(w1)...)
			}
			k2 := fmt.Sprintf("%s#performAuthentication%d-ok=>NegotiatedAuth=method", fnName(fn), i+1)
			if w2 == nil {
				c.Ok(rule, k2, "the reported method is the method that ran", cs.call.Pos())
			} else {
				c.Violate(rule, k2, "after a successful performAuthentication a success return is reachable without storing the method that ran into negotiation.NegotiatedAuth", cs.call.Pos(), c.describePath(w2)...)
			}
		}
		// (structural minimum: the phase has a point at which performAuthentication has succeeded)
		c.MinCount(rule, "successful-performAuthentication points of "+fnName(fn), nPerf, 1)
	}
	// the callers do not overwrite the two fields after the authentication phase (the phase may be
	// called from a helper of the handshake: then nothing after it in the helper, nor after the helper
	// in its caller, may write them)
	writers := c03FieldWriters(c, A, A.negAuthentication, A.negNegotiatedAuth)
	for _, pair := range [][2]*ssa.Function{{A.fullClient, A.hClient}, {A.fullServer, A.hServer}} {
		fn, phase := pair[0], pair[1]
		nPhase := 0
		for _, cs := range c03ReachCalls(c03Root(fn), phase, nil) {
			nPhase++
			bad := ""
			var pos token.Pos
			for fr, call := cs.fr, cs.call; fr != nil; fr, call = fr.up, fr.call {
				allInstrs(fr.fn, func(_ *ssa.BasicBlock, _ int, in ssa.Instruction) {
					w := false
					switch x := in.(type) {
					case *ssa.Store:
						if fa, ok := x.Addr.(*ssa.FieldAddr); ok && (fieldOfAddr(fa) == A.negAuthentication || fieldOfAddr(fa) == A.negNegotiatedAuth) {
							w = true
						}
					case *ssa.Call:
						if g := calleeFn(x); g != nil && g != phase && writers[g] {
							w = true
						}
					}
					if w && findPath(after(call), Target{Instr: in}, nil) != nil {
						bad, pos = c03InstrLabel(in), in.Pos()
					}
				})
			}
			c.Check(bad == "", rule, fnName(fn)+"#after-"+phase.Name()+"-no-rewrite", "nothing reassigns Authentication / NegotiatedAuth after the authentication phase", "after the authentication phase "+bad+" can reassign negotiation.Authentication / NegotiatedAuth", pos)
		}
		c.MinCount(rule, "calls of "+phase.Name()+" in "+fnName(fn), nPhase, 1)
	}
}

// c03FieldWriters: package-security functions that (transitively, static calls) store to one of the fields.
func c03FieldWriters(c *Ctx, A *c03Anchors, fields ...*types.Var) map[*ssa.Function]bool {
	direct := map[*ssa.Function]bool{}
	fns := c.FnsOfPkg("security")
	for _, f := range fns {
		for _, fld := range fields {
			if len(c03StoresTo(f, fld)) > 0 {
				direct[f] = true
			}
		}
	}
	out := map[*ssa.Function]bool{}
	for f := range direct {
		out[f] = true
	}
	for changed := true; changed; {
		changed = false
		for _, f := range fns {
			if out[f] {
				continue
			}
			allInstrs(f, func(_ *ssa.BasicBlock, _ int, in ssa.Instruction) {
				if call, ok := in.(*ssa.Call); ok {
					if g := calleeFn(call); g != nil && out[g] && !out[f] {
						out[f] = true
						changed = true
					}
				}
			})
		}
	}
	return out
}

// ---------------------------------------------------------------------------
// C03-R6: error discipline in the authentication methods

func c03r6(c *Ctx) {
	const rule = "C03-R6"
	defer c03Timed(c, rule)()
	c.Doc(rule, "error discipline: in performAuthentication and every same-package function it can reach by static calls (the method implementations), the error result of a call to a module function is not dropped (unused / assigned to the blank identifier) at a point from which a success return of that function is still reachable")
	A := c.handshakeAnchors(rule)
	if !A.ok {
		return
	}
	roots := []*ssa.Function{A.perfAuth}
	reach := map[*ssa.Function]bool{}
	var work []*ssa.Function
	push := func(f *ssa.Function) {
		if f != nil && !reach[f] && c03SamePkg(topFn(f), A.perfAuth) && f.Blocks != nil {
			reach[f] = true
			work = append(work, f)
		}
	}
	for _, r := range roots {
		push(r)
	}
	for len(work) > 0 {
		f := work[len(work)-1]
		work = work[:len(work)-1]
		allInstrs(f, func(_ *ssa.BasicBlock, _ int, in ssa.Instruction) {
			if mc, ok := in.(*ssa.MakeClosure); ok {
				if g, ok := mc.Fn.(*ssa.Function); ok {
					push(g)
				}
			}
			if call, ok := in.(ssa.CallInstruction); ok {
				push(calleeFn(call))
			}
		})
	}
	var fns []*ssa.Function
	for f := range reach {
		fns = append(fns, f)
	}
	sort.Slice(fns, func(i, j int) bool { return fnName(fns[i]) < fnName(fns[j]) })
	nCalls, nBestEffort := 0, 0
	// accepted: best-effort notifications whose failure is reported by the very next exchange anyway
	for _, f := range fns {
		counts := map[string]int{}
		allInstrs(f, func(_ *ssa.BasicBlock, _ int, in ssa.Instruction) {
			call, ok := in.(*ssa.Call)
			if !ok {
				return
			}
			o := calleeObj(call)
			if o == nil || o.Pkg() == nil || !inModule(o.Pkg().Path()) {
				return
			}
			sig, _ := o.Type().(*types.Signature)
			if sig == nil {
				return
			}
			hasErr := false
			for i := 0; i < sig.Results().Len(); i++ {
				if isErrorType(sig.Results().At(i).Type()) {
					hasErr = true
				}
			}
			if !hasErr {
				return
			}
			nCalls++
			used := false
			for _, e := range errResults(call) {
				for _, r := range *e.Referrers() {
					if _, dbg := r.(*ssa.DebugRef); !dbg {
						used = true
					}
				}
			}
			if !used {
				// a discarded error matters only if the function can still succeed afterwards; the
				// repository's idiom "best-effort abort notice, then return the real error" is fine
				canSucceed := false
				for _, t := range c.c03Success(f) {
					if findPath(after(call), t.Target(), nil) != nil {
						canSucceed = true
					}
				}
				if !canSucceed {
					nBestEffort++
					return
				}
				counts[o.Name()]++
				c.Violate(rule, fmt.Sprintf("%s#discards-error:%s#%d", fnName(f), o.Name(), counts[o.Name()]), "the error returned by "+o.Name()+" is discarded inside an authentication method: a failed step can go unnoticed on the way to a success return", call.Pos())
			}
		})
	}
	c.Ok(rule, "authentication-methods#errors", fmt.Sprintf("%d calls returning an error in %d functions reachable from performAuthentication; %d discarded only where no success return can follow (best-effort notices on error paths); none discarded on a path to success apart from those reported", nCalls, len(fns), nBestEffort), A.perfAuth.Pos())
	// (structural minimum: performAuthentication dispatches to at least one method implementation,
	// and something in there can fail; not today's counts)
	c.MinCount(rule, "functions reachable from performAuthentication", len(fns), 2)
	c.MinCount(rule, "error-returning module calls inspected", nCalls, 1)
}

// ---------------------------------------------------------------------------
// C03-R7: REQUIRED authentication on resumption

// c03AuthedAttr: the attribute under which storeSession records negotiation.Authentication.
func c03AuthedAttr(A *c03Anchors, fn *ssa.Function) (string, token.Pos) {
	for name, calls := range c03AttrCalls(fn, c03IsSet, nil) {
		if name == c03UnresolvedAttr {
			continue
		}
		for _, cs := range calls {
			args := callArgs(cs.call)
			if len(args) < 3 {
				continue
			}
			all := true
			os := c03OriginsF(cs.fr, stripConv(args[2]), nil)
			for _, o := range os {
				if _, ok := c03LoadOf(o.v, A.negAuthentication); !ok {
					all = false
				}
			}
			if all && len(os) > 0 {
				return name, cs.call.Pos()
			}
		}
	}
	return "", token.NoPos
}

// c03IsCachedAuthed: every origin of the boolean v is the constant false or result #0 of
// EvaluateAttrBool(<entry>.Policy(), attr); at least one origin is the latter. Origins are followed
// through value helpers (c03OriginsF): `authed := sessionWasAuthenticated(entry)`.
func c03IsCachedAuthed(fr *c03Frame, v ssa.Value, attr string, policy *ssa.Function, depth int) bool {
	if depth > 3 {
		return false
	}
	stop := func(g *ssa.Function) bool { return g == policy }
	n := 0
	for _, lf := range c03OriginsF(fr, stripConv(v), stop) {
		o := lf.v
		if b, ok := constBool(o); ok && !b {
			continue
		}
		call, idx := originCall(o)
		if call != nil && idx == 0 {
			if obj := calleeObj(call); obj != nil && obj.Name() == "EvaluateAttrBool" && obj.Pkg() != nil && obj.Pkg().Name() == "classad" {
				args := callArgs(call)
				name, _ := constString(args[1])
				recvOK := false
				for _, ro := range c03OriginsF(lf.fr, args[0], stop) {
					if rc, ri := originCall(ro.v); rc != nil && ri == 0 && calleeFn(rc) == policy {
						recvOK = true
					} else {
						recvOK = false
						break
					}
				}
				if name == attr && recvOK {
					n++
					continue
				}
			}
		}
		// a load of negotiation.Authentication of a negotiation built in this function whose every
		// store (in the function or a helper it hands the negotiation to) is itself such a value
		if base, f, ok := fieldRead(o); ok && f.Name() == "Authentication" {
			if _, fresh := base.(*ssa.Alloc); fresh {
				okAll, m := true, 0
				for _, s := range c03ReachStores(lf.fr, f, nil) {
					if s.fr == lf.fr {
						if fa := s.st.Addr.(*ssa.FieldAddr); fa.X != base {
							continue
						}
					}
					m++
					if !c03IsCachedAuthed(s.fr, s.st.Val, attr, policy, depth+1) {
						okAll = false
					}
				}
				if okAll && m > 0 {
					n++
					continue
				}
			}
		}
		return false
	}
	return n > 0
}

func c03r7(c *Ctx) {
	const rule = "C03-R7"
	defer c03Timed(c, rule)()
	c.Doc(rule, "T-MPT + writer/reader agreement: both session writers record negotiation.Authentication under one attribute; in resumeSession and handleSessionResumption every path to a success return passes an edge on which the local Authentication level differs from REQUIRED or an edge on which the cached session's recorded flag (EvaluateAttrBool of that attribute on entry.Policy()) is true; and the Authentication flag each of them reports is that recorded value Where a check, store or call is looked for, same-module helpers are followed to depth 4 (boolean predicates and value helpers with parameters mapped to arguments, same-package error-returning and effect helpers), and conditions materialised in local booleans are resolved per incoming value.")
	A := c.handshakeAnchors(rule)
	if !A.ok {
		return
	}
	policy := c.needFn(rule, "security", "(*SessionEntry).Policy")
	if policy == nil {
		return
	}
	attrS, posS := c03AuthedAttr(A, A.storeS)
	attrC, _ := c03AuthedAttr(A, A.storeC)
	c.Check(attrS != "", rule, fnName(A.storeS)+"#records:Authentication", "the server records whether the session was authenticated (attribute "+attrS+")", "storeSession does not record negotiation.Authentication in the session policy", posS)
	c.Check(attrC != "" && attrC == attrS, rule, fnName(A.storeC)+"#records:Authentication", "the client records whether the session was authenticated under the same attribute", "storeClientSession does not record negotiation.Authentication in the cached policy (attribute "+fmt.Sprintf("%q", attrS)+" on the server side): a resumed client session cannot know whether it was authenticated", A.storeC.Pos())
	attr := attrS
	if attr == "" {
		attr = attrC
	}
	if attr == "" {
		return
	}
	for _, fn := range []*ssa.Function{A.resumeC, A.resumeS} {
		// reported flag = recorded value (the store may sit in a helper the negotiation is handed to)
		stores := c03ReachStores(c03Root(fn), A.negAuthentication, func(g *ssa.Function) bool {
			return g == A.setup || g == A.negotiate || g == A.hClient || g == A.hServer || g == A.fullClient || g == A.fullServer
		})
		okStores := len(stores) > 0
		for _, s := range stores {
			if !c03IsCachedAuthed(s.fr, s.st.Val, attr, policy, 0) {
				okStores = false
			}
		}
		c.Check(okStores, rule, fnName(fn)+"#Authentication=recorded", "the reported Authentication is the value recorded with the cached session", "the resumed negotiation's Authentication is not restored from the cached session's "+attr+" record (it stays false / is taken from elsewhere)", fn.Pos())
		mp := &c03MustPass{c: c, pkgOf: A.setup, atom: func(fr *c03Frame, a Atom) (bool, bool) {
			if t, f := A.notRequiredAtom(fr, a, A.cfgAuthentication); t || f {
				return t, f
			}
			return a.Op == token.ILLEGAL && c03IsCachedAuthed(fr, a.X, attr, policy, 0), false
		}}
		k := mp.check(rule, fn, "", "a test that the local Authentication level is not REQUIRED or that the cached session was an authenticated one")
		c.MinCount(rule, "success returns of "+fnName(fn), k, 1)
	}
}
