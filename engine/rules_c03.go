package main

// C03 — REQUIRED means required; the reported handshake outcome is what happened.
// Needs help_c03.go.

import (
	"fmt"
	"go/token"
	"go/types"
	"sort"

	"golang.org/x/tools/go/ssa"
)

func init() { register("C03", c03r1, c03r2, c03r3, c03r4, c03r5, c03r6, c03r7) }

// ---------------------------------------------------------------------------
// C03-R1: local authentication policy is enforced

func c03r1(c *Ctx) {
	const rule = "C03-R1"
	defer c03Timed(c, rule)()
	c.Doc(rule, "T-MPT: in handleClientAuthentication every path to a success return passes a nil-error performAuthentication or an edge on which the client's OWN Authentication level (a.config / negotiation.ClientConfig) differs from REQUIRED; in handleServerAuthentication: a nil-error performAuthentication or the edge on which negotiation.Authentication (computed from the server's own level, C10-R1) is false")
	A := c.handshakeAnchors(rule)
	if !A.ok {
		return
	}
	n := 0
	for _, fn := range []*ssa.Function{A.hClient, A.hServer} {
		role := A.roleOf(fn)
		cuts := newCuts()
		calls := callsIn(fn, A.perfAuth.Object())
		if len(calls) == 0 {
			c.Violate(rule, fnName(fn)+"#call:performAuthentication", "no call of performAuthentication", fn.Pos())
		}
		for _, cs := range calls {
			succ, _, checked := callErrEdges(fn, cs.Value())
			if !checked {
				c.Violate(rule, fnName(fn)+"#call:performAuthentication", "the error result of performAuthentication is never tested", cs.Pos())
			}
			cuts.AddEdges(succ...)
		}
		notReq, _ := A.levelEdges(fn, A.cfgAuthentication, role)
		cuts.AddEdges(notReq...)
		what := "a successful performAuthentication or a test that the local policy does not require authentication"
		if role == c03RoleServer {
			off, _ := fieldCondEdges(fn, A.negAuthentication)
			cuts.AddEdges(off...)
			what = "a successful performAuthentication or the edge on which negotiation.Authentication is false"
		}
		tg := c.c03Success(fn)
		n += len(tg)
		c.mustPassReturns(rule, fn, tg, cuts, what)
	}
	c.MinCount(rule, "success returns of the two authentication phases", n, 4)
}

// ---------------------------------------------------------------------------
// C03-R2: the method that runs was offered / is locally listed

func c03r2(c *Ctx) {
	const rule = "C03-R2"
	defer c03Timed(c, rule)()
	c.Doc(rule, "T-DOM + provenance: on the client the method handed to performAuthentication comes from the peer's GetInt through bitmaskToAuthMethod and the call is dominated by a test that the selection lies inside the mask sent with PutInt in that round (or the method is an element of a local list); on the server the method is the no-method constant or an element of the server's own AuthMethods selected under a test of the client's mask")
	A := c.handshakeAnchors(rule)
	if !A.ok {
		return
	}
	getInt := c03MsgMethod(c, rule, "GetInt")
	putInt := c03MsgMethod(c, rule, "PutInt")
	if getInt == nil || putInt == nil {
		return
	}
	n := 0
	// --- client
	fn := A.hClient
	masks := map[ssa.Value]bool{}
	for _, cs := range callsIn(fn, putInt) {
		v := stripConv(callArgs(cs)[2])
		if _, isConst := v.(*ssa.Const); !isConst {
			masks[v] = true
		}
	}
	for i, cs := range callsIn(fn, A.perfAuth.Object()) {
		n++
		construct := fmt.Sprintf("%s#performAuthentication%d(method)", fnName(fn), i+1)
		method := callArgs(cs)[2]
		status, msg := StOK, "the method run is bound to the mask this client sent"
		for _, o := range origins(fn, method) {
			if call, idx := originCall(o); call != nil && idx == 0 && calleeFn(call) == A.bitToMethod {
				resp := stripConv(call.Common().Args[0])
				// the selection must be peer data (GetInt) - otherwise nothing to sanitise
				if pc, pi := originCall(resp); pc == nil || pi != 0 || calleeObj(pc) != getInt {
					status, msg = StUndecided, "the value converted by bitmaskToAuthMethod is not the GetInt result: cannot follow the selection"
					break
				}
				if len(masks) == 0 {
					status, msg = StUndecided, "cannot find the mask the client sends (non-constant PutInt argument)"
					break
				}
				dominated := false
				for _, e := range c03SubsetEdges(fn, resp, masks) {
					if instrDominatedByEdge(fn, e, cs) {
						dominated = true
					}
				}
				if !dominated {
					status, msg = StViolated, "the client runs whatever method bit the server names: no test that the selection lies inside the mask the client sent dominates performAuthentication (a server can select a method that was never offered)"
					break
				}
				continue
			}
			// element of a local list
			if ld, ok := o.(*ssa.UnOp); ok && ld.Op == token.MUL {
				if ia, ok := ld.X.(*ssa.IndexAddr); ok && c03LocalList(fn, A, ia.X) {
					continue
				}
			}
			status, msg = StUndecided, "cannot follow where the method handed to performAuthentication comes from"
			break
		}
		switch status {
		case StOK:
			c.Ok(rule, construct, msg, cs.Pos())
		case StViolated:
			c.Violate(rule, construct, msg, cs.Pos())
		default:
			c.Undecided(rule, construct, msg, cs.Pos())
		}
	}
	// --- server
	fn = A.hServer
	for i, cs := range callsIn(fn, A.perfAuth.Object()) {
		n++
		construct := fmt.Sprintf("%s#performAuthentication%d(method)", fnName(fn), i+1)
		method := callArgs(cs)[2]
		status, msg := StOK, "the method run is the server's own list entry selected under the client's mask"
		elems := 0
		for _, o := range origins(fn, method) {
			if s, ok := constString(o); ok && s == A.authNone {
				continue
			}
			ld, ok := o.(*ssa.UnOp)
			var ia *ssa.IndexAddr
			if ok && ld.Op == token.MUL {
				ia, _ = ld.X.(*ssa.IndexAddr)
			}
			if ia == nil || !A.localLevelList(fn, ia.X, c03RoleServer) {
				status, msg = StViolated, "the method the server runs is not taken from its own AuthMethods list"
				break
			}
			elems++
			// selected under (clientMask & authMethodToBitmask(elem)) != 0
			guarded := false
			for _, b := range fn.Blocks {
				ifi := blockIf(b)
				if ifi == nil {
					continue
				}
				a := condAtom(ifi.Cond)
				if a.Op != token.EQL && a.Op != token.NEQ {
					continue
				}
				bo, ok := stripConv(a.X).(*ssa.BinOp)
				if k, isK := constInt(a.Y); !ok || bo.Op != token.AND || !isK || k != 0 {
					continue
				}
				var bit, mask ssa.Value
				for _, pair := range [][2]ssa.Value{{bo.X, bo.Y}, {bo.Y, bo.X}} {
					if call, ok := stripConv(pair[0]).(*ssa.Call); ok && calleeFn(call) == A.methodToBit && stripConv(call.Call.Args[0]) == ssa.Value(ld) {
						bit, mask = pair[0], pair[1]
					}
				}
				if bit == nil {
					continue
				}
				if pc, pi := originCall(stripConv(mask)); pc == nil || pi != 0 || calleeObj(pc) != getInt {
					continue
				}
				member := Edge{b, 0}
				if (a.Op == token.EQL) != a.Neg {
					member = Edge{b, 1}
				}
				// the element reaches the call only through the membership edge: removing it must
				// leave only the no-method constant
				phiOK := true
				if phi, isPhi := stripConv(method).(*ssa.Phi); isPhi {
					for j, e := range phi.Edges {
						if stripConv(e) == ssa.Value(ld) && !edgeDominates(fn, member, phi.Block().Preds[j]) && phi.Block().Preds[j] != member.To() {
							phiOK = false
						}
					}
				} else if !instrDominatedByEdge(fn, member, cs) {
					phiOK = false
				}
				if phiOK {
					guarded = true
				}
			}
			if !guarded {
				status, msg = StViolated, "the server selects a method without testing it against the mask the client offered"
				break
			}
		}
		if status == StOK && elems == 0 {
			status, msg = StUndecided, "no list element reaches performAuthentication on the server"
		}
		switch status {
		case StOK:
			c.Ok(rule, construct, msg, cs.Pos())
		case StViolated:
			c.Violate(rule, construct, msg, cs.Pos())
		default:
			c.Undecided(rule, construct, msg, cs.Pos())
		}
	}
	c.MinCount(rule, "performAuthentication call sites", n, 2)
}

// c03LocalList: v is a slice built in fn from elements of the local AuthMethods (clientMethods) or the list itself.
func c03LocalList(fn *ssa.Function, A *c03Anchors, v ssa.Value) bool {
	return A.localLevelList(fn, v, A.roleOf(fn))
}

// localLevelList: every origin of the slice v is a load of the local policy's AuthMethods.
func (A *c03Anchors) localLevelList(fn *ssa.Function, v ssa.Value, role int) bool {
	os := origins(fn, stripConv(v))
	if len(os) == 0 {
		return false
	}
	for _, o := range os {
		base, ok := c03LoadOf(o, A.cfgAuthMethods)
		if !ok || !A.localCfg(fn, base, role) {
			return false
		}
	}
	return true
}

// ---------------------------------------------------------------------------
// C03-R3: the reported encryption flag is the stream's state

// c03Enc computes, per function of package security, whether it may change negotiation.Encryption or
// the stream's key state ("dirty") and whether every success return leaves the flag freshly copied
// from a.stream.IsEncrypted() ("syncs").
type c03Enc struct {
	c    *Ctx
	A    *c03Anchors
	memo map[*ssa.Function]*c03EncSum
}

type c03EncSum struct {
	active       bool
	dirty, syncs bool
}

// analyse returns the sync points of fn as cuts and its dirty instructions.
func (k *c03Enc) analyse(fn *ssa.Function, depth int) (*Cuts, []ssa.Instruction) {
	A := k.A
	cuts := newCuts()
	var dirty []ssa.Instruction
	allInstrs(fn, func(_ *ssa.BasicBlock, _ int, in ssa.Instruction) {
		switch x := in.(type) {
		case *ssa.Store:
			if fa, ok := x.Addr.(*ssa.FieldAddr); ok && fieldOfAddr(fa) == A.negEncryption {
				if A.isSyncValue(fn, x.Val) {
					cuts.AddInstrs(x)
				} else {
					dirty = append(dirty, x)
				}
			}
		case *ssa.Call:
			g := calleeFn(x)
			if g == nil {
				return
			}
			if g == A.setKey || g == A.setEnc {
				dirty = append(dirty, x)
				return
			}
			if g == fn || !c03SamePkg(g, A.setup) {
				return
			}
			s := k.summary(g, depth-1)
			if s.syncs {
				c03AddCallSuccess(fn, x, cuts)
			} else if s.dirty {
				dirty = append(dirty, x)
			}
		}
	})
	return cuts, dirty
}

func (k *c03Enc) summary(g *ssa.Function, depth int) *c03EncSum {
	if s, ok := k.memo[g]; ok {
		if s.active {
			return &c03EncSum{dirty: true}
		}
		return s
	}
	s := &c03EncSum{active: true}
	k.memo[g] = s
	if depth < 0 {
		s.active, s.dirty = false, true
		return s
	}
	cuts, dirty := k.analyse(g, depth)
	s.dirty = len(dirty) > 0
	hasSync := len(cuts.Instrs) > 0 || len(cuts.Edges) > 0
	s.syncs = hasSync
	if hasSync {
		tg := k.c.c03Success(g)
		for _, t := range tg {
			if findPath(entryPoint(g), t.Target(), cuts) != nil {
				s.syncs = false
			}
			for _, d := range dirty {
				if findPath(after(d), t.Target(), cuts) != nil {
					s.syncs = false
				}
			}
		}
		if len(tg) == 0 {
			s.syncs = false
		}
	}
	s.active = false
	return s
}

func c03InstrLabel(in ssa.Instruction) string {
	switch x := in.(type) {
	case *ssa.Store:
		if fa, ok := x.Addr.(*ssa.FieldAddr); ok {
			return "store:" + fieldOfAddr(fa).Name()
		}
		return "store"
	case *ssa.Call:
		if g := calleeFn(x); g != nil {
			return "call:" + g.Name()
		}
	}
	return "instr"
}

func c03r3(c *Ctx) {
	const rule = "C03-R3"
	defer c03Timed(c, rule)()
	c.Doc(rule, "T-MPT: in setupStreamEncryption, the two resumption functions and the two full handshakes, every path to a success return passes a store of a.stream.IsEncrypted() to negotiation.Encryption (directly or through a same-package helper that does so on all of its success returns), and nothing that can change the flag or the stream's key state (another store to the field, SetSymmetricKey/SetEncrypted, a helper doing either) happens between the last such store and the return")
	A := c.handshakeAnchors(rule)
	if !A.ok {
		return
	}
	k := &c03Enc{c: c, A: A, memo: map[*ssa.Function]*c03EncSum{}}
	n := 0
	for _, fn := range []*ssa.Function{A.setup, A.resumeC, A.resumeS, A.fullClient, A.fullServer} {
		cuts, dirty := k.analyse(fn, InlineDepth)
		tg := c.c03Success(fn)
		n += len(tg)
		c.mustPassReturns(rule, fn, tg, cuts, "a copy of a.stream.IsEncrypted() into negotiation.Encryption")
		seen := map[string]int{}
		for _, d := range dirty {
			label := c03InstrLabel(d)
			seen[label]++
			construct := fmt.Sprintf("%s#%s%d-then-sync", fnName(fn), label, seen[label])
			var wit []*ssa.BasicBlock
			for _, t := range tg {
				if p := findPath(after(d), t.Target(), cuts); p != nil {
					wit = p
					break
				}
			}
			if wit == nil {
				c.Ok(rule, construct, "after this change of the flag / key state every success return re-reads the stream's state", d.Pos())
			} else {
				c.Violate(rule, construct, "after this point (which may change negotiation.Encryption or the stream's key state) a success return is reachable without copying a.stream.IsEncrypted() into negotiation.Encryption: the reported flag can differ from the stream", d.Pos(), c.describePath(wit)...)
			}
		}
	}
	c.MinCount(rule, "success returns checked", n, 7)
}

// ---------------------------------------------------------------------------
// C03-R4: REQUIRED encryption / integrity is enforced

func c03r4(c *Ctx) {
	const rule = "C03-R4"
	defer c03Timed(c, rule)()
	c.Doc(rule, "T-MPT: in both full handshakes and both resumption functions every path to a success return passes, for the local Encryption level and for the local Integrity level separately, an edge on which that level differs from REQUIRED or an edge on which the stream is known to encrypt (nil-error SetSymmetricKey, a true test of a.stream.IsEncrypted() or of the flag just copied from it); same-package helpers are inlined")
	A := c.handshakeAnchors(rule)
	if !A.ok {
		return
	}
	n := 0
	for _, lvl := range []*types.Var{A.cfgEncryption, A.cfgIntegrity} {
		lvl := lvl
		mp := &c03MustPass{c: c, pkgOf: A.setup, edges: func(f *ssa.Function) []Edge {
			notReq, _ := A.levelEdges(f, lvl, A.roleOf(f))
			return append(notReq, A.encKnownEdges(f)...)
		}}
		for _, fn := range []*ssa.Function{A.fullClient, A.fullServer, A.resumeC, A.resumeS} {
			n += mp.check(rule, fn, lvl.Name(), "a test that the local "+lvl.Name()+" level is not REQUIRED or that the stream is encrypting")
		}
	}
	c.MinCount(rule, "success returns x levels checked", n, 8)
}

// ---------------------------------------------------------------------------
// C03-R5: reported authentication = what ran (full handshakes)

func c03r5(c *Ctx) {
	const rule = "C03-R5"
	defer c03Timed(c, rule)()
	c.Doc(rule, "store/edge analysis in the two authentication phases: a success return reached without a nil-error performAuthentication passes a fact negotiation.Authentication==false (false edge of its test, or a store of false); after a nil-error performAuthentication every success return passes a store of true (or the call is dominated by the true edge of the flag's test and the flag is not reassigned) and a store of the very method value that ran into negotiation.NegotiatedAuth; the callers do not overwrite either field afterwards")
	A := c.handshakeAnchors(rule)
	if !A.ok {
		return
	}
	n := 0
	for _, fn := range []*ssa.Function{A.hClient, A.hServer} {
		tg := c.c03Success(fn)
		stores := c03StoresTo(fn, A.negAuthentication)
		var storeTrue, storeFalse, storeOther []ssa.Instruction
		for _, s := range stores {
			if b, ok := constBool(s.Val); ok && b {
				storeTrue = append(storeTrue, s)
			} else if ok {
				storeFalse = append(storeFalse, s)
			} else {
				storeOther = append(storeOther, s)
			}
		}
		for _, s := range storeOther {
			c.Undecided(rule, fnName(fn)+"#store:Authentication", "negotiation.Authentication is assigned a non-constant value in an authentication phase: cannot relate it to what ran", s.Pos())
		}
		off, on := fieldCondEdges(fn, A.negAuthentication)
		// (a) paths without authentication report false
		cuts := newCuts().AddEdges(off...).AddInstrs(storeFalse...)
		for _, cs := range callsIn(fn, A.perfAuth.Object()) {
			succ, _, _ := callErrEdges(fn, cs.Value())
			cuts.AddEdges(succ...)
		}
		var wit []*ssa.BasicBlock
		var pos token.Pos
		for _, t := range tg {
			if p := findPath(entryPoint(fn), t.Target(), cuts); p != nil {
				wit, pos = p, t.Ret.Pos()
				break
			}
		}
		n++
		if wit == nil {
			c.Ok(rule, fnName(fn)+"#no-auth=>false", "a success return without authentication is preceded by Authentication==false", fn.Pos())
		} else {
			c.Violate(rule, fnName(fn)+"#no-auth=>false", "a success return is reachable without any authentication while negotiation.Authentication keeps whatever the negotiation computed (it can be true: the endpoint reports an authentication that never ran)", pos, c.describePath(wit)...)
		}
		// (b), (c) after a successful authentication
		for i, cs := range callsIn(fn, A.perfAuth.Object()) {
			succ, _, _ := callErrEdges(fn, cs.Value())
			method := stripConv(callArgs(cs)[2])
			var methodStores []ssa.Instruction
			for _, s := range c03StoresTo(fn, A.negNegotiatedAuth) {
				if stripConv(s.Val) == method {
					methodStores = append(methodStores, s)
				}
			}
			gated := false
			for _, e := range on {
				if instrDominatedByEdge(fn, e, cs) && len(storeFalse) == 0 && len(storeOther) == 0 {
					gated = true
				}
			}
			for _, e := range succ {
				if len(e.To().Instrs) == 0 {
					continue
				}
				n++
				start := Point{e.To(), 0}
				var w1, w2 []*ssa.BasicBlock
				for _, t := range tg {
					if !gated {
						if p := findPath(start, t.Target(), newCuts().AddInstrs(storeTrue...)); p != nil {
							w1 = p
						}
					}
					if p := findPath(start, t.Target(), newCuts().AddInstrs(methodStores...)); p != nil {
						w2 = p
					}
				}
				k1 := fmt.Sprintf("%s#performAuthentication%d-ok=>Authentication=true", fnName(fn), i+1)
				if w1 == nil {
					c.Ok(rule, k1, "after a successful authentication the flag is true on every success return", cs.Pos())
				} else {
					c.Violate(rule, k1, "after a successful performAuthentication a success return is reachable without negotiation.Authentication being true: the endpoint authenticated but reports Authentication=false (its own level was OPTIONAL/NEVER, or PREFERRED without a locally computed method)", cs.Pos(), c.describePath(w1)...)
				}
				k2 := fmt.Sprintf("%s#performAuthentication%d-ok=>NegotiatedAuth=method", fnName(fn), i+1)
				if w2 == nil {
					c.Ok(rule, k2, "the reported method is the method that ran", cs.Pos())
				} else {
					c.Violate(rule, k2, "after a successful performAuthentication a success return is reachable without storing the method that ran into negotiation.NegotiatedAuth", cs.Pos(), c.describePath(w2)...)
				}
			}
		}
	}
	// the callers do not overwrite the two fields after the authentication phase
	writers := c03FieldWriters(c, A, A.negAuthentication, A.negNegotiatedAuth)
	for _, pair := range [][2]*ssa.Function{{A.fullClient, A.hClient}, {A.fullServer, A.hServer}} {
		fn, phase := pair[0], pair[1]
		for _, cs := range callsIn(fn, phase.Object()) {
			n++
			bad := ""
			var pos token.Pos
			allInstrs(fn, func(_ *ssa.BasicBlock, _ int, in ssa.Instruction) {
				w := false
				switch x := in.(type) {
				case *ssa.Store:
					if fa, ok := x.Addr.(*ssa.FieldAddr); ok && (fieldOfAddr(fa) == A.negAuthentication || fieldOfAddr(fa) == A.negNegotiatedAuth) {
						w = true
					}
				case *ssa.Call:
					if g := calleeFn(x); g != nil && g != phase && writers[g] {
						w = true
					}
				}
				if w && findPath(after(cs), Target{Instr: in}, nil) != nil {
					bad, pos = c03InstrLabel(in), in.Pos()
				}
			})
			c.Check(bad == "", rule, fnName(fn)+"#after-"+phase.Name()+"-no-rewrite", "nothing reassigns Authentication / NegotiatedAuth after the authentication phase", "after the authentication phase "+bad+" can reassign negotiation.Authentication / NegotiatedAuth", pos)
		}
	}
	c.MinCount(rule, "checks", n, 6)
}

// c03FieldWriters: package-security functions that (transitively, static calls) store to one of the fields.
func c03FieldWriters(c *Ctx, A *c03Anchors, fields ...*types.Var) map[*ssa.Function]bool {
	direct := map[*ssa.Function]bool{}
	fns := c.FnsOfPkg("security")
	for _, f := range fns {
		for _, fld := range fields {
			if len(c03StoresTo(f, fld)) > 0 {
				direct[f] = true
			}
		}
	}
	out := map[*ssa.Function]bool{}
	for f := range direct {
		out[f] = true
	}
	for changed := true; changed; {
		changed = false
		for _, f := range fns {
			if out[f] {
				continue
			}
			allInstrs(f, func(_ *ssa.BasicBlock, _ int, in ssa.Instruction) {
				if call, ok := in.(*ssa.Call); ok {
					if g := calleeFn(call); g != nil && out[g] && !out[f] {
						out[f] = true
						changed = true
					}
				}
			})
		}
	}
	return out
}

// ---------------------------------------------------------------------------
// C03-R6: error discipline in the authentication methods

func c03r6(c *Ctx) {
	const rule = "C03-R6"
	defer c03Timed(c, rule)()
	c.Doc(rule, "error discipline: in performAuthentication and every same-package function it can reach by static calls (the method implementations), the error result of a call to a module function is not dropped (unused / assigned to the blank identifier) at a point from which a success return of that function is still reachable")
	A := c.handshakeAnchors(rule)
	if !A.ok {
		return
	}
	roots := []*ssa.Function{A.perfAuth}
	reach := map[*ssa.Function]bool{}
	var work []*ssa.Function
	push := func(f *ssa.Function) {
		if f != nil && !reach[f] && c03SamePkg(topFn(f), A.perfAuth) && f.Blocks != nil {
			reach[f] = true
			work = append(work, f)
		}
	}
	for _, r := range roots {
		push(r)
	}
	for len(work) > 0 {
		f := work[len(work)-1]
		work = work[:len(work)-1]
		allInstrs(f, func(_ *ssa.BasicBlock, _ int, in ssa.Instruction) {
			if mc, ok := in.(*ssa.MakeClosure); ok {
				if g, ok := mc.Fn.(*ssa.Function); ok {
					push(g)
				}
			}
			if call, ok := in.(ssa.CallInstruction); ok {
				push(calleeFn(call))
			}
		})
	}
	var fns []*ssa.Function
	for f := range reach {
		fns = append(fns, f)
	}
	sort.Slice(fns, func(i, j int) bool { return fnName(fns[i]) < fnName(fns[j]) })
	nCalls, nBestEffort := 0, 0
	// accepted: best-effort notifications whose failure is reported by the very next exchange anyway
	for _, f := range fns {
		counts := map[string]int{}
		allInstrs(f, func(_ *ssa.BasicBlock, _ int, in ssa.Instruction) {
			call, ok := in.(*ssa.Call)
			if !ok {
				return
			}
			o := calleeObj(call)
			if o == nil || o.Pkg() == nil || !inModule(o.Pkg().Path()) {
				return
			}
			sig, _ := o.Type().(*types.Signature)
			if sig == nil {
				return
			}
			hasErr := false
			for i := 0; i < sig.Results().Len(); i++ {
				if isErrorType(sig.Results().At(i).Type()) {
					hasErr = true
				}
			}
			if !hasErr {
				return
			}
			nCalls++
			used := false
			for _, e := range errResults(call) {
				for _, r := range *e.Referrers() {
					if _, dbg := r.(*ssa.DebugRef); !dbg {
						used = true
					}
				}
			}
			if !used {
				// a discarded error matters only if the function can still succeed afterwards; the
				// repository's idiom "best-effort abort notice, then return the real error" is fine
				canSucceed := false
				for _, t := range c.c03Success(f) {
					if findPath(after(call), t.Target(), nil) != nil {
						canSucceed = true
					}
				}
				if !canSucceed {
					nBestEffort++
					return
				}
				counts[o.Name()]++
				c.Violate(rule, fmt.Sprintf("%s#discards-error:%s#%d", fnName(f), o.Name(), counts[o.Name()]), "the error returned by "+o.Name()+" is discarded inside an authentication method: a failed step can go unnoticed on the way to a success return", call.Pos())
			}
		})
	}
	c.Ok(rule, "authentication-methods#errors", fmt.Sprintf("%d calls returning an error in %d functions reachable from performAuthentication; %d discarded only where no success return can follow (best-effort notices on error paths); none discarded on a path to success apart from those reported", nCalls, len(fns), nBestEffort), A.perfAuth.Pos())
	c.MinCount(rule, "functions reachable from performAuthentication", len(fns), 20)
	c.MinCount(rule, "error-returning module calls inspected", nCalls, 60)
}

// ---------------------------------------------------------------------------
// C03-R7: REQUIRED authentication on resumption

// c03AuthedAttr: the attribute under which storeSession records negotiation.Authentication.
func c03AuthedAttr(A *c03Anchors, fn *ssa.Function) (string, token.Pos) {
	for name, calls := range c03AttrCalls(fn, c03IsSet, nil) {
		for _, call := range calls {
			args := callArgs(call)
			if len(args) < 3 {
				continue
			}
			all := true
			os := origins(fn, stripConv(args[2]))
			for _, o := range os {
				if _, ok := c03LoadOf(o, A.negAuthentication); !ok {
					all = false
				}
			}
			if all && len(os) > 0 {
				return name, call.Pos()
			}
		}
	}
	return "", token.NoPos
}

// c03IsCachedAuthed: every origin of the boolean v is the constant false or result #0 of
// EvaluateAttrBool(<entry>.Policy(), attr); at least one origin is the latter.
func c03IsCachedAuthed(fn *ssa.Function, v ssa.Value, attr string, policy *ssa.Function, depth int) bool {
	if depth > 3 {
		return false
	}
	n := 0
	for _, o := range origins(fn, stripConv(v)) {
		if b, ok := constBool(o); ok && !b {
			continue
		}
		call, idx := originCall(o)
		if call != nil && idx == 0 {
			if obj := calleeObj(call); obj != nil && obj.Name() == "EvaluateAttrBool" && obj.Pkg() != nil && obj.Pkg().Name() == "classad" {
				args := callArgs(call)
				name, _ := constString(args[1])
				recvOK := false
				for _, ro := range origins(fn, args[0]) {
					if rc, ri := originCall(ro); rc != nil && ri == 0 && calleeFn(rc) == policy {
						recvOK = true
					} else {
						recvOK = false
						break
					}
				}
				if name == attr && recvOK {
					n++
					continue
				}
			}
		}
		// a load of negotiation.Authentication of a negotiation built in this function whose every
		// store is itself such a value
		if base, f, ok := fieldRead(o); ok && f.Name() == "Authentication" {
			if _, fresh := base.(*ssa.Alloc); fresh {
				okAll, m := true, 0
				for _, s := range c03StoresTo(fn, f) {
					if fa := s.Addr.(*ssa.FieldAddr); fa.X != base {
						continue
					}
					m++
					if !c03IsCachedAuthed(fn, s.Val, attr, policy, depth+1) {
						okAll = false
					}
				}
				if okAll && m > 0 {
					n++
					continue
				}
			}
		}
		return false
	}
	return n > 0
}

func c03r7(c *Ctx) {
	const rule = "C03-R7"
	defer c03Timed(c, rule)()
	c.Doc(rule, "T-MPT + writer/reader agreement: both session writers record negotiation.Authentication under one attribute; in resumeSession and handleSessionResumption every path to a success return passes an edge on which the local Authentication level differs from REQUIRED or an edge on which the cached session's recorded flag (EvaluateAttrBool of that attribute on entry.Policy()) is true; and the Authentication flag each of them reports is that recorded value")
	A := c.handshakeAnchors(rule)
	if !A.ok {
		return
	}
	policy := c.needFn(rule, "security", "(*SessionEntry).Policy")
	if policy == nil {
		return
	}
	attrS, posS := c03AuthedAttr(A, A.storeS)
	attrC, _ := c03AuthedAttr(A, A.storeC)
	c.Check(attrS != "", rule, fnName(A.storeS)+"#records:Authentication", "the server records whether the session was authenticated (attribute "+attrS+")", "storeSession does not record negotiation.Authentication in the session policy", posS)
	c.Check(attrC != "" && attrC == attrS, rule, fnName(A.storeC)+"#records:Authentication", "the client records whether the session was authenticated under the same attribute", "storeClientSession does not record negotiation.Authentication in the cached policy (attribute "+fmt.Sprintf("%q", attrS)+" on the server side): a resumed client session cannot know whether it was authenticated", A.storeC.Pos())
	attr := attrS
	if attr == "" {
		attr = attrC
	}
	if attr == "" {
		return
	}
	n := 0
	for _, fn := range []*ssa.Function{A.resumeC, A.resumeS} {
		// reported flag = recorded value
		stores := c03StoresTo(fn, A.negAuthentication)
		okStores := len(stores) > 0
		for _, s := range stores {
			if !c03IsCachedAuthed(fn, s.Val, attr, policy, 0) {
				okStores = false
			}
		}
		c.Check(okStores, rule, fnName(fn)+"#Authentication=recorded", "the reported Authentication is the value recorded with the cached session", "the resumed negotiation's Authentication is not restored from the cached session's "+attr+" record (it stays false / is taken from elsewhere)", fn.Pos())
		mp := &c03MustPass{c: c, pkgOf: A.setup, edges: func(f *ssa.Function) []Edge {
			notReq, _ := A.levelEdges(f, A.cfgAuthentication, A.roleOf(f))
			out := notReq
			for _, b := range f.Blocks {
				ifi := blockIf(b)
				if ifi == nil {
					continue
				}
				a := condAtom(ifi.Cond)
				if a.Op != token.ILLEGAL || !c03IsCachedAuthed(f, a.X, attr, policy, 0) {
					continue
				}
				if a.Neg {
					out = append(out, Edge{b, 1})
				} else {
					out = append(out, Edge{b, 0})
				}
			}
			return out
		}}
		n += mp.check(rule, fn, "", "a test that the local Authentication level is not REQUIRED or that the cached session was an authenticated one")
	}
	c.MinCount(rule, "success returns of the resumption functions", n, 2)
}
